#!/bin/bash
# all_seeds.sh [tier]: run every kept seeded change against the quick check of its property (git apply in /repo,
# check, git checkout) and print one line per change: caught (exit 1 with a VIOLATION line) or MISSED.
set -u
tier=${1:-quick}
for d in /verif/seeded/*/; do
  name=$(basename "$d")
  prop=$(/venv/bin/python -c "import json,sys; print(json.load(open('$d/meta.json'))['property'])" 2>/dev/null | tail -1)
  out=$(LINES_OUT=400 /verif/tools/try_seed.sh "$prop" "$d/patch.diff" "$tier" 2>&1)
  rc=$(echo "$out" | grep -a -o "exit=[0-9]*" | tail -1)
  nv=$(echo "$out" | grep -a -c "^VIOLATION")
  conc=$(echo "$out" | grep -a "^VIOLATION" | grep -a -vc "no-failing-input-found")
  if [ "$rc" = "exit=1" ] && [ "$nv" -gt 0 ]; then echo "$name $prop caught violations=$nv concrete=$conc"; else echo "$name $prop MISSED ($rc)"; fi
done
