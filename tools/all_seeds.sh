#!/bin/bash
# all_seeds.sh [tier]: run every kept seeded change against the quick check of its property (git apply in /repo,
# check, git checkout) and print one line per change: caught (exit 1 with a VIOLATION line) or MISSED.
set -u
tier=${1:-quick}
# all_seeds.sh <tier> <i> <n>: only every n-th seed starting with the i-th (shards run side by side, each with its own
# O2P_REPO worktree and VERIF_DIR copy: see tools/all_seeds_parallel.sh)
shard=${2:-0}; nshards=${3:-1}; k=-1
for d in /verif/seeded/*/; do
  name=$(basename "$d")
  # SEED_FILTER: a regular expression on the seed's name (e.g. '^C0[36]') to re-run part of the regression
  if [ -n "${SEED_FILTER:-}" ] && ! echo "$name" | grep -Eq "$SEED_FILTER"; then continue; fi
  k=$((k+1)); [ $((k % nshards)) -ne "$shard" ] && continue
  prop=$(/venv/bin/python -c "import json,sys; m=json.load(open('$d/meta.json')); print(m.get('caught_by') or m['property'])" 2>/dev/null | tail -1)
  out=$(LINES_OUT=400 /verif/tools/try_seed.sh "$prop" "$d/patch.diff" "$tier" 2>&1)
  rc=$(echo "$out" | grep -a -o "exit=[0-9]*" | tail -1)
  nv=$(echo "$out" | grep -a -c "^VIOLATION")
  conc=$(echo "$out" | grep -a "^VIOLATION" | grep -a -vc "no-failing-input-found")
  gen=$(echo "$out" | grep -a "^VIOLATION" | grep -a -vc "a past failure fails again")
  if [ "$rc" = "exit=1" ] && [ "$nv" -gt 0 ]; then echo "$name $prop caught violations=$nv concrete=$conc by_generators=$gen"; else echo "$name $prop MISSED ($rc)"; fi
done
