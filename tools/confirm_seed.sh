#!/bin/bash
# confirm_seed.sh <dir-name> [worktree]: confirm a seeded change in its scratch worktree:
# demo fails with the change, passes without it, and the pinned test suite is unchanged with it.
set -u
id=$1; wt=${2:-/tmp/seed/$id}
cd "$wt" || exit 2
T="tests/tel2puml/otel_to_pv tests/tel2puml/test_utils.py tests/tel2puml/test_tel2puml_types.py"
echo "== demo with change"; PYTHONPATH=${SEED_PYTHONPATH:-/tmp/seed/shim} /venv/bin/python _seed/demo.py 2>&1 | grep -v conda.cli | tail -5; echo "rc=${PIPESTATUS[0]}"
echo "== tests with change"; /venv/bin/python -m pytest -q -p no:cacheprovider --timeout=900 --continue-on-collection-errors $T 2>&1 | tail -1
git diff -- tel2puml > /tmp/.confirm_$id.diff; git apply -R /tmp/.confirm_$id.diff
echo "== demo without change"; PYTHONPATH=${SEED_PYTHONPATH:-/tmp/seed/shim} /venv/bin/python _seed/demo.py 2>&1 | grep -v conda.cli | tail -3; echo "rc=${PIPESTATUS[0]}"
git apply /tmp/.confirm_$id.diff; rm -f /tmp/.confirm_$id.diff
git diff --stat -- tel2puml | cat
