#!/bin/bash
# try_seed.sh <Cxx> <patch.diff> [tier]: apply a seeded change to the repository, run the check, undo the change.
# The repository is /repo unless O2P_REPO names a scratch worktree of it; the checks run from VERIF_DIR (default /verif)
# — with both set, several seeds can be tried side by side without touching /repo.
set -u
prop=$1; patch=$2; tier=${3:-quick}
repo=${O2P_REPO:-/repo}; verif=${VERIF_DIR:-/verif}
cd "$repo" || exit 2
if [ -n "$(git status --porcelain)" ]; then echo "$repo not clean"; exit 2; fi
git apply "$patch" || { echo "patch does not apply"; exit 2; }
cd "$verif" && /venv/bin/python harness/check.py "$prop" --tier "$tier" 2>&1 | grep -v "conda.cli" | tail -${LINES_OUT:-8}
rc=${PIPESTATUS[0]}
git -C "$repo" checkout -- . && git -C "$repo" clean -fdq
echo "exit=$rc"
