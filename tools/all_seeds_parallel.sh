#!/bin/bash
# all_seeds_parallel.sh [n] [tier]: the regression over every kept seeded change in n shards side by side.  Each shard gets a
# scratch git worktree of /repo (so /repo itself is never patched) and a copy of /verif to run the checks from; both
# are removed at the end.  Output: /verif-independent log lines "name Cxx caught … / MISSED" on stdout.
set -u
n=${1:-3}; tier=${2:-quick}
base=/root/seedshards
rm -rf $base; mkdir -p $base
for i in $(seq 0 $((n-1))); do
  git -C /repo worktree add --detach $base/repo$i HEAD -q
  rsync -a --exclude .git --exclude replay /verif/ $base/verif$i/
  ( O2P_REPO=$base/repo$i VERIF_DIR=$base/verif$i /verif/tools/all_seeds.sh $tier $i $n > $base/log$i 2>&1 ) &
done
wait
cat $base/log*
for i in $(seq 0 $((n-1))); do git -C /repo worktree remove --force $base/repo$i; done
git -C /repo worktree prune
rm -rf $base
