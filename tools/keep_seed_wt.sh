#!/bin/bash
# keep_seed_wt.sh <name> <Cxx> [worktree]: like keep_seed.sh, but the check runs against a clean scratch worktree
# (/tmp/seed/clean, O2P_REPO) instead of /repo, so that runs going on against /repo are not disturbed.
set -u
name=$1; prop=$2; wt=${3:-/tmp/seed/$name}
clean=${CLEAN_WT:-/tmp/seed/clean}
[ -d "$clean" ] || git -C /repo worktree add -q --detach "$clean" HEAD   # the clean scratch worktree the check runs against
out=/verif/seeded/$name
mkdir -p "$out"
SEED_PYTHONPATH="$wt:/tmp/seed/shim" /verif/tools/confirm_seed.sh "$name" "$wt" > "$out/confirm.log" 2>&1
grep -v "it/s\|event trees\|conda" "$out/confirm.log" | tail -12
for f in demo.py meta.json; do cp "$wt/_seed/$f" "$out"/; done
git -C "$wt" diff -- tel2puml > "$out/patch.diff"
O2P_REPO=${CLEAN_WT:-/tmp/seed/clean} LINES_OUT=${LINES_OUT:-4} /verif/tools/try_seed.sh "$prop" "$out/patch.diff" ${TIER:-quick} > "$out/check.log" 2>&1
tail -5 "$out/check.log" | cut -c1-400
/venv/bin/python - "$out" "$prop" <<'PY' 2>&1 | grep -v conda.cli
import json, sys, re
out, prop = sys.argv[1:3]
meta = json.load(open(out + "/meta.json"))
conf = open(out + "/confirm.log").read()
chk = open(out + "/check.log").read()
rcs = re.findall(r"rc=(\d+)", conf)
tests = re.findall(r"(\d+ failed, \d+ passed)", conf)
meta["property"] = prop
meta["confirmed"] = {
    "demo_rc_with_change": int(rcs[0]) if rcs else None,
    "demo_rc_without_change": int(rcs[1]) if len(rcs) > 1 else None,
    "pinned_tests_with_change": tests[0] if tests else None,
    "ran": ["tools/confirm_seed.sh (demo with/without the change, pinned tests with it, in a scratch worktree)",
            f"tools/try_seed.sh {prop} patch.diff quick (git apply in a clean scratch worktree used as O2P_REPO, check, git checkout)"],
}
meta["check_result"] = {"exit": int(re.findall(r"exit=(\d+)", chk)[-1]) if re.findall(r"exit=(\d+)", chk) else None,
                        "first_line": next((l for l in chk.splitlines() if l.startswith("VIOLATION")), "")[:300]}
json.dump(meta, open(out + "/meta.json", "w"), indent=1)
print("kept", out, meta["confirmed"], meta["check_result"]["exit"])
PY
