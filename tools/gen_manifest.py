#!/usr/bin/env python3
"""Writes /verif/MANIFEST.json from the table below (kept in one place so that it stays valid)."""
import json
from pathlib import Path

ROOT = Path(__file__).resolve().parents[1]
PY = "/venv/bin/python harness/check.py"

CHECKS = {
    "C01": dict(
        category="translation_validation",
        text="PARTIAL. The learner (gate inference + loop detection + heuristic walk, 3000 lines around pm4py) is not "
             "modelled; the property is the stated Prop C01_full. What Lean proves is about the judge: the block "
             "semantics of definitions only produces well-formed jobs (consecutive ids, every predecessor earlier: "
             "runs_wellformed) over the definition's names (runs_types); acceptance is exactly 'an enumerated execution is "
             "matched by the isomorphism search' (accepts_iff); parsed texts have break/detach last in their branch. "
             "The check decides C01_full on inputs: the exhaustive small family, seeded random fragment-F definitions and "
             "the 63 corpus files, each with its complete job set (Lean runs, loops once and twice) in a shuffled "
             "presentation, through the real pv_to_puml_string in worker processes (pinned hash seed and uuid4); the "
             "emitted text is parsed by Lean and must accept every input job; timeouts and exceptions are violations.",
        ref="DESIGN.md §5 C01",
        note="Trusted: Lean kernel for the judge's theorems; the diagram semantics (calibrated on the corpus); the janus "
             "stand-in. Enumeration coverage, not a universal proof. Recorded findings: learner classes KF-A, KF-B, KF-C "
             "and three corpus files.",
        technique="Lean 4 executable semantics with proved well-formedness as the judge + enumeration of definitions through "
                  "the real learner (translation validation); universal statement kept as a Prop",
    ),
    "C02": dict(
        category="translation_validation",
        text="PARTIAL. Same pipeline as C01 with complete job sets; every job of the emitted diagram with loops <= 2 (all up "
             "to 300, evenly spread above) is decided for membership in the source definition by the Lean semantics. "
             "Lean proves the judge: subset_sound (no rejected job among all jobs of the learned diagram => each is "
             "isomorphic to a job of the source), accepts_iff, runs_wellformed, runs_types. C02_full is a stated Prop.",
        ref="DESIGN.md §5 C02",
        note="Trusted as C01. Loops are bounded at 2 as the property's quantifier says. Recorded findings: KF-A, KF-C and "
             "two corpus files.",
        technique="Lean 4 executable semantics + isomorphism search as the judge + enumeration through the real learner",
    ),
    "C03": dict(
        category="proof",
        text="Lean theorem ingest_sem: after ingesting any list of jobs the model holds exactly the successor and "
             "predecessor multisets the jobs show, per event type. Corollaries for every job list: permuting the jobs "
             "(ingest_perm), supplying jobs again (ingest_same_members, ingest_idem), permuting the events inside a job "
             "with distinct ids (ingest_events_perm), renaming event ids injectively and job ids (ingest_rename; "
             "timestamps do not occur in the model) all give an equivalent model. Tie: the real ingestion gives one and "
             "the same model on five presentations of every generated job set, equal to the Lean model's. PARTIAL for what "
             "follows ingestion (gate inference, loop detection, walk over Python sets): C03_walk_full is a stated Prop, "
             "decided by running the real learner on presentations x interpreter hash seeds in separate processes and "
             "comparing the languages of the diagrams with the Lean semantics.",
        ref="DESIGN.md §5 C03",
        note="Trusted: Lean kernel; axioms propext, Quot.sound, Classical.choice; the janus stand-in's from_event_list. "
             "The walk half is enumeration (hash seeds 0-2 quick, 0-7 thorough), not proof.",
        technique="Lean 4 proof (semantic characterisation of ingestion + corollaries) + differential correspondence + "
                  "multi-process hash-seed runs judged by the Lean diagram semantics",
    ),
    "C04": dict(
        category="proof",
        text="Lean theorems for every job list and every chunking: ingest_append; json_roundtrip (what is loaded from a "
             "saved model is equivalent: every type, multiset, count); chunks_through_files (any split into chunks with a "
             "save and load at every boundary ends in a model equivalent to the one-shot model); cache_coherent (after any "
             "sequence of updates, reads, removals from a fresh or loaded event, a read returns the tree of the current "
             "successor family — with the loader as repaired by bfaab07; cache_incoherent_old is the old loader's "
             "counterexample). Tie: the real learner chunk by chunk through save_events_to_file/load_events_from_file: "
             "final model == one-shot model == Lean model, saved file == Lean file. PARTIAL for the diagram: its "
             "equivalence is decided per split by the Lean semantics (rests on C03's unproved clause).",
        ref="DESIGN.md §5 C04",
        note="Trusted: Lean kernel; axioms propext, Quot.sound, Classical.choice; pydantic/json exercised not modelled.",
        technique="Lean 4 proof (model algebra, JSON round trip, cache invariant over operation sequences) + differential "
                  "correspondence through real files + diagram comparison by the Lean semantics",
    ),
    "C05": dict(
        category="translation_validation",
        text="PARTIAL. The Lean parser is the grammar of the dialect plus2json consumes (one partition/group, every "
             "fork/split/switch/repeat closed by its own terminator in nested order, separators only inside their block, "
             "break/detach last in a branch: parse_ok_core, parse_ok_tail; complete at token level: grammar_complete recovers "
             "every normal-form block diagram from its token stream). Every text the real learner emits for the "
             "C01 inputs, plus definitions with several start events and loops ending in forks, must parse, and the "
             "event names of the parsed diagram must be exactly the input's event types with no placeholder "
             "(|||START|||, |||END|||, DUMMY_BREAK, LOOP_n). The writer is modelled (O2P.Writer: topological head, "
             "dfs_successors, reversed ordering with PATH nodes, indentation table translated from the source), compared "
             "character by character with write_puml_string on every graph the learner builds, and writer_vocabulary is "
             "proved of it for every graph: every emitted line is an operator string of the table, detach, break, repeat, "
             "repeat while, or :name; of an event node. The writer is also run on its own: "
             "write_puml_string on PUML graphs built from the block structures of the generated definitions must print "
             "texts from which the Lean parser recovers those block structures. The walk that builds the graph is not "
             "modelled; C05_full is a stated Prop.",
        ref="DESIGN.md §5 C05",
        note="Trusted: the Lean parser as the definition of the dialect (written from OPERATOR_NODE_PUML_MAP and the "
             "corpus), Lean kernel for its theorems. Recorded findings: KF-B, KF-C, one corpus file.",
        technique="Lean 4 parser as executable grammar (with proved tail rule) + enumeration through the real learner",
    ),
    "C06": dict(
        category="model_checking",
        text="The property's quantifier is finite. Lean enumerates it (O2P.Gate.domain: unordered alternating gate trees "
             "over n distinct events, depth <= 3) with kernel-checked facts: 3, 21, 243, 2 493 trees for n = 2..5 "
             "(domain_counts), every one well-formed (domain_wellformed), 112 / 943 of them in the exactness sub-class "
             "(subclass_counts); soundB/exactB decide the two clauses (soundB_iff, exactB_iff). The real "
             "calculate_logic_gates is run on the complete outcome family of EVERY tree (quick: all n <= 4 and a seeded "
             "third of n = 5; thorough: all n <= 5 and a seeded twelfth of n = 6) under 2-4 interpreter hash seeds in "
             "separate processes, and Lean judges every returned tree: soundness everywhere, exactness on the sub-class. "
             "One step of the code is proved: get_weighted_cover is modelled under every choice `max` may make and "
             "cover_spec / cover_sound show that a returned cover is disjoint, made of observed sets, covers the universe, "
             "explains every observed set, and that the OR-of-ANDs gate built from it admits them (tie: the real function's "
             "answer is a model outcome and satisfies the clauses; process_missing_and_gates builds the model's gate). "
             "The OR inference (check_is_or_operator / infer_or_gate_from_node) is modelled and its decision logic proved "
             "sound over abstract children (or_inference_sound, or_test_spec) and, with a semantics of the miner's trees, for the "
             "executable model on arbitrary subtrees (or_inference_tree_sound) and over the whole recursion "
             "(or_inference_all_sound), and the whole post-processing is proved sound relative to the miner: post_process_sound — "
             "for every miner tree with distinct names that passes the decidable test wfT, every outcome of OR inference + "
             "defunct-OR filter + AND recovery (every cover choice) produces every observed set the miner's tree produces "
             "(the check evaluates the hypotheses on every real raw tree); the "
             "first sentence of the property is also run on observed families that are not the full family of a tree "
             "(seeded random families and parts of the domain's families: three genuine defects found there were "
             "repaired); the domain also runs under unusual event "
             "names (prefixes / concatenations of one another, blanks, punctuation); filter_defunct_or_gates and "
             "process_missing_and_gates are modelled too, and on the REAL raw miner trees of the whole domain the real "
             "post-processing returns an outcome of the Lean model, every outcome of which (every choice of max) Lean "
             "judges sound / exact. NOT a proof about pm4py's inductive miner, whose raw output is taken as data "
             "(DESIGN.md §5 C06 explains why); the finite quantifier is discharged by exhaustive execution of the real "
             "code with a proved enumerator and proved deciders.",
        ref="DESIGN.md §5 C06",
        note="Trusted: Lean kernel for the enumerator/decider theorems (no axioms beyond propext, Quot.sound); pm4py, "
             "pandas and the janus-free import path exercised as they are.",
        technique="Lean 4 kernel-checked enumeration of the finite domain + proved deciders; exhaustive execution of the real "
                  "function over the domain under several hash seeds (explicit-state checking of the miner); Lean 4 proof "
                  "that the repository's own post-processing (model tied to the code on the real raw trees) is sound "
                  "relative to the miner (post_process_sound, post_process_admits)",
    ),
    "C07": dict(
        category="proof",
        text="Lean theorems make certificate checkers decide the property's clauses on the INPUT directly-follows "
             "graph: an order in which every edge goes forward excludes every cycle (isTopo_acyclic); if contracting "
             "the loop bodies gives an ordered graph then every cycle of the input lies inside one loop body and none "
             "passes through an event outside all bodies (cycle_in_one_part, no_cycle_outside_loops); exactly-once is a "
             "permutation (exactlyOnce_iff); single entry (singleEntry_spec). The certificates (orders, assignment of "
             "events to bodies) are read off the nesting the real detect_loops returns for the job sets of loop-bearing "
             "fragment-F definitions and corpus files; every returned graph (top level, every body, recursively with "
             "the edges into a body's start events removed) is checked.",
        ref="DESIGN.md §5 C07",
        note="Trusted: Lean kernel; axioms propext, Quot.sound, Classical.choice; networkx only proposes orders, Lean "
             "checks them. detect_loops itself is not modelled: its output is validated per input (certificate checking "
             "with proved checkers), not proved for all graphs. Two corpus files with repeated event names recorded.",
        technique="Lean 4 proof of certificate checkers (order => acyclic, ordered contraction => cycles inside parts) + "
                  "per-input certificate validation of the real detect_loops",
    ),
    "C08": dict(
        category="proof",
        text="Lean theorems over all finite span trees and all configurations of the sequencer model: arranging siblings "
             "(prior-information groups, ordering, overlap sweep) is a permutation; the sweep with its running maximum equals "
             "the accumulator-free chain specification, never overlaps across a cut and merges exactly on overlap; the links' "
             "emission order is a linear extension of the previous-event relation (acyclic, descendants first); renaming is "
             "decided on ingested child types; every span is emitted exactly once. The model is compared with "
             "sequence_otel_job_id_streams on all trees <= 4 spans on a grid and on random trees, and an independent "
             "rendering of the documented rules is the oracle.",
        ref="DESIGN.md §5 C08",
        note="Trusted: Lean kernel; axioms propext, Quot.sound, Classical.choice; correspondence run; pydantic and the "
             "flat-map-to-tree glue exercised not modelled. One recorded finding (multi-start when the first group is parallel).",
        technique="Lean 4 proof (structural/mutual induction, List.Perm) + differential correspondence + rule oracle",
    ),
    "C09": dict(
        category="proof",
        text="Lean theorems: Shape.cmp is a lawful total order, so sorting child shapes is canonical (permuted lists sort to "
             "the same list); the canonical shape of two call trees is equal iff the trees are isomorphic up to sibling "
             "order (canon_iso; ids, times, names do not occur in a tree); the model digest of a stored trace is that "
             "canonical shape and does not depend on the storage/fetch order of the spans (shapeOf_perm: ingestion order, "
             "batch boundaries); the classes returned partition the hashed traces exactly by (workflow name, shape): "
             "cover, exact membership, no two classes with one key; the rows computed are one per in-window root. The "
             "model is compared with find_unique_graphs on classes (one representative per class, none outside) over a "
             "store holding every labelled ordered tree <= 4 nodes (thorough 5) and seeded multisets with renumbered "
             "twins x batch sizes x orders x windows, directly and through the cleaning pipeline of otel_to_pv.",
        ref="DESIGN.md §5 C09",
        note="Trusted: Lean kernel; axioms propext, Quot.sound, Classical.choice. Assumed, not proved: xxh64 of type + "
             "sorted child digests is collision-free and uniquely decodable on the strings that occur (the model's "
             "digest is the canonical shape). SQLite's choice of the member under GROUP BY is left free.",
        technique="Lean 4 proof (lawful order on rose trees, canonical sort, mutual induction) + differential correspondence "
                  "on classes + independent canonical-form oracle",
    ),
    "C10": dict(
        category="proof",
        text="Lean theorem ingest_spec: for every store with the invariant (unique ids, unique links, no orphan links), "
             "every span stream and every batch size, ingestion through batching, the integrity-error fall-back and the final "
             "flush ends ok with exactly the first occurrence of every new id in stream order and its parent link; hence the "
             "result is independent of the batch size and of where duplicates fall, and re-ingesting is a no-op. The store "
             "model is compared with IngestData/SQLDataHolder on full table dumps (all duplicate placements over 3 ids, "
             "random streams over 1-3 runs on a file database).",
        ref="DESIGN.md §5 C10",
        note="Trusted: Lean kernel; axioms propext, Quot.sound, Classical.choice; SQLite/SQLAlchemy constraint and "
             "transaction behaviour modelled from the translated constraint flags, observed through the correspondence.",
        technique="Lean 4 proof (invariant + induction over the stream) + translator + differential correspondence",
    ),
    "C11": dict(
        category="proof",
        text="Lean theorems about the three cleaning steps of the store model, for every store with the invariant whose "
             "links are the parent fields of its spans (what ingest_spec establishes) and every window: "
             "remove_inconsistent_jobs keeps exactly the spans of traces none of whose spans names a missing parent; "
             "remove_jobs_outside_of_time_window keeps exactly the traces with a span start or end inside the closed "
             "window; both decide per whole trace and leave kept spans unchanged and in place; renaming changes nothing "
             "but the workflow name and gives every span of a single-rooted trace the root's name; the invariant and "
             "faithfulness survive (so ingestion/streaming theorems apply afterwards); non-interference: if the traces "
             "selected by any predicate are all removed and no kept span hangs below one of them, cleaning yields exactly "
             "the spans obtained from the store that never held them. The model is compared with SQLDataHolder on full "
             "table dumps after every step; an oracle written from the property text and a second real run without the "
             "removed traces (same window) check the PV sequences.",
        ref="DESIGN.md §5 C11",
        note="Trusted: Lean kernel; axioms propext, Quot.sound, Classical.choice; SQL DELETE/UPDATE semantics modelled, "
             "observed through the correspondence. The window is the one the run computed. Traces with several roots of "
             "different names are left free (SQLite's choice).",
        technique="Lean 4 proof (filter algebra over the store model, invariant preservation) + differential correspondence + "
                  "re-run oracle",
    ),
    "C12": dict(
        category="proof",
        text="Lean theorems about Store.stream for every store and every optional (name -> ids) filter: the streamed spans "
             "are a permutation of the stored spans passing the filter; every workflow name occurs once; under a name every "
             "trace id occurs once; the group streamed for (name, id) is exactly the selected spans of that name and id; an "
             "empty filter map streams everything. Proved from a verified stable sort and consecutive grouping. The model is "
             "compared with SQLDataHolder.stream_data over random multi-name stores, batch sizes {1,2,3,1000} and six kinds "
             "of filters, with an independent grouping oracle.",
        ref="DESIGN.md §5 C12",
        note="Trusted: Lean kernel; axioms propext, Quot.sound, Classical.choice; SQL ORDER BY/collation, yield_per and "
             "lazy nested generators are runtime behaviour observed through the correspondence only.",
        technique="Lean 4 proof (sortedness + groupBy lemmas) + differential correspondence",
    ),
    "C13": dict(
        category="proof",
        text="Lean model O2P.Jq of what the compiled field mapping does (prefix trie of array levels -> nested loops in "
             "depth-first order; plain leaves and key/value look-ups; // priority; null-strict _ join; array flattening; "
             "OTelEvent validation; the data source as flatMap over documents), including the front half of the compiler "
             "(path splitting, variable allocation). Theorems: one record per combination of loop values (extract_length); "
             "for a chain of nested arrays the loops enumerate exactly the documented flattening, one environment per "
             "innermost element with its ancestors (bindings_chain, envs_length); an outer-level value is repeated "
             "unchanged in every inner record (evalLeaf_outer, evalField_outer); an absent key reads null and a null part "
             "makes the joined value null; skipping is a filterMap so an invalid record or document never affects "
             "another, and per-line mode is a flatMap over lines (source_append, skip_independent, source_invalid_doc). "
             "compile_correct_all: under a denotational semantics of the emitted jq fragment (O2P.Jq.eval: generators, "
             "error propagation, try/catch, //, select, dynamic object keys, add, flatten, join, any/all, `as` bindings) "
             "the query the compiler emits evaluates, for every mapping and every document, to exactly the model's "
             "records; compile_wf: allocation is parent-first and the depth-first binding order reaches every variable. "
             "Tie: the emitted query text equals the Lean emitter's character by character; the Lean jq semantics equals "
             "the real jq engine on every generated (query, document); the model's records equal the real program's and "
             "its events equal JSONDataSource's from real files in both modes; a third independent flattening is the "
             "oracle.",
        ref="DESIGN.md §5 C13",
        note="Trusted: Lean kernel; axioms propext, Quot.sound, Classical.choice. The jq engine is modelled for the emitted "
             "fragment only and tied differentially; the link between the emitter's text and its expression tree is by "
             "construction (no jq parser in Lean). pydantic coercion modelled for the generated value kinds; floats "
             "excluded.",
        technique="Lean 4 proof (flattening/loop algebra; compiler correctness against a jq semantics) + exact comparison of "
                  "the emitted query text + differential correspondence against the real jq engine and JSONDataSource + "
                  "independent flattening oracle",
    ),
    "C14": dict(
        category="proof",
        text="Lean theorems: save_load (for every mapping with pairwise distinct target names and every PV event, loading "
             "what was saved gives the event back), load_string_prev, save_load_dup_cex (why distinctness is needed), "
             "routes_same_model (whatever order the saved files are listed in, the file route presents a permutation of "
             "the in-memory route's jobs and learns an equivalent model, by C03a). Tie: the real command line (argparse + "
             "main_handler) on seeded multi-workflow trace sets x {default, custom} mapping x {sync, async}: the saved "
             "files equal the in-memory stream of otel_to_pv field by field and equal the Lean model's saved objects; "
             "PARTIAL for diagrams: both routes' diagrams are compared by the Lean semantics (rests on C03's clause).",
        ref="DESIGN.md §5 C14",
        note="Trusted: Lean kernel; axioms propext, Quot.sound, Classical.choice; yaml/json/pydantic/file system exercised "
             "not modelled; workflow names that map to one file name are excluded (stated assumption).",
        technique="Lean 4 proof (dictionary algebra for save/load, permutation of jobs) + real-CLI differential correspondence + "
                  "diagram comparison by the Lean semantics",
    ),
    "C15": dict(
        category="proof",
        text="Lean theorems about runOnce (one run of otel_to_pv in a new process on the store an earlier run left) for "
             "every input, batch size and history of runs with flags {ingest,no-ingest} x {unique}: the store invariant and "
             "faithful links hold after every history (history_inv), so ingestion and cleaning never raise an "
             "IntegrityError in any later run and the only possible failures are those a fresh database has too; a run "
             "equals its batch-free closed form (runOnce_eq_spec); the window of a re-ingesting run is the first run's "
             "(ingest_window); hash rows left by earlier runs never influence a run (runSpec_hashes_irrelevant); "
             "re-ingesting adds back exactly the removed spans; and the answer clause in full (history_same_answer): when "
             "the first ingesting run computes a window, every history of later runs — any batch sizes, ingesting again or "
             "not, unique graphs or not — gives, run by run, the status, the spans and links (hence the PV sequences) and "
             "in unique-graph mode the hash rows (hence the shape classes) of a fresh run with the same unique flag. "
             "Proof: the removals decide per trace from the set of (id, trace, parent, start, end) cores, re-ingestion "
             "restores that set, renaming is idempotent. Hypotheses: parents local to their trace; for no-ingest runs "
             "every span inside the widest window. Tie: histories of real separate-process runs over one sqlite file "
             "(every pair of flag triples on several data sets, seeded length 3-4; thorough every triple) against "
             "fresh-database runs, and the model compared with the database tables after every run.",
        ref="DESIGN.md §5 C15",
        note="Trusted: Lean kernel; axioms propext, Quot.sound, Classical.choice; SQLite/SQLAlchemy/file system modelled, "
             "observed through table dumps after every separate-process run. Which member of a shape class SQLite returns "
             "is left free.",
        technique="Lean 4 proof (invariant over run histories, closed form) + separate-process differential correspondence + "
                  "fresh-run oracle",
    ),
    "C16": dict(
        category="proof",
        text="Lean theorems for every instant 1970..2100 at µs precision: calendar round trip (kernel-checked table of all "
             "47 847 days), parse∘format = id, the OTel direction returns exactly 1000·k for the arithmetic translated from "
             "the source, texts are injective; the binary64 path of the PV direction (float(n), /1e9, modf, *1e6, round-half-even, "
             "carry) is modelled bit-exactly on integers and its error analysis is proved over ℚ for every n < 4.2e18 "
             "(fl_err, fromNanos_near: < 0.995 µs), hence fromNanos_exact, fromNanos_order, pv_otel_pv, otel_pv_otel: both "
             "round trips for every microsecond instant. Tie: the integer model of the binary64 steps equals CPython on "
             "boundary (binade edges, ns around whole seconds) and random instants.",
        ref="DESIGN.md §5 C16",
        note="Trusted: Lean kernel; axioms propext, Quot.sound, Classical.choice; translator (format string, divisor, "
             "integer expression) and correspondence run; CPython float/datetime modelled not verified.",
        technique="Lean 4 proof (decide +kernel table, omega) + translator + differential correspondence",
    ),
}

PENDING = {
    # property id -> why it is not claimed (kept current; removed as soon as its check is registered)
}
ALL = ["C%02d" % i for i in range(1, 17)]
NOT_APPLICABLE = [
    {"property_id": p, "reason": PENDING.get(p, "not claimed yet: the technique applies (DESIGN.md §5 gives the model and "
                                             "theorems planned) but its check is not built at this commit, so nothing is claimed")}
    for p in ALL if p not in CHECKS
]


def main() -> None:
    fixes = [
        "dded3f5", "6a52c10", "e212d1b", "eac3325", "bfaab07", "770d495", "d755109",
    ]
    man = {
        "version": 1,
        "setup_cmd": "cd harness && /venv/bin/python -m o2pv.translate && cd ../lean && lake build",
        "hooks": {
            "guard": "O2P_VERIF",
            "enable": "no source hooks: the harness reaches everything through public functions of /repo "
                      "(PYTHONPATH=/repo:/verif/harness/shim); O2P_VERIF=1 is set by the harness but read by nothing in /repo",
            "baseline_off_cmd": "cd /repo && /venv/bin/python -m pytest -ra -q -p no:cacheprovider --timeout=900 "
                                "--continue-on-collection-errors",
            "source_commits": [],
            "add_only": True,
        },
        "engines": [
            {"name": "lean-o2p", "path": "lean", "serves_properties": sorted(CHECKS),
             "kind_free_text": "Lean 4.33 lake project O2P: executable models, generated facts, property theorems, axiom audit, "
                                "compiled model driver"},
            {"name": "harness", "path": "harness", "serves_properties": sorted(CHECKS),
             "kind_free_text": "Python: translator from /repo to Lean, generators, correspondence runs against the real code, "
                                "failing-input search, evidence"},
        ],
        "checks": [],
        "not_applicable": NOT_APPLICABLE,
        "notes": "Genuine defects repaired by unguarded fix: commits in /repo: " + ", ".join(fixes)
                 + " (see known_findings.jsonl and DESIGN.md §6).",
    }
    for pid in sorted(CHECKS):
        c = CHECKS[pid]
        man["checks"].append({
            "property_id": pid,
            "quick_cmd": f"{PY} {pid} --tier quick",
            "thorough_cmd": f"{PY} {pid} --tier thorough",
            "evidence_file": f"evidence/{pid}.json",
            "replay_cmd_template": f"{PY} {pid} --replay {{path}}",
            "engine": "lean-o2p",
            "level_claimed": {"category": c["category"], "text": c["text"], "design_ref": c["ref"]},
            "level_note": c["note"],
            "technique": c["technique"],
        })
    (ROOT / "MANIFEST.json").write_text(json.dumps(man, indent=1) + "\n")


if __name__ == "__main__":
    main()
