#!/bin/bash
# run_all.sh [tier]: every registered check on /repo as it is, then validate manifest and evidence.
cd /verif
tier=${1:-quick}
for p in $(python3 -c "import json;print(' '.join(c['property_id'] for c in json.load(open('MANIFEST.json'))['checks']))" 2>/dev/null); do
  /venv/bin/python harness/check.py $p --tier $tier 2>&1 | grep -v "conda.cli" | tail -3
  echo "  -> $p exit=${PIPESTATUS[0]}"
done
python3-vt - <<'PY' 2>&1 | grep -v conda.cli
import json, jsonschema
m = json.load(open('/verif/MANIFEST.json'))
jsonschema.validate(m, json.load(open('/root/.vp/MANIFEST.schema.json')))
es = json.load(open('/root/.vp/EVIDENCE.schema.json'))
for c in m['checks']:
    jsonschema.validate(json.load(open('/verif/' + c['evidence_file'])), es)
print('manifest and', len(m['checks']), 'evidence files valid')
PY
