#!/bin/bash
# harvest_corpus.sh: for every kept seeded change, apply it, run its property's quick check, keep the first concrete
# replay input; an input becomes a corpus file (corpus/<Cxx>/<seed>.json) only if its replay FAILS with the change and
# PASSES on the unchanged tree.  Uses /repo: run nothing else against /repo meanwhile.
set -u
R=${O2P_REPO:-/repo}   # a clean scratch worktree can stand in for /repo (the harness reads O2P_REPO too)
mkdir -p /tmp/harvest
LIST="${@:-$(ls /verif/seeded)}"
for name in $LIST; do
  d=/verif/seeded/$name
  prop=$(/venv/bin/python -c "import json; print(json.load(open('$d/meta.json'))['property'])" 2>/dev/null | tail -1)
  cd $R || exit 2
  [ -n "$(git status --porcelain)" ] && { echo "$R not clean"; exit 2; }
  git apply "$d/patch.diff" || { echo "$name patch does not apply"; continue; }
  cd /verif
  out=$(/venv/bin/python harness/check.py "$prop" --tier quick 2>&1 | grep -a "^VIOLATION" | grep -av "no-failing-input-found" | grep -av "a past failure fails again" | head -1)
  f=$(echo "$out" | grep -ao "replay=[^ ]*" | cut -d= -f2)
  if [ -z "$f" ] || [ ! -f "$f" ]; then echo "$name $prop: no concrete replay"; git -C $R checkout -- .; git -C $R clean -fdq; continue; fi
  cp "$f" /tmp/harvest/$name.json
  /venv/bin/python harness/check.py "$prop" --replay /tmp/harvest/$name.json >/dev/null 2>&1; rc_bad=$?
  git -C $R checkout -- .; git -C $R clean -fdq
  /venv/bin/python harness/check.py "$prop" --replay /tmp/harvest/$name.json >/dev/null 2>&1; rc_good=$?
  if [ "$rc_bad" = "1" ] && [ "$rc_good" = "0" ]; then mkdir -p /verif/corpus/$prop; cp /tmp/harvest/$name.json /verif/corpus/$prop/$name.json; echo "$name $prop: kept"; else echo "$name $prop: replay not discriminating (with change rc=$rc_bad, clean rc=$rc_good)"; fi
done
