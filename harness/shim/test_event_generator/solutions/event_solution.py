"""Stand-in for janus' test_event_generator.solutions.event_solution.

Only what tel2puml's non-test source touches: meta_data, post_events,
previous_events, add_post_event, add_prev_event, add_to_post_events,
add_to_previous_events, is_start/is_end. Written from how the source uses the
package (see /verif/DESIGN.md §1, §7): part of the trusted base.
"""
from typing import Any


class EventSolution:
    def __init__(
        self,
        is_branch: bool = False,
        is_break_point: bool = False,
        meta_data: dict[str, Any] | None = None,
        **kwargs: Any,
    ) -> None:
        self.is_branch = is_branch
        self.is_break_point = is_break_point
        self.meta_data: dict[str, Any] = dict(meta_data or {})
        self.post_events: list["EventSolution"] = []
        self.previous_events: list["EventSolution"] = []
        self.event_id_tuple = None
        self.event_id = None

    def add_post_event(self, event: "EventSolution") -> None:
        self.post_events.append(event)

    def add_prev_event(self, event: "EventSolution") -> None:
        self.previous_events.append(event)

    def add_to_post_events(self) -> None:
        for event in self.post_events:
            event.add_prev_event(self)

    def add_to_previous_events(self) -> None:
        for event in self.previous_events:
            event.add_post_event(self)

    def add_to_connected_events(self) -> None:
        self.add_to_post_events()
        self.add_to_previous_events()

    @property
    def is_start(self) -> bool:
        return len(self.previous_events) == 0

    @property
    def is_end(self) -> bool:
        return len(self.post_events) == 0

    def __repr__(self) -> str:
        return f"EventSolution({self.meta_data.get('EventType')})"
