"""Stand-in for janus' test_event_generator.solutions.graph_solution."""
from typing import Any, Iterable

from .event_solution import EventSolution


class GraphSolution:
    def __init__(self) -> None:
        self.start_events: dict[int, EventSolution] = {}
        self.end_events: dict[int, EventSolution] = {}
        self.loop_events: dict[int, Any] = {}
        self.branch_points: dict[int, Any] = {}
        self.break_points: dict[int, Any] = {}
        self.events: dict[int, EventSolution] = {}
        self.event_dict_count = 0
        self.missing_events: list[Any] = []

    def parse_event(self, event: EventSolution) -> None:
        if event.is_start:
            self.start_events[self.event_dict_count] = event
        if event.is_end:
            self.end_events[self.event_dict_count] = event
        self.events[self.event_dict_count] = event

    def add_event(self, event: EventSolution) -> None:
        self.event_dict_count += 1
        self.parse_event(event)

    @classmethod
    def from_event_list(
        cls, event_list: Iterable[dict[str, Any]]
    ) -> "GraphSolution":
        event_list = list(event_list)
        solutions: dict[str, EventSolution] = {}
        for event in event_list:
            solutions[event["eventId"]] = EventSolution(
                meta_data={"EventType": event["eventType"]}
            )
        for event in event_list:
            prev_ids = event.get("previousEventIds", [])
            if isinstance(prev_ids, str):
                prev_ids = [prev_ids]
            for prev_id in prev_ids:
                solutions[event["eventId"]].add_prev_event(solutions[prev_id])
        for solution in solutions.values():
            solution.add_to_previous_events()
        graph = cls()
        for solution in solutions.values():
            graph.add_event(solution)
        return graph
