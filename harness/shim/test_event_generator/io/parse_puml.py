"""Import-only stub."""


class EventData:  # pragma: no cover
    pass


def parse_raw_job_def_lines(*args, **kwargs):  # type: ignore[no-untyped-def]
    raise NotImplementedError("janus is not installed (stand-in)")


def get_unparsed_job_defs(*args, **kwargs):  # type: ignore[no-untyped-def]
    raise NotImplementedError("janus is not installed (stand-in)")
