"""Import-only stub: generating test events from PUML needs real janus."""


def puml_file_to_test_events(*args, **kwargs):  # type: ignore[no-untyped-def]
    raise NotImplementedError("janus is not installed (stand-in)")
