#!/venv/bin/python
"""check.py <Cxx> [--tier quick|thorough] [--replay file]   (cwd: /verif)

exit 0: property held on everything explored; exit 1 + `VIOLATION property=<id> replay=<path>`;
exit 2: harness error / timeout.
"""
import argparse
import importlib
import json
import os
import sys
import traceback

sys.path.insert(0, os.path.dirname(os.path.abspath(__file__)))
from o2pv import common  # noqa: E402


def main() -> int:
    ap = argparse.ArgumentParser()
    ap.add_argument("prop")
    ap.add_argument("--tier", default=os.environ.get("VERIF_TIER", "quick"))
    ap.add_argument("--replay", default=None)
    args = ap.parse_args()
    seed = int(os.environ.get("VERIF_SEED", "0"))
    common.setup_paths()
    mod = importlib.import_module(f"o2pv.props.{args.prop.lower()}")
    if args.replay:
        return mod.replay(json.load(open(args.replay)))
    ctx = common.Ctx(args.prop, args.tier, seed, mod.LEVEL)
    try:
        mod.run(ctx)
    except Exception:
        traceback.print_exc()
        print(f"{args.prop}: harness error", file=sys.stderr)
        return 2
    return ctx.finish()


if __name__ == "__main__":
    sys.exit(main())
