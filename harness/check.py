#!/venv/bin/python
"""check.py <Cxx> [--tier quick|thorough] [--replay file]   (cwd: /verif)

exit 0: property held on everything explored; exit 1 + `VIOLATION property=<id> replay=<path>`;
exit 2: harness error / timeout.
"""
import argparse
import importlib
import json
import os
import sys
import traceback

sys.path.insert(0, os.path.dirname(os.path.abspath(__file__)))
from o2pv import common  # noqa: E402


def run_corpus(ctx: "common.Ctx", mod: object, prop: str) -> None:
    """past failures first: every file under /verif/corpus/<Cxx>/ is an input on which a seeded change once made the
    property fail (and on which the unchanged tree passes); each is replayed before the generators run"""
    import contextlib
    import io
    d = os.path.join(os.path.dirname(os.path.dirname(os.path.abspath(__file__))), "corpus", prop)
    if not os.path.isdir(d):
        return
    # the replays talk to the compiled model driver: build it first (on a fresh checkout nothing is built yet); when
    # it cannot be built the property's own run reports the broken build, and the corpus is skipped, not failed
    ok, _ = common.LeanSide.build(["o2pdriver"])
    if not ok:
        ctx.tick("corpus_skipped_driver_not_built")
        return
    for fn in sorted(os.listdir(d)):
        if not fn.endswith(".json"):
            continue
        data = json.load(open(os.path.join(d, fn)))
        buf = io.StringIO()
        try:
            with contextlib.redirect_stdout(buf):
                rc = mod.replay(data)  # type: ignore[attr-defined]
        except Exception as ex:  # noqa: BLE001
            rc, buf = 1, io.StringIO(f"{type(ex).__name__}: {ex}")
        ctx.tick("corpus_inputs_replayed")
        if rc != 0:
            ctx.violation(f"a past failure fails again: corpus input {fn} ({data.get('what', '')[:160]})",
                          {"input": data.get("input"), "corpus_file": fn, "replay_output": buf.getvalue()[-1500:]},
                          key=("corpusfile", fn))


def main() -> int:
    ap = argparse.ArgumentParser()
    ap.add_argument("prop")
    ap.add_argument("--tier", default=os.environ.get("VERIF_TIER", "quick"))
    ap.add_argument("--replay", default=None)
    args = ap.parse_args()
    seed = int(os.environ.get("VERIF_SEED", "0"))
    common.setup_paths()
    mod = importlib.import_module(f"o2pv.props.{args.prop.lower()}")
    if args.replay:
        return mod.replay(json.load(open(args.replay)))
    ctx = common.Ctx(args.prop, args.tier, seed, mod.LEVEL)
    try:
        run_corpus(ctx, mod, args.prop)
        mod.run(ctx)
    except Exception:
        traceback.print_exc()
        print(f"{args.prop}: harness error", file=sys.stderr)
        return 2
    return ctx.finish()


if __name__ == "__main__":
    sys.exit(main())
