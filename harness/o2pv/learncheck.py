"""Shared pipeline of C01, C02, C05 (and parts of C03/C04/C14): definitions -> jobs (Lean `runs`) -> the real
learner in worker processes -> the Lean diagram model as the judge.  Also the known-finding classes of the
learner: structural predicates on a definition (call-site style keys, DESIGN.md §6).
"""
from __future__ import annotations

import os

import json
from typing import Any

from .common import Ctx, canon_key
from . import pvlib

# ------------------------------------------------------------------------------------------------
# known-finding classes (structural predicates on the source definition)


def seqs(d: Any) -> Any:
    if d[0] == "seq":
        yield d[1]
        for x in d[1]:
            yield from seqs(x)
    elif d[0] == "fork":
        for b in d[2]:
            yield from seqs(b)
    elif d[0] == "loop":
        yield from seqs(d[1])


def has_brk_any(d: Any) -> bool:
    if d[0] == "brk":
        return True
    if d[0] == "seq":
        return any(has_brk_any(x) for x in d[1])
    if d[0] == "fork":
        return any(has_brk_any(x) for x in d[2])
    if d[0] == "loop":
        return has_brk_any(d[1])
    return False


def long_break(body: Any) -> bool:
    return any(s and s[-1][0] == "brk" and len(s) >= 3 for s in seqs(body))


def tails(s: list[Any]) -> list[Any]:
    """the items in tail position of a sequence: its last item and, through forks, the tails of their branches"""
    if not s:
        return []
    it = s[-1]
    out = [it]
    if it[0] == "fork":
        for b in it[2]:
            out += tails(b[1])
    return out


def ends_detached(branch: Any) -> bool:
    items = branch[1]
    return bool(items) and items[-1][0] == "detach"


def loops_with_context(d: Any) -> list[tuple[Any, bool, bool]]:
    """every loop of the definition with what follows it: (loop, terminal, parallel)
    terminal: nothing follows the loop up to the end of the job (tail position of the top-level sequence, through
              forks of any kind and through the tails of enclosing loop bodies);
    parallel: since the last point where something followed, the loop sits in tail position of a branch of an AND
              fork that has another branch which does not end in detach (its exit joins a parallel branch: the
              merge event is never preceded by the loop's events alone).  Both are inherited by a loop in tail
              position of a loop body."""
    out: list[tuple[Any, bool, bool]] = []

    def seq(items: list[Any], terminal: bool, parallel: bool) -> None:
        if items and items[-1][0] == "detach":
            # the branch is cut here: nothing follows its last real item, and it joins nothing
            items, terminal, parallel = items[:-1], True, False
        for k, it in enumerate(items):
            last = k == len(items) - 1
            t, p = (terminal, parallel) if last else (False, False)
            if it[0] == "fork":
                for b in it[2]:
                    joins = it[1] == "AND" and any(o is not b and not ends_detached(o) for o in it[2])
                    seq(b[1], t, p or joins)
            elif it[0] == "loop":
                out.append((it, t, p))
                seq(it[1][1], t, p)

    seq(d[1], True, False)
    return out


def finding_classes(d: Any) -> set[str]:
    """KF-A: a loop after which the job ends (terminal position) with a break branch of >= 2 events
    KF-B: a loop whose body has an AND/OR fork in tail position and whose exit ends the job or joins parallel
          branches (tail position of an AND/OR fork branch)
    KF-C: a loop whose body has, in tail position, a loop that contains a break; refined (calibrated on 1500 random
          members: the three sub-classes below behave uniformly, the rest of KF-C satisfies C01 and C05):
          KF-Ct: the inner loop is the last item of the body itself and nothing follows the outer loop (terminal);
          KF-Cf: the inner loop is reached in tail position through a fork of the body"""
    out: set[str] = set()
    for lp, terminal, parallel in loops_with_context(d):
        if terminal and long_break(lp[1]):
            out.add("KF-A")
        if (terminal or parallel) and any(t[0] == "fork" and t[1] in ("AND", "OR") for t in tails(lp[1][1])):
            out.add("KF-B")
        inner = [t for t in tails(lp[1][1]) if t[0] == "loop" and has_brk_any(t)]
        if inner:
            out.add("KF-C")
            direct = lp[1][1][-1][0] == "loop" and has_brk_any(lp[1][1][-1])
            if direct and terminal:
                out.add("KF-Ct")
            if not direct:
                out.add("KF-Cf")
    return out


# ------------------------------------------------------------------------------------------------


def build_cases(ctx: Ctx, n_random: int, sizes: list[int], with_corpus: bool, multi_start: bool = False,
                k: int = 2, f_adjacent: bool = False, bunched: bool = False,
                loops_on_exits: bool = False, unusual_names: float = 0.15) -> list[dict[str, Any]]:
    """definitions with their complete job sets (loops 1..k), as Lean's `runs` enumerates them"""
    r = ctx.rng
    unusual_names = float(os.environ.get("O2P_UNUSUAL_RATE", unusual_names))    # calibration runs raise it to 1
    defs: list[dict[str, Any]] = []
    for d in pvlib.enumerate_small():
        defs.append({"kind": "small", "blk": d})
    for d in pvlib.enumerate_loop_tails():
        defs.append({"kind": "loop_tail", "blk": d})
    for d in pvlib.enumerate_terminal_forks():
        defs.append({"kind": "terminal_fork", "blk": d})
    for d in pvlib.enumerate_break_forks():
        defs.append({"kind": "break_fork", "blk": d})
    # scale: forks of 5 and 6 branches, alternating forks nested four deep (all clauses of C01, C02, C05 hold for the
    # nine of them on the unchanged tree)
    for d in pvlib.enumerate_wide_deep():
        defs.append({"kind": "wide_deep", "blk": d})
    if bunched:
        # forks opened directly under one another (outside F's grammar: a branch that begins with a fork; the corpus has
        # a handful of them): every clause of C01, C02 and C05 holds on the unchanged tree for these 64
        for d in pvlib.enumerate_bunched():
            defs.append({"kind": "f_adjacent_bunched", "blk": d})
        # 36 more: staged re-joins with a bare loop as one branch (a loop node that the walk creates more than once);
        # every clause of C01, C02 and C05 holds on the unchanged tree for all of them (hash seeds 0-4)
        for d in pvlib.enumerate_staged_loop_rejoins():
            defs.append({"kind": "f_adjacent_staged_loop", "blk": d})
        # 12 forks whose branches end in the same event types (names repeat, as in several corpus files) and 10 staged
        # choices with an early exit under five names: all clauses of C01, C02, C05 hold for them on the unchanged tree
        for d in pvlib.enumerate_shared_tails():
            defs.append({"kind": "f_adjacent_shared_tail", "blk": d})
        for d in pvlib.enumerate_staged_exits():
            defs.append({"kind": "f_adjacent_staged_exit", "blk": d})
    if loops_on_exits:
        # C07 only: a loop downstream of another loop's exit, under two namings (the nesting is acyclic, complete and
        # non-overlapping on the unchanged tree for all 16)
        for d in pvlib.enumerate_loops_on_exits():
            defs.append({"kind": "f_adjacent_loops_on_exits", "blk": d})
        # scale: eight long jobs with a 12-event loop body (inside F)
        for d in pvlib.enumerate_large_loops():
            defs.append({"kind": "large_loop", "blk": d})
    if f_adjacent:
        # outside F (C01/C02 do not quantify over them: with nothing after the outer loop the exit is unobservable and
        # the learner is not sound there); C05's clauses are stated for every emitted file
        for d in pvlib.enumerate_bare_breaks():
            defs.append({"kind": "f_adjacent", "blk": d})
        for d in pvlib.enumerate_staged_rejoins():
            defs.append({"kind": "f_adjacent", "blk": d})
    for _ in range(n_random):
        defs.append({"kind": "random", "blk": pvlib.gen_definition(r, r.choice(sizes))})
    if multi_start:
        for _ in range(max(10, n_random // 10)):
            inner = pvlib.gen_definition(r, r.choice([3, 5]))
            ng_names = pvlib.def_names(inner)
            op = r.choice(["AND", "OR"])
            extra = ["fork", op, [["seq", [["ev", "S1"]]], ["seq", [["ev", "S2"]]]]]
            # several start events: the definition opens with a fork (outside F's grammar, inside C05's quantifier)
            if "S1" not in ng_names:
                defs.append({"kind": "multi_start", "blk": ["seq", [extra] + inner[1]]})
    if with_corpus:
        for p in pvlib.corpus_files():
            defs.append({"kind": "corpus", "file": str(p.relative_to(pvlib.REPO)), "text": p.read_text()})
    reqs = []
    for c in defs:
        q: dict[str, Any] = {"op": "dg.runs", "k": k, "cap": 400, "limit": 3000}
        if "text" in c:
            q["text"] = c["text"]
        else:
            q["blk"] = c["blk"]
        reqs.append(q)
    reps = pvlib.lean(reqs)
    out = []
    for c, rp in zip(defs, reps):
        if "error" in rp:
            ctx.tick("skipped_" + ("too_many_runs" if "too-many" in rp["error"] else "model_error"))
            if c["kind"] == "corpus" and "too-many" not in rp["error"]:
                ctx.broken_ties.append(f"corpus file {c['file']} not parsed by the diagram model: {rp['error'][:120]}")
            continue
        if rp["count"] > 400 or rp["count"] == 0:
            ctx.tick("skipped_too_many_runs")
            continue
        c["jobs"] = rp["jobs"]
        if "blk" in c and unusual_names and r.random() < unusual_names:
            # the same definition under unusual but valid event names (the judge compares names as strings)
            m = pvlib.unusual_renaming(r, pvlib.def_names(c["blk"]))
            c["blk"] = pvlib.rename_def(c["blk"], lambda n: m[n])
            c["jobs"] = [[{**e, "typ": m[e["typ"]]} for e in j] for j in c["jobs"]]
            ctx.tick("def_with_unusual_names")
        if "blk" not in c:
            pr = pvlib.lean([{"op": "dg.parse", "text": c["text"]}])[0]
            c["blk"] = pr["blk"]
        c["classes"] = sorted(finding_classes(c["blk"]))
        ctx.tick("def_" + c["kind"])
        out.append(c)
    return out


def present(ctx: Ctx, jobs: list[list[dict[str, Any]]], tag: str = "") -> list[list[dict[str, Any]]]:
    """one presentation of a job set: jobs shuffled, events shuffled inside each job"""
    pv = pvlib.jobs_to_pv(jobs, tag)
    pv = [list(j) for j in pv]
    ctx.rng.shuffle(pv)
    for j in pv:
        ctx.rng.shuffle(j)
    return pv


def learn_all(ctx: Ctx, cases: list[dict[str, Any]], hash_seed: int = 0, timeout: int = 30,
              want_graph: bool = False) -> None:
    reqs = []
    for i, c in enumerate(cases):
        c["pv"] = present(ctx, c["jobs"])
        reqs.append({"op": "learn", "chunks": [c["pv"]], "hash_seed": hash_seed,
                     "uuid_seed": ctx.seed * 100003 + i, "timeout": timeout})
        if want_graph:
            reqs[-1]["want_graph"] = True
        c["uuid_seed"] = ctx.seed * 100003 + i
        c["hash_seed"] = hash_seed
    reps = pvlib.run_requests(reqs)
    for c, rp in zip(cases, reps):
        c["learn"] = rp


def judge_all(cases: list[dict[str, Any]], want_subset: bool, k: int = 2) -> None:
    reqs = []
    idx = []
    for i, c in enumerate(cases):
        if "text" not in c["learn"]:
            continue
        reqs.append({"op": "dg.parse", "text": c["learn"]["text"]})
        idx.append((i, "parse"))
        reqs.append({"op": "dg.accepts", "text": c["learn"]["text"], "k": k,
                     "jobs": pvlib.pv_to_model_jobs(c["pv"]), "limit": 20000})
        idx.append((i, "acc"))
        if want_subset:
            reqs.append({"op": "dg.subset", "learned_text": c["learn"]["text"], "source": c["blk"], "k": k,
                         "cap": 300, "limit": 20000})
            idx.append((i, "sub"))
    reps = pvlib.lean(reqs) if reqs else []
    for (i, kind), rp in zip(idx, reps):
        cases[i][kind] = rp


def replay_input(c: dict[str, Any]) -> dict[str, Any]:
    return {"definition": c["blk"], "kind": c["kind"], "file": c.get("file"), "jobs_pv": c["pv"],
            "hash_seed": c.get("hash_seed", 0), "uuid_seed": c.get("uuid_seed", 0)}


def finding_key(c: dict[str, Any], cls: str | None) -> Any:
    """known findings are keyed by class (call-site style) or, for corpus files, by the file"""
    if c["kind"] == "corpus":
        return ("corpus", c["file"])
    return ("class", cls) if cls else ("definition", canon_key(c["blk"]))


def report(ctx: Ctx, c: dict[str, Any], what: str, extra: dict[str, Any] | None = None) -> None:
    """a violation of the property on case `c`: matched against the known findings by corpus file, by every recorded
    class the definition belongs to, or by the definition itself"""
    inp = replay_input(c)
    rep = {"input": inp, "learned_text": c["learn"].get("text") if "learn" in c else None, "classes": c["classes"],
           **(extra or {})}
    key = ("corpus", c["file"]) if c["kind"] == "corpus" else ("definition", canon_key(c["blk"]))
    alt = [] if c["kind"] == "corpus" else [("class", k) for k in c["classes"]]
    if not ctx.is_known(key, alt) and "uuid_seed" in c and "text" in c.get("learn", {}):
        # the learner's answer must be a function of the request: ask again in a fresh interpreter and report only
        # what shows again (guards against anything transient: /repo being edited while the check runs, a worker in a bad state)
        again = pvlib.run_requests_fresh([{"op": "learn", "chunks": [c["pv"]], "hash_seed": c.get("hash_seed", 0),
                                           "uuid_seed": c["uuid_seed"], "timeout": 60}])[0]
        if again.get("text") != c["learn"]["text"]:
            ctx.tick("violation_not_reproduced_in_fresh_process")
            ctx.cov.setdefault("unreproduced", []).append({"definition": c["blk"], "first_verdict": what[:300]})
            return
    ctx.violation(what, rep, key=key, alt_keys=alt)


def replay_case(data: dict[str, Any], want: str) -> int:
    """re-run one recorded case: learn again with the recorded seeds and judge"""
    inp = data["input"]
    rep = pvlib.run_requests([{"op": "learn", "chunks": [inp["jobs_pv"]], "hash_seed": inp.get("hash_seed", 0),
                               "uuid_seed": inp.get("uuid_seed", 0), "timeout": 60}])[0]
    if "text" not in rep:
        print("learner:", rep.get("error"))
        return 1
    print(rep["text"])
    jobs = pvlib.pv_to_model_jobs(inp["jobs_pv"])
    res = pvlib.lean([{"op": "dg.parse", "text": rep["text"]},
                      {"op": "dg.accepts", "text": rep["text"], "k": 2, "jobs": jobs},
                      {"op": "dg.subset", "learned_text": rep["text"], "source": inp["definition"], "k": 2, "cap": 300}])
    print(json.dumps(res, indent=1)[:3000])
    if not res[0].get("ok"):
        return 1
    if want == "accepts":
        return 0 if ("accepted" in res[1] and all(res[1]["accepted"])) else 1
    if want == "subset":
        return 0 if res[2].get("rejected") == 0 else 1
    return 0
