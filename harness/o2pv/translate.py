"""Translator: regenerates lean/O2P/Generated/*.lean from /repo's working tree on every run.

What is translated (DESIGN.md §3.1): string constants, the PV timestamp format, the arithmetic of
`convert_timestamp_to_unix_nano`, the divisor of `unix_nano_to_pv_string`, the operator table of the
PlantUML writer, PVEvent field lists and the uniqueness flags of the three SQL tables.  The models take
these as definitions, so a change of the source changes the theorems `lake build` re-checks.  A fact
that can no longer be extracted is written as an `untranslatable` marker: the tie theorems then fail
and the check's search decides (never a violation by itself).
"""
from __future__ import annotations

import ast
from pathlib import Path
from typing import Any

from .common import LEAN, REPO

GEN = LEAN / "O2P" / "Generated"


def lean_str(s: str) -> str:
    out = []
    for ch in s:
        if ch == "\\":
            out.append("\\\\")
        elif ch == '"':
            out.append('\\"')
        elif ch == "\n":
            out.append("\\n")
        elif ch == "\t":
            out.append("\\t")
        else:
            out.append(ch)
    return '"' + "".join(out) + '"'


def _parse(rel: str) -> ast.Module:
    return ast.parse((REPO / rel).read_text())


def _func(mod: ast.Module, name: str) -> ast.FunctionDef:
    for n in ast.walk(mod):
        if isinstance(n, ast.FunctionDef) and n.name == name:
            return n
    raise KeyError(name)


def _assign_value(mod: ast.Module, name: str) -> ast.expr:
    for n in mod.body:
        if isinstance(n, ast.Assign) and any(isinstance(t, ast.Name) and t.id == name for t in n.targets):
            return n.value
        if isinstance(n, ast.AnnAssign) and isinstance(n.target, ast.Name) and n.target.id == name and n.value:
            return n.value
    raise KeyError(name)


class Untranslatable(Exception):
    pass


def int_expr(e: ast.expr, names: dict[str, str]) -> str:
    """Python integer expression over attribute reads -> Lean `Nat` expression."""
    if isinstance(e, ast.BinOp):
        ops = {ast.Add: "+", ast.Mult: "*", ast.Pow: "^", ast.FloorDiv: "/", ast.Mod: "%"}
        for k, v in ops.items():
            if isinstance(e.op, k):
                return f"({int_expr(e.left, names)} {v} {int_expr(e.right, names)})"
        raise Untranslatable(ast.dump(e.op))
    if isinstance(e, ast.Constant) and isinstance(e.value, int) and not isinstance(e.value, bool):
        return str(e.value)
    src = ast.unparse(e)
    if src in names:
        return names[src]
    raise Untranslatable(src)


# ---------------------------------------------------------------------------------------------


def gen_time() -> tuple[str, list[str]]:
    problems: list[str] = []
    # strftime format of datetime_to_pv_string
    fmt = "untranslatable"
    try:
        f = _func(_parse("tel2puml/utils.py"), "datetime_to_pv_string")
        ret = [n for n in ast.walk(f) if isinstance(n, ast.Return)][0].value
        assert isinstance(ret, ast.Call) and isinstance(ret.func, ast.Attribute) and ret.func.attr == "strftime"
        assert ast.unparse(ret.func.value) == "date_time"
        fmt = ast.literal_eval(ret.args[0])
    except Exception as ex:  # noqa: BLE001
        problems.append(f"datetime_to_pv_string: {ex!r}")
    # unix_nano_to_pv_string: datetime.fromtimestamp(unix_nano / <const>, tz=UTC)
    divisor = "0"
    shape = "untranslatable"
    try:
        f = _func(_parse("tel2puml/utils.py"), "unix_nano_to_pv_string")
        ret = [n for n in ast.walk(f) if isinstance(n, ast.Return)][0].value
        body_stmts = [s for s in f.body if not (isinstance(s, ast.Expr) and isinstance(s.value, ast.Constant))]
        assert len(body_stmts) == 1, "more than one statement"
        assert isinstance(ret, ast.Call) and ast.unparse(ret.func) == "datetime_to_pv_string"
        inner = ret.args[0]
        assert isinstance(inner, ast.Call) and ast.unparse(inner.func) == "datetime.fromtimestamp"
        assert [(k.arg, ast.unparse(k.value)) for k in inner.keywords] == [("tz", "UTC")]
        arg = inner.args[0]
        assert isinstance(arg, ast.BinOp) and isinstance(arg.op, ast.Div)
        assert ast.unparse(arg.left) == "unix_nano"
        c = arg.right
        assert isinstance(c, ast.Constant) and isinstance(c.value, float) and c.value == int(c.value)
        divisor = str(int(c.value))
        shape = "float(n) / c |> fromtimestamp UTC |> strftime"
    except Exception as ex:  # noqa: BLE001
        problems.append(f"unix_nano_to_pv_string: {ex!r}")
    # convert_timestamp_to_unix_nano: integer arithmetic on a timedelta since the epoch
    to_nanos = "0"
    tn_shape = "untranslatable"
    try:
        f = _func(_parse("tel2puml/pv_to_tel.py"), "convert_timestamp_to_unix_nano")
        stmts = [s for s in f.body if not (isinstance(s, ast.Expr) and isinstance(s.value, ast.Constant))]
        srcs = [ast.unparse(s) for s in stmts]
        assert srcs[0] == "dt = datetime.fromisoformat(iso_timestamp.rstrip('Z')).replace(tzinfo=timezone.utc)", srcs[0]
        assert srcs[1] == "delta = dt - datetime(1970, 1, 1, tzinfo=timezone.utc)", srcs[1]
        assert isinstance(stmts[2], ast.Assign) and ast.unparse(stmts[2].targets[0]) == "unix_nano"
        assert srcs[3] == "return unix_nano" and len(stmts) == 4
        to_nanos = int_expr(
            stmts[2].value,
            {"delta.days": "days", "delta.seconds": "seconds", "delta.microseconds": "microseconds"},
        )
        tn_shape = "fromisoformat(rstrip Z) UTC - epoch |> integer arithmetic"
    except Exception as ex:  # noqa: BLE001
        problems.append(f"convert_timestamp_to_unix_nano: {ex!r}")
    text = f"""/- GENERATED by /verif/harness/o2pv/translate.py from /repo — do not edit. -/
namespace O2P.Gen

/-- `strftime` format in `tel2puml/utils.py:datetime_to_pv_string` -/
def pvTimestampFormat : String := {lean_str(fmt)}

/-- shape of `unix_nano_to_pv_string` recognised by the translator -/
def fromNanosShape : String := {lean_str(shape)}

/-- the float constant `unix_nano` is divided by -/
def nanoDivisor : Nat := {divisor}

/-- shape of `convert_timestamp_to_unix_nano` recognised by the translator -/
def toNanosShape : String := {lean_str(tn_shape)}

/-- the integer expression `convert_timestamp_to_unix_nano` returns, over the fields of the
`timedelta` since 1970-01-01T00:00:00Z -/
def toNanosOfDelta (days seconds microseconds : Nat) : Nat := {to_nanos}

end O2P.Gen
"""
    return text, problems


def gen_consts() -> tuple[str, list[str]]:
    problems: list[str] = []
    vals: dict[str, str] = {}
    try:
        m = _parse("tel2puml/tel2puml_types.py")
        for name in ("DUMMY_START_EVENT", "DUMMY_END_EVENT", "DUMMY_EVENT"):
            vals[name] = ast.literal_eval(_assign_value(m, name))
    except Exception as ex:  # noqa: BLE001
        problems.append(f"dummy constants: {ex!r}")
    fields: dict[str, list[tuple[str, str]]] = {"PVEvent": [], "PVEventMappingConfig": []}
    try:
        m = _parse("tel2puml/tel2puml_types.py")
        for n in m.body:
            if isinstance(n, ast.ClassDef) and n.name in fields:
                for s in n.body:
                    if isinstance(s, ast.AnnAssign) and isinstance(s.target, ast.Name):
                        default = ast.literal_eval(s.value) if s.value is not None else ""
                        fields[n.name].append((s.target.id, str(default)))
    except Exception as ex:  # noqa: BLE001
        problems.append(f"PVEvent fields: {ex!r}")
    table: list[tuple[str, str, list[str], int, int]] = []
    try:
        m = _parse("tel2puml/puml_graph.py")
        d = ast.literal_eval(_assign_value(m, "OPERATOR_NODE_PUML_MAP"))
        for (pos, op), (strings, indent_diff, unindent) in d.items():
            table.append((pos, op, list(strings), indent_diff, unindent))
    except Exception as ex:  # noqa: BLE001
        problems.append(f"OPERATOR_NODE_PUML_MAP: {ex!r}")
    sql: dict[str, bool] = {}
    try:
        m = _parse("tel2puml/otel_to_pv/data_holders/sql_data_holder/data_model.py")
        src_cols: dict[str, dict[str, str]] = {}
        for n in ast.walk(m):
            if isinstance(n, ast.ClassDef):
                cols = {}
                for s in n.body:
                    if isinstance(s, ast.AnnAssign) and isinstance(s.target, ast.Name) and s.value is not None:
                        cols[s.target.id] = ast.unparse(s.value)
                src_cols[n.name] = cols
        ev = src_cols["NodeModel"]["event_id"]
        sql["nodesEventIdUnique"] = "unique=True" in ev
        jh = src_cols["JobHash"]["job_id"]
        sql["jobHashesJobIdKey"] = "primary_key=True" in jh or "unique=True" in jh
        assoc = ast.unparse(_assign_value(m, "NODE_ASSOCIATION"))
        sql["assocPairKey"] = assoc.count("primary_key=True") == 2
        sql["nodesIdAutoKey"] = "primary_key=True" in src_cols["NodeModel"]["id"]
    except Exception as ex:  # noqa: BLE001
        problems.append(f"data_model: {ex!r}")

    def ls(xs: list[str]) -> str:
        return "[" + ", ".join(lean_str(x) for x in xs) + "]"

    rows = ",\n  ".join(
        f"(({lean_str(p)}, {lean_str(o)}), ({ls(s)}, ({i} : Int), {u}))" for p, o, s, i, u in table
    )
    text = f"""/- GENERATED by /verif/harness/o2pv/translate.py from /repo — do not edit. -/
namespace O2P.Gen

def dummyStart : String := {lean_str(vals.get("DUMMY_START_EVENT", "untranslatable"))}
def dummyEnd : String := {lean_str(vals.get("DUMMY_END_EVENT", "untranslatable"))}
def dummyEvent : String := {lean_str(vals.get("DUMMY_EVENT", "untranslatable"))}

/-- keys of `PVEvent` in declaration order -/
def pvEventFields : List String := {ls([f for f, _ in fields["PVEvent"]])}

/-- `PVEventMappingConfig`: field ↦ default application name of the field -/
def pvMappingDefaults : List (String × String) :=
  [{", ".join(f"({lean_str(a)}, {lean_str(b)})" for a, b in fields["PVEventMappingConfig"])}]

/-- `OPERATOR_NODE_PUML_MAP` of `tel2puml/puml_graph.py`: (position, operator) ↦
(lines, indent difference, unindent) -/
def operatorTable : List ((String × String) × (List String × Int × Nat)) :=
 [{rows}]

/-- constraint flags of `data_model.py` -/
def nodesEventIdUnique : Bool := {str(sql.get("nodesEventIdUnique", False)).lower()}
def assocPairKey : Bool := {str(sql.get("assocPairKey", False)).lower()}
def jobHashesJobIdKey : Bool := {str(sql.get("jobHashesJobIdKey", False)).lower()}
def nodesIdAutoKey : Bool := {str(sql.get("nodesIdAutoKey", False)).lower()}

end O2P.Gen
"""
    return text, problems


GENERATORS = {"Time": gen_time, "Consts": gen_consts}


def translate(which: list[str] | None = None) -> list[str]:
    """Rewrite the generated Lean files (only when their text changed); return extraction problems."""
    GEN.mkdir(parents=True, exist_ok=True)
    problems: list[str] = []
    for name, fn in GENERATORS.items():
        if which is not None and name not in which:
            continue
        text, probs = fn()
        problems += probs
        path = GEN / f"{name}.lean"
        if not path.exists() or path.read_text() != text:
            path.write_text(text)
    return problems


if __name__ == "__main__":
    import sys

    for p in translate():
        print("UNTRANSLATABLE:", p)
    sys.exit(0)
