"""Driving the real SQLDataHolder and the Lean `Store` model with the same scripts (C09-C12, C15).

A script is a list of steps: ["newrun"], ["ingest", [events]], ["clean_inconsistent"], ["clean_window"],
["rename"], ["unique"], ["stream", filter|None], ["dump"].  Both sides answer one result per step;
results are canonicalised here (anything that came out of SQL without ORDER BY is sorted).
"""
from __future__ import annotations

import importlib
import os
import shutil
import tempfile
from typing import Any

from .common import LeanSide


def ev(job_name: str, job_id: str, typ: str, eid: str, start: int, end: int, parent: str | None,
       app: str = "app") -> dict[str, Any]:
    return {"jobName": job_name, "jobId": job_id, "typ": typ, "id": eid, "start": start, "end": end,
            "app": app, "parent": parent}


def wire_event(e: dict[str, Any]) -> dict[str, Any]:
    return {**e, "start": str(e["start"]), "end": str(e["end"])}


def wire_script(script: list[list[Any]]) -> list[list[Any]]:
    out = []
    for st in script:
        if st[0] == "ingest":
            out.append(["ingest", [wire_event(e) for e in st[1]]])
        elif st[0] == "run":
            out.append(["run", st[1], st[2], [wire_event(e) for e in st[3]]])
        elif st[0] == "stream":
            f = st[1] if len(st) > 1 else None
            out.append(["stream", None if f is None else [[k, sorted(v)] for k, v in f.items()]])
        else:
            out.append(list(st))
    return out


class RealStore:
    """One database (file or memory); `newrun` makes a new holder object on it (process-local state
    reset, as a new process would)."""

    def __init__(self, batch: int, buffer: int, file_db: bool) -> None:
        self.sql = importlib.import_module("tel2puml.otel_to_pv.data_holders.sql_data_holder.sql_dataholder")
        self.dm = importlib.import_module("tel2puml.otel_to_pv.data_holders.sql_data_holder.data_model")
        self.cfgmod = importlib.import_module("tel2puml.otel_to_pv.config")
        self.types = importlib.import_module("tel2puml.otel_to_pv.otel_to_pv_types")
        self.ingestmod = importlib.import_module("tel2puml.otel_to_pv.ingest_otel_data")
        self.sa = importlib.import_module("sqlalchemy")
        self.batch, self.buffer = batch, buffer
        self.dir = tempfile.mkdtemp(prefix="o2pv_") if file_db else None
        self.uri = f"sqlite:///{self.dir}/store.db" if file_db else "sqlite:///:memory:"
        self.file_db = file_db
        self.h: Any = None
        self.newrun()

    def close(self) -> None:
        try:
            if self.h is not None:
                self.h.session.close()
                self.h.engine.dispose()
        finally:
            if self.dir:
                shutil.rmtree(self.dir, ignore_errors=True)

    def newrun(self) -> str:
        if self.h is not None and not self.file_db:
            raise RuntimeError("a second run needs a file database (an in-memory one dies with its engine)")
        if self.h is not None:
            self.h.session.close()
            self.h.engine.dispose()
        self.h = self.sql.SQLDataHolder(
            self.cfgmod.SQLDataHolderConfig(db_uri=self.uri, batch_size=self.batch, time_buffer=self.buffer))
        return "ok"

    def to_otel(self, e: dict[str, Any]) -> Any:
        return self.types.OTelEvent(
            job_name=e["jobName"], job_id=e["jobId"], event_type=e["typ"], event_id=e["id"],
            start_timestamp=e["start"], end_timestamp=e["end"], application_name=e["app"],
            parent_event_id=e["parent"])

    def step(self, st: list[Any]) -> Any:
        op = st[0]
        exc = importlib.import_module("sqlalchemy.exc")
        if op == "newrun":
            return self.newrun()
        if op == "ingest":
            src = [self.to_otel(e) for e in st[1]]
            try:
                self.ingestmod.IngestData(src, self.h).load_to_data_holder()
                return "ok"
            except exc.IntegrityError:
                self.h.session.rollback()
                return "integrity"
        if op == "clean_inconsistent":
            self.h.remove_inconsistent_jobs()
            return "ok"
        if op == "clean_window":
            try:
                self.h.remove_jobs_outside_of_time_window()
                return "ok"
            except ValueError:
                return "valueerror"
        if op == "rename":
            self.h.update_job_names_by_root_span()
            return "ok"
        if op == "unique":
            try:
                res = self.h.find_unique_graphs()
                out: Any = {k: sorted(v) for k, v in res.items()}
            except ValueError:
                out = "valueerror"
            except exc.IntegrityError:
                self.h.session.rollback()
                out = "integrity"
            finally:
                self.last_unique = locals().get("out")
                # the temporary table is declared on the class-level metadata: forget it, as a new process would
                t = self.dm.Base.metadata.tables.get("temp_root_nodes")
                if t is not None:
                    try:
                        with self.h.engine.begin() as c:
                            c.execute(self.sa.text("DROP TABLE IF EXISTS temp_root_nodes"))
                    except Exception:  # noqa: BLE001
                        pass
                    self.dm.Base.metadata.remove(t)
            return out
        if op == "stream_unique":  # what otel_to_pv(find_unique_graphs=True) streams: filter = last selection
            sel = getattr(self, "last_unique", None)
            if not isinstance(sel, dict):
                return "no-selection"
            out = []
            for name, jobs in self.h.stream_data({k: set(v) for k, v in sel.items()}):
                out.append([name, sorted({e.job_id for job in jobs for e in list(job)})])
            return sorted(out)
        if op == "stream":
            filt = st[1] if len(st) > 1 else None
            fm = None if filt is None else {k: set(v) for k, v in filt.items()}
            out = []
            for name, jobs in self.h.stream_data(fm):
                js = []
                for job in jobs:
                    evs = list(job)  # materialised per trace, as the sequencer does
                    js.append(evs)
                out.append((name, js))
            return [[name, [[evs[0].job_id if evs else None, [self.otel_to_dict(e) for e in evs]] for evs in js]]
                    for name, js in out]
        if op == "setwindow":  # harness only: give this holder the min/max another run observed
            self.h._min_timestamp, self.h._max_timestamp = st[1], st[2]
            return "ok"
        if op == "pv":  # stream everything and sequence it as otel_to_pv does (sync, no maps)
            seq = importlib.import_module("tel2puml.otel_to_pv.sequence_otel")
            out = []
            try:
                for name, jobs in self.h.stream_data(None):
                    for pvs in seq.sequence_otel_job_id_streams(jobs, async_flag=bool(st[1]) if len(st) > 1 else False):
                        out.append([name, sorted((dict(p) for p in pvs), key=lambda d: d["eventId"])])
            except Exception as ex:  # noqa: BLE001
                return f"{type(ex).__name__}: {str(ex)[:200]}"
            return sorted(out, key=lambda x: (x[0], x[1][0]["jobId"] if x[1] else ""))
        if op == "pipeline":
            # the real orchestration of `otel_to_pv` (which cleaning steps run, and in which order) on THIS holder: the
            # function is called with ingest_data=False and its `fetch_data_holder` handed this run's holder (an
            # in-memory database cannot be re-opened, and the window is the one this run's ingestion computed)
            o2p = importlib.import_module("tel2puml.otel_to_pv.otel_to_pv")
            cfg = self.cfgmod.load_config_from_dict({
                "ingest_data": {"data_source": "json", "data_holder": "sql"},
                "data_holders": {"sql": {"db_uri": self.uri, "batch_size": self.batch, "time_buffer": self.buffer}},
                "data_sources": {"json": {"dirpath": "/nonexistent", "filepath": None, "json_per_line": False,
                                          "jq_query": ".spans", "field_mapping": None}},
            })
            orig = o2p.fetch_data_holder
            o2p.fetch_data_holder = lambda _config: self.h
            out = []
            import contextlib
            import io
            try:
                with contextlib.redirect_stdout(io.StringIO()), contextlib.redirect_stderr(io.StringIO()):
                    for name, streams in o2p.otel_to_pv(cfg, ingest_data=False):
                        for pvs in streams:
                            out.append([name, sorted((dict(p) for p in pvs), key=lambda d: d["eventId"])])
            except Exception as ex:  # noqa: BLE001
                return f"{type(ex).__name__}: {str(ex)[:200]}"
            finally:
                o2p.fetch_data_holder = orig
            return sorted(out, key=lambda x: (x[0], x[1][0]["jobId"] if x[1] else ""))
        if op == "dump":
            with self.h.engine.connect() as c:
                nodes = c.execute(self.sa.text(
                    "select job_name, job_id, event_type, event_id, start_timestamp, end_timestamp, "
                    "application_name, parent_event_id from nodes order by id")).fetchall()
                assoc = c.execute(self.sa.text("select parent_id, child_id from NODE_ASSOCIATION")).fetchall()
                hashes = c.execute(self.sa.text("select job_id, job_name from job_hashes")).fetchall()
            return {
                "nodes": [ev(r[0], r[1], r[2], r[3], r[4], r[5], r[7], r[6]) for r in nodes],
                "assoc": sorted([list(r) for r in assoc]),
                "hashes": sorted([list(r) for r in hashes]),
            }
        raise ValueError(op)

    @staticmethod
    def otel_to_dict(e: Any) -> dict[str, Any]:
        return {"node": ev(e.job_name, e.job_id, e.event_type, e.event_id, e.start_timestamp, e.end_timestamp,
                           e.parent_event_id, e.application_name),
                "children": sorted(e.child_event_ids or [])}


def run_impl(script: list[list[Any]], batch: int, buffer: int, file_db: bool) -> list[Any]:
    st = RealStore(batch, buffer, file_db)
    try:
        out = []
        for s in script:
            r = st.step(s)
            out.append(r)
            if r == "integrity" and s[0] == "ingest":
                # the run aborted: later steps of the script still run against whatever is stored
                pass
        return out
    finally:
        st.close()


def canon_model_result(step: list[Any], r: Any) -> Any:
    """bring the model's reply to the canonical form of `RealStore.step`"""
    op = step[0]
    if op == "dump" and isinstance(r, dict):
        return {
            "nodes": [{**n, "start": int(n["start"]), "end": int(n["end"])} for n in r["nodes"]],
            "assoc": sorted(r["assoc"]),
            "hashes": sorted(r["hashes"]),
        }
    if op == "stream" and isinstance(r, list):
        return [[name, [[jid, sorted(
            [{"node": {**x["node"], "start": int(x["node"]["start"]), "end": int(x["node"]["end"])},
              "children": sorted(x["children"])} for x in evs], key=lambda d: d["node"]["id"])]
            for jid, evs in jobs]] for name, jobs in r]
    return r


def canon_impl_result(step: list[Any], r: Any) -> Any:
    if step[0] == "stream" and isinstance(r, list):
        return [[name, [[jid, sorted(evs, key=lambda d: d["node"]["id"])] for jid, evs in jobs]] for name, jobs in r]
    return r


def run_model(cases: list[dict[str, Any]]) -> list[list[Any]]:
    reqs = [{"op": "store.script", "batch": str(c["batch"]), "buffer": str(c["buffer"]),
             "script": wire_script(c["script"])} for c in cases]
    reps = LeanSide.drive(reqs)
    out = []
    for c, r in zip(cases, reps):
        if "error" in r:
            out.append([{"model_error": r["error"]}] * len(c["script"]))
        else:
            out.append([canon_model_result(st, x) for st, x in zip(c["script"], r["results"])])
    return out


def unique_matches(model_classes: Any, impl_sel: Any) -> str | None:
    """the model lists, per (job name, shape), the member job ids; the code returns one member each"""
    if isinstance(model_classes, str) or isinstance(impl_sel, str):
        return None if model_classes == impl_sel else f"unique: model {model_classes!r}, code {impl_sel!r}"
    want: dict[str, list[set[str]]] = {}
    for c in model_classes:
        want.setdefault(c["name"], []).append(set(c["ids"]))
    if sorted(want) != sorted(impl_sel):
        return f"unique: job names {sorted(impl_sel)} selected, classes exist for {sorted(want)}"
    for name, classes in want.items():
        sel = impl_sel[name]
        if len(sel) != len(classes):
            return f"unique: {len(sel)} traces selected for {name!r}, {len(classes)} distinct shapes"
        for cl in classes:
            if len(cl & set(sel)) != 1:
                return f"unique: shape class {sorted(cl)} of {name!r} has {len(cl & set(sel))} representatives in {sel}"
    return None
