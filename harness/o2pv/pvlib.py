"""pv2puml side of the harness: job definitions (fragment F and the corpus), the learner run in separate
worker processes with a pinned PYTHONHASHSEED and a seeded uuid4, and the Lean diagram model as the judge.

A definition is the JSON form of `O2P.Diagram.Blk`:
  ["ev", name] | ["seq", [..]] | ["fork", "AND"|"OR"|"XOR", [..]] | ["loop", blk] | ["brk"] | ["detach"]
"""
from __future__ import annotations

import ast
import json
import os
import re
import subprocess
import sys
from pathlib import Path
from typing import Any, Iterator

from .common import REPO, SHIM, LeanSide

HARNESS = Path(__file__).resolve().parents[1]
CORPUS_DIR = REPO / "end-to-end-pumls"

# ------------------------------------------------------------------------------------------------
# fragment F


class NameGen:
    def __init__(self) -> None:
        self.n = 0

    def fresh(self) -> str:
        self.n += 1
        s = ""
        k = self.n
        while k:
            k, r = divmod(k - 1, 26)
            s = chr(65 + r) + s
        return s


def gen_seq(r: Any, ng: NameGen, depth: int, in_loop: int, budget: list[int], outer_fork: bool, top: bool,
            allow_detach: bool) -> list[Any]:
    """Seq ::= Ev (Item? Ev)* Item? ; starts with an event, two items never adjacent"""
    items: list[Any] = [["ev", ng.fresh()]]
    budget[0] -= 1
    n = r.choice([0, 1, 1, 2]) if budget[0] > 0 else 0
    for i in range(n):
        if budget[0] <= 1:
            break
        kind = r.choice(["fork", "fork", "loop"]) if depth < 3 else "loop"
        if kind == "loop" and r.random() < 0.5 and depth < 3:
            kind = "fork"
        if kind == "fork" and depth < 3:
            items.append(gen_fork(r, ng, depth + 1, in_loop, budget, outer=(depth == 0 and in_loop == 0),
                                  allow_detach=allow_detach))
        else:
            items.append(gen_loop(r, ng, depth, in_loop + 1, budget))
        last = i == n - 1
        if not last or r.random() < 0.6:
            items.append(["ev", ng.fresh()])
            budget[0] -= 1
    return items


def gen_fork(r: Any, ng: NameGen, depth: int, in_loop: int, budget: list[int], outer: bool,
             allow_detach: bool) -> Any:
    op = r.choice(["AND", "OR", "XOR"])
    nb = r.choice([2, 2, 3])
    branches = []
    for b in range(nb):
        seq = gen_seq(r, ng, depth, in_loop, budget, False, False, allow_detach)
        if outer and allow_detach and op in ("AND", "OR") and in_loop == 0 and r.random() < 0.2 and b > 0:
            seq.append(["detach"])
        branches.append(["seq", seq])
    return ["fork", op, branches]


def gen_loop(r: Any, ng: NameGen, depth: int, in_loop: int, budget: list[int]) -> Any:
    """Loop ::= repeat LSeq while; a branch of an XOR fork of the body may be `Ev.. break`
    (a single event when the loop is itself nested)"""
    body = gen_seq(r, ng, depth, in_loop, budget, False, False, False)
    if r.random() < 0.45 and budget[0] > 2:
        nested = in_loop > 1
        nev = 1 if nested else r.choice([1, 1, 2])
        brk_branch = [["ev", ng.fresh()] for _ in range(nev)] + [["brk"]]
        other = [["ev", ng.fresh()]]
        budget[0] -= nev + 1
        xor = ["fork", "XOR", [["seq", brk_branch], ["seq", other]]]
        if r.random() < 0.5:
            xor[2].reverse()
        # the XOR sits after an event of the body and is followed by an event or ends the body
        if body and body[-1][0] != "ev":
            body.append(["ev", ng.fresh()])
            budget[0] -= 1
        body.append(xor)
        if r.random() < 0.5:
            body.append(["ev", ng.fresh()])
            budget[0] -= 1
    return ["loop", ["seq", body]]


def gen_definition(r: Any, max_events: int = 12) -> Any:
    ng = NameGen()
    budget = [max_events]
    seq = gen_seq(r, ng, 0, 0, budget, False, True, True)
    return ["seq", seq]


def def_size(d: Any) -> int:
    if d[0] == "ev":
        return 1
    if d[0] == "seq":
        return sum(def_size(x) for x in d[1])
    if d[0] == "fork":
        return sum(def_size(x) for x in d[2])
    if d[0] == "loop":
        return def_size(d[1])
    return 0


def def_names(d: Any) -> list[str]:
    if d[0] == "ev":
        return [d[1]]
    if d[0] == "seq":
        return [n for x in d[1] for n in def_names(x)]
    if d[0] == "fork":
        return [n for x in d[2] for n in def_names(x)]
    if d[0] == "loop":
        return def_names(d[1])
    return []


def has(d: Any, kind: str) -> bool:
    if d[0] == kind:
        return True
    if d[0] == "seq":
        return any(has(x, kind) for x in d[1])
    if d[0] == "fork":
        return any(has(x, kind) for x in d[2])
    if d[0] == "loop":
        return has(d[1], kind)
    return False


def enumerate_small() -> Iterator[Any]:
    """every F definition with at most one item level: A, A;fork;.., with 2-3 single-event branches, loops of 1-2
    events with and without a break — the exhaustive floor under the random generator"""
    for op in ("AND", "OR", "XOR"):
        for nb in (2, 3):
            for tail in (False, True):
                ng = NameGen()
                seq: list[Any] = [["ev", ng.fresh()], ["fork", op, [["seq", [["ev", ng.fresh()]]] for _ in range(nb)]]]
                if tail:
                    seq.append(["ev", ng.fresh()])
                yield ["seq", seq]
    for nbody in (1, 2):
        for brk in (False, True):
            for tail in (False, True):
                ng = NameGen()
                body: list[Any] = [["ev", ng.fresh()] for _ in range(nbody)]
                if brk:
                    body.append(["fork", "XOR", [["seq", [["ev", ng.fresh()], ["brk"]]], ["seq", [["ev", ng.fresh()]]]]])
                seq = [["ev", ng.fresh()], ["loop", ["seq", body]]]
                if tail:
                    seq.append(["ev", ng.fresh()])
                yield ["seq", seq]
    for op1 in ("AND", "OR", "XOR"):
        for op2 in ("AND", "OR", "XOR"):
            ng = NameGen()
            inner = ["fork", op2, [["seq", [["ev", ng.fresh()]]], ["seq", [["ev", ng.fresh()]]]]]
            seq = [["ev", ng.fresh()],
                   ["fork", op1, [["seq", [["ev", ng.fresh()], inner, ["ev", ng.fresh()]]], ["seq", [["ev", ng.fresh()]]]]],
                   ["ev", ng.fresh()]]
            yield ["seq", seq]


def enumerate_terminal_forks() -> Iterator[Any]:
    """a fork that ends the job, one of whose branches ends in another fork: A; op1{ P; op2{C | D} | Q[;R] [| S[;T]] }
    for every pair of operators, 2-3 outer branches, the nested branch first or last (which branch the writer visits
    first depends on names and hash seed) — every path ends inside the nested blocks, where the writer places its
    detach nodes and the enclosing terminators"""
    import itertools
    for op1, op2, nb, swap, tailev in itertools.product(("AND", "OR", "XOR"), ("AND", "OR", "XOR"), (2, 3), (0, 1), (0, 1)):
        ng = NameGen()

        def E() -> Any:
            return ["ev", ng.fresh()]
        a = E()
        inner = ["fork", op2, [["seq", [E()]], ["seq", [E()]]]]
        brs = [["seq", [E(), inner]]] + [["seq", [E()] + ([E()] if tailev else [])] for _ in range(nb - 1)]
        if swap:
            brs.reverse()
        yield ["seq", [a, ["fork", op1, brs]]]


def enumerate_bunched() -> Iterator[Any]:
    """F-adjacent definitions (a branch that begins with a fork): forks opened directly under one another, two and
    three levels deep, every pair of operators, with or without an event after the inner fork, 2-3 outer branches —
    A; op1{ op2{B|C} [;X] | D [| E] }; F and A; op1{ op2{ op1{B|C} [;X] | D } [;Y] | E }; F.  Left out: the three-level
    AND/OR mixtures, which the unchanged learner over-approximates (the mixed-OR caveat of C06).  The other 64 satisfy
    C01, C02 and C05 on the unchanged tree"""
    import itertools
    ops = ("AND", "OR", "XOR")
    for op1, op2, after, depth3, nb in itertools.product(ops, ops, (0, 1), (0, 1), (2, 3)):
        if depth3 and {op1, op2} == {"AND", "OR"}:
            continue
        ng = NameGen()

        def E() -> Any:
            return ["ev", ng.fresh()]
        a = E()
        inner = ["fork", op2, [["seq", [E()]], ["seq", [E()]]]]
        if depth3:
            inner = ["fork", op2, [["seq", [["fork", op1, [["seq", [E()]], ["seq", [E()]]]]] + ([E()] if after else [])],
                                   ["seq", [E()]]]]
        brs = [["seq", [inner] + ([E()] if after else [])]] + [["seq", [E()]] for _ in range(nb - 1)]
        yield ["seq", [a, ["fork", op1, brs], E()]]


def enumerate_staged_rejoins() -> Iterator[Any]:
    """F-adjacent definitions (outside F's grammar: a branch that begins with a fork): nested forks of one operator
    whose branches re-join in 2-3 successive stages at different events, with or without a branch that ends the job
    — A; op{ op{ op{B|C}; X | D }; W | E [| F; detach] [| F] }; Y.  The learner flattens them into one fork with
    partial merges (`create_logic_merge`); the unchanged tree emits a well-formed text with exactly the input's
    names for all 18 (hash seeds 0-2)"""
    import itertools
    for op, early, stages in itertools.product(("XOR", "AND", "OR"), ("none", "detach", "plain"), (2, 3)):
        ng = NameGen()

        def E() -> Any:
            return ["ev", ng.fresh()]
        a = E()
        cur = ["seq", [["fork", op, [["seq", [E()]], ["seq", [E()]]]], E()]]
        for _ in range(stages - 1):
            cur = ["seq", [["fork", op, [cur, ["seq", [E()]]]], E()]]
        brs = [cur, ["seq", [E()]]]
        if early == "detach":
            brs.append(["seq", [E(), ["detach"]]])
        elif early == "plain":
            brs.append(["seq", [E()]])
        yield ["seq", [a, ["fork", op, brs], E()]]


def enumerate_staged_loop_rejoins() -> Iterator[Any]:
    """the staged re-joins of `enumerate_staged_rejoins` with one branch a bare loop (`repeat{B}` or `repeat{B; B'}`,
    no event before it: outside F's grammar) at each position: A; op{ op{ L | C }; X | D }; Y, A; op{ op{ B | C }; X | L }; Y,
    A; op{ op{ B | L }; X | D | E }; Y …  The learner walks the branches that re-join early twice (`create_logic_merge`
    drops their nodes and re-nests them), so a loop's node is created more than once."""
    import itertools
    for op, pos, extra, two in itertools.product(("XOR", "AND", "OR"), (0, 1, 2), (0, 1), (0, 1)):
        ng = NameGen()

        def E() -> Any:
            return ["ev", ng.fresh()]
        a = E()

        def branch(i: int) -> Any:
            if i == pos:
                return ["seq", [["loop", ["seq", [E()] + ([E()] if two else [])]]]]
            return ["seq", [E()]]
        inner = ["seq", [["fork", op, [branch(0), branch(1)]], E()]]
        brs = [inner, branch(2)] + ([["seq", [E()]]] if extra else [])
        yield ["seq", [a, ["fork", op, brs], E()]]


# event names that are valid but that a typical run does not contain: blanks at the edges or inside, names that are
# prefixes / concatenations of one another, characters that mean something to PlantUML, JSON, glob or the project's own
# markers without being one of them (the exact markers |||START|||, |||END|||, |||DUMMY|||, DUMMY_BREAK and names
# containing LOOP are the project's reserved names and stay out, and so does "tau": infer_or_gate_from_node recognises
# the miner's silent leaf by `str(node) == "tau"` and the project's own unit tests build silent leaves as
# ProcessTree(label="tau") — an event of that name is taken for one), digits only, non-ASCII, one character, long
UNUSUAL_NAMES = ["B ", " B", "a b", "|||AUDIT|||", "|||", "||||", "|||start|||", "START", "END", "0042", "x;y", "q:r",
                 "[z]", "50%", "n\u00e4me", "'quoted'", '"dq"', "Tau", "A", "AA", "AB", "AAA", "BA", "-", "*", "?",
                 "fork", "end fork", "repeat", "case (\"\")", "break", "detach", "x" * 60, "a\\b", "{", "}", "#red", "@startuml"]


def unusual_renaming(r: Any, names: list[str]) -> dict[str, str]:
    """an injective map from a definition's letter names to unusual names (some names stay as they are)"""
    pool = [n for n in UNUSUAL_NAMES]
    r.shuffle(pool)
    m: dict[str, str] = {}
    used: set[str] = set()
    for n in names:
        if pool and r.random() < 0.7:
            x = pool.pop()
            m[n] = x
            used.add(x)
        else:
            m[n] = n
    # injective: a letter that stays must not collide with an unusual name handed out ("A", "AA", …)
    for n in names:
        if m[n] == n and n in used:
            m[n] = n + "_"
    return m


def rename_def(d: Any, f: Any) -> Any:
    if d[0] == "ev":
        return ["ev", f(d[1])]
    if d[0] == "seq":
        return ["seq", [rename_def(x, f) for x in d[1]]]
    if d[0] == "fork":
        return ["fork", d[1], [rename_def(x, f) for x in d[2]]]
    if d[0] == "loop":
        return ["loop", rename_def(d[1], f)]
    return d


def enumerate_loops_on_exits() -> Iterator[Any]:
    """F-adjacent definitions (outside F's grammar: a break branch that holds a loop, two loops with no event between
    them): a loop downstream of another loop's exit — A; repeat{B; XOR{X; repeat{Y[;W]}; [Z;] break | C}}; D and
    A; repeat{B; XOR{[X;] break | C}}; repeat{E[;F]}; [D] — each under two namings (alphabetical along the definition,
    and reversed) so that the enclosing / upstream loop's names sort before or after the downstream loop's.  Loop
    extraction must collapse the downstream loop first whatever the names are."""
    import itertools
    for shape, two, opt, rev in itertools.product(("in_break", "after"), (0, 1), (0, 1), (0, 1)):
        ng = NameGen()

        def E() -> Any:
            return ["ev", ng.fresh()]
        a, b = E(), E()
        if shape == "in_break":
            x = E()
            inner = ["loop", ["seq", [E()] + ([E()] if two else [])]]
            brk = [x, inner] + ([E()] if opt else []) + [["brk"]]
            d = ["seq", [a, ["loop", ["seq", [b, ["fork", "XOR", [["seq", brk], ["seq", [E()]]]]]]], E()]]
        else:
            brk = ([E()] if opt else []) + [["brk"]]
            first = ["loop", ["seq", [b, ["fork", "XOR", [["seq", brk], ["seq", [E()]]]]]]]
            second = ["loop", ["seq", [E()] + ([E()] if two else [])]]
            d = ["seq", [a, first, second, E()]]
        if rev:
            names = def_names(d)
            m = dict(zip(names, reversed(names)))
            d = rename_def(d, lambda n: m[n])
        yield d


def enumerate_large_loops() -> Iterator[Any]:
    """scale: long jobs (about 40 event types) with a 12-event loop body — optionally with a nested 4-event loop, a
    break, an XOR fork in the body — between two 14-event stretches; the product (nodes of the graph) x (events of the
    loop's component) runs into the hundreds"""
    import itertools
    for nested, brk, fork in itertools.product((0, 1), repeat=3):
        ng = NameGen()

        def E() -> Any:
            return ["ev", ng.fresh()]
        pre = [E() for _ in range(14)]
        body: list[Any] = [E() for _ in range(4)]
        if nested:
            body.append(["loop", ["seq", [E() for _ in range(4)]]])
            body.append(E())
        if fork:
            body.append(["fork", "XOR", [["seq", [E(), E()]], ["seq", [E()]]]])
            body.append(E())
        if brk:
            body.append(["fork", "XOR", [["seq", [E(), ["brk"]]], ["seq", [E()]]]])
        while len(def_names(["seq", body])) < 12:
            body.append(E())
        post = [E() for _ in range(14)]
        yield ["seq", pre + [["loop", ["seq", body]]] + post]


def enumerate_wide_deep() -> Iterator[Any]:
    """scale, inside F except for depth: forks of 5 and 6 branches of every operator, and alternating forks nested four
    deep (F stops at depth 3; the corpus has such files)"""
    for op in ("AND", "OR", "XOR"):
        for width in (5, 6):
            ng = NameGen()
            a = ["ev", ng.fresh()]
            brs = [["seq", [["ev", ng.fresh()]] + ([["ev", ng.fresh()]] if i == 0 else [])] for i in range(width)]
            yield ["seq", [a, ["fork", op, brs], ["ev", ng.fresh()]]]
    for ops in (("AND", "XOR", "AND", "XOR"), ("XOR", "AND", "OR", "XOR"), ("OR", "XOR", "AND", "OR")):
        ng = NameGen()

        def E() -> Any:
            return ["ev", ng.fresh()]
        cur: Any = ["fork", ops[3], [["seq", [E()]], ["seq", [E()]]]]
        for op in reversed(ops[:3]):
            cur = ["fork", op, [["seq", [E(), cur, E()]], ["seq", [E()]]]]
        yield ["seq", [E(), cur, E()]]


def enumerate_shared_tails() -> Iterator[Any]:
    """F-adjacent (event names repeat, as in several corpus files): branches of an AND/OR fork that end in the same
    event types — A; op{B; C; E | D; C; E}; F, A; op{B; C | D; C | G}; F, the same inside a loop body.  The merge check
    has to count the paths that sit on one event type."""
    for op in ("AND", "OR"):
        for shape in ("two_tail", "two_of_three", "one_tail"):
            for in_loop in (0, 1):
                if shape == "two_tail":
                    brs = [["seq", [["ev", "B"], ["ev", "C"], ["ev", "E"]]], ["seq", [["ev", "D"], ["ev", "C"], ["ev", "E"]]]]
                elif shape == "two_of_three":
                    brs = [["seq", [["ev", "B"], ["ev", "C"]]], ["seq", [["ev", "D"], ["ev", "C"]]], ["seq", [["ev", "G"]]]]
                else:
                    brs = [["seq", [["ev", "B"], ["ev", "C"]]], ["seq", [["ev", "D"], ["ev", "C"]]]]
                core = [["ev", "H"], ["fork", op, brs], ["ev", "F"]]
                if in_loop:
                    yield ["seq", [["ev", "A"], ["loop", ["seq", core]], ["ev", "Z"]]]
                else:
                    yield ["seq", [["ev", "A"]] + core]


def enumerate_staged_exits() -> Iterator[Any]:
    """F-adjacent (an exit inside a choice, a branch that begins with a fork): a three-way choice two of whose branches
    re-join early, one of them holding a choice with an early exit — A; XOR{ XOR{ B; XOR{P; detach | Q1 | Q2}; M | C }; D | X }; E
    (and with a two-way inner choice) — the exit event under five names (which child is walked first follows the names)."""
    for exit_name in ("P", "A0", "N", "Q0", "Zz"):
        for three in (1, 0):
            inner_brs = [["seq", [["ev", exit_name], ["detach"]]], ["seq", [["ev", "Q1"]]]] + ([["seq", [["ev", "Q2"]]]] if three else [])
            inner = ["fork", "XOR", inner_brs]
            early = ["fork", "XOR", [["seq", [["ev", "B"], inner, ["ev", "M"]]], ["seq", [["ev", "C"]]]]]
            yield ["seq", [["ev", "A"], ["fork", "XOR", [["seq", [early, ["ev", "D"]]], ["seq", [["ev", "X"]]]]], ["ev", "E"]]]


def enumerate_break_forks() -> Iterator[Any]:
    """inside F: a loop whose body is B; XOR{ X; break | (X2; break)? | C… | D… | (E)? }; (F)? — one or two break
    branches next to two or three branches that carry on (one or two events each), with or without an event after the
    fork, alone or nested in an outer loop.  The walker must treat only a SINGLE surviving branch as closable at any
    point (`lonely_merge`)."""
    import itertools
    for breaks, live, long_, after, nested in itertools.product((1, 2), (2, 3), (0, 1), (0, 1), (0, 1)):
        ng = NameGen()

        def E() -> Any:
            return ["ev", ng.fresh()]
        a, b = E(), E()
        brs = [["seq", [E(), ["brk"]]] for _ in range(breaks)]
        for i in range(live):
            brs.append(["seq", [E()] + ([E()] if long_ and i == 0 else [])])
        body = [b, ["fork", "XOR", brs]] + ([E()] if after else [])
        loop = ["loop", ["seq", body]]
        if nested:
            loop = ["loop", ["seq", [E(), loop, E()]]]
        yield ["seq", [a, loop, E()]]


def enumerate_bare_breaks() -> Iterator[Any]:
    """F-adjacent definitions (outside F's grammar: a loop directly followed by a fork, a break branch without an
    event of its own): an outer loop whose body holds a nested loop and then a choice between leaving the outer loop
    and carrying on — A; repeat{B; repeat{C[;C']}; [E;] XOR{[F;] break | G}; [H]}; [D].  The unchanged learner
    emits a well-formed diagram with exactly the input's names for all 64 of them (hash seeds 0-9; C01's acceptance
    clause does NOT hold for those without an event after the outer loop, which is why only C05 uses them); they
    exercise the re-attachment of
    break nodes below a switch and the clean-up of nested sub graphs"""
    import itertools
    for between, own, rev, after, tail, inner2 in itertools.product([0, 1], repeat=6):
        ng = NameGen()

        def E() -> Any:
            return ["ev", ng.fresh()]
        a, b = E(), E()
        inner = ["loop", ["seq", [E()] + ([E()] if inner2 else [])]]
        body = [b, inner] + ([E()] if between else [])
        brk = ([E()] if own else []) + [["brk"]]
        xor = ["fork", "XOR", [["seq", brk], ["seq", [E()]]]]
        if rev:
            xor[2].reverse()
        body.append(xor)
        if after:
            body.append(E())
        yield ["seq", [a, ["loop", ["seq", body]]] + ([E()] if tail else [])]


def enumerate_loop_tails() -> Iterator[Any]:
    """loops that end in a fork (and loops with a break), placed in every kind of surrounding: followed by an event,
    as the last statement of an enclosing loop body (followed or not inside it), and as the tail of an XOR / AND /
    OR fork branch — the places where the exit evidence of a loop is assembled differently"""
    def E(ng: NameGen) -> Any:
        return ["ev", ng.fresh()]

    bodies = []
    for op in ("AND", "OR", "XOR"):
        for nb in (2, 3):
            bodies.append(("fork", op, nb))
    bodies.append(("brk", "XOR", 2))
    for kind, op, nb in bodies:
        for ctx_kind in ("followed", "nested_last", "nested_then", "in_XOR", "in_AND", "in_OR"):
            ng = NameGen()
            a = E(ng)
            if kind == "fork":
                tail = ["fork", op, [["seq", [E(ng)]] for _ in range(nb)]]
            else:
                tail = ["fork", "XOR", [["seq", [E(ng), ["brk"]]], ["seq", [E(ng)]]]]
            inner = ["loop", ["seq", [E(ng), tail]]]
            if ctx_kind == "followed":
                d = [a, inner, E(ng)]
            elif ctx_kind == "nested_last":
                d = [a, ["loop", ["seq", [E(ng), inner]]], E(ng)]
            elif ctx_kind == "nested_then":
                d = [a, ["loop", ["seq", [E(ng), inner, E(ng)]]], E(ng)]
            else:
                fop = ctx_kind.split("_")[1]
                d = [a, ["fork", fop, [["seq", [E(ng), inner]], ["seq", [E(ng)]]]], E(ng)]
            yield ["seq", d]


# ------------------------------------------------------------------------------------------------
# corpus


def corpus_files() -> list[Path]:
    """the definitions of end-to-end-pumls that neither contain branch counts nor are expected upstream to yield
    them (read from the upstream test files with `ast`)"""
    files = sorted(p for p in CORPUS_DIR.rglob("*.puml") if "BCNT" not in p.read_text())
    expect_bcnt: set[str] = set()
    tests = REPO / "tests" / "tel2puml" / "pv_to_puml" / "end-to-end-tests"
    bc_names = {p.name for p in CORPUS_DIR.rglob("*.puml") if "BCNT" in p.read_text()}
    for tf in sorted(tests.rglob("test_*.py")):
        try:
            tree = ast.parse(tf.read_text())
        except SyntaxError:
            continue
        for node in ast.walk(tree):
            if isinstance(node, ast.Call):
                strs = [a.value for a in ast.walk(node) if isinstance(a, ast.Constant) and isinstance(a.value, str)
                        and a.value.endswith(".puml")]
                names = {Path(s).name for s in strs}
                if names & bc_names:
                    expect_bcnt |= names
    return [p for p in files if p.name not in expect_bcnt]


# ------------------------------------------------------------------------------------------------
# Lean diagram model


def lean(reqs: list[dict[str, Any]], timeout: int = 3600) -> list[dict[str, Any]]:
    return LeanSide.drive(reqs, timeout=timeout)


def jobs_to_pv(jobs: list[list[dict[str, Any]]], tag: str = "") -> list[list[dict[str, Any]]]:
    out = []
    for k, job in enumerate(jobs):
        jid = f"job{tag}{k}"
        out.append([{"jobId": jid, "eventId": f"{jid}-e{n['id']}", "eventType": n["typ"],
                     "timestamp": "2024-01-01T00:00:00.000000Z", "applicationName": "app", "jobName": "wf",
                     "previousEventIds": [f"{jid}-e{p}" for p in n["prev"]]} for n in job])
    return out


def pv_to_model_jobs(pv_jobs: list[list[dict[str, Any]]]) -> list[list[dict[str, Any]]]:
    """PV events -> jobs of the Lean model (numeric ids)"""
    out = []
    for job in pv_jobs:
        idx = {e["eventId"]: i for i, e in enumerate(job)}
        out.append([{"id": idx[e["eventId"]], "typ": e["eventType"],
                     "prev": [idx[p] for p in (e.get("previousEventIds") or [])]} for e in job])
    return out


# ------------------------------------------------------------------------------------------------
# the real learner in worker processes


WORKER_CODE = r"""
import sys, json, os, signal, random, uuid, traceback
sys.path[:0] = json.loads(sys.argv[1])
os.environ.setdefault("TQDM_DISABLE", "1")
import logging
logging.disable(logging.CRITICAL)
import tel2puml.events as _ev, tel2puml.logic_detection as _ld
import tel2puml.pv_to_puml.walk_puml_graph.node as _nd
from tel2puml.pv_to_puml import pv_to_puml as _p
from tel2puml.events import load_events_from_file, save_events_to_file, events_to_raw_input
from tel2puml.loop_detection.detect_loops import detect_loops
from tel2puml.events import create_graph_from_events
from tel2puml.pv_to_puml.data_ingestion import update_and_create_events_from_clustered_pvevents
from copy import deepcopy

class _Rng:
    def __init__(self): self.r = random.Random(0)
    def seed(self, s): self.r = random.Random(s)
    def uuid4(self): return uuid.UUID(int=self.r.getrandbits(128), version=4)
_rng = _Rng()
for _m in (_ev, _ld, _nd):
    _m.uuid4 = _rng.uuid4

class _Timeout(Exception): pass
def _alarm(*a): raise _Timeout()
signal.signal(signal.SIGALRM, _alarm)

def export_puml_graph(g):
    # the PUML graph as the Lean writer model reads it: nodes in insertion order, successors in the order the edges were added
    from tel2puml.puml_graph import PUMLEventNode, PUMLOperatorNode, PUMLKillNode
    from tel2puml.tel2puml_types import PUMLEvent
    nodes = list(g.nodes)
    idx = {id(n): i for i, n in enumerate(nodes)}
    out = []
    for n in nodes:
        if isinstance(n, PUMLEventNode):
            brk = PUMLEvent.BREAK in n.event_types
            if n.extra_info.get("is_branch", False):
                out.append(["unsupported", "branch event"])
            elif n.sub_graph is not None:
                out.append(["sub", PUMLEvent.LOOP in n.event_types, export_puml_graph(n.sub_graph), brk])
            else:
                out.append(["ev", n.node_type, brk])
        elif isinstance(n, PUMLOperatorNode):
            out.append(["oper", n.operator_type.value[0], n.operator_type.value[1]])
        elif isinstance(n, PUMLKillNode):
            out.append(["kill"])
        else:
            out.append(["unsupported", type(n).__name__])
    return {"nodes": out, "adj": [[idx[id(m)] for m in g.adj[n]] for n in nodes]}

_written = []
def _capture_writer():
    from tel2puml.puml_graph import PUMLGraph
    if getattr(PUMLGraph, "_o2p_wrapped", False):
        return
    orig = PUMLGraph.write_puml_string
    def wrapped(self, name="default_name", tab_size=4):
        try:
            exp = export_puml_graph(self)
        except Exception as ex:
            exp = {"export_error": repr(ex)[:200]}
        text = orig(self, name, tab_size)
        _written.append({"graph": exp, "name": name, "tab": tab_size, "text": text})
        return text
    PUMLGraph.write_puml_string = wrapped
    PUMLGraph._o2p_wrapped = True

def build_spec_graph(spec):
    # a PUML graph from a plain description, through the graph's own constructors and node classes
    from tel2puml.puml_graph import PUMLGraph, PUMLOperatorNode
    from tel2puml.tel2puml_types import PUMLEvent, PUMLOperatorNodes
    g = PUMLGraph()
    made = []
    for nd in spec["nodes"]:
        if nd[0] == "ev":
            made.append(g.create_event_node(nd[1], event_types=PUMLEvent.BREAK if nd[2] else None))
        elif nd[0] == "sub":
            types = tuple(t for t, on in ((PUMLEvent.LOOP, nd[1]), (PUMLEvent.BREAK, nd[3])) if on)
            made.append(g.create_event_node("LOOP" if nd[1] else "SUB", event_types=types or None,
                                            sub_graph=build_spec_graph(nd[2])))
        elif nd[0] == "oper":
            ot = PUMLOperatorNodes((nd[1], nd[2]))
            n = PUMLOperatorNode(operator_type=ot, occurrence=g.get_occurrence_count(ot.value))
            g.add_puml_node(n)
            g.increment_occurrence_count(ot.value)
            made.append(n)
        elif nd[0] == "kill":
            made.append(g.create_kill_node())
        else:
            raise ValueError("node " + str(nd[0]))
    for u, vs in enumerate(spec["adj"]):
        for v in vs:
            g.add_puml_edge(made[u], made[v])
    return g

def dump_model(events):
    return sorted(({"typ": e.event_type,
             "outs": sorted(sorted(s.to_list()) for s in e.event_sets),
             "ins": sorted(sorted(s.to_list()) for s in e.in_event_sets)} for e in events.values()),
            key=lambda d: d["typ"])

def loops_of(graph, path=""):
    from tel2puml.loop_detection.loop_types import LoopEvent
    import networkx as nx
    DUM = ("|||START|||", "|||END|||", "DUMMY_BREAK", "|||DUMMY|||")
    def nm(n):
        return (path + "/" + n.event_type) if isinstance(n, LoopEvent) else n.event_type
    def kind(n):
        if isinstance(n, LoopEvent): return "loop"
        return "dummy" if n.event_type in DUM else "event"     # exact: a user's event may be named |||AUDIT|||
    nodes = list(graph.nodes)
    # distinct dummy nodes may carry one name (a body can hold two |||END||| nodes): number the repeats, the graph
    # the Lean checkers see must have one vertex per node of the returned graph
    _seen, _alias = {}, {}
    for n in nodes:
        if not isinstance(n, LoopEvent) and kind(n) == "dummy":
            k = _seen.get(n.event_type, 0)
            _seen[n.event_type] = k + 1
            if k:
                _alias[id(n)] = n.event_type + "#" + str(k + 1)
    _nm0 = nm
    def nm(n):
        return _alias.get(id(n)) or _nm0(n)
    try:
        order = [nm(n) for n in nx.topological_sort(graph)]
    except Exception:
        order = None
    out = {"nodes": [{"name": nm(n), "kind": kind(n)} for n in nodes],
           "edges": sorted([nm(u), nm(v)] for u, v in graph.edges),
           "topo": order, "loops": {}}
    for n in nodes:
        if isinstance(n, LoopEvent):
            out["loops"][nm(n)] = loops_of(n.sub_graph, nm(n))
    return out

def handle(req):
    _rng.seed(req.get("uuid_seed", 0))
    op = req["op"]
    if op == "learn":
        events = {}
        texts = []
        for chunk in req["chunks"]:
            if req.get("through_files"):
                # every chunk boundary crosses the model file
                path = req["model_path"]
                if os.path.exists(path):
                    _, events = load_events_from_file(path)
            if req.get("want_graph"):
                _capture_writer()
                del _written[:]
            text = _p.pv_to_puml_string(chunk, req.get("name", "wf"), events=events)
            texts.append(text)
            if req.get("through_files"):
                save_events_to_file(req.get("name", "wf"), events, req["model_path"])
        rep = {"text": texts[-1], "texts": texts, "model": dump_model(events)}
        if req.get("want_graph") and _written:
            rep["written"] = _written[-1]
        if req.get("through_files"):
            with open(req["model_path"]) as f:
                rep["file"] = json.load(f)
            os.remove(req["model_path"])
        return rep
    if op == "cli":
        # the real command line: argparse + main_handler, output captured
        import io, contextlib
        from tel2puml import __main__ as cli
        buf = io.StringIO()
        code = 0
        with contextlib.redirect_stdout(buf), contextlib.redirect_stderr(buf):
            try:
                args = cli.parser.parse_args(req["argv"])
                cli.main_handler(vars(args), cli.ERROR_MESSAGES)
            except SystemExit as ex:
                code = ex.code if isinstance(ex.code, int) else 1
        return {"exit": code, "output": buf.getvalue()[-1500:]}
    if op == "otel_to_pv":
        import io, contextlib, yaml
        from tel2puml.otel_to_pv.config import IngestDataConfig
        from tel2puml.otel_to_pv.otel_to_pv import otel_to_pv
        with open(req["config"]) as f:
            config = IngestDataConfig(**yaml.safe_load(f))
        buf = io.StringIO()
        out = []
        with contextlib.redirect_stdout(buf), contextlib.redirect_stderr(buf):
            for name, streams in otel_to_pv(config, ingest_data=True):
                for pvs in streams:
                    out.append([name, [dict(p) for p in pvs]])
        return {"jobs": out}
    if op == "load_pv_files":
        # the project's own reader of saved PV job files (what pv2puml uses)
        from tel2puml.pv_to_puml.pv_to_puml import pv_job_file_to_event_sequence
        from tel2puml.tel2puml_types import PVEventMappingConfig
        mc = PVEventMappingConfig(**req["mapping"]) if req.get("mapping") else PVEventMappingConfig()
        return {"jobs": [[dict(e) for e in pv_job_file_to_event_sequence(f, mc)] for f in req["files"]]}
    if op == "gates":
        # calculate_logic_gates on a batch of families (each a list of lists of event types)
        from tel2puml.events import EventSet
        from tel2puml.logic_detection import calculate_logic_gates
        def tree(n):
            if n is None: return None
            if n.operator is None: return str(n.label) if n.label is not None else "tau"
            return [str(n.operator.value)] + [tree(c) for c in n.children]
        out = []
        for fam in req["families"]:
            try:
                out.append({"tree": tree(calculate_logic_gates({EventSet(list(s)) for s in fam}))})
            except BaseException as ex:
                out.append({"error": f"{type(ex).__name__}: {str(ex)[:200]}"})
        return {"results": out}
    if op == "gates_raw":
        # the miner's raw tree (below the start event) and what the repository's post-processing makes of it
        from tel2puml.events import EventSet
        from tel2puml.logic_detection import (calculate_process_tree_from_event_sets,
                                              reduce_process_tree_to_preferred_logic_gates,
                                              calculate_repeats_in_tree)
        def dump(n):
            if n.operator is None:
                return n.label
            o = str(n.operator.value)
            return [{"+": "+", "O": "O", "X": "X"}.get(o, "?")] + [dump(c) for c in n.children]
        out = []
        for fam in req["families"]:
            try:
                es = {EventSet(list(s)) for s in fam}
                pt = calculate_process_tree_from_event_sets(es)
                raw = dump(pt.children[1])
                tree = reduce_process_tree_to_preferred_logic_gates(es, pt)
                final = calculate_repeats_in_tree(es, tree)
                out.append({"raw": raw, "final": dump(final)})
            except BaseException as ex:
                out.append({"error": f"{type(ex).__name__}: {str(ex)[:200]}"})
        return {"results": out}
    if op == "infer_or":
        # infer_or_gate_from_node on the root / get_extended_or_gates_from_process_tree on the whole tree
        from tel2puml.events import EventSet
        from tel2puml.logic_detection import (infer_or_gate_from_node, get_extended_or_gates_from_process_tree,
                                              Operator)
        from pm4py.objects.process_tree.obj import ProcessTree
        OPS = {"+": Operator.PARALLEL, "O": Operator.OR, "X": Operator.XOR, "->": Operator.SEQUENCE}
        def build(t, parent=None):
            if t is None:
                return ProcessTree(parent=parent)
            if isinstance(t, str):
                return ProcessTree(label=t, parent=parent)
            n = ProcessTree(OPS[t[0]], parent, [])
            n.children = [build(c, n) for c in t[1:]]
            return n
        def dump(n):
            if n.operator is None:
                return n.label
            o = n.operator.value
            return [{"+": "+", "O": "O", "X": "X"}.get(o, "?")] + [dump(c) for c in n.children]
        out = []
        for sets, tree in req["inputs"]:
            es = {EventSet(list(x)) for x in sets}
            try:
                a = build(tree)
                infer_or_gate_from_node(es, a)
                b = build(tree)
                get_extended_or_gates_from_process_tree(es, b)
                out.append({"node": dump(a), "all": dump(b)})
            except BaseException as ex:
                out.append({"error": f"{type(ex).__name__}: {str(ex)[:160]}"})
        return {"results": out}
    if op == "cover":
        # utils.get_weighted_cover on a batch of (event sets, universe); None / the cover as sorted lists
        from tel2puml.utils import get_weighted_cover
        from tel2puml.events import EventSet
        from tel2puml.logic_detection import process_missing_and_gates, Operator
        from pm4py.objects.process_tree.obj import ProcessTree
        out, trees = [], []
        for sets, uni in req["inputs"]:
            try:
                r = get_weighted_cover({frozenset(x) for x in sets}, frozenset(uni))
                out.append(None if r is None else sorted(sorted(x) for x in r))
            except BaseException as ex:
                out.append({"error": f"{type(ex).__name__}: {str(ex)[:120]}"})
            # the caller: an OR over the universe's events, rebuilt from the cover of the observed sets below it
            try:
                root = ProcessTree(Operator.OR, None, [])
                root.children = [ProcessTree(label=x, parent=root) for x in uni]
                process_missing_and_gates({EventSet(list(x)) for x in sets}, root)
                trees.append(sorted(sorted(str(g.label) for g in ch.children) if ch.operator is not None
                                    else [str(ch.label)] for ch in root.children)
                             + [str(root.operator.value)])
            except BaseException as ex:
                trees.append({"error": f"{type(ex).__name__}: {str(ex)[:120]}"})
        return {"results": out, "trees": trees}
    if op == "ingest":
        if "flat" in req:
            # one flat stream of events, jobs interleaved: clustered by the project's own cluster_events_by_job_id
            from tel2puml.pv_to_puml.data_ingestion import cluster_events_by_job_id
            jobs = list(cluster_events_by_job_id(req["flat"]).values())
        else:
            jobs = req["jobs"]
        events = update_and_create_events_from_clustered_pvevents(jobs, add_dummy_start=True)
        return {"model": dump_model(events), "file": events_to_raw_input(events)}
    if op == "write_blk":
        # the real writer (PUMLGraph.write_puml_string) on PUML graphs built, with the graph's own constructors, from
        # block structures: events, AND/OR/XOR operator pairs, LOOP nodes with sub graphs, break events, kill nodes
        from tel2puml.puml_graph import PUMLGraph
        from tel2puml.tel2puml_types import PUMLEvent, PUMLOperator
        OPS = {"AND": PUMLOperator.AND, "OR": PUMLOperator.OR, "XOR": PUMLOperator.XOR}

        def emit_seq(g, items, prev):
            i = 0
            while i < len(items):
                it = items[i]
                if it[0] == "ev":
                    brk = i + 1 < len(items) and items[i + 1][0] == "brk"
                    n = g.create_event_node(it[1], event_types=PUMLEvent.BREAK if brk else None)
                    for q in prev:
                        g.add_puml_edge(q, n)
                    prev = [n]       # a break event still leads to its fork's end node: the nesting stays closed
                    i += 2 if brk else 1
                    continue
                if it[0] == "detach":
                    n = g.create_kill_node()
                    for q in prev:
                        g.add_puml_edge(q, n)
                    prev = [n]
                elif it[0] == "fork":
                    st, en = g.create_operator_node_pair(OPS[it[1]])
                    for q in prev:
                        g.add_puml_edge(q, st)
                    for br in it[2]:
                        for x in emit_seq(g, br[1], [st]):
                            g.add_puml_edge(x, en)
                    prev = [en]
                elif it[0] == "loop":
                    sub = PUMLGraph()
                    emit_seq(sub, it[1][1], [])
                    n = g.create_event_node("LOOP", event_types=PUMLEvent.LOOP, sub_graph=sub)
                    for q in prev:
                        g.add_puml_edge(q, n)
                    prev = [n]
                else:
                    raise ValueError("item " + str(it[0]))
                i += 1
            return prev
        out = []
        for blk in req["blks"]:
            try:
                g = PUMLGraph()
                emit_seq(g, blk[1], [])
                out.append({"text": g.write_puml_string("wf"), "graph": export_puml_graph(g)})
            except Exception as ex:
                out.append({"error": f"{type(ex).__name__}: {str(ex)[:200]}"})
        return {"results": out}
    if op == "write_spec":
        out = []
        for spec in req["specs"]:
            try:
                g = build_spec_graph(spec)
            except Exception as ex:
                out.append({"build_error": f"{type(ex).__name__}: {str(ex)[:200]}"})
                continue
            exp = export_puml_graph(g)
            try:
                out.append({"text": g.write_puml_string(spec.get("name", "wf"), spec.get("tab", 4)), "graph": exp})
            except Exception as ex:
                out.append({"raises": f"{type(ex).__name__}: {str(ex)[:200]}", "graph": exp})
        return {"results": out}
    if op == "loops":
        events = update_and_create_events_from_clustered_pvevents(req["jobs"], add_dummy_start=True)
        g = create_graph_from_events(deepcopy(events).values())
        import networkx as nx
        sccs = [sorted(n.event_type for n in c) for c in nx.strongly_connected_components(g) if len(c) > 1 or
                any(g.has_edge(n, n) for n in c)]
        in_edges = sorted([u.event_type, v.event_type] for u, v in g.edges)
        in_nodes = sorted(n.event_type for n in g.nodes)
        nested = detect_loops(g)
        return {"input_nodes": in_nodes, "input_edges": in_edges, "sccs": sccs,
                "nest": loops_of(nested)}
    raise ValueError(op)

for line in sys.stdin:
    req = json.loads(line)
    signal.alarm(int(req.get("timeout", 20)))
    try:
        rep = handle(req)
    except _Timeout:
        rep = {"error": "timeout"}
    except BaseException as ex:
        rep = {"error": f"{type(ex).__name__}: {str(ex)[:300]}", "trace": traceback.format_exc()[-1500:]}
    finally:
        signal.alarm(0)
    sys.stdout.write(json.dumps(rep) + "\n")
    sys.stdout.flush()
"""


class Worker:
    """one interpreter with a pinned hash seed, answering one request per line"""

    def __init__(self, hash_seed: int) -> None:
        env = {**os.environ, "PYTHONHASHSEED": str(hash_seed), "TQDM_DISABLE": "1", "O2P_VERIF": "1"}
        self.hash_seed = hash_seed
        import tempfile
        self.errf = tempfile.TemporaryFile()
        self.p = subprocess.Popen([sys.executable, "-c", WORKER_CODE, json.dumps([str(REPO), str(SHIM)])],
                                  stdin=subprocess.PIPE, stdout=subprocess.PIPE, stderr=self.errf,
                                  text=True, env=env)

    def send(self, req: dict[str, Any]) -> None:
        assert self.p.stdin is not None
        self.p.stdin.write(json.dumps(req) + "\n")
        self.p.stdin.flush()

    def recv(self) -> dict[str, Any]:
        assert self.p.stdout is not None
        line = self.p.stdout.readline()
        if not line:
            # say how it ended: exit status (negative = signal) and the end of its stderr
            tail = ""
            try:
                rc = self.p.wait(timeout=5)
                self.errf.seek(0, 2)
                n = self.errf.tell()
                self.errf.seek(max(0, n - 600))
                tail = self.errf.read().decode("utf-8", "replace")
            except Exception:  # noqa: BLE001
                rc = None
            return {"error": "worker died", "exit_status": rc, "stderr_tail": tail}
        return json.loads(line)

    def close(self) -> None:
        try:
            if self.p.stdin:
                self.p.stdin.close()
            self.p.wait(timeout=5)
        except Exception:  # noqa: BLE001
            self.p.kill()


def run_requests(reqs: list[dict[str, Any]], n_workers: int = 14) -> list[dict[str, Any]]:
    """each request names its hash seed (`hash_seed`); requests of one seed go to workers started with it.
    Work is spread over up to n_workers processes; replies come back in request order."""
    from concurrent.futures import ThreadPoolExecutor

    by_seed: dict[int, list[int]] = {}
    for i, r in enumerate(reqs):
        by_seed.setdefault(int(r.get("hash_seed", 0)), []).append(i)
    # split every seed's requests into shards so that all cores are used
    shards: list[tuple[int, list[int]]] = []
    total = max(1, len(reqs))
    for seed, idxs in by_seed.items():
        # workers in proportion to the seed's share of the requests (a seed with few requests gets one)
        per = max(1, round(n_workers * len(idxs) / total))
        k = min(per, max(1, len(idxs) // 4))
        for s in range(k):
            part = idxs[s::k]
            if part:
                shards.append((seed, part))
    out: list[dict[str, Any]] = [{} for _ in reqs]

    def work(shard: tuple[int, list[int]]) -> None:
        seed, idxs = shard
        w = Worker(seed)
        try:
            for i in idxs:
                w.send(reqs[i])
                rep = w.recv()
                if rep.get("error") == "worker died":
                    # the interpreter exited without an answer (a crash below Python, or a per-process limit of a
                    # library reached after many requests): ask once more in a fresh interpreter; a request that
                    # kills a fresh interpreter too is reported as such
                    w.close()
                    w = Worker(seed)
                    w.send(reqs[i])
                    rep = w.recv()
                    if rep.get("error") == "worker died":
                        rep["error"] = (f"worker died twice (exit status {rep.get('exit_status')}): "
                                        f"{str(rep.get('stderr_tail'))[-300:]}")
                        w.close()
                        w = Worker(seed)
                out[i] = rep
        finally:
            w.close()

    with ThreadPoolExecutor(max_workers=n_workers) as ex:
        list(ex.map(work, shards))
    return out


def run_requests_fresh(reqs: list[dict[str, Any]], n_workers: int = 14) -> list[dict[str, Any]]:
    """like run_requests, but every request gets an interpreter of its own (no state shared between requests)"""
    from concurrent.futures import ThreadPoolExecutor

    def one(q: dict[str, Any]) -> dict[str, Any]:
        w = Worker(int(q.get("hash_seed", 0)))
        try:
            w.send(q)
            return w.recv()
        finally:
            w.close()

    with ThreadPoolExecutor(max_workers=n_workers) as ex:
        return list(ex.map(one, reqs))


PLACEHOLDERS = re.compile(r"\|\|\||DUMMY|LOOP_\d|START\b|^\s*:LOOP", re.M)
