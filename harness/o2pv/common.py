"""Shared machinery of the otel2puml verification harness (see /verif/DESIGN.md §3, §8).

Every check does: translate -> prove (lake build + axiom audit) -> correspond/search -> report.
"""
from __future__ import annotations

import hashlib
import json
import os
import random
import re
import subprocess
import sys
import time
from pathlib import Path
from typing import Any, Callable, Iterable

VERIF = Path(__file__).resolve().parents[2]
REPO = Path(os.environ.get("O2P_REPO", "/repo"))
LEAN = VERIF / "lean"
SHIM = VERIF / "harness" / "shim"
EVIDENCE = VERIF / "evidence"
REPLAY = VERIF / "replay"
FINDINGS = VERIF / "known_findings.jsonl"
DRIVER = LEAN / ".lake" / "build" / "bin" / "o2pdriver"
ALLOWED_AXIOMS = {"propext", "Classical.choice", "Quot.sound"}
FORBIDDEN = re.compile(
    r"\bsorry\b|\badmit\b|^\s*axiom\s|native_decide|bv_decide|implemented_by|\bunsafe\s|maxHeartbeats\s+0\b",
    re.M,
)


def setup_paths() -> None:
    """Import the implementation from /repo's working tree, janus stand-in after it."""
    for p in (str(SHIM), str(REPO)):
        if p in sys.path:
            sys.path.remove(p)
    sys.path[:0] = [str(REPO), str(SHIM)]
    os.environ.setdefault("O2P_VERIF", "1")
    os.environ.setdefault("TQDM_DISABLE", "1")
    import logging
    logging.getLogger("tel2puml").setLevel(logging.CRITICAL)
    logging.getLogger().setLevel(logging.CRITICAL)


def canon_key(obj: Any) -> str:
    return hashlib.sha256(json.dumps(obj, sort_keys=True, default=str).encode()).hexdigest()[:16]


def strip_lean_comments(src: str) -> str:
    out, i, depth = [], 0, 0
    while i < len(src):
        if src.startswith("/-", i):
            depth += 1
            i += 2
        elif depth and src.startswith("-/", i):
            depth -= 1
            i += 2
        elif depth:
            if src[i] == "\n":
                out.append("\n")
            i += 1
        elif src.startswith("--", i):
            while i < len(src) and src[i] != "\n":
                i += 1
        else:
            out.append(src[i])
            i += 1
    return "".join(out)


class LeanSide:
    """lake build, axiom audit, and the model driver."""

    @staticmethod
    def run(cmd: list[str], timeout: int = 3600, input_: str | None = None) -> tuple[int, str]:
        p = subprocess.run(
            cmd, cwd=LEAN, input=input_, capture_output=True, text=True, timeout=timeout
        )
        return p.returncode, p.stdout + p.stderr

    @classmethod
    def build(cls, targets: list[str]) -> tuple[bool, str]:
        rc, out = cls.run(["lake", "build", *targets])
        return rc == 0, out

    @classmethod
    def audit(cls, prop: str) -> tuple[dict[str, list[str]], str]:
        """`#print axioms` for every property theorem listed in O2P/Audit/<prop>.lean."""
        rc, out = cls.run(["lake", "env", "lean", f"O2P/Audit/{prop}.lean"])
        res: dict[str, list[str]] = {}
        for m in re.finditer(
            r"'([^']+)' depends on axioms: \[([^\]]*)\]|'([^']+)' does not depend on any axioms", out
        ):
            if m.group(1):
                res[m.group(1)] = [a.strip() for a in m.group(2).replace("\n", " ").split(",") if a.strip()]
            else:
                res[m.group(3)] = []
        if rc != 0:
            res["__error__"] = [out[-2000:]]
        return res, out

    @staticmethod
    def scan_forbidden() -> list[str]:
        hits = []
        for f in sorted(list((LEAN / "O2P").rglob("*.lean")) + [LEAN / "Driver.lean", LEAN / "O2P.lean"]):
            src = strip_lean_comments(f.read_text())
            for m in FORBIDDEN.finditer(src):
                hits.append(f"{f.relative_to(LEAN)}: {m.group(0).strip()}")
        return hits

    @classmethod
    def drive(cls, requests: Iterable[dict[str, Any]], timeout: int = 3600) -> list[dict[str, Any]]:
        """One JSON request per line to the compiled model driver, one JSON reply per line."""
        reqs = list(requests)
        if not reqs:
            return []
        data = "".join(json.dumps(r, separators=(",", ":")) + "\n" for r in reqs)
        if DRIVER.exists():
            cmd = [str(DRIVER)]
        else:  # fall-back: interpreted
            cmd = ["lake", "env", "lean", "--run", "Driver.lean"]
        p = subprocess.run(cmd, cwd=LEAN, input=data, capture_output=True, text=True, timeout=timeout)
        lines = [ln for ln in p.stdout.split("\n") if ln.strip()]
        if p.returncode != 0 or len(lines) != len(reqs):
            raise RuntimeError(
                f"model driver failed rc={p.returncode} replies={len(lines)}/{len(reqs)}: {p.stderr[-800:]}"
            )
        return [json.loads(ln) for ln in lines]


class Ctx:
    """State of one check run: counts, samples, violations, evidence."""

    def __init__(self, prop: str, tier: str, seed: int, level: str) -> None:
        self.prop, self.tier, self.seed, self.level = prop, tier, seed, level
        self.rng = random.Random(f"{prop}:{seed}")
        self.t0 = time.time()
        self.cov: dict[str, Any] = {
            "evaluations": 0,
            "distinct_nontrivial": 0,
            "rule": "",
            "samples": [],
            "traces_validated_against_impl": 0,
        }
        self._distinct: set[str] = set()
        self.assumptions: list[str] = []
        self.violations: list[dict[str, Any]] = []
        self.broken_ties: list[str] = []
        self.known_hits: list[str] = []
        self.findings = self._load_findings()
        self.dist: dict[str, int] = {}
        self.obligations: list[str] = []
        self.discharged: list[str] = []
        self.axioms: dict[str, list[str]] = {}
        self.max_violations = 5

    # -- known findings ---------------------------------------------------
    def _load_findings(self) -> list[dict[str, Any]]:
        out = []
        if FINDINGS.exists():
            for ln in FINDINGS.read_text().splitlines():
                ln = ln.strip()
                if ln and not ln.startswith("#"):
                    out.append(json.loads(ln))
        return [f for f in out if f.get("property") == self.prop and f.get("status") == "known"]

    # -- counting ---------------------------------------------------------
    def tick(self, kind: str, n: int = 1) -> None:
        self.dist[kind] = self.dist.get(kind, 0) + n

    def case(self, canon: Any, nontrivial: bool, sample: Any = None, validated: bool = True) -> None:
        self.cov["evaluations"] += 1
        if validated:
            self.cov["traces_validated_against_impl"] += 1
        if nontrivial:
            k = canon if isinstance(canon, str) else canon_key(canon)
            if k not in self._distinct:
                self._distinct.add(k)
        if sample is not None and len(self.cov["samples"]) < 6:
            self.cov["samples"].append(sample)

    # -- proving ----------------------------------------------------------
    def prove(self, modules: list[str], theorems: list[str], audit_name: str | None = None) -> bool:
        """Build the property's Lean modules and audit the axioms of its theorems."""
        self.obligations = list(theorems)
        ok, out = LeanSide.build(modules + [f"O2P.Audit.{audit_name or self.prop}", "o2pdriver"])
        if not ok:
            self.broken_ties.append("lake build failed: " + out[-1500:])
            return False
        hits = LeanSide.scan_forbidden()
        if hits:
            self.broken_ties.append("forbidden token in Lean sources: " + "; ".join(hits[:5]))
            return False
        ax, raw = LeanSide.audit(audit_name or self.prop)
        if "__error__" in ax:
            self.broken_ties.append("axiom audit failed: " + ax["__error__"][0])
            return False
        good = True
        for th in theorems:
            if th not in ax:
                self.broken_ties.append(f"theorem {th} missing from audit output")
                good = False
                continue
            bad = [a for a in ax[th] if a not in ALLOWED_AXIOMS]
            if bad:
                self.broken_ties.append(f"theorem {th} depends on disallowed axioms {bad}")
                good = False
            else:
                self.discharged.append(th)
                self.axioms[th] = ax[th]
        return good

    def leanchecker(self, modules: list[str]) -> None:
        rc, out = LeanSide.run(["lake", "env", "leanchecker", *modules], timeout=7200)
        self.cov["leanchecker"] = {"modules": modules, "rc": rc, "tail": out[-300:]}
        if rc != 0:
            self.broken_ties.append("leanchecker rejected " + " ".join(modules) + ": " + out[-800:])

    # -- violations -------------------------------------------------------
    def violation(self, what: str, replay: dict[str, Any], key: Any = None, concrete: bool = True,
                  alt_keys: list[Any] | None = None) -> None:
        """Record a failing input (concrete) or a broken tie without one.  `alt_keys`: further keys under which the
        failing input may be listed as a known finding (a definition can belong to several recorded classes)."""
        k = canon_key(key if key is not None else replay.get("input"))
        ks = [k] + [canon_key(a) for a in (alt_keys or [])]
        for f in self.findings:
            if f.get("key") in ks:
                msg = f"KNOWN-FINDING: property={self.prop} {f.get('what', what)}"
                if msg not in self.known_hits:
                    self.known_hits.append(msg)
                self.known_count = getattr(self, "known_count", 0) + 1
                return
        # separate budgets: disagreements between model and code must never crowd out the search for a
        # concrete failing input on the code itself
        same = [v for v in self.violations if v["concrete"] == concrete]
        if len(same) < self.max_violations:
            self.violations.append({"what": what, "replay": replay, "key": k, "concrete": concrete})

    def is_known(self, key: Any, alt_keys: list[Any] | None = None) -> bool:
        ks = [canon_key(key)] + [canon_key(a) for a in (alt_keys or [])]
        return any(f.get("key") in ks for f in self.findings)

    def too_many(self) -> bool:
        return len([v for v in self.violations if v["concrete"]]) >= self.max_violations

    # -- reporting --------------------------------------------------------
    def finish(self) -> int:
        # one would-be violation that a fresh interpreter does not reproduce is a glitch (counted in the evidence);
        # several in one run mean that the answers depend on what the process did before — state carried from one
        # call to the next — which no property allows
        unrep = self.cov.get("unreproduced", [])
        if len(unrep) >= 3:
            self.violation(f"{len(unrep)} would-be violations did not reproduce in fresh interpreters: the answers are "
                           f"not a function of the request (state carried over between calls in one process?), "
                           f"e.g. {unrep[0].get('first_verdict', '')[:160]}",
                           {"input": {"unreproduced": unrep[:5]}}, key=("unreproduced", self.prop))
        self.cov["distinct_nontrivial"] = len(self._distinct)
        self.cov["input_distribution"] = self.dist
        self.cov["known_finding_cases"] = getattr(self, "known_count", 0)
        if self.level == "proof" or self.obligations:
            self.cov["obligations"] = len(self.obligations)
            self.cov["discharged"] = len(self.discharged)
            self.cov["theorems"] = self.discharged
            self.cov["checker_cmd"] = (
                "cd /verif/lean && lake build && lake env lean O2P/Audit/%s.lean" % self.prop
            )
            tb = sorted({a for v in self.axioms.values() for a in v})
            self.cov["trusted_base"] = [
                "Lean 4.33.0 kernel",
                "axioms used by the property theorems: " + (", ".join(tb) if tb else "none"),
                "hand-written Lean model tied to /repo by the translator and the correspondence run of this check",
            ]
        if self.level == "translation_validation":
            self.cov.setdefault("programs", self.cov["evaluations"])
            self.cov.setdefault("disagreements_checked", len(self.violations))
        rc = 0
        lines = []
        REPLAY.mkdir(exist_ok=True)
        concrete = [v for v in self.violations if v["concrete"]]
        if concrete:
            for i, v in enumerate(concrete):
                path = REPLAY / f"{self.prop}_{self.tier}_{self.seed}_{i}.json"
                v["replay"].update({"property": self.prop, "tier": self.tier, "seed": self.seed,
                                    "what": v["what"], "broken_ties": self.broken_ties})
                path.write_text(json.dumps(v["replay"], indent=1, default=str))
                lines.append(f"VIOLATION property={self.prop} replay={path} {v['what'][:200]}")
            rc = 1
        elif self.broken_ties or self.violations:
            path = REPLAY / f"{self.prop}_{self.tier}_{self.seed}_tie.json"
            path.write_text(json.dumps({
                "property": self.prop, "tier": self.tier, "seed": self.seed,
                "no_longer_checks": self.broken_ties + [v["what"] for v in self.violations],
                "disagreements": [v["replay"] for v in self.violations],
            }, indent=1, default=str))
            lines.append(f"VIOLATION property={self.prop} replay={path} no-failing-input-found")
            rc = 1
        ev = {
            "property_id": self.prop,
            "tier": self.tier,
            "seed": self.seed,
            "level": self.level,
            "coverage": self.cov,
            "assumptions": self.assumptions,
            "wall_s": round(time.time() - self.t0, 2),
            "violations": len(self.violations) + (1 if self.broken_ties and not self.violations else 0),
        }
        EVIDENCE.mkdir(exist_ok=True)
        (EVIDENCE / f"{self.prop}.json").write_text(json.dumps(ev, indent=1, default=str))
        for m in self.known_hits:
            print(m)
        for ln in lines:
            print(ln)
        print(
            f"{self.prop} {self.tier} seed={self.seed}: evaluations={self.cov['evaluations']} "
            f"distinct_nontrivial={self.cov['distinct_nontrivial']} theorems={len(self.discharged)}/"
            f"{len(self.obligations)} violations={ev['violations']} wall={ev['wall_s']}s"
        )
        return rc


def shrink_list(items: list[Any], fails: Callable[[list[Any]], bool], budget: int = 200) -> list[Any]:
    """Greedy delta-debugging on a list: drop chunks while the failure persists."""
    cur = list(items)
    n = 2
    while len(cur) >= 2 and budget > 0:
        chunk = max(1, len(cur) // n)
        reduced = False
        for i in range(0, len(cur), chunk):
            cand = cur[:i] + cur[i + chunk:]
            budget -= 1
            if cand and fails(cand):
                cur, n, reduced = cand, max(n - 1, 2), True
                break
            if budget <= 0:
                break
        if not reduced:
            if chunk == 1:
                break
            n = min(n * 2, len(cur))
    return cur
