"""C16 — PV timestamps and OTel nanosecond times convert consistently.

translate -> prove (O2P.Props.C16) -> correspondence of both converters with the Lean model (bit-exact
binary64 path included) -> oracle: independent integer rendering of the instant.
"""
from __future__ import annotations

import importlib
from datetime import datetime, timedelta, timezone
from fractions import Fraction
from typing import Any

from ..common import Ctx, LeanSide
from ..translate import translate

LEVEL = "proof"
THEOREMS = [
    "O2P.Time.fmt_tie",
    "O2P.Time.shape_tie",
    "O2P.Time.parse_format",
    "O2P.Time.toCivil_valid",
    "O2P.Time.ofCivil_toCivil",
    "O2P.Time.parse_formatMicros",
    "O2P.Time.toNanos_exact",
    "O2P.Time.formatMicros_injective",
    "O2P.Time.toNanosOld_cex",
    "O2P.Time.fromNanos_exact",
    "O2P.Time.fromNanos_within",
    "O2P.Time.fromNanos_order",
    "O2P.Time.fromNanos_order_far",
    "O2P.Time.pv_otel_pv",
    "O2P.Time.otel_pv_otel",
]
MAX_DAY = 47847
MAX_MICROS = MAX_DAY * 86400 * 10**6
EPOCH = datetime(1970, 1, 1, tzinfo=timezone.utc)


def expected_string(k: int) -> str:
    """Independent oracle: integer calendar arithmetic, no floats."""
    days, rem = divmod(k, 86400 * 10**6)
    secs, us = divmod(rem, 10**6)
    # civil from days (proleptic Gregorian) by counting, independent of Lean's algorithm
    d = EPOCH.date() + timedelta(days=days)
    h, r = divmod(secs, 3600)
    mi, s = divmod(r, 60)
    return f"{d.year:04d}-{d.month:02d}-{d.day:02d}T{h:02d}:{mi:02d}:{s:02d}.{us:06d}Z"


def boundary_instants() -> list[int]:
    ks: set[int] = set()

    def around(k: int, w: int = 3) -> None:
        for d in range(-w, w + 1):
            if 0 <= k + d < MAX_MICROS:
                ks.add(k + d)

    # binade edges of the nanosecond count and of the second count
    for b in range(0, 63):
        around((1 << b) // 1000)
        around((1 << b) // 1000 + 1, 1)
    for j in range(-20, 33):
        edge = Fraction(2) ** j * 10**6
        around(int(edge))
    # calendar edges: every year start, every leap day, month ends of a leap and a common year
    for y in range(1970, 2101):
        around(int((datetime(y, 1, 1, tzinfo=timezone.utc) - EPOCH).total_seconds()) * 10**6)
        for m, d in ((2, 28), (3, 1), (12, 31)):
            around(int((datetime(y, m, d, tzinfo=timezone.utc) - EPOCH).total_seconds()) * 10**6, 1)
    for y in (1972, 2000, 2024, 2100, 2099):
        for m in range(1, 13):
            around(int((datetime(y, m, 1, tzinfo=timezone.utc) - EPOCH).total_seconds()) * 10**6)
    # second / minute / hour / day edges in the first and last 200 s of the range
    for base in (0, MAX_MICROS - 200 * 10**6):
        for s in range(0, 200):
            around(base + s * 10**6, 2)
    for i in range(0, 2000):
        ks.add(i)
        ks.add(MAX_MICROS - 1 - i)
    return sorted(ks)


def job_back(ks: list[int], j: int, pv_to_tel: Any) -> tuple[list[dict[str, Any]], dict[str, str]]:
    """the PV job with timestamps `ks` (µs) as a chain, and what comes back through pv_event_to_otel + sequence_otel_event_job"""
    from tel2puml.otel_to_pv.otel_to_pv_types import OTelEvent
    from tel2puml.otel_to_pv.sequence_otel import sequence_otel_event_job
    texts = [expected_string(k) for k in ks]
    job = []
    for i, t in enumerate(texts):
        ev: dict[str, Any] = {"jobId": f"j{j}", "eventId": f"j{j}-e{i}", "eventType": f"T{i}", "timestamp": t,
                              "applicationName": "app", "jobName": "job"}
        if i:
            ev["previousEventIds"] = [f"j{j}-e{i - 1}"]
        job.append(ev)
    spans = [pv_to_tel.pv_event_to_otel(e) for e in job]
    kids: dict[str, list[str]] = {sp["span_id"]: [] for sp in spans}
    for sp in spans:
        if "parent_span_id" in sp:
            kids[sp["parent_span_id"]].append(sp["span_id"])
    otel = {sp["span_id"]: OTelEvent(job_name="job", job_id=sp["trace_id"],
                                     event_type=sp["attributes"][0]["value"]["Value"]["StringValue"],
                                     event_id=sp["span_id"], start_timestamp=sp["start_time_unix_nano"],
                                     end_timestamp=sp["end_time_unix_nano"], application_name=sp["name"],
                                     parent_event_id=sp.get("parent_span_id"), child_event_ids=kids[sp["span_id"]])
            for sp in spans}
    return job, {e["eventId"]: e["timestamp"] for e in sequence_otel_event_job(otel)}


def job_round_trip_part(ctx: Ctx, pv_to_tel: Any) -> None:
    """PV -> OTel -> PV at the place where the pipeline does it: whole jobs through `pv_event_to_otel` and
    `sequence_otel_event_job` (the only call site that turns span end times into PV timestamps).  The events of one job
    end in the same second, millisecond or microsecond as each other or far apart; every event must come back with the
    timestamp it went in with."""
    r = ctx.rng
    for j in range(300 if ctx.tier == "quick" else 4000):
        if ctx.too_many():
            break
        base = r.randrange(MAX_MICROS - 10**8)
        ks = [base]
        for _ in range(r.choice([1, 2, 3, 4])):
            step = r.choice([0, 1, r.randrange(1, 1000), r.randrange(1000, 10**6), r.randrange(10**6, 10**8)])
            ks.append(ks[-1] + step)
        ctx.tick("job_round_trips")
        ctx.case(("job", tuple(ks)), len(set(k // 1000 for k in ks)) < len(ks))
        try:
            job, back = job_back(ks, j, pv_to_tel)
        except Exception as ex:  # noqa: BLE001
            ctx.violation(f"PV -> OTel -> PV of a job raised {type(ex).__name__}: {str(ex)[:200]}",
                          {"input": {"job_micros": ks}}, key=("job", tuple(ks)))
            continue
        bad = [f"{e['eventId']} went in as {e['timestamp']} and came back as {back.get(e['eventId'])}"
               for e in job if back.get(e["eventId"]) != e["timestamp"]]
        if bad:
            ctx.violation("PV -> OTel -> PV of a job changes timestamps: " + "; ".join(bad[:3]),
                          {"input": {"job_micros": ks}, "observed": back}, key=("job", tuple(ks)))


def run(ctx: Ctx) -> None:
    problems = translate(["Time", "Consts"])
    for p in problems:
        ctx.broken_ties.append("translator: " + p)
    ctx.prove(["O2P.Props.C16"], THEOREMS)
    if ctx.tier == "thorough":
        ctx.leanchecker(["O2P.Props.C16"])

    utils = importlib.import_module("tel2puml.utils")
    impl_from = utils.unix_nano_to_pv_string
    # pv_to_tel imports the pv2puml half: needs the janus stand-in (on sys.path)
    pv_to_tel = importlib.import_module("tel2puml.pv_to_tel")
    impl_to = pv_to_tel.convert_timestamp_to_unix_nano

    ks = boundary_instants()
    ctx.tick("boundary", len(ks))
    n_rand = 100_000 if ctx.tier == "quick" else 1_500_000
    for _ in range(n_rand // 2):
        ks.append(ctx.rng.randrange(MAX_MICROS))
    for _ in range(n_rand // 2):  # log-uniform: small instants too
        ks.append(ctx.rng.randrange(1 << ctx.rng.randrange(1, 62)) % MAX_MICROS)
    ctx.tick("random", n_rand)
    ctx.cov["rule"] = (
        "instants k (µs since epoch, < 2101-01-01): all binade edges of the ns and s counts ±3, every year "
        "start ±3, leap days, month starts, first/last 200 s and 2000 µs of the range, plus seeded uniform and "
        "log-uniform instants; plus arbitrary (non-µs) nanosecond counts for the order clause and the float "
        "model; a case is non-trivial when it has a non-zero µs fraction, counted once per distinct instant"
    )

    # ---- model answers ------------------------------------------------------------------------
    model_ok = True
    try:
        rep_from = LeanSide.drive({"op": "time.fromNanos", "n": str(1000 * k)} for k in ks)
        rep_fmt = LeanSide.drive({"op": "time.formatMicros", "k": str(k)} for k in ks)
    except Exception as ex:  # noqa: BLE001
        ctx.broken_ties.append(f"model driver: {ex}")
        model_ok = False
        rep_from = rep_fmt = [{} for _ in ks]

    for k, rf, rm in zip(ks, rep_from, rep_fmt):
        if ctx.too_many():
            break
        n = 1000 * k
        want = expected_string(k)
        bad: list[str] = []
        try:
            got = impl_from(n)
        except Exception as ex:  # noqa: BLE001
            got = f"<raised {type(ex).__name__}: {ex}>"
        if got != want:
            bad.append(f"unix_nano_to_pv_string({n}) = {got!r}, the instant is {want!r}")
        try:
            back = impl_to(want)
        except Exception as ex:  # noqa: BLE001
            back = f"<raised {type(ex).__name__}: {ex}>"
        if back != n:
            bad.append(f"convert_timestamp_to_unix_nano({want!r}) = {back!r}, the instant is {n}")
        if isinstance(back, int) and not bad:
            try:
                rt = impl_from(impl_to(got))
            except Exception as ex:  # noqa: BLE001
                rt = f"<raised {type(ex).__name__}>"
            if rt != got:
                bad.append(f"PV -> OTel -> PV changed {got!r} into {rt!r}")
        ctx.case(("k", k), k % 10**6 != 0, sample={"k": k, "pv": want} if k % 977 == 0 else None)
        if bad:
            ctx.violation("; ".join(bad), {"input": {"micros": k}, "expected": want, "observed": got,
                                           "observed_nanos": back}, key=("k", k))
            continue
        if model_ok:
            # correspondence: model text, model float path and the theorem's format all agree with the code
            x1 = Fraction(n / 1e9)
            if "error" in rf or rf.get("s") != got or rm.get("s") != got:
                ctx.violation(
                    f"correspondence: Lean fromNanos({n}) = {rf.get('s', rf)!r} / formatMicros = {rm.get('s')!r}, "
                    f"code = {got!r}", {"input": {"micros": k}, "model": rf, "impl": got},
                    key=("corr", k), concrete=False)
            elif Fraction(int(rf["x1num"]), int(rf["x1den"])) != x1:
                ctx.violation(
                    f"correspondence: Lean binary64 model of {n}/1e9 differs from CPython's",
                    {"input": {"micros": k}, "model": rf, "impl_x1": str(x1)}, key=("x1", k), concrete=False)

    # ---- toNanos correspondence on the model's parse (valid, no-fraction, rejected) ------------
    texts: list[str] = []
    for _ in range(3000 if ctx.tier == "quick" else 30000):
        k = ctx.rng.randrange(MAX_MICROS)
        s = expected_string(k)
        r = ctx.rng.random()
        if r < 0.3:
            s = s[:19] + "Z"  # no fraction
        elif r < 0.6:  # corrupt one field so that it is out of range or not a digit
            pos = ctx.rng.choice([5, 6, 8, 9, 11, 12, 14, 15, 17, 18])
            s = s[:pos] + ctx.rng.choice("0123456789x") + s[pos + 1:]
        texts.append(s)
    ctx.tick("parse_texts", len(texts))
    if model_ok:
        rep_to = LeanSide.drive({"op": "time.toNanos", "s": s} for s in texts)
        for s, r in zip(texts, rep_to):
            try:
                got_n: Any = impl_to(s)
            except ValueError:
                got_n = None
            except Exception as ex:  # noqa: BLE001
                got_n = f"<raised {type(ex).__name__}>"
            want_n = None if r.get("n") is None else int(r["n"])
            ctx.case(("t", s), False)
            ctx.tick("parse_rejected" if want_n is None else "parse_accepted")
            if got_n != want_n:
                # oracle: an accepted text denotes an instant; check it independently
                concrete = False
                try:
                    dt = datetime.strptime(s.rstrip("Z"), "%Y-%m-%dT%H:%M:%S.%f" if "." in s else "%Y-%m-%dT%H:%M:%S")
                    truth = ((dt.replace(tzinfo=timezone.utc) - EPOCH) // timedelta(microseconds=1)) * 1000
                    concrete = got_n != truth
                except ValueError:
                    concrete = got_n is not None  # accepted a text that denotes no instant
                ctx.violation(f"convert_timestamp_to_unix_nano({s!r}) = {got_n!r}, model {want_n!r}",
                              {"input": {"text": s}, "model": want_n, "impl": got_n}, key=("t", s),
                              concrete=concrete)

    # ---- order clause on arbitrary nanosecond counts (and float model off the µs grid) ----------
    ns = sorted(ctx.rng.randrange(MAX_MICROS * 1000) for _ in range(20000 if ctx.tier == "quick" else 300000))
    # dense runs around rounding points: consecutive nanoseconds
    for _ in range(50):
        b = ctx.rng.randrange(MAX_MICROS * 1000 - 3000)
        ns += list(range(b, b + 40))
    # nanosecond counts just below / above whole seconds and whole microseconds (rounding carries)
    for _ in range(400 if ctx.tier == "quick" else 4000):
        sec = ctx.rng.randrange(MAX_MICROS // 10**6 - 1) + 1
        for d in (1, 100, 300, 499, 500, 501, 700, 999):
            ns += [sec * 10**9 - d, sec * 10**9 + d]
        us = ctx.rng.randrange(MAX_MICROS - 2) + 1
        for d in (1, 499, 500, 501, 999):
            ns += [us * 1000 - d, us * 1000 + d]
    ns = sorted(set(ns))
    ctx.tick("order_ns", len(ns))
    outs = []
    import re as _re
    shape = _re.compile(r"^\d{4}-\d{2}-\d{2}T\d{2}:\d{2}:\d{2}\.\d{6}Z$")
    for n in ns:
        try:
            o = impl_from(n)
        except Exception as ex:  # noqa: BLE001
            o = f"<raised {type(ex).__name__}: {ex}>"
        outs.append(o)
        # oracle on the implementation alone: a well-formed PV text denoting the nearest microsecond
        ok = bool(shape.match(o))
        if ok:
            try:
                dt = datetime.strptime(o, "%Y-%m-%dT%H:%M:%S.%fZ").replace(tzinfo=timezone.utc)
                kk = (dt - EPOCH) // timedelta(microseconds=1)
                ok = abs(kk * 1000 - n) <= 1000
            except ValueError:
                ok = False
        if not ok and not ctx.too_many():
            ctx.violation(f"unix_nano_to_pv_string({n}) = {o!r}: not the PV text of the instant (nearest microsecond "
                          f"{expected_string(min((n + 500) // 1000, MAX_MICROS - 1))!r})",
                          {"input": {"nanos": n}, "observed": o}, key=("ns", n))
    for (n1, s1), (n2, s2) in zip(zip(ns, outs), zip(ns[1:], outs[1:])):
        if s1 > s2:
            ctx.violation(f"order: {n1} <= {n2} but {s1!r} > {s2!r}",
                          {"input": {"nanos": [n1, n2]}, "observed": [s1, s2]}, key=("ord", n1, n2))
            break
    if model_ok:
        rep = LeanSide.drive({"op": "time.fromNanos", "n": str(n)} for n in ns)
        for n, s, r in zip(ns, outs, rep):
            ctx.case(("n", n), n % 1000 != 0)
            if r.get("s") != s:
                # the property pins the µs value only up to rounding here: nearest µs (ties either way)
                lo, hi = n // 1000, -(-n // 1000)
                concrete = s not in (expected_string(lo), expected_string(min(hi, MAX_MICROS - 1)))
                ctx.violation(f"correspondence: Lean fromNanos({n}) = {r.get('s')!r}, code = {s!r}",
                              {"input": {"nanos": n}, "model": r, "impl": s}, key=("n", n), concrete=concrete)
                if ctx.too_many():
                    break
    job_round_trip_part(ctx, pv_to_tel)
    ctx.assumptions += [
        "CPython float/int conversion, datetime.fromtimestamp, strftime and fromisoformat are modelled, not verified; "
        "the correspondence run compares them with the Lean model on every generated instant",
        "fromNanos exactness for every instant is not yet a theorem (binary64 error analysis): it is checked on the "
        "generated instants through the bit-exact model; the theorems cover calendar, text and the OTel direction",
    ]


def replay(data: dict[str, Any]) -> int:
    import importlib as il

    utils = il.import_module("tel2puml.utils")
    pv_to_tel = il.import_module("tel2puml.pv_to_tel")
    inp = data["input"]
    if "micros" in inp:
        k = inp["micros"]
        want = expected_string(k)
        got = utils.unix_nano_to_pv_string(1000 * k)
        back = pv_to_tel.convert_timestamp_to_unix_nano(want)
        print(f"instant {k} µs: expected {want}; unix_nano_to_pv_string -> {got}; "
              f"convert_timestamp_to_unix_nano -> {back} (expected {1000 * k})")
        return 0 if (got == want and back == 1000 * k) else 1
    if "job_micros" in inp:
        try:
            job, back = job_back(inp["job_micros"], 0, pv_to_tel)
        except Exception as ex:  # noqa: BLE001
            print("raised", ex)
            return 1
        bad = [(e["eventId"], e["timestamp"], back.get(e["eventId"])) for e in job if back.get(e["eventId"]) != e["timestamp"]]
        print(bad or "every timestamp comes back unchanged")
        return 1 if bad else 0
    if "text" in inp:
        t = inp["text"]
        try:
            got: Any = pv_to_tel.convert_timestamp_to_unix_nano(t)
        except Exception as ex:  # noqa: BLE001
            got = None
            print("raised", ex)
        try:
            dt = datetime.strptime(t.rstrip("Z"), "%Y-%m-%dT%H:%M:%S.%f" if "." in t else "%Y-%m-%dT%H:%M:%S")
            truth: Any = ((dt.replace(tzinfo=timezone.utc) - EPOCH) // timedelta(microseconds=1)) * 1000
        except ValueError:
            truth = None
        print("code:", got, "instant denoted:", truth, "model:", data.get("model"))
        return 0 if got == truth else 1
    if "nanos" in inp:
        ns = inp["nanos"] if isinstance(inp["nanos"], list) else [inp["nanos"]]
        outs = [utils.unix_nano_to_pv_string(n) for n in ns]
        print(outs, data.get("model"))
        if len(ns) == 2:
            return 1 if outs[0] > outs[1] else 0
        n = ns[0]
        lo, hi = n // 1000, -(-n // 1000)
        return 0 if outs[0] in (expected_string(lo), expected_string(min(hi, MAX_MICROS - 1))) else 1
    return 2
