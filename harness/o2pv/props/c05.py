"""C05 — emitted PlantUML is well-formed and names exactly the observed events.

Same pipeline as C01, plus definitions that open with a fork (several start events).  The Lean parser is the
statement of well-formedness: one partition holding one group, every fork/split/switch/repeat closed by its own
terminator in nested order, separators only inside their block, break/detach only as the last item of a branch.
The event names of the parsed diagram must be exactly the event types of the input jobs, none of them an
internal placeholder.  PARTIAL: the writer is not modelled; decided on the generated definitions.
"""
from __future__ import annotations

import json

import re
from typing import Any

from ..common import Ctx
from .. import pvlib, learncheck as lc

LEVEL = "translation_validation"
THEOREMS = [
    "O2P.Diagram.parse_ok_tail",
    "O2P.Diagram.parse_ok_core",
    "O2P.Diagram.runs_types",
    "O2P.Diagram.grammar_complete",
]
PLACEHOLDER = re.compile(r"\|\|\||DUMMY|^LOOP_\d+$|^LOOP$")


def writable(b: Any, top: bool = True) -> bool:
    """block structures the PUML graph can hold as they are: every break follows an event (a break is an attribute of
    an event node)"""
    if b[0] == "seq":
        its = b[1]
        for i, x in enumerate(its):
            if x[0] == "brk" and (i == 0 or its[i - 1][0] != "ev"):
                return False
            if not writable(x, False):
                return False
        return True
    if b[0] == "fork":
        return all(writable(br, False) for br in b[2])
    if b[0] == "loop":
        return writable(b[1], False)
    return True


def writer_part(ctx: Ctx, cases: list[dict[str, Any]]) -> None:
    """the real writer against the Lean grammar, without the learner in between: `PUMLGraph.write_puml_string` on graphs
    built with the graph's own constructors from the block structures of the generated definitions; the Lean parser
    must give the block structure back (up to the order of branches, which the writer's depth-first walk reverses).
    `grammar_complete` is about Lean's `render`; this ties the parser to what the repository's writer prints."""
    from .c03 import norm_blk
    blks = [c["blk"] for c in cases if c["kind"] != "corpus" and writable(c["blk"])]
    if not blks:
        return
    rp = pvlib.run_requests([{"op": "write_blk", "blks": blks, "hash_seed": 0, "timeout": 300}])[0]
    if "error" in rp:
        ctx.broken_ties.append(f"writer correspondence: worker failed: {rp['error'][:200]}")
        return
    texts = [r.get("text") for r in rp["results"]]
    parsed = pvlib.lean([{"op": "dg.parse", "text": t or ""} for t in texts])
    for blk, r, pr in zip(blks, rp["results"], parsed):
        ctx.tick("writer_texts_parsed")
        if "error" in r:
            ctx.violation(f"correspondence: the writer raised on a graph built from a block structure: {r['error']}",
                          {"input": {"blk": blk}}, key=("writer", blk), concrete=False)
        elif not pr.get("ok"):
            ctx.violation(f"correspondence: the Lean grammar does not accept what write_puml_string prints for a block "
                          f"structure: {str(pr.get('error'))[:160]}", {"input": {"blk": blk}, "text": r["text"]},
                          key=("writer", blk), concrete=False)
        elif json.dumps(norm_blk(pr["blk"])) != json.dumps(norm_blk(blk)):
            ctx.violation("correspondence: the Lean parser reads another block structure than the one the writer printed",
                          {"input": {"blk": blk}, "text": r["text"], "parsed": pr["blk"]}, key=("writer", blk),
                          concrete=False)
        if ctx.too_many():
            break


def run(ctx: Ctx) -> None:
    ctx.prove(["O2P.Props.C05"], THEOREMS)
    if ctx.tier == "thorough":
        ctx.leanchecker(["O2P.Props.C05"])
    quick = ctx.tier == "quick"
    cases = lc.build_cases(ctx, 250 if quick else 3000, [4, 6, 8, 10, 12], with_corpus=True, multi_start=True, f_adjacent=True, bunched=True)
    ctx.cov["rule"] = (
        "definitions as in C01 plus definitions that open with an AND/OR fork (several start events) plus 64 F-adjacent "
        "definitions (nested loop directly followed by a choice between leaving the outer loop and carrying on, break "
        "branch with or without an event of its own); loops that end in a fork occur among the random ones. The emitted text must parse (Lean parser = the dialect's grammar) and its "
        "event names must be exactly the input's event types. non-trivial: the definition has a loop, a fork nested in "
        "a fork, or several start events"
    )
    writer_part(ctx, cases)
    lc.learn_all(ctx, cases)
    lc.judge_all(cases, want_subset=False)
    for c in cases:
        if ctx.too_many():
            break
        nontrivial = pvlib.has(c["blk"], "loop") or str(c["blk"]).count("'fork'") >= 2 or c["kind"] == "multi_start"
        ctx.case(c["blk"], nontrivial, sample={"definition": c["blk"], "kind": c["kind"]}
                 if ctx.cov["evaluations"] % 71 == 0 else None)
        lr = c["learn"]
        if "text" not in lr:
            ctx.tick("not_judged_learn")  # termination is C01's clause
            continue
        pr = c.get("parse", {})
        if not pr.get("ok"):
            lc.report(ctx, c, f"the emitted text is not a well-formed activity diagram: {pr.get('error', '')[:160]}")
            continue
        want = sorted({e["eventType"] for j in c["pv"] for e in j})
        got = sorted(set(pr["names"]))
        leaks = [n for n in pr["names"] if PLACEHOLDER.search(n) and n not in want]
        if leaks:
            lc.report(ctx, c, f"internal placeholders leak into the diagram: {sorted(set(leaks))}")
        elif got != want:
            lc.report(ctx, c, f"event names in the diagram {got} are not the input's event types {want}")
    ctx.cov["programs"] = ctx.cov["evaluations"]
    ctx.assumptions += [
        "the writer (DFS linearisation of the PUML graph) is not modelled; the Lean parser is the definition of the "
        "dialect: what it accepts has one partition/group, properly nested blocks closed by their own terminators and "
        "break/detach only last in a branch (parse_ok_tail, parse_ok_core)",
        "generated event names never look like placeholders (|||, DUMMY, LOOP_n)",
    ]


def replay(data: dict[str, Any]) -> int:
    """learn again with the recorded seeds and apply C05's three clauses: parses, no placeholder, exactly the input's names"""
    inp = data["input"]
    rep = pvlib.run_requests([{"op": "learn", "chunks": [inp["jobs_pv"]], "hash_seed": inp.get("hash_seed", 0),
                               "uuid_seed": inp.get("uuid_seed", 0), "timeout": 60}])[0]
    if "text" not in rep:
        print("learner:", rep.get("error"), "(termination is C01's clause)")
        return 0
    print(rep["text"])
    pr = pvlib.lean([{"op": "dg.parse", "text": rep["text"]}])[0]
    if not pr.get("ok"):
        print("not a well-formed activity diagram:", pr.get("error"))
        return 1
    want = sorted({e["eventType"] for j in inp["jobs_pv"] for e in j})
    got = sorted(set(pr["names"]))
    leaks = sorted({n for n in pr["names"] if PLACEHOLDER.search(n) and n not in want})
    print("names:", got, "input's:", want, "placeholders:", leaks)
    return 1 if (leaks or got != want) else 0
