"""C05 — emitted PlantUML is well-formed and names exactly the observed events.

Same pipeline as C01, plus definitions that open with a fork (several start events).  The Lean parser is the
statement of well-formedness: one partition holding one group, every fork/split/switch/repeat closed by its own
terminator in nested order, separators only inside their block, break/detach only as the last item of a branch.
The event names of the parsed diagram must be exactly the event types of the input jobs, none of them an
internal placeholder.  PARTIAL: the writer is not modelled; decided on the generated definitions.
"""
from __future__ import annotations

import json

import re
from typing import Any

from ..common import Ctx
from .. import pvlib, learncheck as lc

LEVEL = "translation_validation"
THEOREMS = [
    "O2P.Diagram.parse_ok_tail",
    "O2P.Diagram.parse_ok_core",
    "O2P.Diagram.runs_types",
    "O2P.Diagram.grammar_complete",
    "O2P.Writer.writer_vocabulary",
]
PLACEHOLDER = re.compile(r"\|\|\||DUMMY|^LOOP_\d+$|^LOOP$")


def writable(b: Any, top: bool = True) -> bool:
    """block structures the PUML graph can hold as they are: every break follows an event (a break is an attribute of
    an event node)"""
    if b[0] == "seq":
        its = b[1]
        for i, x in enumerate(its):
            if x[0] == "brk" and (i == 0 or its[i - 1][0] != "ev"):
                return False
            if not writable(x, False):
                return False
        return True
    if b[0] == "fork":
        return all(writable(br, False) for br in b[2])
    if b[0] == "loop":
        return writable(b[1], False)
    return True


def writer_part(ctx: Ctx, cases: list[dict[str, Any]]) -> None:
    """the real writer against the Lean grammar, without the learner in between: `PUMLGraph.write_puml_string` on graphs
    built with the graph's own constructors from the block structures of the generated definitions; the Lean parser
    must give the block structure back (up to the order of branches, which the writer's depth-first walk reverses).
    `grammar_complete` is about Lean's `render`; this ties the parser to what the repository's writer prints."""
    from .c03 import norm_blk
    blks = [c["blk"] for c in cases if c["kind"] != "corpus" and writable(c["blk"])]
    if not blks:
        return
    rp = pvlib.run_requests([{"op": "write_blk", "blks": blks, "hash_seed": 0, "timeout": 300}])[0]
    if "error" in rp:
        ctx.broken_ties.append(f"writer correspondence: worker failed: {rp['error'][:200]}")
        return
    texts = [r.get("text") for r in rp["results"]]
    parsed = pvlib.lean([{"op": "dg.parse", "text": t or ""} for t in texts])
    for blk, r, pr in zip(blks, rp["results"], parsed):
        ctx.tick("writer_texts_parsed")
        if "error" in r:
            ctx.violation(f"correspondence: the writer raised on a graph built from a block structure: {r['error']}",
                          {"input": {"blk": blk}}, key=("writer", blk), concrete=False)
        elif not pr.get("ok"):
            ctx.violation(f"correspondence: the Lean grammar does not accept what write_puml_string prints for a block "
                          f"structure: {str(pr.get('error'))[:160]}", {"input": {"blk": blk}, "text": r["text"]},
                          key=("writer", blk), concrete=False)
        elif json.dumps(norm_blk(pr["blk"])) != json.dumps(norm_blk(blk)):
            ctx.violation("correspondence: the Lean parser reads another block structure than the one the writer printed",
                          {"input": {"blk": blk}, "text": r["text"], "parsed": pr["blk"]}, key=("writer", blk),
                          concrete=False)
        if ctx.too_many():
            break


def gen_spec(r: Any, depth: int = 0) -> dict[str, Any]:
    """a random PUML graph description: mostly forward edges over a random node list (a DAG with one or several
    roots, unreachable parts, operator nodes used out of place), sometimes a back edge (a cycle: the writer raises)"""
    n = r.choice([0, 1, 2, 3, 4, 5, 6, 8, 10])
    nodes: list[Any] = []
    for _ in range(n):
        k = r.random()
        if k < 0.4:
            nodes.append(["ev", r.choice(["A", "B", "C", "a b", ":x;", "repeat", ""]), r.random() < 0.2])
        elif k < 0.8:
            pos = r.choice(["START", "START", "PATH", "END", "END"])
            op = r.choice(["XOR", "AND", "OR", "LOOP"])
            if pos == "PATH" and op == "LOOP":
                op = "XOR"
            nodes.append(["oper", pos, op])
        elif k < 0.9 or depth >= 2:
            nodes.append(["kill"])
        else:
            nodes.append(["sub", r.random() < 0.7, gen_spec(r, depth + 1), r.random() < 0.3])
    adj: list[list[int]] = [[] for _ in range(n)]
    dens = r.choice([0.2, 0.35, 0.6])
    for u in range(n):
        for v in r.sample(range(n), n):
            if v > u and r.random() < dens and v not in adj[u]:
                adj[u].append(v)
    if n >= 2 and r.random() < 0.08:
        u = r.randrange(1, n)
        v = r.randrange(0, u)
        if v not in adj[u]:
            adj[u].append(v)
    return {"nodes": nodes, "adj": adj, "name": r.choice(["wf", "a \"b\"", ""]), "tab": r.choice([4, 4, 4, 2, 1, 0, 8])}


def writer_model_part(ctx: Ctx, cases: list[dict[str, Any]], n_random: int) -> None:
    """the Lean model of the writer (`O2P.Writer.writePumlString`: topological head, depth-first successors, reversed
    ordering with PATH nodes, indentation table read from the translated OPERATOR_NODE_PUML_MAP) against
    `PUMLGraph.write_puml_string`, character by character, on (1) every PUML graph the learner handed to the writer in
    this run, (2) the graphs built from the block structures of the generated definitions, (3) random graph
    descriptions (several roots, unreachable nodes, misplaced operator nodes, nested sub graphs, cycles -> both raise)"""
    items: list[tuple[str, Any, Any]] = []       # (origin, graph export, real result)
    for c in cases:
        w = c.get("learn", {}).get("written")
        if w:
            items.append(("learner", {"graph": w["graph"], "name": w["name"], "tab": w["tab"]}, {"text": w["text"]}))
    blks = [c["blk"] for c in cases if c["kind"] != "corpus" and writable(c["blk"])][: (300 if ctx.tier == "quick" else 3000)]
    if blks:
        rp = pvlib.run_requests([{"op": "write_blk", "blks": blks, "hash_seed": 0, "timeout": 300}])[0]
        for r in rp.get("results", []):
            if "graph" in r:
                items.append(("blocks", {"graph": r["graph"], "name": "wf", "tab": 4}, {"text": r["text"]}))
    specs = [gen_spec(ctx.rng) for _ in range(n_random)]
    rp = pvlib.run_requests([{"op": "write_spec", "specs": specs, "hash_seed": 0, "timeout": 300}])[0]
    if "error" in rp:
        ctx.broken_ties.append(f"writer model: worker failed: {rp['error'][:200]}")
    for sp, r in zip(specs, rp.get("results", [])):
        if "graph" in r:
            items.append(("random", {"graph": r["graph"], "name": sp["name"], "tab": sp["tab"]}, r))
    items = [it for it in items if "export_error" not in it[1]["graph"] and "unsupported" not in json.dumps(it[1]["graph"])]
    reps = pvlib.lean([{"op": "wr.write", **it[1]} for it in items])
    for (origin, req, real), lr in zip(items, reps):
        ctx.tick("writer_model_" + origin)
        if "raises" in real:
            ctx.tick("writer_model_real_raises")
            if not lr.get("raises"):
                ctx.violation(f"correspondence: write_puml_string raises ({real['raises'][:80]}) where the Lean writer model prints a text",
                              {"input": req, "model": lr}, key=("writer-model", req), concrete=False)
        elif lr.get("text") != real["text"]:
            ctx.violation(f"correspondence: the Lean writer model's text differs from write_puml_string's ({origin} graph)",
                          {"input": req, "real": real["text"], "model": lr}, key=("writer-model", req), concrete=False)


def run(ctx: Ctx) -> None:
    ctx.prove(["O2P.Props.C05"], THEOREMS)
    if ctx.tier == "thorough":
        ctx.leanchecker(["O2P.Props.C05"])
    quick = ctx.tier == "quick"
    cases = lc.build_cases(ctx, 250 if quick else 3000, [4, 6, 8, 10, 12], with_corpus=True, multi_start=True, f_adjacent=True, bunched=True)
    ctx.cov["rule"] = (
        "definitions as in C01 plus definitions that open with an AND/OR fork (several start events) plus 64 F-adjacent "
        "definitions (nested loop directly followed by a choice between leaving the outer loop and carrying on, break "
        "branch with or without an event of its own); loops that end in a fork occur among the random ones. The emitted text must parse (Lean parser = the dialect's grammar) and its "
        "event names must be exactly the input's event types. non-trivial: the definition has a loop, a fork nested in "
        "a fork, or several start events"
    )
    writer_part(ctx, cases)
    lc.learn_all(ctx, cases, want_graph=True)
    writer_model_part(ctx, cases, 400 if quick else 6000)
    lc.judge_all(cases, want_subset=False)
    for c in cases:
        if ctx.too_many():
            break
        nontrivial = pvlib.has(c["blk"], "loop") or str(c["blk"]).count("'fork'") >= 2 or c["kind"] == "multi_start"
        ctx.case(c["blk"], nontrivial, sample={"definition": c["blk"], "kind": c["kind"]}
                 if ctx.cov["evaluations"] % 71 == 0 else None)
        lr = c["learn"]
        if "text" not in lr:
            ctx.tick("not_judged_learn")  # termination is C01's clause
            continue
        pr = c.get("parse", {})
        if not pr.get("ok"):
            lc.report(ctx, c, f"the emitted text is not a well-formed activity diagram: {pr.get('error', '')[:160]}")
            continue
        want = sorted({e["eventType"] for j in c["pv"] for e in j})
        got = sorted(set(pr["names"]))
        leaks = [n for n in pr["names"] if PLACEHOLDER.search(n) and n not in want]
        if leaks:
            lc.report(ctx, c, f"internal placeholders leak into the diagram: {sorted(set(leaks))}")
        elif got != want:
            lc.report(ctx, c, f"event names in the diagram {got} are not the input's event types {want}")
    ctx.cov["programs"] = ctx.cov["evaluations"]
    ctx.assumptions += [
        "the writer (DFS linearisation of the PUML graph) is not modelled; the Lean parser is the definition of the "
        "dialect: what it accepts has one partition/group, properly nested blocks closed by their own terminators and "
        "break/detach only last in a branch (parse_ok_tail, parse_ok_core)",
        "generated event names never look like placeholders (|||, DUMMY, LOOP_n)",
    ]


def replay(data: dict[str, Any]) -> int:
    """learn again with the recorded seeds and apply C05's three clauses: parses, no placeholder, exactly the input's names"""
    inp = data["input"]
    rep = pvlib.run_requests([{"op": "learn", "chunks": [inp["jobs_pv"]], "hash_seed": inp.get("hash_seed", 0),
                               "uuid_seed": inp.get("uuid_seed", 0), "timeout": 60}])[0]
    if "text" not in rep:
        print("learner:", rep.get("error"), "(termination is C01's clause)")
        return 0
    print(rep["text"])
    pr = pvlib.lean([{"op": "dg.parse", "text": rep["text"]}])[0]
    if not pr.get("ok"):
        print("not a well-formed activity diagram:", pr.get("error"))
        return 1
    want = sorted({e["eventType"] for j in inp["jobs_pv"] for e in j})
    got = sorted(set(pr["names"]))
    leaks = sorted({n for n in pr["names"] if PLACEHOLDER.search(n) and n not in want})
    print("names:", got, "input's:", want, "placeholders:", leaks)
    return 1 if (leaks or got != want) else 0
