"""C05 — emitted PlantUML is well-formed and names exactly the observed events.

Same pipeline as C01, plus definitions that open with a fork (several start events).  The Lean parser is the
statement of well-formedness: one partition holding one group, every fork/split/switch/repeat closed by its own
terminator in nested order, separators only inside their block, break/detach only as the last item of a branch.
The event names of the parsed diagram must be exactly the event types of the input jobs, none of them an
internal placeholder.  PARTIAL: the writer is not modelled; decided on the generated definitions.
"""
from __future__ import annotations

import re
from typing import Any

from ..common import Ctx
from .. import pvlib, learncheck as lc

LEVEL = "translation_validation"
THEOREMS = [
    "O2P.Diagram.parse_ok_tail",
    "O2P.Diagram.parse_ok_core",
    "O2P.Diagram.runs_types",
    "O2P.Diagram.grammar_complete",
]
PLACEHOLDER = re.compile(r"\|\|\||DUMMY|^LOOP_\d+$|^LOOP$")


def run(ctx: Ctx) -> None:
    ctx.prove(["O2P.Props.C05"], THEOREMS)
    if ctx.tier == "thorough":
        ctx.leanchecker(["O2P.Props.C05"])
    quick = ctx.tier == "quick"
    cases = lc.build_cases(ctx, 250 if quick else 3000, [4, 6, 8, 10, 12], with_corpus=True, multi_start=True, f_adjacent=True, bunched=True)
    ctx.cov["rule"] = (
        "definitions as in C01 plus definitions that open with an AND/OR fork (several start events) plus 64 F-adjacent "
        "definitions (nested loop directly followed by a choice between leaving the outer loop and carrying on, break "
        "branch with or without an event of its own); loops that end in a fork occur among the random ones. The emitted text must parse (Lean parser = the dialect's grammar) and its "
        "event names must be exactly the input's event types. non-trivial: the definition has a loop, a fork nested in "
        "a fork, or several start events"
    )
    lc.learn_all(ctx, cases)
    lc.judge_all(cases, want_subset=False)
    for c in cases:
        if ctx.too_many():
            break
        nontrivial = pvlib.has(c["blk"], "loop") or str(c["blk"]).count("'fork'") >= 2 or c["kind"] == "multi_start"
        ctx.case(c["blk"], nontrivial, sample={"definition": c["blk"], "kind": c["kind"]}
                 if ctx.cov["evaluations"] % 71 == 0 else None)
        lr = c["learn"]
        if "text" not in lr:
            ctx.tick("not_judged_learn")  # termination is C01's clause
            continue
        pr = c.get("parse", {})
        if not pr.get("ok"):
            lc.report(ctx, c, f"the emitted text is not a well-formed activity diagram: {pr.get('error', '')[:160]}")
            continue
        want = sorted({e["eventType"] for j in c["pv"] for e in j})
        got = sorted(set(pr["names"]))
        leaks = [n for n in pr["names"] if PLACEHOLDER.search(n) and n not in want]
        if leaks:
            lc.report(ctx, c, f"internal placeholders leak into the diagram: {sorted(set(leaks))}")
        elif got != want:
            lc.report(ctx, c, f"event names in the diagram {got} are not the input's event types {want}")
    ctx.cov["programs"] = ctx.cov["evaluations"]
    ctx.assumptions += [
        "the writer (DFS linearisation of the PUML graph) is not modelled; the Lean parser is the definition of the "
        "dialect: what it accepts has one partition/group, properly nested blocks closed by their own terminators and "
        "break/detach only last in a branch (parse_ok_tail, parse_ok_core)",
        "generated event names never look like placeholders (|||, DUMMY, LOOP_n)",
    ]


def replay(data: dict[str, Any]) -> int:
    """learn again with the recorded seeds and apply C05's three clauses: parses, no placeholder, exactly the input's names"""
    inp = data["input"]
    rep = pvlib.run_requests([{"op": "learn", "chunks": [inp["jobs_pv"]], "hash_seed": inp.get("hash_seed", 0),
                               "uuid_seed": inp.get("uuid_seed", 0), "timeout": 60}])[0]
    if "text" not in rep:
        print("learner:", rep.get("error"), "(termination is C01's clause)")
        return 0
    print(rep["text"])
    pr = pvlib.lean([{"op": "dg.parse", "text": rep["text"]}])[0]
    if not pr.get("ok"):
        print("not a well-formed activity diagram:", pr.get("error"))
        return 1
    want = sorted({e["eventType"] for j in inp["jobs_pv"] for e in j})
    got = sorted(set(pr["names"]))
    leaks = sorted({n for n in pr["names"] if PLACEHOLDER.search(n) and n not in want})
    print("names:", got, "input's:", want, "placeholders:", leaks)
    return 1 if (leaks or got != want) else 0
