"""C06 — gate inference explains all observed successor sets; exact without mixed OR.

The quantifier is finite: every gate tree over 2..5 (thorough 6) distinct events, depth <= 3, operators alternating.
Lean enumerates it (`O2P.Gate.domain`, kernel-checked counts 3/21/243/2493 and well-formedness) and decides the two
clauses (`soundB`, `exactB` with `soundB_iff`, `exactB_iff`).  The real `calculate_logic_gates` is run on the family of
EVERY tree of the domain (quick: all of 2..4 and a seeded third of 5; thorough: all of 2..5 and a seeded sample of 6),
under several interpreter hash seeds; Lean judges every returned tree.  The function itself (pm4py's inductive miner
and the post-processing) is not modelled.
"""
from __future__ import annotations

import json
from typing import Any

from ..common import Ctx
from .. import pvlib

LEVEL = "model_checking"
THEOREMS = [
    "O2P.Gate.domain_counts",
    "O2P.Gate.domain_wellformed",
    "O2P.Gate.subclass_counts",
    "O2P.Gate.soundB_iff",
    "O2P.Gate.exactB_iff",
    "O2P.Gate.family_plain",
    "O2P.Gate.cover_spec",
    "O2P.Gate.cover_sound",
    "O2P.Gate.cover_sound_universe",
    "O2P.Gate.or_inference_sound",
    "O2P.Gate.or_inference_tree_sound",
    "O2P.Gate.or_inference_tree_sound_below",
    "O2P.Gate.or_test_spec",
    "O2P.Gate.or_inference_leaves_sound",
    "O2P.Gate.post_flat_or_sound",
    "O2P.Gate.post_flat_or_sound_proj",
    "O2P.Gate.or_inference_all_sound",
    "O2P.Gate.missing_and_all_sound",
    "O2P.Gate.filter_defunct_sound",
    "O2P.Gate.post_process_sound",
    "O2P.Gate.post_process_admits",
    "O2P.Gate.post_process_checked",
    "O2P.Gate.children_order_irrelevant",
    "O2P.Gate.judge_is_sem",
]


def gen_ptree(r: Any, names: list[str], depth: int) -> Any:
    """a parallel node as the miner leaves it: mandatory leaves / XOR groups, optional branches X(tau, …), now and
    then a child of another kind (which the code drops), nested parallel nodes below optional branches"""
    def take() -> str | None:
        return names.pop() if names else None
    kids: list[Any] = []
    for _ in range(r.choice([2, 2, 3, 4])):
        k = r.random()
        a = take()
        if a is None:
            break
        if k < 0.3:
            kids.append(a)
        elif k < 0.65:
            kids.append(["X", None, a] if r.random() < 0.7 else ["X", a, None])
        elif k < 0.8:
            b = take()
            kids.append(["X", a, b] if b else a)
        elif k < 0.9:
            b = take()
            inner = ["X", a, b] if b else a
            kids.append(["X", None, inner])
        elif k < 0.95 and depth > 0 and len(names) >= 2:
            names.append(a)
            kids.append(["X", None, gen_ptree(r, names, depth - 1)])
        else:
            b = take()
            kids.append(["->", a, b] if b else a)       # another operator: neither mandatory nor optional
    return ["+"] + kids


def infer_or_part(ctx: Ctx, quick: bool) -> None:
    """infer_or_gate_from_node / check_is_or_operator: the real rewrite equals the model's on generated raw trees"""
    r = ctx.rng
    inputs = []
    for _ in range(1200 if quick else 15000):
        names = list("abcdefgh")
        r.shuffle(names)
        tree = gen_ptree(r, names, 2)
        labels = [x for x in "abcdefgh" if x not in names]
        sets = [sorted(r.sample(labels, r.randrange(1, len(labels) + 1))) for _ in range(r.choice([1, 2, 3, 5]))] \
            if labels else []
        inputs.append((sets, tree))
    # the tree on which the recursion is unsound (the example beside or_inference_all_sound): the real function and the
    # model must agree on it too — +(c, +(X(tau,a), X(tau,b))) becomes +(c, O(a, b))
    inputs.insert(0, ([["c"], ["a", "c"], ["b", "c"], ["a", "b", "c"]],
                      ["+", "c", ["+", ["X", None, "a"], ["X", None, "b"]]]))
    ctx.tick("infer_or_inputs", len(inputs))
    lres = pvlib.lean([{"op": "gate.inferor", "sets": s, "tree": t} for s, t in inputs])
    B = 200
    reqs = [{"op": "infer_or", "inputs": inputs[i:i + B], "hash_seed": 0, "timeout": 120, "base": i}
            for i in range(0, len(inputs), B)]
    for rq, rp in zip(reqs, pvlib.run_requests(reqs)):
        if "error" in rp:
            ctx.broken_ties.append(f"infer_or worker failed: {rp['error'][:120]}")
            continue
        for j, got in enumerate(rp["results"]):
            sets, tree = inputs[rq["base"] + j]
            lr = lres[rq["base"] + j]
            inp = {"sets": sets, "tree": tree}
            if "error" in got:
                ctx.tick("infer_or_impl_error")
                if "error" not in lr:
                    ctx.violation(f"infer_or_gate_from_node raised {got['error']}", {"input": inp}, key=("ior", sets, tree))
                continue
            if "error" in lr:
                ctx.broken_ties.append(f"model driver: {lr['error']}")
                continue
            ctx.tick("infer_or_rewritten" if got["node"] != tree else "infer_or_unchanged")
            if got["node"] != lr["node"] or got["all"] != lr["all"]:
                ctx.violation("correspondence: infer_or_gate_from_node / get_extended_or_gates_from_process_tree and the "
                              "Lean model rewrite the raw tree differently",
                              {"input": inp, "impl": got, "model": lr}, key=("corrior", sets, tree), concrete=False)


def post_part(ctx: Ctx, items: list[dict[str, Any]], seeds: list[int]) -> None:
    """the repository's own part of calculate_logic_gates on the REAL raw trees of the domain: what
    reduce_process_tree_to_preferred_logic_gates + calculate_repeats_in_tree return must be an outcome of the Lean
    model (inferOrAll, filterDefunct, missingAnd under every cover choice) applied to the miner's raw tree"""
    B = 40
    reqs = [{"op": "gates_raw", "families": [it["family"] for it in items[i:i + B]], "hash_seed": hs,
             "uuid_seed": ctx.seed + i, "timeout": 300, "base": i}
            for hs in seeds[:2] for i in range(0, len(items), B)]
    reps = pvlib.run_requests(reqs)
    lreqs, lmeta = [], []
    for rq, rp in zip(reqs, reps):
        if "error" in rp:
            ctx.broken_ties.append(f"gates_raw worker failed: {rp['error'][:120]}")
            continue
        for k, res in enumerate(rp["results"]):
            it = items[rq["base"] + k]
            if "error" in res:
                continue    # reported by the main part
            lreqs.append({"op": "gate.post", "sets": it["family"], "raw": res["raw"],
                          **({"src": it["tree"]} if it.get("tree") is not None else {})})
            lmeta.append((it, res, rq["hash_seed"]))
    lres = pvlib.lean(lreqs, timeout=3600) if lreqs else []
    # how many of the real raw trees meet the hypotheses of or_inference_all_sound (names once, wfT, no empty name):
    # for those the OR-inference stage is covered by the theorem, the others by execution only
    wres = pvlib.lean([{"op": "gate.wfraw", "sets": q["sets"], "raw": q["raw"]} for q in lreqs]) if lreqs else []
    for w in wres:
        if "error" in w:
            ctx.broken_ties.append(f"model driver: {w['error']}")
        else:
            w["all"] = bool(w["wf"] and w["nd"] and w["names"] and w.get("produces"))
            ctx.tick("raw_tree_meets_theorem_hypotheses" if w["all"]
                     else "raw_tree_outside_theorem_hypotheses_" + ("wf" if not w["wf"] else "produces"
                                                                    if not w.get("produces") else "names"))
    for k, ((it, res, hs), lr) in enumerate(zip(lmeta, lres)):
        # post_process_checked: when the executable hypotheses hold for the raw tree, every outcome of the model
        # provably produces every observed set; the judge (another semantics, tied by sem_admits) must agree on every
        # outcome without a silent leaf — a disagreement means the model, the judge or the driver is wrong
        if k < len(wres) and wres[k].get("all") and "error" not in lr:
            for o, vd in zip(lr["outcomes"], lr.get("verdicts", [])):
                if "error" not in vd and not vd["sound"] and "null" not in json.dumps(o):
                    ctx.broken_ties.append(f"post_process_checked holds for the raw tree {res['raw']} but the judge "
                                           f"rejects the model outcome {o}")
                    break
        ctx.tick("post_raw_trees")
        if "error" in lr:
            ctx.broken_ties.append(f"model driver: {lr['error']}")
            continue
        def canon(t: Any) -> Any:
            # the cover is a Python set of frozensets: the order of the rebuilt children is arbitrary, and AND/OR/XOR
            # are commutative — compare up to the order of children
            # … and an OR gate directly below an OR gate is spliced into it on both sides: where the OR inference
            # builds `+(n…, O(r…))` it leaves the grandchildren's parent pointers on the old node, so a grandchild that
            # becomes an OR gate later is not seen by filter_defunct_or_gates and stays nested in the real tree, while
            # the model (which has no pointers) flattens it.  Same sets either way (`flatten_sem`).
            if isinstance(t, list):
                kids = [canon(c) for c in t[1:]]
                if t[0] == "O":
                    kids = [g for c in kids for g in (c[1:] if isinstance(c, list) and c[0] == "O" else [c])]
                return [t[0]] + sorted(kids, key=json.dumps)
            return t
        # every outcome of the model — every choice max() could have made, whatever the hash seed — must satisfy the
        # property too: soundness always, exactness on the sub-class
        ctx.tick("post_model_outcomes", len(lr["outcomes"]))
        for o, vd in zip(lr["outcomes"], lr.get("verdicts", [])):
            if "error" in vd:
                continue
            if not vd["sound"] or (it.get("subclass") and not vd["exact"]):
                ctx.violation(f"another choice of max() in get_weighted_cover gives {o}, which "
                              f"{'does not admit every observed set' if not vd['sound'] else 'admits more than the source'} "
                              f"of {it.get('tree') or it['family']} (raw miner tree {res['raw']})",
                              {"input": {"tree": it.get("tree"), "family": it["family"], "hash_seed": hs},
                               "raw": res["raw"], "outcome": o}, key=("postchoice", it.get("tree") or it["family"]))
                break
        if canon(res["final"]) not in [canon(o) for o in lr["outcomes"]]:
            ctx.violation("correspondence: the post-processing of the real raw miner tree is not an outcome of the Lean "
                          "model (inferOrAll, filterDefunct, missingAnd)",
                          {"input": {"tree": it.get("tree"), "family": it["family"], "hash_seed": hs}, "raw": res["raw"],
                           "impl": res["final"], "model": lr["outcomes"][:4]},
                          key=("corrpost", it.get("tree") or it["family"], hs), concrete=False)


def cover_part(ctx: Ctx, quick: bool) -> None:
    """get_weighted_cover (tel2puml/utils.py): the real function's answer must be one of the outcomes of the Lean
    model (all choices of `max` among equal candidates), and must itself satisfy what cover_spec proves of them"""
    r = ctx.rng
    inputs = []
    for _ in range(1500 if quick else 20000):
        n = r.choice([2, 3, 3, 4, 4, 5, 6])
        uni = list("abcdef"[:n])
        kind = r.random()
        sets: list[list[str]] = []
        if kind < 0.5:
            # outcomes of an OR over AND groups: a partition of the universe, unions of its blocks
            blocks: list[list[str]] = []
            for x in uni:
                if blocks and r.random() < 0.4:
                    r.choice(blocks).append(x)
                else:
                    blocks.append([x])
            for _ in range(r.choice([2, 3, 5, 8])):
                pick = [b for b in blocks if r.random() < 0.5] or [r.choice(blocks)]
                sets.append(sorted(x for b in pick for x in b))
            if r.random() < 0.3:
                sets.append(sorted(r.sample(uni, r.randrange(1, n + 1))))   # one observation that fits no partition
        else:
            for _ in range(r.choice([1, 2, 3, 5, 8])):
                sets.append(sorted(r.sample(uni, r.randrange(1, n + 1))))
        if r.random() < 0.3:
            sets.append(list(uni))
        sets = [list(x) for x in {tuple(s) for s in sets}]
        r.shuffle(sets)
        inputs.append((sets, uni))
    ctx.tick("cover_inputs", len(inputs))
    lres = pvlib.lean([{"op": "gate.cover", "sets": s, "universe": u} for s, u in inputs])
    B = 200
    reqs = [{"op": "cover", "inputs": inputs[i:i + B], "hash_seed": hs, "timeout": 120, "base": i}
            for hs in ([0, 1] if quick else [0, 1, 2, 3]) for i in range(0, len(inputs), B)]
    reps = pvlib.run_requests(reqs)
    k = 0
    for rq, rp in zip(reqs, reps):
        if "error" in rp:
            ctx.broken_ties.append(f"cover worker failed: {rp['error'][:120]}")
            continue
        base = rq["base"]
        for j, got in enumerate(rp["results"]):
            sets, uni = inputs[base + j]
            lr = lres[base + j]
            inp = {"sets": sets, "universe": uni, "hash_seed": rq["hash_seed"]}
            if isinstance(got, dict):
                ctx.violation(f"get_weighted_cover raised {got['error']}", {"input": inp}, key=("cover", sets, uni))
                continue
            ctx.tick("cover_none" if got is None else "cover_found")
            # what cover_spec states, checked on the implementation's own answer
            if got is not None:
                es = [set(x) for x in sets if set(x) != set(uni)]
                cov = [set(x) for x in got]
                bad = None
                if any(c not in [set(x) for x in sets] for c in cov):
                    bad = "a member that is not an observed set"
                elif any(a & b for i, a in enumerate(cov) for b in cov[i + 1:]):
                    bad = "overlapping members"
                elif set().union(*cov) < set(uni):
                    bad = "a universe that is not covered"
                elif any(set().union(*([c for c in cov if c <= e] or [set()])) != e for e in es):
                    bad = "an observed set that is not the union of the members it contains"
                if bad:
                    ctx.violation(f"get_weighted_cover returned a cover with {bad}: {got}", {"input": inp, "cover": got},
                                  key=("cover", sets, uni))
                    continue
            if "error" in lr:
                ctx.broken_ties.append(f"model driver: {lr['error']}")
                continue
            # process_missing_and_gates: OR over the cover members (leaf or AND of its events) when a cover is
            # returned, the OR over the plain events otherwise — `rebuilt` of the model
            tr = rp["trees"][j]
            if isinstance(tr, dict):
                ctx.violation(f"process_missing_and_gates raised {tr['error']}", {"input": inp}, key=("pmag", sets, uni))
                continue
            want_tree = (sorted(got) if got is not None else sorted([x] for x in uni)) + ["O"]
            if tr != want_tree and got is not None and len(rp["results"]) > 0:
                # the caller computes its own cover (another choice of max is possible): it must be a model outcome
                outs0 = [sorted(sorted(x) for x in o) + ["O"] for o in lr.get("outcomes", []) if o is not None]
                if tr not in outs0:
                    ctx.violation("correspondence: process_missing_and_gates does not build OR(AND(group)…) from a cover "
                                  "of the model", {"input": inp, "impl": tr, "model": outs0[:6]},
                                  key=("corrpmag", sets, uni), concrete=False)
            elif tr != want_tree:
                outs0 = [sorted(sorted(x) for x in o) + ["O"] for o in lr.get("outcomes", []) if o is not None]
                if tr not in outs0:
                    ctx.violation("correspondence: process_missing_and_gates rebuilt the OR although the cover step "
                                  "returns None", {"input": inp, "impl": tr}, key=("corrpmag", sets, uni), concrete=False)
            outs = [None if o is None else sorted(sorted(x) for x in o) for o in lr["outcomes"]]
            if got not in outs:
                ctx.violation("correspondence: get_weighted_cover's answer is not among the outcomes of the Lean model",
                              {"input": inp, "impl": got, "model": outs[:6]}, key=("corrcover", sets, uni), concrete=False)
        k += 1


# observed families on which the unrepaired code failed (each repaired by a "fix:" commit; they run first, always)
REPAIRED_INPUTS = [
    # c6e9ec1: a nested parallel child of a parallel node was dropped by the OR inference (four of five events lost)
    [["a", "b", "c"], ["c", "d", "e"], ["a", "e"]],
    # dcf1496: AND recovery below a nested OR gate ignored the observed sets reaching outside the gate
    [["b", "c"], ["b", "c", "d"], ["d"], ["a"], ["a", "e"], ["e"], ["a", "c", "d"]],
    # a5c0cb4: stale parent pointer of a re-parented parallel child made the defunct-OR filter raise ValueError
    [["a", "b", "c", "d"], ["b", "c", "f"], ["b", "d", "e", "f"]],
    [["a", "b", "f"], ["a", "c", "d", "f"], ["b", "c", "e", "f"]],
]


# observed families on which the real tree keeps an OR gate nested below an OR gate (a stale parent pointer hides it from
# the defunct-OR filter) while the model flattens it: found by the thorough tier, they run in every tier so that the
# canonicalisation of the tie is exercised
NESTED_OR_INPUTS = [[["a", "b", "d"], ["a", "b", "d", "e"], ["a", "d"], ["b", "d"], ["b", "d", "e"], ["b", "d", "e", "f"], ["b", "d", "f"], ["c", "d"], ["c", "d", "e", "f"], ["d", "e"], ["d", "e", "f"], ["d", "f"]], [["a", "b", "d"], ["a", "b", "d", "e"], ["a", "d"], ["a", "d", "e"], ["b", "c", "d", "f"], ["b", "d"], ["d", "e"], ["d", "e", "f"]], [["a", "b", "c", "d"], ["a", "b", "d"], ["a", "b", "d", "f"], ["a", "c", "d"], ["a", "c", "d", "e"], ["a", "d"], ["a", "d", "f"], ["b", "d", "f"], ["c", "d", "e"], ["d", "e"], ["d", "f"]]]


def observed_part(ctx: Ctx, quick: bool, domain_items: list[dict[str, Any]], seeds: list[int]) -> None:
    """the first sentence of the property on families that are NOT the full outcome family of a tree: seeded random
    families of observed sets and seeded parts of the domain's families (what a finite log shows of a gate tree).  The
    real calculate_logic_gates must return a gate tree that admits every observed set (judged in Lean); the
    repository's post-processing of the real raw tree must be an outcome of the Lean model, and every outcome of the
    model (every choice of max) must admit every observed set too."""
    r = ctx.rng
    fams: list[list[list[str]]] = [list(f) for f in REPAIRED_INPUTS] + [list(f) for f in NESTED_OR_INPUTS]
    for _ in range(700 if quick else 9000):
        n = r.choice([3, 4, 5, 5, 6])
        uni = list("abcdef"[:n])
        k = r.choice([2, 3, 3, 4, 5, 7])
        sets = {tuple(sorted(r.sample(uni, r.randrange(1, n + 1)))) for _ in range(k)}
        fams.append([list(x) for x in sorted(sets)])
    ctx.tick("observed_random_families", len(fams) - len(REPAIRED_INPUTS) - len(NESTED_OR_INPUTS))
    pool = [it for it in domain_items if len(it["family"]) >= 3]
    for _ in range(500 if quick else 6000):
        it = r.choice(pool)
        k = r.randrange(2, len(it["family"]))
        fams.append(sorted(r.sample(it["family"], k)))
        ctx.tick("observed_partial_families")
    items = [{"family": f} for f in fams]
    post_part(ctx, items, seeds)
    B = 40
    reqs = [{"op": "gates", "families": fams[i:i + B], "hash_seed": hs, "uuid_seed": ctx.seed + i, "timeout": 300,
             "base": i} for hs in seeds for i in range(0, len(fams), B)]
    jreqs, jmeta = [], []
    for rq, rp in zip(reqs, pvlib.run_requests(reqs)):
        if "error" in rp:
            ctx.broken_ties.append(f"worker failed on a batch: {rp['error'][:120]}")
            continue
        for k, res in enumerate(rp["results"]):
            fam = fams[rq["base"] + k]
            inp = {"family": fam, "hash_seed": rq["hash_seed"]}
            if rq["hash_seed"] == seeds[0]:
                ctx.case(fam, len(fam) >= 3)
            if "error" in res or res.get("tree") is None:
                ctx.violation(f"calculate_logic_gates raised {res.get('error')} on the observed sets {fam}",
                              {"input": inp}, key=("observed", fam))
                continue
            jreqs.append({"op": "gate.admits", "sets": fam, "inferred": res["tree"]})
            jmeta.append((inp, res["tree"]))
    for (inp, tree), jr in zip(jmeta, pvlib.lean(jreqs, timeout=3600) if jreqs else []):
        if ctx.too_many():
            break
        if "error" in jr:
            ctx.violation(f"the returned tree uses something that is not an AND/OR/XOR gate over events ({jr['error']}): "
                          f"{tree}", {"input": inp, "inferred": tree}, key=("observed", inp["family"]))
        elif jr["missing"]:
            ctx.violation(f"the inferred tree {tree} does not admit the observed sets {jr['missing'][:3]}",
                          {"input": inp, "inferred": tree, "missing": jr["missing"]}, key=("observed", inp["family"]))


def run(ctx: Ctx) -> None:
    ctx.prove(["O2P.Props.C06"], THEOREMS)
    if ctx.tier == "thorough":
        ctx.leanchecker(["O2P.Props.C06"])
    quick = ctx.tier == "quick"
    cover_part(ctx, quick)
    infer_or_part(ctx, quick)
    sizes = [2, 3, 4, 5] if quick else [2, 3, 4, 5, 6]
    doms = pvlib.lean([{"op": "gate.domain", "n": n} for n in sizes], timeout=3600)
    items: list[dict[str, Any]] = []
    counts = {}
    for n, dom in zip(sizes, doms):
        if isinstance(dom, dict) and "error" in dom:
            ctx.broken_ties.append(f"model driver: {dom['error']}")
            continue
        counts[n] = len(dom)
        sel = dom
        if (quick and n == 5) or (not quick and n == 6):
            k = 3 if quick else 12
            off = ctx.rng.randrange(k)
            sel = [t for i, t in enumerate(dom) if i % k == off]
        for t in sel:
            items.append({"n": n, **t})
    ctx.cov["domain_sizes"] = counts
    # the same trees under event names that are valid but unusual: names that are prefixes / concatenations of one
    # another (two orderings of a set may then spell the same string), blanks at the edges, marker-like and
    # punctuation names.  All of n <= 3, a seeded part of the larger sizes.
    namings = [
        {"a": "A", "b": "AA", "c": "B", "d": "AB", "e": "BA", "f": "AAA"},
        {"a": "x", "b": "xx", "c": "xxx", "d": "y", "e": "xy", "f": "yx"},
        {"a": "a ", "b": " a", "c": "a", "d": "x;y", "e": "|||", "f": "q:r"},
        {"a": "1", "b": "11", "c": "0042", "d": "|||AUDIT|||", "e": "[z]", "f": "50%"},
    ]

    def ren(t: Any, m: dict[str, str]) -> Any:
        return m[t] if isinstance(t, str) else [t[0]] + [ren(x, m) for x in t[1:]]
    renamed = []
    for it in items:
        keep = it["n"] <= 3 or ctx.rng.random() < (0.25 if it["n"] == 4 else 0.04)
        if keep:
            m = namings[ctx.rng.randrange(len(namings))] if it["n"] > 3 else None
            for mm in ([m] if m else namings):
                renamed.append({"n": it["n"], "subclass": it["subclass"], "tree": ren(it["tree"], mm),
                                "family": [[mm[x] for x in s] for s in it["family"]], "renamed": True})
    ctx.tick("trees_under_unusual_names", len(renamed))
    items_plain = len(items)
    items += renamed
    seeds = [0, 1] if quick else [0, 1, 2, 3]
    ctx.cov["rule"] = (
        f"every gate tree over n distinct events, depth <= 3, alternating operators (Lean-enumerated: {counts}); all of "
        f"n <= {4 if quick else 5} and a seeded {'third of 5' if quick else 'twelfth of 6'}; the real calculate_logic_gates "
        f"on the full outcome family of each, under interpreter hash seeds {seeds}. non-trivial: depth >= 2"
    )
    post_part(ctx, items[:items_plain], seeds)
    observed_part(ctx, quick, items[:items_plain], seeds)
    # batches per hash seed
    reqs, meta = [], []
    B = 40
    for hs in seeds:
        for i in range(0, len(items), B):
            reqs.append({"op": "gates", "families": [it["family"] for it in items[i:i + B]], "hash_seed": hs,
                         "uuid_seed": ctx.seed + i, "timeout": 300})
            meta.append((hs, i))
    reps = pvlib.run_requests(reqs)
    jreqs, jmeta = [], []
    for (hs, i), rp in zip(meta, reps):
        if "error" in rp:
            ctx.broken_ties.append(f"worker failed on a batch: {rp['error'][:120]}")
            continue
        for k, res in enumerate(rp["results"]):
            it = items[i + k]
            if "error" in res or res.get("tree") is None:
                jmeta.append((hs, i + k, res))
                jreqs.append({"op": "gate.judge", "src": it["tree"], "inferred": "tau"})
            else:
                jmeta.append((hs, i + k, res))
                jreqs.append({"op": "gate.judge", "src": it["tree"], "inferred": res["tree"]})
    jres = pvlib.lean(jreqs, timeout=3600) if jreqs else []
    states = 0
    for (hs, idx, res), jr in zip(jmeta, jres):
        if ctx.too_many():
            break
        it = items[idx]
        states += 1
        if hs == seeds[0]:
            ctx.case(it["tree"], str(it["tree"]).count("[") >= 2,
                     sample={"tree": it["tree"], "family": it["family"], "inferred": res.get("tree")}
                     if ctx.cov["evaluations"] % 397 == 0 else None)
            ctx.tick(f"n{it['n']}" + ("_renamed" if it.get("renamed") else ""))
            ctx.tick("subclass" if it["subclass"] else "outside_subclass")
        inp = {"tree": it["tree"], "family": it["family"], "hash_seed": hs}
        if "error" in res:
            ctx.violation(f"calculate_logic_gates raised {res['error']}", {"input": inp}, key=("tree", it["tree"]))
        elif "error" in jr:
            ctx.violation(f"the returned tree uses something that is not an AND/OR/XOR gate over events ({jr['error']}): "
                          f"{res['tree']}", {"input": inp, "inferred": res["tree"]}, key=("tree", it["tree"]))
        elif not jr["sound"]:
            ctx.violation(f"the inferred tree {res['tree']} does not admit the observed sets {jr['missing'][:3]}",
                          {"input": inp, "inferred": res["tree"], "missing": jr["missing"]}, key=("tree", it["tree"]))
        elif it["subclass"] and not jr["exact"]:
            ctx.violation(f"the inferred tree {res['tree']} admits {jr['extra'][:3]} beyond the outcomes of {it['tree']}",
                          {"input": inp, "inferred": res["tree"], "extra": jr["extra"]}, key=("tree", it["tree"]))
    ctx.cov["states"] = len(items)
    ctx.cov["transitions"] = states
    ctx.cov["exhaustive"] = quick is False or True
    ctx.cov["exhaustive_note"] = ("complete for n <= 4 (quick) / n <= 5 (thorough); the largest size is a seeded residue "
                                  "class of the enumeration")
    ctx.assumptions += [
        "calculate_logic_gates (pm4py inductive miner on permuted pseudo-traces + OR inference + weighted cover) is not "
        "modelled in Lean: the property's finite quantifier is discharged by running the real function on every "
        "element, with Lean enumerating the domain and judging the results",
        "set-iteration order inside pm4py/pandas varies with the interpreter hash seed: every tree is inferred under "
        "several seeds in separate processes",
    ]


def replay(data: dict[str, Any]) -> int:
    inp = data["input"]
    if "universe" in inp:      # the cover step alone
        got = pvlib.run_requests([{"op": "cover", "inputs": [(inp["sets"], inp["universe"])],
                                   "hash_seed": inp.get("hash_seed", 0)}])[0]
        lr = pvlib.lean([{"op": "gate.cover", "sets": inp["sets"], "universe": inp["universe"]}])[0]
        print("get_weighted_cover:", got.get("results"), "\nprocess_missing_and_gates:", got.get("trees"),
              "\nmodel outcomes:", lr.get("outcomes"))
        res = (got.get("results") or [None])[0]
        outs = [None if o is None else sorted(sorted(x) for x in o) for o in lr.get("outcomes", [])]
        return 0 if (not isinstance(res, dict) and res in outs) else 1
    if "sets" in inp and "tree" in inp:      # the OR inference alone
        got = pvlib.run_requests([{"op": "infer_or", "inputs": [(inp["sets"], inp["tree"])], "hash_seed": 0}])[0]
        lr = pvlib.lean([{"op": "gate.inferor", "sets": inp["sets"], "tree": inp["tree"]}])[0]
        print("real:", got.get("results"), "\nmodel:", lr)
        res = (got.get("results") or [{}])[0]
        return 0 if res.get("node") == lr.get("node") and res.get("all") == lr.get("all") else 1
    if "unreproduced" in inp:
        print(json.dumps(inp)[:2000])
        return 1
    rp = pvlib.run_requests([{"op": "gates", "families": [inp["family"]], "hash_seed": inp.get("hash_seed", 0)}])[0]
    res = rp["results"][0]
    print("inferred:", res)
    if "tree" not in res or res["tree"] is None:
        return 1
    if inp.get("tree") is None:     # observed sets without a source tree: soundness alone
        jr = pvlib.lean([{"op": "gate.admits", "sets": inp["family"], "inferred": res["tree"]}])[0]
        print(jr)
        if "error" in jr or jr["missing"]:
            return 1
        rr = pvlib.run_requests([{"op": "gates_raw", "families": [inp["family"]],
                                  "hash_seed": inp.get("hash_seed", 0)}])[0]["results"][0]
        if "raw" in rr:
            lr = pvlib.lean([{"op": "gate.post", "sets": inp["family"], "raw": rr["raw"]}])[0]
            print("model outcomes:", lr)
            if any(not v.get("sound") for v in lr.get("verdicts", [])):
                return 1
        return 0
    jr = pvlib.lean([{"op": "gate.judge", "src": inp["tree"], "inferred": res["tree"]}])[0]
    print(jr)
    ok = jr.get("sound") and (jr.get("exact") or not jr.get("subclass"))
    return 0 if ok else 1
