"""C03 — the diagram is independent of order, identifiers, repeats and hash seed.

prove (O2P.Props.C03: permuting jobs, permuting events inside a job, renaming event/job ids, supplying jobs again
all give an equivalent model — for every job list) -> part A: the real ingestion on five presentations of each
job set gives one and the same model, equal to the Lean model's -> part B (validated, not proved): the real
learner on presentations x interpreter hash seeds (separate processes) either fails everywhere or emits
diagrams with one language (mutual inclusion of the jobs with loops <= 2, decided by the Lean semantics).
"""
from __future__ import annotations

import json
from typing import Any

from ..common import Ctx
from .. import pvlib, learncheck as lc

LEVEL = "proof"
THEOREMS = [
    "O2P.Learn.ingest_sem",
    "O2P.Learn.ingest_perm",
    "O2P.Learn.ingest_same_members",
    "O2P.Learn.ingest_idem",
    "O2P.Learn.ingest_events_perm",
    "O2P.Learn.ingest_rename",
    "O2P.Learn.ingest_congr",
]


def presentations(ctx: Ctx, jobs: list[list[dict[str, Any]]]) -> dict[str, list[list[dict[str, Any]]]]:
    r = ctx.rng
    base = pvlib.jobs_to_pv(jobs)
    out = {"base": base}
    p = [list(j) for j in base]
    r.shuffle(p)
    out["jobs_permuted"] = p
    p = [list(j) for j in base]
    for j in p:
        r.shuffle(j)
    out["events_permuted"] = p
    ren = []
    for k, j in enumerate(base):
        m = {e["eventId"]: f"x{r.randrange(10**9)}-{i}" for i, e in enumerate(j)}
        jid = f"J{r.randrange(10**6)}"
        shift = r.randrange(10**6)
        ren.append([{**e, "jobId": jid, "eventId": m[e["eventId"]],
                     "previousEventIds": [m[q] for q in e["previousEventIds"]],
                     "timestamp": f"2031-02-03T04:05:06.{shift:06d}Z"} for e in j])
    out["ids_renamed"] = ren
    dup = [list(j) for j in base]
    k = r.randrange(len(base))
    m = {e["eventId"]: e["eventId"] + "-again" for e in base[k]}
    dup.append([{**e, "jobId": e["jobId"] + "-again", "eventId": m[e["eventId"]],
                 "previousEventIds": [m[q] for q in e["previousEventIds"]]} for e in base[k]])
    out["job_twice"] = dup
    return out


def canon_model(m: list[dict[str, Any]]) -> list[dict[str, Any]]:
    return sorted(({"typ": e["typ"], "outs": sorted(sorted(s) for s in e["outs"]),
                    "ins": sorted(sorted(s) for s in e["ins"])} for e in m), key=lambda d: d["typ"])


def norm_blk(b: Any) -> Any:
    """branch order does not matter for the language: sort the branches of every fork"""
    if b[0] == "seq":
        return ["seq", [norm_blk(x) for x in b[1]]]
    if b[0] == "fork":
        return ["fork", b[1], sorted((norm_blk(x) for x in b[2]), key=json.dumps)]
    if b[0] == "loop":
        return ["loop", norm_blk(b[1])]
    return b


def judge_runs(cases: list[dict[str, Any]], runs: dict[int, list[tuple[str, int, dict[str, Any]]]]
               ) -> dict[int, tuple[str, dict[str, Any] | None]]:
    """case index -> (what differs between the runs of the case, extra replay data); languages are compared by the
    Lean semantics"""
    preqs, pmeta = [], []
    for i, rs in runs.items():
        for k, (name, hs, rp) in enumerate(rs):
            if "text" in rp:
                preqs.append({"op": "dg.parse", "text": rp["text"]})
                pmeta.append((i, k))
    parsed = pvlib.lean(preqs) if preqs else []
    blks: dict[tuple[int, int], Any] = {}
    for (i, k), pr in zip(pmeta, parsed):
        blks[(i, k)] = norm_blk(pr["blk"]) if pr.get("ok") else ("unparsable", pr.get("error"))
    sreqs, smeta = [], []
    for i, rs in runs.items():
        distinct: list[tuple[int, Any]] = []
        for k in range(len(rs)):
            b = blks.get((i, k))
            if b is not None and not any(json.dumps(b) == json.dumps(d) for _, d in distinct):
                distinct.append((k, b))
        cases[i]["distinct"] = distinct
        ok_blks = [(k, b) for k, b in distinct if not (isinstance(b, tuple))]
        for (k1, b1) in ok_blks[1:]:
            k0, b0 = ok_blks[0]
            sreqs.append({"op": "dg.subset", "learned": b1, "source": b0, "k": 2, "cap": 200, "limit": 20000})
            smeta.append((i, k0, k1, "fwd"))
            sreqs.append({"op": "dg.subset", "learned": b0, "source": b1, "k": 2, "cap": 200, "limit": 20000})
            smeta.append((i, k0, k1, "bwd"))
    sres = pvlib.lean(sreqs) if sreqs else []
    lang_bad: dict[int, str] = {}
    for (i, k0, k1, d), a in zip(smeta, sres):
        if a.get("rejected"):
            n0, h0, _ = runs[i][k0]
            n1, h1, _ = runs[i][k1]
            job = [(n["typ"], n["prev"]) for n in (a.get("first_rejected") or [])]
            lang_bad.setdefault(i, f"presentation {n1!r} (hash seed {h1}) and {n0!r} (hash seed {h0}) give diagrams with "
                                   f"different languages, e.g. {job} is a job of only one of them")
    out: dict[int, tuple[str, dict[str, Any] | None]] = {}
    for i, rs in runs.items():
        c = cases[i]
        ok = [r for r in rs if "text" in r[2]]
        if ok and len(ok) != len(rs):
            f = next(r for r in rs if "text" not in r[2])
            out[i] = (f"the learner succeeds on presentation {ok[0][0]!r} (hash seed {ok[0][1]}) and fails on "
                      f"{f[0]!r} (hash seed {f[1]}): {f[2].get('error', '')[:120]}",
                      {"failing": {"presentation": f[0], "hash_seed": f[1], "jobs_pv": c["pres"][f[0]]}})
            continue
        kinds = {isinstance(b, tuple) for _, b in c.get("distinct", [])}
        if kinds == {True, False}:
            out[i] = ("one presentation yields a well-formed diagram and another an unreadable text", None)
            continue
        if i in lang_bad:
            out[i] = (lang_bad[i], None)
    return out


def history_part(ctx: Ctx, cases: list[dict[str, Any]], runs: dict[int, list[tuple[str, int, dict[str, Any]]]],
                 quick: bool) -> None:
    """the diagram depends only on the set of job graphs — not on which workflow the same process learnt before.  In one
    interpreter a first workflow is learnt and then a second one that uses the same event names; the second diagram
    must have the language it has when the second workflow is learnt alone (part B, base presentation, hash seed 0).
    First workflows include branch-count ones (the same successor types with varying multiplicities), whose gate trees
    are rewritten most heavily."""
    r = ctx.rng
    firsts: list[list[Any]] = []
    for kinds in (["AND"], ["OR"], ["AND", "OR"]):
        for op in kinds:
            # A -> {B x n, C} -> D with n = 1, 2 (and the plain alternatives for OR)
            jobs = []
            for n in (1, 2):
                nodes = [{"id": 0, "typ": "A", "prev": []}] + [{"id": 1 + i, "typ": "B", "prev": [0]} for i in range(n)]
                nodes.append({"id": n + 1, "typ": "C", "prev": [0]})
                nodes.append({"id": n + 2, "typ": "D", "prev": list(range(1, n + 2))})
                jobs.append(nodes)
            if op == "OR":
                jobs.append([{"id": 0, "typ": "A", "prev": []}, {"id": 1, "typ": "B", "prev": [0]},
                             {"id": 2, "typ": "D", "prev": [1]}])
                jobs.append([{"id": 0, "typ": "A", "prev": []}, {"id": 1, "typ": "C", "prev": [0]},
                             {"id": 2, "typ": "D", "prev": [1]}])
            firsts.append(pvlib.jobs_to_pv(jobs, "h"))
    seconds = [i for i, c in enumerate(cases) if c["kind"] not in ("counted", "partial") and i in runs and pvlib.has(c["blk"], "fork")
               and any(n == "base" and hs == 0 and "text" in rp for n, hs, rp in runs[i])]
    r.shuffle(seconds)
    seconds = seconds[: (24 if quick else 200)]
    others = [i for i in runs if cases[i]["kind"] not in ("counted", "partial")]
    w = pvlib.Worker(0)
    try:
        pairs = []
        for k, i2 in enumerate(seconds):
            first = firsts[k % len(firsts)] if k % 2 == 0 else cases[r.choice(others)]["pres"]["base"]
            w.send({"op": "learn", "chunks": [first], "uuid_seed": 1, "timeout": 30})
            r1 = w.recv()
            if r1.get("error", "").startswith("worker died"):
                w.close()
                w = pvlib.Worker(0)
            w.send({"op": "learn", "chunks": [cases[i2]["pres"]["base"]], "uuid_seed": ctx.seed * 31 + i2 * 7,
                    "timeout": 30})
            r2 = w.recv()
            if r2.get("error", "").startswith("worker died"):
                w.close()
                w = pvlib.Worker(0)
                continue
            solo = next(rp for n, hs, rp in runs[i2] if n == "base" and hs == 0)
            ctx.tick("history_pairs")
            pairs.append((i2, first, r2, solo))
    finally:
        w.close()
    preqs = []
    for i2, first, r2, solo in pairs:
        preqs += [{"op": "dg.parse", "text": r2.get("text", "")}, {"op": "dg.parse", "text": solo["text"]}]
    pres = pvlib.lean(preqs) if preqs else []
    sreqs, smeta = [], []
    for k, (i2, first, r2, solo) in enumerate(pairs):
        a, b = pres[2 * k], pres[2 * k + 1]
        c = cases[i2]
        inp = {"definition": c["blk"], "jobs_pv": c["pres"]["base"], "learnt_before": first}
        if "text" not in r2:
            ctx.violation(f"learnt after another workflow in the same interpreter the learner fails "
                          f"({r2.get('error', '')[:100]}); alone it succeeds", {"input": inp}, key=("hist", c["blk"]))
        elif a.get("ok") != b.get("ok"):
            ctx.violation("learnt after another workflow in the same interpreter the emitted text is "
                          f"{'not ' if not a.get('ok') else ''}a diagram; alone it is {'not ' if not b.get('ok') else ''}one",
                          {"input": inp, "after": r2.get("text"), "alone": solo["text"]}, key=("hist", c["blk"]))
        elif a.get("ok") and json.dumps(norm_blk(a["blk"])) != json.dumps(norm_blk(b["blk"])):
            sreqs += [{"op": "dg.subset", "learned": a["blk"], "source": b["blk"], "k": 2, "cap": 200, "limit": 20000},
                      {"op": "dg.subset", "learned": b["blk"], "source": a["blk"], "k": 2, "cap": 200, "limit": 20000}]
            smeta += [k, k]
    seen = set()
    for k, res in zip(smeta, pvlib.lean(sreqs) if sreqs else []):
        if res.get("rejected") and k not in seen:
            seen.add(k)
            i2, first, r2, solo = pairs[k]
            c = cases[i2]
            job = [(n["typ"], n["prev"]) for n in (res.get("first_rejected") or [])]
            ctx.violation("the diagram of a workflow depends on which workflow the same interpreter learnt before: "
                          f"another language than alone, e.g. {job}",
                          {"input": {"definition": c["blk"], "jobs_pv": c["pres"]["base"], "learnt_before": first},
                           "after": r2.get("text"), "alone": solo["text"]}, key=("hist", c["blk"]))


def run(ctx: Ctx) -> None:
    ctx.prove(["O2P.Props.C03"], THEOREMS)
    if ctx.tier == "thorough":
        ctx.leanchecker(["O2P.Props.C03"])
    quick = ctx.tier == "quick"
    seeds = [0, 1, 2] if quick else [0, 1, 2, 3, 4, 5, 6, 7]
    cases = lc.build_cases(ctx, 60 if quick else 600, [4, 6, 8, 10], with_corpus=True)
    cases = [c for c in cases if len(c["jobs"]) <= 60]
    # the recorded examples of this property's known findings always run (their KNOWN-FINDING line is printed by every
    # run, and a finding that disappears shows in the evidence)
    known_defs = [f["example"]["definition"] for f in ctx.findings
                  if isinstance(f.get("example"), dict) and "definition" in f["example"]]
    for d, rp in zip(known_defs, pvlib.lean([{"op": "dg.runs", "k": 2, "cap": 400, "limit": 3000, "blk": d}
                                             for d in known_defs]) if known_defs else []):
        if rp.get("jobs") and len(rp["jobs"]) <= 60:
            cases.append({"kind": "known_example", "blk": d, "jobs": rp["jobs"], "classes": sorted(lc.finding_classes(d))})
            ctx.tick("def_known_example")
    # job sets with counted multisets (the same event type 1, 2 or 3 times in parallel, a different number in every
    # job): which multiset is seen first depends on the presentation.  Outside F's distinct names: only the ingestion
    # clause is judged on them.
    for _ in range(16 if quick else 90):
        r = ctx.rng
        b = r.choice(["B", "Bx", "K"])
        counts = r.sample([1, 2, 3], k=r.choice([2, 3]))
        jobs = []
        # the fan-out re-joins in one event (its predecessor list then shows the count), ends the job (nothing but the
        # number of instances tells the jobs apart), or every instance carries on with a successor of its own
        shape = r.choice(["join", "join", "terminal", "chains"])
        ctx.tick(f"counted_{shape}")
        for n in counts:
            nodes = [{"id": 0, "typ": "A", "prev": []}]
            nodes += [{"id": 1 + i, "typ": b, "prev": [0]} for i in range(n)]
            if shape == "join":
                nodes.append({"id": n + 1, "typ": "C", "prev": list(range(1, n + 1))})
            elif shape == "chains":
                nodes += [{"id": n + 1 + i, "typ": "C", "prev": [1 + i]} for i in range(n)]
            jobs.append(nodes)
        if r.random() < 0.5:
            jobs.append([{"id": 0, "typ": "A", "prev": []}, {"id": 1, "typ": "D", "prev": [0]},
                         {"id": 2, "typ": "C", "prev": [1]}])
        cases.append({"kind": "counted", "blk": ["seq", [["ev", f"counted {b} x{counts}"]]], "jobs": jobs, "classes": []})
        ctx.tick("def_counted")
    # partial job sets: "the set of job graphs" need not be every execution of a definition.  Two or three jobs of a
    # definition, by preference jobs that hold the same events with different links (a loop whose iterations choose
    # differently: B then C, C then B) — whatever is learnt from them, the ingested model may not depend on the
    # presentation.  Only the ingestion clause is judged on them (the learner is outside its sound fragment).
    partial = []
    for c in cases:
        if c["kind"] in ("counted", "corpus") or len(c["jobs"]) < 3 or len(partial) >= (25 if quick else 200):
            continue
        groups: dict[str, list[Any]] = {}
        for j in c["jobs"]:
            groups.setdefault(json.dumps(sorted(e["typ"] for e in j)), []).append(j)
        same = [g for g in groups.values() if len(g) >= 2]
        if same:
            g = ctx.rng.choice(same)
            sub = ctx.rng.sample(g, 2)
            ctx.tick("partial_same_events_other_links")
        elif ctx.rng.random() < 0.3:
            sub = ctx.rng.sample(c["jobs"], ctx.rng.choice([2, 3]))
            ctx.tick("partial_random_subset")
        else:
            continue
        partial.append({"kind": "partial", "blk": c["blk"], "jobs": sub, "classes": c["classes"]})
    cases += partial
    ctx.cov["rule"] = (
        "job sets of fragment-F definitions (small exhaustive family, seeded random up to 10 events) and the corpus; "
        "presentations {base, jobs permuted, events permuted inside every job, event/job ids renamed and timestamps "
        "shifted, one job supplied twice, one flat stream with the jobs' events interleaved (ingestion clause, through "
        f"cluster_events_by_job_id)}} x interpreter hash seeds {seeds} in separate processes. non-trivial: the "
        "definition has a fork and a loop, or a fork nested in a fork"
    )
    # ---- part A: ingestion -----------------------------------------------------------------------------
    reqs, meta = [], []
    for i, c in enumerate(cases):
        c["pres"] = presentations(ctx, c["jobs"])
        for name, pv in c["pres"].items():
            reqs.append({"op": "ingest", "jobs": pv, "hash_seed": 0, "timeout": 30})
            meta.append((i, name))
        # the same jobs as one flat stream with the events of different jobs interleaved (round robin from a random
        # offset, then two random transpositions), clustered by the project's cluster_events_by_job_id
        queues = [list(j) for j in c["pres"]["base"]]
        flat: list[Any] = []
        k = ctx.rng.randrange(max(1, len(queues)))
        while any(queues):
            q = queues[k % len(queues)]
            if q:
                flat.append(q.pop(0))
            k += 1
        for _ in range(2):
            if len(flat) > 1:
                a, b = ctx.rng.randrange(len(flat)), ctx.rng.randrange(len(flat))
                flat[a], flat[b] = flat[b], flat[a]
        reqs.append({"op": "ingest", "flat": flat, "hash_seed": 0, "timeout": 30})
        meta.append((i, "flat_interleaved"))
    reps = pvlib.run_requests(reqs)
    models: dict[int, dict[str, Any]] = {}
    for (i, name), rp in zip(meta, reps):
        models.setdefault(i, {})[name] = rp
    lreps = pvlib.lean([{"op": "learn.ingest", "chunks": [c["pres"]["base"]]} for c in cases])
    for i, c in enumerate(cases):
        c["ingest_bad"] = None
        ms = models[i]
        if any("error" in m for m in ms.values()):
            c["ingest_bad"] = f"ingestion failed on a presentation: { {k: v.get('error') for k, v in ms.items() if 'error' in v} }"
            continue
        base = ms["base"]["model"]
        for name, m in ms.items():
            if m["model"] != base:
                c["ingest_bad"] = f"the model ingested from presentation {name!r} differs from the base presentation's"
                break
        lm = lreps[i]
        if c["ingest_bad"] is None and ("error" in lm or lm.get("status") != "ok" or canon_model(lm["model"]) != base):
            ctx.violation("correspondence: Lean ingestion model and update_and_create_events_from_clustered_pvevents differ",
                          {"input": {"definition": c["blk"], "jobs_pv": c["pres"]["base"]},
                           "model": lm.get("model", lm), "impl": base}, key=("corr", c["blk"]), concrete=False)
    # ---- part B: diagrams ------------------------------------------------------------------------------
    reqs, meta = [], []
    for i, c in enumerate(cases):
        if c["kind"] in ("counted", "partial"):
            continue
        # definitions with a break (corpus or generated) are where the walk's choices hang on container order: their
        # base presentation also runs under hash seeds 3..7 in the quick tier
        extra = [3, 4, 5, 6, 7] if quick and (c["kind"] == "corpus" or pvlib.has(c["blk"], "brk")) else []
        for name, pv in c["pres"].items():
            for hs in seeds + (extra if name == "base" else []):
                if name != "base" and hs != seeds[(list(c["pres"]).index(name)) % len(seeds)] and quick:
                    continue  # quick: every presentation under one seed, the base under all seeds
                reqs.append({"op": "learn", "chunks": [pv], "hash_seed": hs, "uuid_seed": ctx.seed * 31 + i * 7 + hs,
                             "timeout": 30})
                meta.append((i, name, hs))
    reps = pvlib.run_requests(reqs)
    runs: dict[int, list[tuple[str, int, dict[str, Any]]]] = {}
    for (i, name, hs), rp in zip(meta, reps):
        runs.setdefault(i, []).append((name, hs, rp))
    verdicts = judge_runs(cases, runs)
    # a difference must be a function of (presentation, hash seed): the runs of a flagged case are repeated, every
    # request in a fresh interpreter, and only a difference that shows again is reported.  (An alarm seen once in a background
    # sweep could not be reproduced; most likely /repo was being patched with a seeded change at that moment.)
    flagged = sorted(verdicts)
    if flagged:
        idx = [k for k, (i, _, _) in enumerate(meta) if i in verdicts]
        reps2 = pvlib.run_requests_fresh([reqs[k] for k in idx])
        runs2: dict[int, list[tuple[str, int, dict[str, Any]]]] = {}
        for k, rp in zip(idx, reps2):
            i, name, hs = meta[k]
            runs2.setdefault(i, []).append((name, hs, rp))
        verdicts2 = judge_runs(cases, runs2)
        for i in flagged:
            if i in verdicts2:
                runs[i] = runs2[i]
                verdicts[i] = verdicts2[i]
            else:
                ctx.tick("difference_not_reproduced_in_fresh_processes")
                ctx.cov.setdefault("unreproduced", []).append({"definition": cases[i]["blk"], "first_verdict": verdicts[i][0][:300]})
                del verdicts[i]
    for i, c in enumerate(cases):
        if ctx.too_many():
            break
        rs = runs.get(i, [])
        nontrivial = (pvlib.has(c["blk"], "loop") and pvlib.has(c["blk"], "fork")) or str(c["blk"]).count("'fork'") >= 2
        ctx.case(c["blk"], nontrivial, sample={"definition": c["blk"], "runs": len(rs),
                                               "distinct_diagrams": len(c.get("distinct", []))}
                 if ctx.cov["evaluations"] % 29 == 0 else None)
        ctx.cov["traces_validated_against_impl"] += len(rs)
        ctx.tick(f"distinct_diagrams_{min(len(c.get('distinct', [])), 4)}")
        c["learn"] = rs[0][2] if rs else {}
        c["pv"] = c["pres"]["base"]
        if c["ingest_bad"]:
            lc.report(ctx, c, c["ingest_bad"])
            continue
        if i in verdicts:
            what, extra = verdicts[i]
            # the learner's recorded defect classes are findings of C01/C05 (an ill-formed text); seen through C03 they
            # show as "well-formed under one hash seed / presentation, ill-formed under another".  Only that kind of
            # difference on a member of a listed class is matched against the known findings (key <class>:wf-flip);
            # a difference between two well-formed diagrams never is.
            flip = what.startswith("one presentation yields a well-formed diagram")
            lc.report(ctx, {**c, "classes": [k + ":wf-flip" for k in c["classes"]] if flip else []}, what, extra)
    history_part(ctx, cases, runs, quick)
    ctx.assumptions += [
        "the ingestion clauses are theorems (every job list); independence of what follows ingestion (C03_walk_full in "
        "O2P/Props/C03.lean) is not proved: it is decided on the generated job sets x presentations x hash seeds, the "
        "language comparison being made by the Lean semantics with loops <= 2",
        "hash seeds need separate interpreter processes: one worker process per (hash seed) with PYTHONHASHSEED pinned; "
        "uuid4 is replaced by a seeded generator inside the workers",
    ]


def _same_language(texts: list[str | None]) -> bool:
    """all texts are diagrams with one language (Lean semantics, loops <= 2), or none is a diagram"""
    if any(t is None for t in texts):
        return all(t is None for t in texts)
    parsed = pvlib.lean([{"op": "dg.parse", "text": t} for t in texts])
    oks = [p.get("ok") for p in parsed]
    if not all(oks):
        return not any(oks)
    blks = [norm_blk(p["blk"]) for p in parsed]
    reqs = []
    for b in blks[1:]:
        if json.dumps(b) != json.dumps(blks[0]):
            reqs += [{"op": "dg.subset", "learned": b, "source": blks[0], "k": 2, "cap": 200, "limit": 20000},
                     {"op": "dg.subset", "learned": blks[0], "source": b, "k": 2, "cap": 200, "limit": 20000}]
    return not any(x.get("rejected") for x in (pvlib.lean(reqs) if reqs else []))


def replay(data: dict[str, Any]) -> int:
    """re-decide the recorded case: (1) ingestion of the jobs as given, reversed, with one job twice and as one flat
    interleaved stream gives one model; (2) the diagrams under hash seeds 0-7 have one language; (3) if the case records
    a workflow learnt before in the same interpreter, the diagram after it has the language of the diagram alone"""
    inp = data["input"]
    jobs = inp["jobs_pv"]
    rc = 0
    flat: list[Any] = []
    queues = [list(j) for j in jobs]
    while any(queues):
        for q in queues:
            if q:
                flat.append(q.pop(0))
    dup = [list(j) for j in jobs] + [[{**e, "jobId": e["jobId"] + "-again", "eventId": e["eventId"] + "-again",
                                       "previousEventIds": [p + "-again" for p in e["previousEventIds"]]} for e in jobs[0]]]
    reqs = [{"op": "ingest", "jobs": jobs, "hash_seed": 0}, {"op": "ingest", "jobs": list(reversed(jobs)), "hash_seed": 0},
            {"op": "ingest", "jobs": dup, "hash_seed": 0}, {"op": "ingest", "flat": flat, "hash_seed": 0}]
    models = [r.get("model", r.get("error")) for r in pvlib.run_requests_fresh(reqs)]
    if any(m != models[0] for m in models[1:]):
        print("ingestion: the presentations give different models")
        rc = 1
    reps = pvlib.run_requests_fresh([{"op": "learn", "chunks": [jobs], "hash_seed": hs, "uuid_seed": inp.get("uuid_seed", 0),
                                      "timeout": 60} for hs in range(8)])
    texts = [r.get("text") for r in reps]
    if not _same_language(texts):
        print("hash seeds 0-7: the diagrams do not have one language (or only some runs succeed)")
        rc = 1
    if "learnt_before" in inp:
        w = pvlib.Worker(0)
        try:
            w.send({"op": "learn", "chunks": [inp["learnt_before"]], "uuid_seed": 1, "timeout": 60})
            w.recv()
            w.send({"op": "learn", "chunks": [jobs], "uuid_seed": inp.get("uuid_seed", 0), "timeout": 60})
            after = w.recv().get("text")
        finally:
            w.close()
        if not _same_language([texts[0], after]):
            print("learnt after another workflow in the same interpreter: another language than alone")
            rc = 1
    print("ok" if rc == 0 else "DIFFERS")
    return rc
