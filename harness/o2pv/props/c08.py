"""C08 — call trees are sequenced exactly as the sequencing rules specify.

translate -> prove (O2P.Props.C08) -> correspondence of `sequence_otel_job_id_streams` with the Lean
sequencer model -> oracle: an accumulator-free Python rendering of the documented rules (union-find over
overlapping windows, "nearest earlier unit" links), plus coverage/field/acyclicity/descendant checks.
"""
from __future__ import annotations

import importlib
import itertools
from typing import Any, Iterator

from ..common import Ctx, LeanSide
from ..translate import translate
from .c16 import expected_string

LEVEL = "proof"
THEOREMS = [
    "O2P.Seq.sweep_flatten",
    "O2P.Seq.sweep_eq_spec",
    "O2P.Seq.sweep_separated",
    "O2P.Seq.sweepSpec_merge",
    "O2P.Seq.sweepOld_cex",
    "O2P.Seq.arrange_perm",
    "O2P.Seq.linkT_keys",
    "O2P.Seq.linkT_wellfounded",
    "O2P.Seq.rename_ids",
    "O2P.Seq.rename_order_free",
    "O2P.Seq.sequence_covers",
]
KNOWN_MULTI_START = ("class", "multi-start-parallel-first-group")
NS = 1000  # grid unit: one microsecond, so that the PV text of an end time is exact


# ------------------------------------------------------------------------------------------------
# cases


def mk_case(parents: list[int | None], ivs: list[tuple[int, int]], types: list[str], cfg: dict[str, Any],
            order: list[int] | None = None, child_order_seed: int | None = None) -> dict[str, Any]:
    n = len(parents)
    ids = [f"s{i}" for i in range(n)]
    kids: dict[int, list[int]] = {i: [] for i in range(n)}
    for i, p in enumerate(parents):
        if p is not None and 0 <= p < n:
            kids[p].append(i)
    spans = []
    for i in range(n):
        p = parents[i]
        spans.append({
            "id": ids[i],
            "parent": None if p is None else (ids[p] if 0 <= p < n else f"missing{p}"),
            "typ": types[i],
            "start": ivs[i][0] * NS,
            "end": ivs[i][1] * NS,
            "children": [ids[c] for c in kids[i]],
        })
    if order is not None:
        spans = [spans[i] for i in order]
    return {"spans": spans, **cfg}


def tree_shapes(n: int) -> Iterator[list[int | None]]:
    """all parent arrays with parent[i] < i (every rooted tree on n nodes, in some labelling)"""
    for ps in itertools.product(*[range(i) for i in range(1, n)]):
        yield [None, *ps]


GRID_IVS = lambda g: [(a, b) for a in range(g) for b in range(a, g)]  # noqa: E731


def exhaustive_cases(ctx: Ctx) -> Iterator[dict[str, Any]]:
    g = 4 if ctx.tier == "quick" else 5
    ivs_all = GRID_IVS(g)
    cfgs = [
        {"async": False, "groups": [], "renames": []},
        {"async": True, "groups": [], "renames": []},
        {"async": True, "groups": [{"parent": "T0", "map": [["T1", "g1"], ["T2", "g1"], ["T9", "g2"]]}], "renames": []},
        {"async": False, "groups": [{"parent": "T0", "map": [["T1", "g1"], ["T3", "g1"]]}],
         "renames": [{"from": "T1", "to": "T1x", "children": ["T2", "T3"]},
                     {"from": "T0", "to": "T0x", "children": ["T1"]}]},
    ]
    for n in range(1, 5):
        for parents in tree_shapes(n):
            # root interval fixed; siblings need distinct starts
            for ivs in itertools.product(ivs_all, repeat=n - 1):
                full = [(0, g)] + list(ivs)
                ok = True
                for p in range(n):
                    st = [full[i][0] for i in range(n) if parents[i] == p]
                    if len(set(st)) != len(st):
                        ok = False
                        break
                if not ok:
                    continue
                types = [f"T{i}" for i in range(n)]
                for cfg in cfgs:
                    ctx.tick("exhaustive")
                    yield mk_case(parents, full, types, cfg)


def random_case(ctx: Ctx) -> dict[str, Any]:
    r = ctx.rng
    n = r.choice([1, 2, 3, 5, 8, 12, 20, 30])
    fan = r.choice([1, 2, 4, 8])
    parents: list[int | None] = [None]
    for i in range(1, n):
        parents.append(r.randrange(max(0, i - fan), i))
    alphabet = [f"T{i}" for i in range(r.choice([2, 3, 5, 8]))]
    types = [r.choice(alphabet) for _ in range(n)]
    horizon = r.choice([6, 20, 100])
    ivs: list[tuple[int, int]] = []
    used: dict[int | None, set[int]] = {}
    for i in range(n):
        taken = used.setdefault(parents[i], set())
        while True:
            a = r.randrange(horizon * 3)
            if a not in taken:
                taken.add(a)
                break
        ivs.append((a, a + r.choice([0, 0, 1, 2, 5, horizon])))
    groups = []
    if r.random() < 0.6:
        for pt in r.sample(alphabet, k=min(len(alphabet), r.choice([1, 2]))):
            m = [[ct, r.choice(["g1", "g2", "g3"])] for ct in r.sample(alphabet + ["Tabsent"], k=r.choice([1, 2, 3]))]
            groups.append({"parent": pt, "map": m})
    renames = []
    if r.random() < 0.5:
        for ft in r.sample(alphabet, k=min(len(alphabet), r.choice([1, 2]))):
            renames.append({"from": ft, "to": r.choice([ft + "x", r.choice(alphabet)]),
                            "children": r.sample(alphabet + ["Tabsent"], k=r.choice([1, 2]))})
    cfg = {"async": r.random() < 0.6, "groups": groups, "renames": renames}
    if r.random() < 0.4:
        # real nanosecond times: whole seconds from a present-day epoch minus a few hundred ns, so that the emitted
        # end time has to carry a rounding into the seconds (order and overlaps are unchanged)
        T0 = 1_700_000_000 + r.randrange(10**6)
        d = r.choice([0, 1, 300, 499, 500, 501, 999])
        ctx.tick("random_epoch_ns")
        epoch = (T0, d)
    else:
        epoch = None
    # … or the whole trace inside a few hundred nanoseconds of a present-day instant (one tick = 1 ns, or 100 ns): the
    # instants differ by less than a double can tell apart at 1.7e18, integer comparisons must still order them
    tight = None
    if epoch is None and r.random() < 0.3:
        tight = ((1_700_000_000 + r.randrange(10**6)) * 10**9 + r.randrange(10**9), r.choice([1, 1, 100]))
        ctx.tick("random_tight_ns")
    order = list(range(n))
    r.shuffle(order)
    case = mk_case(parents, ivs, types, cfg, order=order)
    if epoch:
        for s in case["spans"]:
            s["start"] = (epoch[0] * NS + s["start"]) // NS * 10**9 - epoch[1]
            s["end"] = (epoch[0] * NS + s["end"]) // NS * 10**9 - epoch[1]
    if tight:
        for s in case["spans"]:
            s["start"] = tight[0] + s["start"] // NS * tight[1]      # mk_case counts in microsecond ticks of NS ns
            s["end"] = tight[0] + s["end"] // NS * tight[1]
    for s in case["spans"]:
        r.shuffle(s["children"])
    ctx.tick("random")
    ctx.tick(f"random_n{n}")
    return case


def malformed_case(ctx: Ctx) -> dict[str, Any]:
    r = ctx.rng
    n = r.choice([2, 3, 5])
    parents: list[int | None] = [None] + [r.randrange(0, i) for i in range(1, n)]
    kind = r.choice(["two_roots", "missing_parent", "no_root"])
    if kind == "two_roots":
        parents[r.randrange(1, n)] = None
    elif kind == "missing_parent":
        parents[r.randrange(1, n)] = 99
    else:
        parents[0] = n - 1
    ivs = [(i, i + 1) for i in range(n)]
    ctx.tick("malformed_" + kind)
    return mk_case(parents, ivs, ["T0"] * n, {"async": r.random() < 0.5, "groups": [], "renames": []})


# ------------------------------------------------------------------------------------------------
# the documented rules, accumulator-free (oracle)


def oracle(case: dict[str, Any]) -> dict[str, Any]:
    spans = {s["id"]: s for s in case["spans"]}
    roots = [s for s in case["spans"] if s["parent"] is None]
    if any(s["parent"] is not None and s["parent"] not in spans for s in case["spans"]):
        return {"status": "disconnected"}
    if len(roots) != 1:
        return {"status": "rootcount"}
    kids: dict[str, list[str]] = {i: [] for i in spans}
    for s in case["spans"]:
        if s["parent"] is not None:
            kids[s["parent"]].append(s["id"])
    # rename: simultaneously, on ingested types
    rn = {r["from"]: r for r in case["renames"]}
    typ = {}
    for i, s in spans.items():
        r = rn.get(s["typ"])
        if r is not None and any(spans[c]["typ"] in r["children"] for c in kids[i]):
            typ[i] = r["to"]
        else:
            typ[i] = s["typ"]
    gm = {g["parent"]: dict(map(tuple, g["map"])) for g in case["groups"]}

    def units(p: str) -> list[list[str]]:
        m = gm.get(typ[p], {})
        by_gid: dict[str, list[str]] = {}
        us: list[list[str]] = []
        for c in kids[p]:
            gid = m.get(typ[c])
            if gid is None:
                us.append([c])
            else:
                by_gid.setdefault(gid, []).append(c)
        us += list(by_gid.values())
        if case["async"]:
            # classes of the reflexive-transitive closure of window overlap (closed windows)
            win = [(min(spans[c]["start"] for c in u), max(spans[c]["end"] for c in u)) for u in us]
            parent = list(range(len(us)))

            def find(x: int) -> int:
                while parent[x] != x:
                    parent[x] = parent[parent[x]]
                    x = parent[x]
                return x

            for a in range(len(us)):
                for b in range(a + 1, len(us)):
                    if win[a][0] <= win[b][1] and win[b][0] <= win[a][1]:
                        parent[find(a)] = find(b)
            merged: dict[int, list[str]] = {}
            for a, u in enumerate(us):
                merged.setdefault(find(a), []).extend(u)
            us = list(merged.values())
        us.sort(key=lambda u: min(spans[c]["start"] for c in u))
        return us

    unit_cache = {p: units(p) for p in spans}

    def before(x: str) -> list[str]:
        """the unit before x's unit at the nearest ancestor level that has one"""
        p = spans[x]["parent"]
        if p is None:
            return []
        us = unit_cache[p]
        k = next(i for i, u in enumerate(us) if x in u)
        return us[k - 1] if k > 0 else before(p)

    links = {}
    for x in spans:
        links[x] = sorted(unit_cache[x][-1]) if kids[x] else sorted(before(x))
    return {"status": "ok", "links": links, "types": typ, "first_units_parallel": None}


# ------------------------------------------------------------------------------------------------
# the implementation


class Impl:
    def __init__(self) -> None:
        self.seq = importlib.import_module("tel2puml.otel_to_pv.sequence_otel")
        self.types = importlib.import_module("tel2puml.otel_to_pv.otel_to_pv_types")

    def run(self, case: dict[str, Any]) -> dict[str, Any]:
        OTelEvent, TypeMap = self.types.OTelEvent, self.types.OTelEventTypeMap
        events = [
            OTelEvent(job_name="wf", job_id="job-1", event_type=s["typ"], event_id=s["id"],
                      start_timestamp=s["start"], end_timestamp=s["end"], application_name="app-" + s["id"],
                      parent_event_id=s["parent"], child_event_ids=list(s["children"]))
            for s in case["spans"]
        ]
        groups = {g["parent"]: dict(map(tuple, g["map"])) for g in case["groups"]}
        renames = {r["from"]: TypeMap(mapped_event_type=r["to"], child_event_types=set(r["children"]))
                   for r in case["renames"]}
        try:
            jobs = [list(j) for j in self.seq.sequence_otel_job_id_streams(
                [events], async_flag=case["async"], event_to_async_group_map=groups or None,
                event_types_map_information=renames or None)]
        except ValueError as ex:
            return {"status": "rootcount" if "root event" in str(ex) else f"ValueError: {ex}"}
        except Exception as ex:  # noqa: BLE001
            return {"status": f"{type(ex).__name__}: {ex}"}
        if not jobs:
            return {"status": "disconnected"}
        if len(jobs) != 1:
            return {"status": f"{len(jobs)} jobs for one trace"}
        return {"status": "ok", "events": jobs[0]}


def judge(case: dict[str, Any], out: dict[str, Any], want: dict[str, Any]) -> tuple[list[str], bool]:
    """property clauses on the real output; returns (problems, multi_start)"""
    if out["status"] != want["status"]:
        return [f"status {out['status']!r}, the rules give {want['status']!r}"], False
    if out["status"] != "ok":
        return [], False
    bad: list[str] = []
    evs = out["events"]
    spans = {s["id"]: s for s in case["spans"]}
    ids = [e["eventId"] for e in evs]
    if sorted(ids) != sorted(spans):
        bad.append(f"spans emitted {sorted(ids)} != spans of the trace {sorted(spans)}")
        return bad, False
    links = {}
    for e in evs:
        s = spans[e["eventId"]]
        links[e["eventId"]] = sorted(e.get("previousEventIds", []))
        if e["jobId"] != "job-1" or e["jobName"] != "wf" or e["applicationName"] != "app-" + s["id"]:
            bad.append(f"{e['eventId']}: job id/name/application not preserved")
        if e["eventType"] != want["types"][s["id"]]:
            bad.append(f"{e['eventId']}: type {e['eventType']!r}, rules give {want['types'][s['id']]!r}")
        if e["timestamp"] not in (expected_string(s["end"] // 1000), expected_string(-(-s["end"] // 1000))):
            bad.append(f"{e['eventId']}: timestamp {e['timestamp']!r} for end {s['end']}")
    if links != want["links"]:
        diff = {i: (links[i], want["links"][i]) for i in links if links[i] != want["links"][i]}
        bad.append(f"links differ from the rules (id: got, want): {diff}")
    # acyclic, descendants first
    order: list[str] = []
    state: dict[str, int] = {}

    def visit(x: str) -> bool:
        if state.get(x) == 1:
            return False
        if state.get(x) == 2:
            return True
        state[x] = 1
        for p in links[x]:
            if p in links and not visit(p):
                return False
        state[x] = 2
        order.append(x)
        return True

    if not all(visit(x) for x in links):
        bad.append("previous-event links contain a cycle")
    else:
        reach: dict[str, set[str]] = {}
        for x in order:
            r: set[str] = set()
            for p in links[x]:
                r.add(p)
                r |= reach.get(p, set())
            reach[x] = r
        for x, s in spans.items():
            a = s["parent"]
            while a is not None:
                if x not in reach[a]:
                    bad.append(f"{a} does not follow its descendant {x}")
                    break
                a = spans[a]["parent"]
    starts = [i for i in links if not links[i]]
    return bad, len(starts) > 1


def canon(case: dict[str, Any]) -> Any:
    return case


def check_cases(ctx: Ctx, impl: Impl, cases: list[dict[str, Any]]) -> None:
    try:
        replies = LeanSide.drive({"op": "seq.job", **c} for c in cases)
    except Exception as ex:  # noqa: BLE001
        ctx.broken_ties.append(f"model driver: {ex}")
        replies = [None] * len(cases)
    for case, rep in zip(cases, replies):
        if ctx.too_many():
            return
        for s in case["spans"]:
            s["start"], s["end"] = int(s["start"]), int(s["end"])
        out = impl.run(case)
        want = oracle(case)
        bad, multi = judge(case, out, want)
        nontrivial = len(case["spans"]) >= 3 and out["status"] == "ok"
        ctx.case(canon(case), nontrivial, sample=case if (ctx.cov["evaluations"] % 4001 == 7) else None)
        ctx.tick("status_" + out["status"].split(":")[0])
        if multi:
            ctx.tick("multi_start")
        if bad:
            ctx.violation("; ".join(bad)[:600], {"input": case, "observed": out, "rules": want})
            continue
        if multi:
            ctx.violation("several events without a predecessor: the first sibling group is parallel",
                          {"input": case, "observed": out}, key=KNOWN_MULTI_START)
        if rep is not None:
            if "error" in rep or rep.get("status") != out["status"]:
                ctx.violation(f"correspondence: Lean model status {rep}, code {out['status']}",
                              {"input": case, "model": rep, "impl": out}, key=("corr", case), concrete=False)
            elif out["status"] == "ok":
                ml = {i: sorted(p) for i, p in rep["links"]}
                mt = dict(map(tuple, rep["types"]))
                il = {e["eventId"]: sorted(e.get("previousEventIds", [])) for e in out["events"]}
                it = {e["eventId"]: e["eventType"] for e in out["events"]}
                if ml != il or mt != it:
                    ctx.violation("correspondence: Lean sequencer model and the code differ",
                                  {"input": case, "model": rep, "impl_links": il, "impl_types": it},
                                  key=("corr", case), concrete=False)


def to_wire(case: dict[str, Any]) -> dict[str, Any]:
    c = dict(case)
    c["spans"] = [{**s, "start": str(s["start"]), "end": str(s["end"])} for s in case["spans"]]
    return c


def run(ctx: Ctx) -> None:
    for p in translate(["Consts", "Time"]):
        ctx.broken_ties.append("translator: " + p)
    ctx.prove(["O2P.Props.C08"], THEOREMS)
    if ctx.tier == "thorough":
        ctx.leanchecker(["O2P.Props.C08"])
    impl = Impl()
    ctx.cov["rule"] = (
        "all rooted trees with <= 4 spans x sibling intervals on an integer grid (distinct sibling starts) x "
        "{sync, async, async+groups, sync+groups+renames}; seeded random trees up to 30 spans with random group and "
        "rename maps, shuffled store and child order; malformed traces (two roots, no root, missing parent). "
        "non-trivial: >= 3 spans and sequenced; distinct by the whole case"
    )
    corpus = [
        # past failures (minimised), run first
        mk_case([None, 0, 0, 0], [(0, 200), (0, 100), (10, 20), (30, 40)], ["R", "A", "B", "C"],
                {"async": True, "groups": [], "renames": []}),
        mk_case([None, 0], [(0, 9), (1, 2)], ["R", "A"],
                {"async": False, "groups": [{"parent": "R", "map": [["A", "g1"], ["C", "g2"]]}], "renames": []}),
        mk_case([None, 0, 1], [(0, 9), (1, 8), (2, 3)], ["A", "B", "C"],
                {"async": False, "groups": [], "renames": [{"from": "A", "to": "A2", "children": ["B"]},
                                                           {"from": "B", "to": "B2", "children": ["C"]}]},
                order=[2, 1, 0]),
        mk_case([None, 0, 0, 0], [(0, 20), (1, 10), (2, 3), (5, 6)], ["R", "A", "B", "C"],
                {"async": True, "groups": [{"parent": "R", "map": [["A", "g"], ["B", "g"]]}], "renames": []}),
        mk_case([None, 0, 0, 0], [(0, 9), (6, 7), (1, 2), (3, 4)], ["R", "y", "x", "z"],
                {"async": False, "groups": [{"parent": "R", "map": [["x", "g"], ["y", "g"]]}], "renames": []}),
    ]
    batch: list[dict[str, Any]] = [to_wire(c) for c in corpus]
    ctx.tick("corpus", len(corpus))
    n_random = 6000 if ctx.tier == "quick" else 60000
    for _ in range(n_random):
        batch.append(to_wire(random_case(ctx)))
    for _ in range(300):
        batch.append(to_wire(malformed_case(ctx)))
    check_cases(ctx, impl, batch)
    batch = []
    for case in exhaustive_cases(ctx):
        batch.append(to_wire(case))
        if len(batch) >= 20000:
            check_cases(ctx, impl, batch)
            batch = []
            if ctx.too_many():
                break
    check_cases(ctx, impl, batch)
    ctx.cov["exhaustive"] = False
    ctx.cov["exhaustive_part"] = "trees <= 4 spans on the stated grid were enumerated completely"
    ctx.assumptions += [
        "pydantic's OTelEvent and the generator plumbing of sequence_otel_job_id_streams are exercised, not modelled",
        "the flat-map-to-tree conversion of the driver is glue outside the theorems; it is covered by the correspondence",
    ]


def replay(data: dict[str, Any]) -> int:
    case = data["input"]
    for s in case["spans"]:
        s["start"], s["end"] = int(s["start"]), int(s["end"])
    impl = Impl()
    out = impl.run(case)
    want = oracle(case)
    bad, multi = judge(case, out, want)
    print("observed:", out)
    print("rules   :", want)
    print("problems:", bad, "multi-start:", multi)
    return 1 if bad else 0
