"""C11 — cleaning removes exactly the broken or out-of-window traces.

prove (O2P.Props.C11) -> correspondence of the three cleaning methods of SQLDataHolder with the Lean store
model on full table dumps after every step -> oracle written from the property's text (independent of
the model) -> non-interference on the PV sequences: the same run on a store that never held the removed
traces (same window) must stream and sequence identically.
"""
from __future__ import annotations

from typing import Any

from ..common import Ctx
from ..translate import translate
from .. import storelib as sl

LEVEL = "proof"
THEOREMS = [
    "O2P.Store.removeInconsistent_spec",
    "O2P.Store.removeOutside_spec",
    "O2P.Store.removal_whole_traces",
    "O2P.Store.renameByRoot_frame",
    "O2P.Store.renameByRoot_spec",
    "O2P.Store.clean_inv",
    "O2P.Store.ingestSpec_faithful",
    "O2P.Store.clean_noninterference",
    "O2P.Store.ingest_without",
]

MIN = 60 * 10**9  # one minute of buffer in ns
U = 10**9


def gen_case(ctx: Ctx) -> dict[str, Any]:
    """traces on a 0..20 minute axis; buffer b minutes => window [min+b, max-b]"""
    r = ctx.rng
    buffer = r.choice([0, 0, 1, 1, 2, 3, 30])
    n_traces = r.choice([1, 2, 3, 4, 6, 8])
    events: list[dict[str, Any]] = []
    kinds: dict[str, str] = {}
    k = 0
    # anchor traces fix the store's min and max so that the buffered window is meaningful
    span_minutes = r.choice([10, 20])
    for t in range(n_traces):
        jid = f"t{t}"
        kind = r.choice(["complete", "complete", "dangling", "names", "complete", "cross", "midroot",
                         "dangling+names", "rootless", "rootless+names"])
        place = r.choice(["inside", "inside", "low", "high", "straddle_lo", "straddle_hi", "enclose", "edge"])
        lo_w, hi_w = buffer * MIN, span_minutes * MIN - buffer * MIN
        if place == "inside":
            a = r.randrange(max(lo_w, 1), max(hi_w, lo_w + 2))
            base = (a, a + r.randrange(1, 30) * U)
        elif place == "low":
            base = (0, max(0, lo_w - 1) if r.random() < 0.5 else r.randrange(0, max(lo_w, 1)))
        elif place == "high":
            base = (min(span_minutes * MIN, hi_w + 1) if r.random() < 0.5 else span_minutes * MIN - r.randrange(0, max(lo_w, 1)),
                    span_minutes * MIN)
        elif place == "straddle_lo":
            base = (0, lo_w + r.randrange(0, 3) * U)
        elif place == "straddle_hi":
            base = (max(0, hi_w - r.randrange(0, 3) * U), span_minutes * MIN)
        elif place == "enclose":
            base = (max(0, lo_w - 1), hi_w + 1)
        else:  # exactly on an edge
            base = (lo_w, lo_w) if r.random() < 0.5 else (hi_w, hi_w)
        base = (min(base), max(base))
        n = r.choice([1, 2, 3, 4])
        ids = [f"s{k + i}" for i in range(n)]
        name = r.choice(["wf", "wf2", "Wf"])
        for i in range(n):
            # a root has no parent: None, or the empty string that OTLP/JSON exporters write for `parentSpanId`
            parent: str | None = (None if r.random() < 0.7 else "") if i == 0 else ids[r.randrange(0, i)]
            nm = name
            if kind in ("dangling", "dangling+names") and i == n - 1:
                parent = "absent" + str(k)
            if kind in ("rootless", "rootless+names") and i == 0:
                parent = "absent" + str(k)      # the root was never delivered: every span hangs below a missing one
            if kind in ("names", "dangling+names", "rootless+names") and i > 0:
                nm = r.choice(["other", name, "zz"])
            if kind == "cross" and i == 0 and events:
                parent = r.choice(events)["id"]  # the root hangs below a span of another trace
            if kind == "midroot" and i == n - 1 and n > 1:
                parent, nm = None, name  # a second root with the same name
            # child spans inside the parent's interval, shrunk a little
            st = base[0] + (i * U if base[1] - base[0] > 2 * i * U else 0)
            en = base[1] - (i * U if base[1] - base[0] > 2 * i * U else 0)
            events.append(sl.ev(nm, jid, r.choice("ABC"), ids[i], st, en, parent, app="app"))
        kinds[jid] = f"{kind}/{place}"
        k += n
    # real OTel timestamps are ~1.7e18 ns (beyond 2**53): shift the whole store there in most cases, so that window
    # arithmetic in floating point would show; edges stay exact integers
    if r.random() < 0.7:
        T0 = 1_700_000_000_000_000_000 + r.randrange(0, 10**9)
        events = [{**e, "start": e["start"] + T0, "end": e["end"] + T0} for e in events]
        ctx.tick("epoch_realistic")
    else:
        ctx.tick("epoch_small")
    r.shuffle(events)
    ctx.tick(f"buffer{buffer}")
    for v in kinds.values():
        ctx.tick("trace_" + v.split("/")[0])
        ctx.tick("place_" + v.split("/")[1])
    script = [["ingest", events], ["clean_inconsistent"], ["dump"], ["clean_window"], ["dump"], ["rename"], ["dump"],
              ["pv"]]
    return {"batch": r.choice([1, 2, 3, 1000]), "buffer": buffer, "events": events, "kinds": kinds, "script": script}


def oracle(events: list[dict[str, Any]], buffer: int) -> dict[str, Any]:
    """expected tables after each cleaning step, from the property's text"""
    stored: dict[str, dict[str, Any]] = {}
    for e in events:
        stored.setdefault(e["id"], {**e, "parent": e["parent"] or None})
    nodes = list(stored.values())
    ids = {n["id"] for n in nodes}
    broken = {n["jobId"] for n in nodes if n["parent"] is not None and n["parent"] not in ids}
    after1 = [n for n in nodes if n["jobId"] not in broken]
    mn = min(e["start"] for e in events)
    mx = max(e["end"] for e in events)
    lo, hi = mn + buffer * MIN, mx - buffer * MIN
    if lo >= hi:
        return {"after1": after1, "window": None}
    inside = {n["jobId"] for n in after1 if lo <= n["start"] <= hi or lo <= n["end"] <= hi}
    after2 = [n for n in after1 if n["jobId"] in inside]
    roots: dict[str, list[dict[str, Any]]] = {}
    for n in after2:
        if n["parent"] is None:
            roots.setdefault(n["jobId"], []).append(n)
    after3 = []
    free = set()
    for n in after2:
        rs = roots.get(n["jobId"], [])
        if len(rs) == 1:
            after3.append({**n, "jobName": rs[0]["jobName"]})
        elif len({x["jobName"] for x in rs}) == 1:
            after3.append({**n, "jobName": rs[0]["jobName"]})
        else:
            after3.append(n)
            if rs:
                free.add(n["jobId"])  # several roots with different names: the property does not say which wins
    return {"after1": after1, "after2": after2, "after3": after3, "window": (lo, hi), "free": free,
            "removed": (broken | {n["jobId"] for n in after1 if n["jobId"] not in inside})}


def links_of(nodes: list[dict[str, Any]]) -> list[list[str]]:
    return sorted([n["parent"], n["id"]] for n in nodes if n["parent"])


def judge(case: dict[str, Any], ires: list[Any]) -> str | None:
    want = oracle(case["events"], case["buffer"])
    if ires[0] != "ok":
        return f"ingestion ended with {ires[0]!r}"
    d1, d2, d3 = ires[2], ires[4], ires[6]
    if not isinstance(d1, dict):
        return f"dump failed: {d1!r}"
    if d1["nodes"] != want["after1"]:
        return ("remove_inconsistent_jobs: kept traces %s, expected %s"
                % (sorted({n["jobId"] for n in d1["nodes"]}), sorted({n["jobId"] for n in want["after1"]})))
    if d1["assoc"] != links_of(want["after1"]):
        return f"remove_inconsistent_jobs: links {d1['assoc']}, expected {links_of(want['after1'])}"
    if want["window"] is None:
        return None if ires[3] == "valueerror" else f"window is empty but cleaning returned {ires[3]!r}"
    if ires[3] != "ok":
        return f"remove_jobs_outside_of_time_window returned {ires[3]!r} for window {want['window']}"
    if d2["nodes"] != want["after2"]:
        return ("remove_jobs_outside_of_time_window %s: kept traces %s, expected %s"
                % (want["window"], sorted({n["jobId"] for n in d2["nodes"]}),
                   sorted({n["jobId"] for n in want["after2"]})))
    if d2["assoc"] != links_of(want["after2"]):
        return f"remove_jobs_outside_of_time_window: links {d2['assoc']}, expected {links_of(want['after2'])}"
    got3 = [n for n in d3["nodes"] if n["jobId"] not in want["free"]]
    exp3 = [n for n in want["after3"] if n["jobId"] not in want["free"]]
    if got3 != exp3:
        diff = [(g["id"], g["jobName"], w["jobName"]) for g, w in zip(got3, exp3) if g != w][:4]
        return f"update_job_names_by_root_span: (span, name, expected root name) {diff}"
    if [{**n, "jobName": ""} for n in d3["nodes"]] != [{**n, "jobName": ""} for n in want["after3"]]:
        return "update_job_names_by_root_span changed something other than the workflow name"
    if d3["assoc"] != d2["assoc"]:
        return "update_job_names_by_root_span changed the links"
    return None


def pipeline_part(case: dict[str, Any], ires: list[Any], want: dict[str, Any]) -> str | None:
    """the cleaning as `otel_to_pv` itself orchestrates it (which steps, in which order) on a second store filled with
    the same delivery: the store it leaves and the PV sequences it yields must be those of the property's text"""
    try:
        pres = sl.run_impl([["ingest", case["events"]], ["pipeline"], ["dump"]], case["batch"], case["buffer"], False)
    except Exception as ex:  # noqa: BLE001
        return f"otel_to_pv on the same delivery: {type(ex).__name__}: {str(ex)[:200]}"
    if pres[0] != "ok":
        return f"ingestion ended with {pres[0]!r}"
    if want["window"] is None:
        return None if isinstance(pres[1], str) and pres[1].startswith("ValueError") else \
            f"window is empty but otel_to_pv returned {str(pres[1])[:120]}"
    if isinstance(pres[1], str) and not isinstance(ires[7], str):
        return f"otel_to_pv raised {pres[1]}"
    # (when the sequencer rejects a kept trace — a parent in another trace, two roots — both routes fail alike; the
    # cleaning has run by then and the store is judged all the same)
    d = pres[2]
    got = [n for n in d["nodes"] if n["jobId"] not in want["free"]]
    exp = [n for n in want["after3"] if n["jobId"] not in want["free"]]
    if got != exp:
        return ("otel_to_pv's cleaning leaves traces %s (spans %s), expected traces %s (spans %s)"
                % (sorted({n["jobId"] for n in got}), len(got), sorted({n["jobId"] for n in exp}), len(exp))
                if [n["id"] for n in got] != [n["id"] for n in exp] else
                "otel_to_pv's cleaning leaves other workflow names than the roots': %s"
                % [(g["id"], g["jobName"], w["jobName"]) for g, w in zip(got, exp) if g != w][:4])
    if d["assoc"] != links_of(want["after3"]):
        return f"otel_to_pv's cleaning leaves links {d['assoc']}, expected {links_of(want['after3'])}"
    if not want["free"] and not isinstance(ires[7], str) and not isinstance(pres[1], str) and pres[1] != ires[7]:
        return "otel_to_pv yields other PV sequences than streaming and sequencing the cleaned store"
    return None


def noninterference(case: dict[str, Any], ires: list[Any]) -> tuple[str | None, bool]:
    """same window, store that never held the removed traces -> identical PV sequences"""
    want = oracle(case["events"], case["buffer"])
    if want["window"] is None or not want["removed"]:
        return None, False
    survivors = [e for e in case["events"] if e["jobId"] not in want["removed"]]
    removed_ids = {e["id"] for e in case["events"] if e["jobId"] in want["removed"]}
    if not survivors:
        return None, False
    if any(e["parent"] in removed_ids for e in survivors) or \
            {e["id"] for e in survivors} & removed_ids:
        return None, False  # a kept span hangs below a removed one: outside the non-interference statement
    mn = min(e["start"] for e in case["events"])
    mx = max(e["end"] for e in case["events"])
    script = [["ingest", survivors], ["setwindow", mn, mx], ["clean_inconsistent"], ["clean_window"], ["rename"],
              ["pv"]]
    ref = sl.run_impl(script, case["batch"], case["buffer"], False)
    if ref[-1] != ires[-1]:
        return (f"PV sequences differ from a run that never ingested the removed traces {sorted(want['removed'])}: "
                f"{str(ires[-1])[:150]} / {str(ref[-1])[:150]}"), True
    return None, True


def run(ctx: Ctx) -> None:
    for p in translate(["Consts"]):
        ctx.broken_ties.append("translator: " + p)
    ctx.prove(["O2P.Props.C11"], THEOREMS)
    if ctx.tier == "thorough":
        ctx.leanchecker(["O2P.Props.C11"])
    ctx.cov["rule"] = (
        "seeded stores of 1-8 traces (1-4 spans) of kinds {complete, dangling parent, inconsistent names, both, root "
        "never delivered (with one name or several), root hanging below another trace, second root} placed {inside, below, above, straddling either edge, enclosing the window, "
        "exactly on an edge} x time_buffer {0,1,2,3,30} minutes x batch {1,2,3,1000}, shuffled ingestion order. "
        "non-trivial: some trace removed and some trace kept"
    )
    cases = [gen_case(ctx) for _ in range(500 if ctx.tier == "quick" else 5000)]
    mcases = [{**c, "script": c["script"][:-1]} for c in cases]
    try:
        model = sl.run_model(mcases)
    except Exception as ex:  # noqa: BLE001
        ctx.broken_ties.append(f"model driver: {ex}")
        model = [None] * len(cases)  # type: ignore[list-item]
    ni = 0
    for case, mres in zip(cases, model):
        if ctx.too_many():
            break
        try:
            ires = sl.run_impl(case["script"], case["batch"], case["buffer"], False)
        except Exception as ex:  # noqa: BLE001
            ires = [f"{type(ex).__name__}: {str(ex)[:200]}"] * len(case["script"])
        want = oracle(case["events"], case["buffer"])
        kept = {n["jobId"] for n in want.get("after2", [])}
        nontrivial = bool(kept) and bool(want.get("removed"))
        ctx.case({"e": case["events"], "b": case["buffer"]}, nontrivial,
                 sample={"buffer": case["buffer"], "kinds": case["kinds"], "kept": sorted(kept)}
                 if ctx.cov["evaluations"] % 83 == 0 else None)
        inp = {k: case[k] for k in ("batch", "buffer", "events", "script")}
        bad = judge(case, ires)
        if bad:
            ctx.violation(bad, {"input": inp, "observed": ires[:-1], "kinds": case["kinds"]})
            continue
        bad = pipeline_part(case, ires, want)
        if bad:
            ctx.violation(bad, {"input": {**inp, "script": [["ingest", case["events"]], ["pipeline"], ["dump"]]},
                                "kinds": case["kinds"]})
            continue
        bad, counted = noninterference(case, ires)
        ni += counted
        if bad:
            ctx.violation(bad, {"input": inp, "kinds": case["kinds"]})
            continue
        if mres is not None and mres != ires[:-1]:
            # several roots with different names: the model takes the last stored, SQLite is free
            if oracle(case["events"], case["buffer"]).get("free"):
                ctx.tick("corr_skipped_multi_root_names")
                continue
            ctx.violation("correspondence: Lean cleaning model and SQLDataHolder differ",
                          {"input": inp, "model": mres, "impl": ires[:-1]}, key=("corr", inp), concrete=False)
    ctx.cov["noninterference_runs"] = ni
    ctx.assumptions += [
        "the window is the one the run computed (min start / max end seen while ingesting, +- buffer); 'never ingested' "
        "is read with that same window",
        "a kept span whose parent lies in a removed trace is outside the non-interference clause (hypothesis "
        "ParentsAvoid of clean_noninterference); the other clauses are still checked on such stores",
        "SQL DELETE/UPDATE semantics modelled, observed through full table dumps",
    ]


def replay(data: dict[str, Any]) -> int:
    case = data["input"]
    ires = sl.run_impl(case["script"], case["batch"], case["buffer"], False)
    bad = judge(case, ires)
    if not bad:
        bad, _ = noninterference(case, ires)
    print(bad or "ok")
    return 1 if bad else 0
