"""C07 — loop extraction leaves an acyclic, complete, non-overlapping nesting.

prove (O2P.Props.C07: a topological order excludes cycles; an ordered contraction forces every cycle into one
part; exactly-once is a permutation) -> the real `detect_loops` on the directly-follows graphs of the job sets
of loop-bearing definitions of fragment F and the corpus -> the Lean checkers decide, on the INPUT graph, the
certificates read off the returned nesting: every returned graph (top level and every loop body) is ordered
and has one entry; contracting the loop bodies orders the input graph (recursively inside every body, with
the edges into the body's start events removed); the events across the nesting are the input's, each once.
"""
from __future__ import annotations

from typing import Any

from ..common import Ctx
from .. import pvlib, learncheck as lc

LEVEL = "proof"
DUMMIES = ("|||START|||", "|||END|||", "|||DUMMY|||", "DUMMY_BREAK")
THEOREMS = [
    "O2P.Graph.isTopo_acyclic",
    "O2P.Graph.cycle_in_one_part",
    "O2P.Graph.no_cycle_outside_loops",
    "O2P.Graph.exactlyOnce_iff",
    "O2P.Graph.singleEntry_spec",
]


def flatten(g: dict[str, Any]) -> list[str]:
    out = []
    for n in g["nodes"]:
        if n["kind"] == "event":
            out.append(n["name"])
        elif n["kind"] == "loop":
            out += flatten(g["loops"][n["name"]])
    return out


def level_requests(g: dict[str, Any], in_edges: list[list[str]], where: str) -> list[tuple[str, dict[str, Any]]]:
    """certificate checks for one returned graph `g` against the input edges `in_edges` among its flattened events"""
    reqs: list[tuple[str, dict[str, Any]]] = []
    names = [n["name"] for n in g["nodes"]]
    reqs.append((f"{where}: returned graph is not acyclic",
                 {"op": "graph.check", "kind": "topo", "ord": g["topo"] or [], "edges": g["edges"]}))
    reqs.append((f"{where}: returned graph has not exactly one entry",
                 {"op": "graph.check", "kind": "entry", "nodes": names, "edges": g["edges"]}))
    part = []
    for n in g["nodes"]:
        if n["kind"] == "loop":
            for x in flatten(g["loops"][n["name"]]):
                part.append([x, n["name"]])
    real_ord = list(g["topo"] or [])
    reqs.append((f"{where}: a cyclic dependency of the input does not lie inside one loop body",
                 {"op": "graph.check", "kind": "contract", "part": part, "ord": real_ord, "edges": in_edges}))
    for n in g["nodes"]:
        if n["kind"] == "loop":
            sub = g["loops"][n["name"]]
            body = set(flatten(sub))
            starts = {v for u, v in sub["edges"] if "|||START|||" in u}
            # an entry into a nested loop is an entry into its start events
            def expand(x: str) -> set[str]:
                if x in sub["loops"]:
                    ssub = sub["loops"][x]
                    return set().union(*[expand(v) for u, v in ssub["edges"] if "|||START|||" in u]) or set()
                return {x}
            start_events = set().union(*[expand(s) for s in starts]) if starts else set()
            inner = [[u, v] for u, v in in_edges if u in body and v in body and v not in start_events]
            reqs += level_requests(sub, inner, n["name"])
    return reqs


def run(ctx: Ctx) -> None:
    ctx.prove(["O2P.Props.C07"], THEOREMS)
    if ctx.tier == "thorough":
        ctx.leanchecker(["O2P.Props.C07"])
    quick = ctx.tier == "quick"
    cases = [c for c in lc.build_cases(ctx, 400 if quick else 4000, [4, 6, 8, 10, 12], with_corpus=True,
                                     loops_on_exits=True)
             if pvlib.has(c["blk"], "loop")]
    ctx.cov["rule"] = (
        "definitions of fragment F that contain loops (the small exhaustive family, seeded random ones up to 12 events: "
        "nested loops, breaks, forks inside) and the loop files of the corpus; the job set is every execution with "
        "loops run once and twice, one shuffled presentation. non-trivial: the nesting has >= 2 loops or a loop "
        "whose body holds a fork or a break"
    )
    reqs = []
    for i, c in enumerate(cases):
        c["pv"] = lc.present(ctx, c["jobs"])
        c["uuid_seed"] = ctx.seed * 7919 + i      # node ids decide iteration orders inside detect_loops: replays need it
        reqs.append({"op": "loops", "jobs": c["pv"], "hash_seed": 0, "uuid_seed": c["uuid_seed"], "timeout": 30})
    reps = pvlib.run_requests(reqs)
    checks: list[tuple[int, str, dict[str, Any]]] = []
    for i, (c, rp) in enumerate(zip(cases, reps)):
        c["loops"] = rp
        if "error" in rp:
            continue
        for what, q in level_requests(rp["nest"], rp["input_edges"], "top level"):
            checks.append((i, what, q))
        leaves = flatten(rp["nest"])
        inputs = [x for x in rp["input_nodes"] if x not in DUMMIES]
        checks.append((i, f"events across the nesting {sorted(leaves)} are not the input's {sorted(inputs)}, each once",
                       {"op": "graph.check", "kind": "once", "leaves": leaves, "inputs": inputs}))
    answers = pvlib.lean([q for _, _, q in checks]) if checks else []
    failed: dict[int, str] = {}
    for (i, what, _), a in zip(checks, answers):
        if not a.get("ok") and i not in failed:
            failed[i] = what if "error" not in a else f"{what} ({a['error']})"
    for i, c in enumerate(cases):
        if ctx.too_many():
            break
        rp = c["loops"]
        nloops = str(rp.get("nest", "")).count("'kind': 'loop'")
        ctx.case(c["blk"], nloops >= 2 or pvlib.has(c["blk"], "brk") or pvlib.has(c["blk"], "fork"),
                 sample={"definition": c["blk"], "sccs": rp.get("sccs"), "loops": nloops}
                 if ctx.cov["evaluations"] % 61 == 0 else None)
        ctx.tick(f"loops_{min(nloops, 4)}")
        if "error" in rp:
            lc.report(ctx, c, f"detect_loops failed: {rp['error'][:200]}")
        elif i in failed:
            lc.report(ctx, c, failed[i], {"nest": rp["nest"], "input_edges": rp["input_edges"]})
    ctx.assumptions += [
        "the directly-follows graph handed to detect_loops is the code's own (create_graph_from_events on the ingested "
        "job set); networkx supplies the orders used as certificates, Lean checks them",
        "dummy start/end/break nodes and loop nodes are not events: exactly-once is about event types",
    ]


def replay(data: dict[str, Any]) -> int:
    inp = data["input"]
    rp = pvlib.run_requests([{"op": "loops", "jobs": inp["jobs_pv"], "hash_seed": inp.get("hash_seed", 0),
                              "uuid_seed": inp.get("uuid_seed", 0), "timeout": 60}])[0]
    if "error" in rp:
        print(rp["error"])
        return 1
    checks = level_requests(rp["nest"], rp["input_edges"], "top level")
    leaves = flatten(rp["nest"])
    inputs = [x for x in rp["input_nodes"] if x not in DUMMIES]
    checks.append(("exactly once", {"op": "graph.check", "kind": "once", "leaves": leaves, "inputs": inputs}))
    ans = pvlib.lean([q for _, q in checks])
    rc = 0
    for (what, _), a in zip(checks, ans):
        if not a.get("ok"):
            print("FAILS:", what)
            rc = 1
    print("ok" if rc == 0 else "violated")
    return rc
