"""C10 — ingestion stores each span once whatever the batching or duplication.

prove (O2P.Props.C10: ingest = first-occurrence specification for every store with the invariant, every
stream, every batch size) -> correspondence of IngestData/SQLDataHolder with the Lean store model on full
table dumps -> oracle: first-occurrence de-duplication written independently here.
"""
from __future__ import annotations

import itertools
from typing import Any, Iterator

from ..common import Ctx
from ..translate import translate
from .. import storelib as sl

LEVEL = "proof"
THEOREMS = [
    "O2P.Store.constraints_tie",
    "O2P.Store.commitUnique_spec",
    "O2P.Store.ingestSpec_inv",
    "O2P.Store.ingestSpec_append",
    "O2P.Store.ingest_spec",
    "O2P.Store.ingest_batch_independent",
    "O2P.Store.reingest_noop",
    "O2P.Store.inv_empty",
    "O2P.Store.ingest_orphan_cex",
]

def oracle(runs: list[list[dict[str, Any]]]) -> dict[str, Any]:
    seen: dict[str, dict[str, Any]] = {}
    for stream in runs:
        for e in stream:
            if e["id"] not in seen:
                seen[e["id"]] = e
    nodes = [{**e, "parent": e["parent"] or None} for e in seen.values()]
    assoc = sorted([e["parent"], e["id"]] for e in seen.values() if e["parent"])
    return {"nodes": nodes, "assoc": assoc, "hashes": []}


def mk_stream(ids: tuple[str, ...], parents: list[str | None]) -> list[dict[str, Any]]:
    return [sl.ev(f"N{i % 2}", f"j{i % 3}", f"T{i}", eid, 10 + i, 20 + i, parents[i], app=f"a{i}")
            for i, eid in enumerate(ids)]


def exhaustive(ctx: Ctx) -> Iterator[dict[str, Any]]:
    maxlen = 4 if ctx.tier == "quick" else 6
    for n in range(1, maxlen + 1):
        for ids in itertools.product("abc", repeat=n):
            # canonical up to renaming of ids: first occurrences appear in order a, b, c
            firsts = [x for i, x in enumerate(ids) if x not in ids[:i]]
            if firsts != sorted(firsts) or (firsts and firsts[0] != "a") or ("c" in firsts and "b" not in firsts):
                continue
            parents: list[str | None] = [ctx.rng.choice([None, "a", "b", "c", "zz", ""]) for _ in ids]
            stream = mk_stream(ids, parents)
            for b in range(1, n + 2):
                ctx.tick("exhaustive")
                yield {"batch": b, "buffer": 0, "file_db": False, "runs": [stream],
                       "script": [["ingest", stream], ["dump"]]}


def random_case(ctx: Ctx) -> dict[str, Any]:
    r = ctx.rng
    n_ids = r.choice([2, 4, 8, 16])
    pool = [f"e{i}" for i in range(n_ids)]
    n_runs = r.choice([1, 1, 2, 3])
    runs = []
    k = 0
    for _ in range(n_runs):
        n = r.choice([1, 3, 6, 12, 25])
        stream = []
        for _ in range(n):
            eid = r.choice(pool)
            parent = r.choice([None, None, "", r.choice(pool), r.choice(pool), "absent"])
            stream.append(sl.ev(r.choice(["N0", "N1"]), r.choice(["j0", "j1", "j2"]), f"T{k}", eid,
                                r.randrange(100), 100 + r.randrange(100), parent, app=f"a{k}"))
            k += 1
        runs.append(stream)
    total = sum(len(s) for s in runs)
    batch = r.choice([1, 2, 3, 5, total, total + 1, 1000])
    script: list[list[Any]] = []
    for i, s in enumerate(runs):
        if i:
            script.append(["newrun"])
        script += [["ingest", s], ["dump"]]
    ctx.tick("random")
    ctx.tick(f"random_runs{n_runs}")
    return {"batch": batch, "buffer": 0, "file_db": n_runs > 1, "runs": runs, "script": script}


def large_case(ctx: Ctx) -> dict[str, Any]:
    """scale: hundreds of spans, batches of 100-1000, so that one commit batch holds more than a hundred distinct ids.
    Either a grown export delivered again in a second run (the earlier spans somewhere inside a large batch), or one
    run with a few spans re-delivered late"""
    r = ctx.rng
    k = [0]

    def span(eid: str, parent: str | None) -> dict[str, Any]:
        k[0] += 1
        return sl.ev(r.choice(["N0", "N1"]), f"j{k[0] % 7}", f"T{k[0]}", eid, r.randrange(1000), 1000 + r.randrange(1000),
                     parent, app=f"a{k[0] % 5}")
    if r.random() < 0.5:
        n1, n2, n3 = r.choice([20, 50, 130]), r.choice([120, 200, 260]), r.choice([0, 30, 75])
        first = [span(f"o{i}", None if i % 9 == 0 else f"o{i - 1}") for i in range(n1)]
        again = [dict(e) for e in first]
        if r.random() < 0.5:
            r.shuffle(again)
        second = ([span(f"n{i}", None if i % 11 == 0 else f"n{i - 1}") for i in range(n2)] + again
                  + [span(f"m{i}", None) for i in range(n3)])
        runs = [first, second]
        ctx.tick("large_grown_export")
    else:
        n = r.choice([160, 320, 450])
        stream = [span(f"s{i}", None if i % 13 == 0 else f"s{i - 1}") for i in range(n)]
        for _ in range(r.choice([1, 2, 5])):
            src = r.randrange(0, n // 2)
            stream.insert(r.randrange(n // 2, len(stream) + 1), {**stream[src], "typ": "again"})
        runs = [stream]
        ctx.tick("large_late_redelivery")
    batch = r.choice([40, 101, 150, 300, 500, 1000])
    script: list[list[Any]] = []
    for i, s in enumerate(runs):
        if i:
            script.append(["newrun"])
        script += [["ingest", s], ["dump"]]
    return {"batch": batch, "buffer": 0, "file_db": len(runs) > 1, "runs": runs, "script": script}


def check(ctx: Ctx, cases: list[dict[str, Any]]) -> None:
    try:
        model = sl.run_model(cases)
    except Exception as ex:  # noqa: BLE001
        ctx.broken_ties.append(f"model driver: {ex}")
        model = [None] * len(cases)  # type: ignore[list-item]
    for case, mres in zip(cases, model):
        if ctx.too_many():
            return
        try:
            ires = sl.run_impl(case["script"], case["batch"], case["buffer"], case["file_db"])
        except Exception as ex:  # noqa: BLE001
            ires = [f"{type(ex).__name__}: {str(ex)[:200]}"] * len(case["script"])
        n_ev = sum(len(s) for s in case["runs"])
        dup = n_ev - len({e["id"] for s in case["runs"] for e in s})
        nontrivial = dup >= 1 and n_ev > case["batch"]
        ctx.case({"b": case["batch"], "runs": case["runs"]}, nontrivial,
                 sample={"batch": case["batch"], "ids": [[e["id"] for e in s] for s in case["runs"]]}
                 if ctx.cov["evaluations"] % 503 == 0 else None)
        ctx.tick("dup" if dup else "nodup")
        # property oracle on the real tables after every run
        bad = None
        di = 0
        for idx, st in enumerate(case["script"]):
            if st[0] == "ingest" and ires[idx] != "ok":
                bad = f"ingestion run ended with {ires[idx]!r}"
                break
            if st[0] == "dump":
                di += 1
                want = oracle(case["runs"][:di])
                got = ires[idx]
                if not isinstance(got, dict):
                    bad = f"dump failed: {got!r}"
                    break
                if got["nodes"] != want["nodes"]:
                    gi = [n["id"] for n in got["nodes"]]
                    wi = [n["id"] for n in want["nodes"]]
                    bad = (f"after run {di} (batch {case['batch']}): stored spans {gi} / first occurrences {wi}"
                           if gi != wi else
                           f"after run {di} (batch {case['batch']}): a stored span is not the first occurrence of its id")
                    break
                if got["assoc"] != want["assoc"]:
                    bad = f"after run {di} (batch {case['batch']}): links {got['assoc']} / expected {want['assoc']}"
                    break
        if bad:
            ctx.violation(bad, {"input": {k: case[k] for k in ("batch", "buffer", "file_db", "runs", "script")},
                                "observed": ires})
            continue
        if mres is not None and mres != ires:
            ctx.violation("correspondence: Lean store model and SQLDataHolder differ",
                          {"input": {k: case[k] for k in ("batch", "buffer", "file_db", "runs", "script")},
                           "model": mres, "impl": ires}, key=("corr", case["batch"], case["runs"]), concrete=False)


CORPUS = [
    # duplicates inside a batch with different payloads (first must win); all-duplicate batch then new spans
    {"batch": 3, "ids": "ababc"}, {"batch": 1, "ids": "aab"}, {"batch": 2, "ids": "abab"}, {"batch": 2, "ids": "aabbc"},
]


def run(ctx: Ctx) -> None:
    for p in translate(["Consts"]):
        ctx.broken_ties.append("translator: " + p)
    ctx.prove(["O2P.Props.C10"], THEOREMS)
    if ctx.tier == "thorough":
        ctx.leanchecker(["O2P.Props.C10"])
    ctx.cov["rule"] = (
        "streams over 3 ids up to renaming (every duplicate placement) of length <= 4 (thorough 6) x batch sizes "
        "1..n+1, each event with its own payload and a parent drawn from {none, '', stored id, absent id}; seeded "
        "random streams (<= 25 events, 1-3 runs over one database file) x batch sizes {1,2,3,5,n,n+1,1000}; large "
        "streams (160-450 spans, a grown export delivered again or late re-deliveries) x batch sizes {40,101,150,300,500,1000}. "
        "non-trivial: at least one duplicate id and more events than the batch size"
    )
    cases: list[dict[str, Any]] = []
    for c in CORPUS:
        ids = tuple(c["ids"])
        parents: list[str | None] = [None if i == 0 else ids[i - 1] for i in range(len(ids))]
        stream = mk_stream(ids, parents)
        cases.append({"batch": c["batch"], "buffer": 0, "file_db": False, "runs": [stream],
                      "script": [["ingest", stream], ["dump"]]})
        # the same stream again in a second run over a file database
        cases.append({"batch": c["batch"], "buffer": 0, "file_db": True, "runs": [stream, stream],
                      "script": [["ingest", stream], ["dump"], ["newrun"], ["ingest", stream], ["dump"]]})
    ctx.tick("corpus", len(cases))
    for _ in range(400 if ctx.tier == "quick" else 4000):
        cases.append(random_case(ctx))
    for _ in range(12 if ctx.tier == "quick" else 120):
        cases.append(large_case(ctx))
    cases += list(exhaustive(ctx))
    for i in range(0, len(cases), 2000):
        check(ctx, cases[i:i + 2000])
    ctx.cov["exhaustive"] = False
    ctx.assumptions += [
        "SQLite and SQLAlchemy (constraints, transactions, session state) are modelled from the constraint flags, not "
        "verified; the correspondence compares full dumps of nodes and NODE_ASSOCIATION after every run",
    ]


def replay(data: dict[str, Any]) -> int:
    case = data["input"]
    ires = sl.run_impl(case["script"], case["batch"], case["buffer"], case["file_db"])
    di = 0
    rc = 0
    for idx, st in enumerate(case["script"]):
        if st[0] == "dump":
            di += 1
            want = oracle(case["runs"][:di])
            ok = isinstance(ires[idx], dict) and ires[idx]["nodes"] == want["nodes"] and ires[idx]["assoc"] == want["assoc"]
            print(f"run {di}: {'ok' if ok else 'DIFFERS'}\n  stored  : {ires[idx]}\n  expected: {want}")
            rc |= 0 if ok else 1
        elif st[0] == "ingest" and ires[idx] != "ok":
            print("ingest ->", ires[idx])
            rc = 1
    return rc
