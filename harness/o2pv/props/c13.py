"""C13 — field-mapping extraction follows the documented path semantics.

prove (O2P.Props.C13: one record per combination of loop values, chain = one per innermost element with its
ancestors, outer values repeated, absent -> null, skipping is a filterMap so an invalid record never
affects another, per-line mode is a flatMap over lines) -> correspondence of the Lean extraction model
with (a) the records the real compiled jq program yields and (b) the OTelEvents JSONDataSource yields from
real files in whole-file and per-line modes -> oracle: a third, independent flattening written here for
the consistent (chain-shaped) mappings.
"""
from __future__ import annotations

import importlib
import json
import os
import shutil
import tempfile
from typing import Any

from ..common import Ctx, LeanSide

LEVEL = "proof"
THEOREMS = [
    "O2P.Jq.extract_length",
    "O2P.Jq.bindings_chain",
    "O2P.Jq.envs_length",
    "O2P.Jq.evalLeaf_outer",
    "O2P.Jq.evalField_outer",
    "O2P.Jq.plain_absent_null",
    "O2P.Jq.evalString_null_part",
    "O2P.Jq.source_append",
    "O2P.Jq.skip_independent",
    "O2P.Jq.source_invalid_doc",
    "O2P.Jq.compile_correct",
    "O2P.Jq.compile_wf",
    "O2P.Jq.compile_correct_all",
]

RS, SS, SP = "resource_spans", "scope_spans", "spans"
SPAN = f"{RS}.[].{SS}.[].{SP}.[]."
FIELDS = ["job_name", "job_id", "event_type", "event_id", "start_timestamp", "end_timestamp", "application_name",
          "parent_event_id"]


# ------------------------------------------------------------------------------------------------
# documents


def attr(r: Any, key: Any, val: Any, kind: str = "StringValue") -> dict[str, Any]:
    return {"key": key, "value": {"Value": {kind: val}}}


def gen_span(r: Any, k: int, ids: list[str]) -> Any:
    roll = r.random()
    if roll < 0.03:
        return r.choice([None, "junk", 7, []])  # not an object at all
    sp: dict[str, Any] = {
        "trace_id": f"tr{k % 3}", "span_id": f"sp{k}", "parent_span_id": r.choice([None, None, ids[-1] if ids else None, ""]),
        # names may hold characters that are line separators to str.splitlines() but not to a text file's line
        # iteration, and that JSON allows unescaped inside strings (U+2028, U+2029, U+0085)
        "name": r.choice(["/get", "/put", "op", "", "/get", "/put", "a\u2028b", "x\u0085y", "p\u2029q"]),
        "start_time_unix_nano": str(1_700_000_000_000_000_000 + k) if r.random() < 0.8 else 1000 + k,
        "end_time_unix_nano": str(1_700_000_000_000_000_100 + k) if r.random() < 0.8 else 2000 + k,
    }
    attrs: list[Any] = []
    for a in range(r.choice([0, 1, 2, 3])):
        key = r.choice(["http.method", "http.response", "app.service", "app.namespace"])
        if key == "http.response":
            # typed values: mostly IntValue, sometimes only the string form is present
            attrs.append(attr(r, key, r.choice(["200", 404, "500"]), "IntValue" if r.random() < 0.6 else "StringValue"))
        else:
            attrs.append(attr(r, key, r.choice(["GET", "PUT", "svc", "ns", ""])))
    if r.random() < 0.08:
        attrs.append(r.choice([{"key": 5, "value": {"Value": {"StringValue": "x"}}},   # non-string key
                               {"key": None, "value": 1}, {"value": {"Value": {}}}, "notanobject",
                               {"key": "http.method", "value": "flat"},                 # value path hits a scalar
                               {"key": False, "value": {}}]))
    if r.random() < 0.1:
        attrs.append(attr(r, "http.method", "SECOND"))  # duplicate key: the later one wins
    v = r.random()
    if v < 0.7:
        sp["attributes"] = attrs
    elif v < 0.8:
        sp["attributes"] = None
    elif v < 0.85:
        sp["attributes"] = "oops"
    if r.random() < 0.6:
        sp["child_span_ids"] = r.choice([[], [f"sp{k + 1}"], [f"sp{k + 1}", f"sp{k + 2}"], None, [None], [7]])
    for miss in ("trace_id", "span_id", "name", "start_time_unix_nano", "parent_span_id"):
        if r.random() < 0.04:
            sp.pop(miss, None)
    if r.random() < 0.04:
        sp["span_id"] = r.choice([None, 12, False, ["x"]])
    if r.random() < 0.04:
        sp["start_time_unix_nano"] = r.choice(["abc", "", None, "12x"])
    return sp


def gen_doc(r: Any, without_list: bool) -> Any:
    groups = []
    k = r.randrange(0, 50)
    ids: list[str] = []
    for _ in range(r.choice([1, 1, 2, 3])):
        rattrs = [attr(r, "service.name", r.choice(["App", "Svc 2"])), attr(r, "service.version", "1.0")]
        if r.random() < 0.2:
            rattrs = rattrs[1:]
        scopes = []
        for _ in range(r.choice([0, 1, 1, 2])):
            spans = []
            for _ in range(r.choice([0, 1, 2, 3])):
                spans.append(gen_span(r, k, ids))
                ids.append(f"sp{k}")
                k += 1
            sc: dict[str, Any] = {"scope": {"name": r.choice(["Group 1", "G2"])}, "spans": spans}
            if r.random() < 0.08:
                sc["spans"] = r.choice([None, {}, "x"])
            if r.random() < 0.08:
                sc.pop("scope")
            scopes.append(sc)
        # older exporters put the scope groups under another key: the same array name `spans` then sits under two
        # different parents
        g: dict[str, Any] = {"resource": {"attributes": rattrs},
                             ("scope_spans" if r.random() < 0.75 else "instrumentation_library_spans"): scopes}
        if r.random() < 0.06 and "scope_spans" in g:
            g["scope_spans"] = r.choice([None, []])
        if r.random() < 0.05:
            g.pop("resource")
        groups.append(g)
    if without_list:
        return {RS: groups[0]}
    if r.random() < 0.04:
        return r.choice([{}, {RS: None}, {RS: []}, {"other": 1}])
    return {RS: groups}


# ------------------------------------------------------------------------------------------------
# mappings: parts -> alternatives (kp, kv, vp)


def gen_alt(r: Any, field: str, rs: str) -> dict[str, Any]:
    span = f"{rs}{SS}.[].{SP}.[]."
    plain = {
        "job_id": "trace_id", "event_id": "span_id", "event_type": "name", "parent_event_id": "parent_span_id",
        "start_timestamp": "start_time_unix_nano", "end_timestamp": "end_time_unix_nano",
        "job_name": "name", "application_name": "name",
    }
    kind = r.choice(["plain", "plain", "span_attr", "res_attr", "scope", "missing", "old_layout"])
    if field in ("start_timestamp", "end_timestamp", "event_id", "parent_event_id") and r.random() < 0.8:
        kind = "plain"
    if kind == "plain":
        return {"kp": span + plain[field], "kv": None, "vp": None}
    if kind == "old_layout":
        # the same leaf through the older layout: `spans` below another parent
        return {"kp": f"{rs}instrumentation_library_spans.[].{SP}.[]." + plain[field], "kv": None, "vp": None}
    if kind == "span_attr":
        key = r.choice(["http.method", "http.response", "app.service", "nope"])
        typed = "IntValue" if key == "http.response" else "StringValue"
        if r.random() < 0.25:
            typed = "StringValue" if typed == "IntValue" else "IntValue"
        return {"kp": span + "attributes.[].key", "kv": key, "vp": "value.Value." + typed}
    if kind == "res_attr":
        return {"kp": f"{rs}resource.attributes.[].key", "kv": r.choice(["service.name", "service.version", "nope"]),
                "vp": "value.Value.StringValue"}
    if kind == "scope":
        return {"kp": f"{rs}{SS}.[].scope.name", "kv": None, "vp": None}
    return {"kp": span + r.choice(["not_here", "attributes.deep.er", "name.sub"]), "kv": None, "vp": None}


def gen_mapping(r: Any, without_list: bool) -> list[dict[str, Any]]:
    rs = f"{RS}." if without_list else f"{RS}.[]."
    m = []
    both_layouts = r.random() < 0.3   # every span-level field falls back to the older layout
    fields = list(FIELDS)
    if r.random() < 0.3:
        r.shuffle(fields)  # the order of fields decides variable allocation
    for f in fields:
        nparts = r.choice([1, 1, 1, 2, 3]) if f in ("event_type", "job_name", "application_name") else 1
        parts = []
        for _ in range(nparts):
            nalt = r.choice([1, 1, 1, 2, 3])
            alts = [gen_alt(r, f, rs) for _ in range(nalt)]
            if nparts > 1 and r.random() < 0.25:
                # the documented fall-back over typed values: the same key of the same array read through two value
                # paths (and, in another field or part, possibly again)
                key = r.choice(["http.response", "http.method"])
                span0 = f"{rs}{SS}.[].{SP}.[]."
                alts = [{"kp": span0 + "attributes.[].key", "kv": key, "vp": "value.Value." + t}
                        for t in r.sample(["IntValue", "StringValue"], 2)]
            if both_layouts and alts[0]["kv"] is None and SP in alts[0]["kp"] and "instrumentation" not in alts[0]["kp"]:
                alts.append({"kp": alts[0]["kp"].replace(f"{SS}.[].", "instrumentation_library_spans.[]."),
                             "kv": None, "vp": None})
            parts.append(alts)
        m.append({"name": f, "array": False, "parts": parts})
    if r.random() < 0.6:
        span = f"{rs}{SS}.[].{SP}.[]."
        parts = [[{"kp": span + "child_span_ids", "kv": None, "vp": None}]]
        if r.random() < 0.3:
            parts.append([{"kp": span + "span_id", "kv": None, "vp": None}])
        m.append({"name": "child_event_ids", "array": True, "parts": parts})
    if r.random() < 0.06:
        # the documented 'explode': the attribute array itself becomes a loop level
        span = f"{rs}{SS}.[].{SP}.[]."
        m[2] = {"name": m[2]["name"], "array": False,
                "parts": [[{"kp": span + "attributes.[].key", "kv": None, "vp": None}]]}
    if r.random() < 0.08:
        # sibling loop levels (resource attributes next to scope_spans): the records are the cartesian product
        m[r.randrange(len(FIELDS))]["parts"].append([{"kp": f"{rs}resource.attributes.[].key", "kv": None, "vp": None}])
    return m


def to_field_spec(f: dict[str, Any]) -> dict[str, Any]:
    """the user-facing FieldSpec of a field; the equivalent spellings the configuration accepts (a single alternative as
    a plain string or a one-element list, key_value / value_paths left out when nothing is looked up, key_paths as one
    string) are all used, chosen by a hash of the field so that a case always gets the same spelling"""
    style = len(json.dumps(f, sort_keys=True)) % 4

    def one(part: list[dict[str, Any]], k: str) -> Any:
        if len(part) == 1 and style != 3:
            return part[0][k]
        return [a[k] for a in part]
    spec: dict[str, Any] = {"key_paths": [one(p, "kp") for p in f["parts"]], "key_value": [one(p, "kv") for p in f["parts"]],
                            "value_paths": [one(p, "vp") for p in f["parts"]],
                            "value_type": "array" if f["array"] else "string"}
    no_lookup = all(a["kv"] is None and a["vp"] is None for p in f["parts"] for a in p)
    if no_lookup and style in (1, 2):
        del spec["key_value"], spec["value_paths"]
        if style == 2 and len(f["parts"]) == 1 and len(f["parts"][0]) == 1:
            spec["key_paths"] = f["parts"][0][0]["kp"]
    return spec


def tagged(v: Any) -> Any:
    if v is None:
        return ["z"]
    if isinstance(v, bool):
        return ["b", v]
    if isinstance(v, int):
        return ["n", str(v)]
    if isinstance(v, str):
        return ["s", v]
    if isinstance(v, list):
        return ["a", [tagged(x) for x in v]]
    return ["o", [[k, tagged(x)] for k, x in v.items()]]


def untag_model(v: Any) -> Any:
    if isinstance(v, dict) and set(v) == {"$int"}:
        return int(v["$int"])
    if isinstance(v, dict):
        return {k: untag_model(x) for k, x in v.items()}
    if isinstance(v, list):
        return [untag_model(x) for x in v]
    return v


# ------------------------------------------------------------------------------------------------
# an independent flattening for chain-shaped mappings (all loop levels nested: rs -> scope_spans -> spans)


def ref_path(v: Any, p: list[str]) -> Any:
    for k in p:
        if v is None:
            return None
        if not isinstance(v, dict):
            raise KeyError
        v = v.get(k)
    return v


def ref_items(v: Any, chunk: str) -> list[Any]:
    try:
        x = ref_path(v, chunk.split("."))
    except KeyError:
        return [None]
    if isinstance(x, list):
        return x
    if isinstance(x, dict):
        return list(x.values())
    return [None]


def ref_alt(env: dict[str, Any], a: dict[str, Any]) -> Any:
    chunks = a["kp"].split(".[].")
    if a["kv"] is None:
        base, leaf = chunks[:-1], chunks[-1]
        v = env[".[].".join(base)] if base else env[""]
        try:
            return ref_path(v, leaf.split("."))
        except KeyError:
            return None
    base, arr, keyp = chunks[:-2], chunks[-2], chunks[-1]
    v = env[".[].".join(base)] if base else env[""]
    try:
        x = ref_path(v, arr.split("."))
    except KeyError:
        return None
    if isinstance(x, dict):
        x = list(x.values())
    if not isinstance(x, list):
        return None
    out: dict[str, Any] = {}
    for e in x:
        try:
            k = ref_path(e, keyp.split("."))
        except KeyError:
            continue
        if k is None or k is False:
            continue
        if not isinstance(k, str):
            return None
        try:
            out[k] = ref_path(e, a["vp"].split("."))
        except KeyError:
            return None
    return out.get(a["kv"])


def ref_tostring(v: Any) -> str:
    if isinstance(v, bool):
        return "true" if v else "false"
    return v if isinstance(v, str) else json.dumps(v, separators=(",", ":"))


def ref_flatten(x: Any) -> list[Any]:
    return [y for e in x for y in ref_flatten(e)] if isinstance(x, list) else [x]


def ref_extract(mapping: list[dict[str, Any]], doc: Any) -> list[dict[str, Any]] | None:
    """only for mappings whose loop prefixes form one chain; None otherwise"""
    prefixes: list[str] = []
    for f in mapping:
        for p in f["parts"]:
            for a in p:
                ch = a["kp"].split(".[].")
                ch = ch[:-1] if a["kv"] is None else ch[:-2]
                for i in range(1, len(ch) + 1):
                    pre = ".[].".join(ch[:i])
                    if pre not in prefixes:
                        prefixes.append(pre)
    prefixes.sort(key=lambda s: s.count(".[].") )
    for a, b in zip(prefixes, prefixes[1:]):
        if not b.startswith(a + ".[]."):
            return None
    envs: list[dict[str, Any]] = [{"": doc}]
    prev = ""
    for pre in prefixes:
        chunk = pre[len(prev) + 4:] if prev else pre
        envs = [{**e, pre: x} for e in envs for x in ref_items(e[prev], chunk)]
        prev = pre
    out = []
    for env in envs:
        rec: dict[str, Any] = {}
        for f in mapping:
            vals = []
            for p in f["parts"]:
                v = None
                for i, a in enumerate(p):
                    v = ref_alt(env, a)
                    if v is not None and v is not False:
                        break
                vals.append(v)
            if f["array"]:
                xs = ref_flatten(vals)
                rec[f["name"]] = None if xs and all(x is None for x in xs) else xs
            else:
                rec[f["name"]] = None if any(v is None for v in vals) else "_".join(ref_tostring(v) for v in vals)
        out.append(rec)
    return out


# ------------------------------------------------------------------------------------------------


class Impl:
    def __init__(self) -> None:
        self.conv = importlib.import_module("tel2puml.otel_to_pv.data_sources.json_data_source.json_jq_converter")
        self.cfg = importlib.import_module("tel2puml.otel_to_pv.data_sources.json_data_source.json_config")
        self.ds = importlib.import_module("tel2puml.otel_to_pv.data_sources.json_data_source.json_datasource")
        self.tmp = tempfile.mkdtemp(prefix="o2p13_")

    def close(self) -> None:
        shutil.rmtree(self.tmp, ignore_errors=True)

    def records(self, mapping: list[dict[str, Any]], docs: list[Any]) -> Any:
        fm = {f["name"]: to_field_spec(f) for f in mapping}
        try:
            compiled = self.conv.field_mapping_to_compiled_jq(fm)
        except Exception as ex:  # noqa: BLE001
            return f"compile: {type(ex).__name__}: {str(ex)[:120]}"
        out = []
        for d in docs:
            try:
                out.append(list(self.conv.generate_records_from_compiled_jq(d, compiled)))
            except Exception as ex:  # noqa: BLE001
                out.append(f"{type(ex).__name__}: {str(ex)[:120]}")
        return out

    def query(self, mapping: list[dict[str, Any]]) -> str:
        """the text of the jq query the real compiler emits for the mapping"""
        fm = {f["name"]: to_field_spec(f) for f in mapping}
        try:
            return str(self.conv.field_mapping_to_jq_query(fm))
        except Exception as ex:  # noqa: BLE001
            return f"compile: {type(ex).__name__}: {str(ex)[:120]}"

    def events(self, mapping: list[dict[str, Any]], docs: list[Any], per_line: bool, k: int, tail: str = "") -> Any:
        fm = {f["name"]: to_field_spec(f) for f in mapping}
        # the folder is presented to the tool in the ways a user writes paths: absolute, with a trailing slash, relative
        # to the working directory (through `..`), below a dot folder
        how = k % 4
        d = os.path.join(self.tmp, ".cache", f"c{k}") if how == 3 else os.path.join(self.tmp, f"c{k}")
        os.makedirs(d)
        shown = {0: d, 1: d + os.sep, 2: os.path.relpath(d), 3: d}[how]
        try:
            if per_line:
                with open(os.path.join(d, "a.json"), "w") as f:
                    for doc in docs:
                        # half of the files keep non-ASCII characters raw, as other exporters write them
                        f.write(json.dumps(doc, ensure_ascii=(k % 2 == 0)) + "\n")
                    f.write(tail)   # exporters often leave an empty or blank last line
            else:
                # one whole-file document per file; several files in one sub-directory each to fix the order
                for i, doc in enumerate(docs):
                    with open(os.path.join(d, f"f{i}.json"), "w") as f:
                        json.dump(doc, f, indent=2)
            try:
                conf = self.cfg.JSONDataSourceConfig(dirpath=shown, json_per_line=per_line,
                                                     field_mapping=self.cfg.OTelFieldMapping(**fm))
                src = self.ds.JSONDataSource(conf)
                src.file_list = sorted(src.file_list)
                evs = [e.model_dump() for e in src]
            except Exception as ex:  # noqa: BLE001
                return f"{type(ex).__name__}: {str(ex)[:160]}"
            return [{**e, "start_timestamp": str(e["start_timestamp"]), "end_timestamp": str(e["end_timestamp"])}
                    for e in evs]
        finally:
            shutil.rmtree(d, ignore_errors=True)


def ref_validate(rec: dict[str, Any]) -> dict[str, Any] | None:
    """OTelEvent(**record) as the documentation describes the schema (independent of the Lean model)"""
    out: dict[str, Any] = {}
    for k in ("job_name", "job_id", "event_type", "event_id", "application_name"):
        if not isinstance(rec.get(k), str):
            return None
        out[k] = rec[k]
    for k in ("start_timestamp", "end_timestamp"):
        v = rec.get(k)
        if isinstance(v, str):
            # pydantic's lax str -> int: white space, sign, underscores between digits, a fraction of zeros
            import re as _re
            m = _re.fullmatch(r"\s*([+-]?)(\d+(?:_\d+)*)(?:\.0+)?\s*", v)
            if not m:
                return None
            v = int(m.group(2).replace("_", "")) * (-1 if m.group(1) == "-" else 1)
        if not isinstance(v, int) or isinstance(v, bool):
            return None
        out[k] = str(v)
    p = rec.get("parent_event_id", 0)
    if p is not None and not isinstance(p, str):
        return None
    out["parent_event_id"] = p
    c = rec.get("child_event_ids")
    if c is not None and not (isinstance(c, list) and all(isinstance(x, str) for x in c)):
        return None
    out["child_event_ids"] = c
    return out


def run(ctx: Ctx) -> None:
    ctx.prove(["O2P.Props.C13"], THEOREMS)
    if ctx.tier == "thorough":
        ctx.leanchecker(["O2P.Props.C13"])
    quick = ctx.tier == "quick"
    r = ctx.rng
    impl = Impl()
    ctx.cov["rule"] = (
        "seeded OTel-shaped documents (1-3 resource groups, 0-2 scope groups, 0-3 spans, 0-3 attributes; missing keys, "
        "null/scalar/empty arrays, non-object elements, non-string and duplicate attribute keys, numeric and string "
        "64-bit values, resource_spans as object) x mappings built from the documented forms (plain span paths, header "
        "values, key/value lookup in span and resource attributes, 1-3 '_' parts, 1-3 priority alternatives incl. "
        "missing paths, array-valued child ids, shuffled field order, an exploded attribute level) x {whole file, one "
        "JSON per line}. non-trivial: >= 2 records, and a record that is skipped or a fall-back/lookup that is used"
    )
    cases = []
    for k in range(600 if quick else 6000):
        wl = r.random() < 0.15
        mapping = gen_mapping(r, wl)
        docs = [gen_doc(r, wl) for _ in range(r.choice([1, 1, 2, 3]))]
        cases.append({"mapping": mapping, "docs": docs, "per_line": r.random() < 0.5, "k": k,
                      "tail": r.choice(["", "", "\n", "  \n", "\n\n"])})
        ctx.tick("without_list" if wl else "with_list")
    try:
        reps = LeanSide.drive({"op": "jq.run", "mapping": c["mapping"], "docs": [tagged(d) for d in c["docs"]]}
                              for c in cases)
    except Exception as ex:  # noqa: BLE001
        ctx.broken_ties.append(f"model driver: {ex}")
        reps = [None] * len(cases)  # type: ignore[list-item]
    try:
        for case, rep in zip(cases, reps):
            if ctx.too_many():
                break
            recs = impl.records(case["mapping"], case["docs"])
            evs = impl.events(case["mapping"], case["docs"], case["per_line"], case["k"], case["tail"])
            if case["per_line"] and case["tail"]:
                ctx.tick("per_line_blank_tail")
            ctx.tick("per_line" if case["per_line"] else "whole_file")
            inp = {"mapping": case["mapping"], "docs": case["docs"], "per_line": case["per_line"], "tail": case["tail"]}
            nrec = sum(len(x) for x in recs if isinstance(x, list)) if isinstance(recs, list) else 0
            nev = len(evs) if isinstance(evs, list) else 0
            ctx.case(inp, nrec >= 2 and (nev < nrec or any(len(p) > 1 or p[0]["kv"] for f in case["mapping"] for p in f["parts"])),
                     sample={"mapping": [to_field_spec(f) for f in case["mapping"][:3]], "records": nrec, "events": nev}
                     if ctx.cov["evaluations"] % 131 == 0 else None)
            ctx.tick("skipped_records", nrec - nev if nrec >= nev else 0)
            # oracle 1: the independent flattening (chain-shaped mappings)
            bad = None
            if isinstance(recs, list):
                for d, got in zip(case["docs"], recs):
                    want = ref_extract(case["mapping"], d)
                    if want is None:
                        ctx.tick("oracle_not_chain")
                        break
                    if got != want:
                        bad = f"records differ from the documented flattening: {str(got)[:160]} / {str(want)[:160]}"
                        break
                else:
                    ctx.tick("oracle_chain_docs", len(case["docs"]))
                # oracle 2: skipping invalid records never affects the others, in either mode
                if not bad and isinstance(evs, list) and all(isinstance(x, list) for x in recs):
                    want_evs = [e for x in recs for e in (ref_validate(rc) for rc in x) if e is not None]
                    if evs != want_evs:
                        bad = (f"JSONDataSource yielded {len(evs)} events, the valid records are {len(want_evs)} "
                               f"(per_line={case['per_line']})")
                elif not bad and not isinstance(evs, list):
                    bad = f"JSONDataSource failed: {evs}"
            else:
                bad = f"mapping did not compile: {recs}"
            if bad:
                ctx.violation(bad, {"input": inp, "records": recs, "events": evs})
                continue
            if rep is not None:
                if "error" in rep:
                    ctx.violation(f"correspondence: model error {rep['error']}", {"input": inp}, key=("corr", inp),
                                  concrete=False)
                    continue
                mrecs = untag_model(rep["records"])
                qtext = impl.query(case["mapping"])
                ctx.tick("query_texts_compared")
                if qtext != rep["query"]:
                    ctx.violation("correspondence: the jq query the compiler emits is not the text of the Lean emitter "
                                  "(compile_correct is about another query)",
                                  {"input": inp, "model": rep["query"], "impl": qtext}, key=("corrq", inp), concrete=False)
                elif not rep["wf"]:
                    ctx.violation("correspondence: the compiled program is not well-formed (wfProgram): compile_correct "
                                  "does not apply to it", {"input": inp}, key=("corrwf", inp), concrete=False)
                elif any(e["err"] for e in rep["evaluated"]) or \
                        [untag_model(e["outs"]) for e in rep["evaluated"]] != recs:
                    ctx.violation("correspondence: the Lean jq semantics evaluates the emitted query to other records "
                                  "than the real jq engine",
                                  {"input": inp, "model": rep["evaluated"], "impl": recs}, key=("correval", inp),
                                  concrete=False)
                elif mrecs != recs:
                    ctx.violation("correspondence: Lean extraction model and the compiled jq program differ",
                                  {"input": inp, "model": mrecs, "impl": recs}, key=("corr", inp), concrete=False)
                elif rep["events"] != evs:
                    ctx.violation("correspondence: Lean validation model and JSONDataSource differ",
                                  {"input": inp, "model": rep["events"], "impl": evs}, key=("corrv", inp), concrete=False)
    finally:
        impl.close()
    ctx.assumptions += [
        "the jq engine (C library) is modelled by O2P.Jq.eval for the emitted fragment and compared with the real engine "
        "on every generated (query, document) pair; the emitted query text is compared character by character with "
        "the Lean emitter's; the link between the emitter's text and its expression tree is by construction (no jq "
        "parser in Lean) and validated by that differential run; floats and composite values under tostring are "
        "outside the generated domain",
        "pydantic coercion of OTelEvent is modelled for the generated value kinds (digit strings and ints for "
        "timestamps, strings, null, lists of strings)",
        "where the documentation is silent (empty inner array vs missing key, false under //, iteration over an object) "
        "the model follows the code: specified by implementation",
    ]


def replay(data: dict[str, Any]) -> int:
    case = data["input"]
    impl = Impl()
    try:
        recs = impl.records(case["mapping"], case["docs"])
        evs = impl.events(case["mapping"], case["docs"], case["per_line"], 0, case.get("tail", ""))
        # per-line files are written with non-ASCII characters escaped (even k) and raw (odd k): replay both
        rc = 0
        # … and the folder is presented in four ways (absolute, trailing slash, relative through `..`, below a dot folder)
        for kk in (1, 2, 3):
            other = impl.events(case["mapping"], case["docs"], case["per_line"], kk, case.get("tail", ""))
            if other != evs:
                print(f"events differ with presentation {kk} (file raw/escaped, folder path written another way):", other,
                      "\nvs:", evs)
                rc = 1
        if isinstance(recs, list):
            for d, got in zip(case["docs"], recs):
                want = ref_extract(case["mapping"], d)
                if want is not None and got != want:
                    print("records:", got, "\nexpected:", want)
                    rc = 1
            if all(isinstance(x, list) for x in recs):
                want_evs = [e for x in recs for e in (ref_validate(rc_) for rc_ in x) if e is not None]
                if evs != want_evs:
                    print("events:", evs, "\nexpected:", want_evs)
                    rc = 1
        else:
            print(recs)
            rc = 1
        print("ok" if rc == 0 else "DIFFERS")
        return rc
    finally:
        impl.close()
