"""C02 — the learned diagram admits nothing beyond a complete sample.

Same pipeline as C01.  The job set is complete (every execution with loops run once and twice); every job of the
emitted diagram with loops bounded at 2 (all of them up to 300, evenly spread above) is decided for membership
in the source definition by the Lean model (`runs 2` of the source + isomorphism search).
PARTIAL: the learner is not modelled; `C02_full` is decided on the generated definitions.
"""
from __future__ import annotations

from typing import Any

from ..common import Ctx
from .. import pvlib, learncheck as lc

LEVEL = "translation_validation"
THEOREMS = [
    "O2P.Diagram.runs_types",
    "O2P.Diagram.runs_wellformed",
    "O2P.Diagram.accepts_iff",
    "O2P.Diagram.subset_sound",
    "O2P.Diagram.accepts_iff_iso",
]


def run(ctx: Ctx) -> None:
    ctx.prove(["O2P.Props.C02"], THEOREMS)
    if ctx.tier == "thorough":
        ctx.leanchecker(["O2P.Props.C02"])
    quick = ctx.tier == "quick"
    cases = lc.build_cases(ctx, 250 if quick else 3000, [4, 6, 8, 10, 12], with_corpus=True, bunched=True)
    ctx.cov["rule"] = (
        "definitions as in C01 (small exhaustive family, seeded random fragment-F definitions up to 12 events, the 63 "
        "corpus files) with their complete job sets (loops once and twice); every job of the emitted diagram with loops "
        "<= 2 (all up to 300, an evenly spread 300 above) is tested for membership in the source. non-trivial: the "
        "definition has an OR fork, a loop, or a fork nested in a fork"
    )
    lc.learn_all(ctx, cases)
    lc.judge_all(cases, want_subset=True)
    checked_jobs = 0
    for c in cases:
        if ctx.too_many():
            break
        sub = c.get("sub", {})
        usable = "text" in c["learn"] and c.get("parse", {}).get("ok") and "rejected" in sub
        nontrivial = pvlib.has(c["blk"], "loop") or "'OR'" in str(c["blk"]) or str(c["blk"]).count("'fork'") >= 2
        ctx.case(c["blk"], nontrivial, validated=bool(usable),
                 sample={"definition": c["blk"], "learned_runs": sub.get("learned_runs"), "checked": sub.get("checked")}
                 if ctx.cov["evaluations"] % 71 == 0 else None)
        if not usable:
            # termination and well-formedness are C01's / C05's clauses
            ctx.tick("not_judged_" + ("learn" if "text" not in c["learn"] else
                                      "parse" if not c.get("parse", {}).get("ok") else "too_many"))
            continue
        checked_jobs += sub["checked"]
        if sub["rejected"]:
            job = [(n["typ"], n["prev"]) for n in (sub.get("first_rejected") or [])]
            lc.report(ctx, c, f"the learned diagram admits {sub['rejected']} of {sub['checked']} tested jobs that the "
                              f"source definition rejects, e.g. {job}", {"first_rejected": sub.get("first_rejected")})
    ctx.cov["programs"] = ctx.cov["evaluations"]
    ctx.cov["learned_jobs_tested_for_membership"] = checked_jobs
    ctx.assumptions += [
        "the learner is not modelled: C02_full is a stated Prop decided on the generated definitions; membership in the "
        "source is decided by the Lean semantics with loops bounded at 2, as the property's quantifier says",
    ]


def replay(data: dict[str, Any]) -> int:
    return lc.replay_case(data, "subset")
