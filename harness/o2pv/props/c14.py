"""C14 — otel2puml equals otel2pv followed by pv2puml through saved files.

prove (O2P.Props.C14: save/load with any mapping of pairwise distinct names is the identity on events; a string
previousEventIds loads as a one-element list; the file route presents the learner with a permutation of the
in-memory route's jobs, hence learns an equivalent model) -> the REAL command line (argparse + main_handler) on
seeded multi-workflow trace sets x {default, custom mapping} x {sync, async}: route 1 `otel2puml`, route 2
`otel2pv -se` then `pv2puml -fp <job folder> -jn <workflow>` -> the saved files read back with the mapping
equal the in-memory stream of otel_to_pv field by field and equal the Lean model's saved objects; the diagrams
of both routes have one language (Lean semantics, loops <= 2).
"""
from __future__ import annotations

import json
import os
import shutil
import tempfile
from typing import Any

import yaml  # type: ignore[import-untyped]

from ..common import Ctx
from .. import pvlib, learncheck as lc
from .c03 import norm_blk
from .c04 import canon_file

LEVEL = "proof"
THEOREMS = [
    "O2P.PVFile.save_load",
    "O2P.PVFile.load_string_prev",
    "O2P.PVFile.save_load_dup_cex",
    "O2P.PVFile.routes_same_model",
    "O2P.Learn.ingest_perm",
]
T0 = 1_700_000_000_000_000_000
FIELDS = ["jobId", "eventId", "eventType", "timestamp", "previousEventIds", "applicationName", "jobName"]
CFG_ORDER = ["jobId", "eventId", "eventType", "timestamp", "previousEventIds", "applicationName", "jobName"]


def gen_workflow(r: Any, name: str, k0: int, async_flag: bool, reorder: bool = False, many: bool = False
                 ) -> list[dict[str, Any]]:
    """traces of one workflow: a root with 2-4 child calls, one of them optional / alternative, some nested"""
    kids = [f"{name[:1].upper()}{c}" for c in "BCDE"[: r.choice([2, 3, 4])]]
    alt = r.choice(kids)
    pad = r.choice(["x", "x", " ", "  y", "\t"])
    spans = []
    n_traces = r.choice([10, 12, 14]) if many else r.choice([2, 3, 4])    # many: file numbers reach two digits
    nested_all = r.random() < 0.5
    # reorder: the calls keep their names and stored order but run in another order in some traces; the traces
    # then differ only in their links, never in the list of event types
    for t in range(n_traces):
        jid = f"t{t}-{k0}-{name}"     # trace ids of different workflows interleave in sort order
        st = T0 + (k0 + t) * 10**7
        rid = f"{jid}.r"
        spans.append({"job_name": name, "job_id": jid, "event_type": f"{name[:1].upper()}A", "event_id": rid,
                      "start_timestamp": str(st), "end_timestamp": str(st + 9000), "application_name": "app " + name,
                      "parent_event_id": None})
        variant = 0 if reorder else t % 2     # reorder: every trace lists the same event types
        slots = list(range(len(kids)))
        if reorder and t > 0:
            r.shuffle(slots)
        offs, off = [], 100
        for i in range(len(kids)):
            offs.append(off)
            off += 1000 if not (async_flag and i == 0) else 600
        for i, kt in enumerate(kids):
            # the alternative differs by a letter, or only by edge / inner white space (values must survive verbatim)
            typ = kt if not (kt == alt and variant) else kt + pad
            cid = f"{jid}.{i}"
            # async: overlapping windows for the first two children only
            cs = st + offs[slots[i]]
            ce = cs + (1500 if async_flag and slots[i] == 0 else 500)
            spans.append({"job_name": name, "job_id": jid, "event_type": typ, "event_id": cid,
                          "start_timestamp": str(cs), "end_timestamp": str(ce), "application_name": "app " + name,
                          "parent_event_id": rid})
            if i == 1 and (nested_all if reorder else r.random() < 0.5):
                spans.append({"job_name": name, "job_id": jid, "event_type": kt + "n", "event_id": cid + ".n",
                              "start_timestamp": str(cs + 10), "end_timestamp": str(cs + 20),
                              "application_name": "app " + name, "parent_event_id": cid})
    return spans


def gen_case(ctx: Ctx, k: int) -> dict[str, Any]:
    r = ctx.rng
    # every third case: one workflow whose traces differ only in the order the same calls ran.  The learner is
    # outside its sound fragment there (its diagrams may depend on the order of presentation, or it may fail), so
    # those cases are judged on the saved files and on the learned model files, not on the diagrams
    reorder = k % 3 == 2
    # every sixth case: one workflow, async, whose traces differ only in HOW MANY overlapping calls of one name the
    # root makes (1, 2 or 3): the same typed edges in every trace, different multiplicities.  Judged like the
    # reorder cases (files and models), the diagrams carry branch counts the Lean semantics does not model.
    fanout = k % 6 == 1
    # every eighth case: `otel2pv -se` is run TWICE into the same output folder (a user repeating the command) and the
    # first workflow has 10-14 traces; the saved files after the second run must still be the stream's
    rerun = k % 8 == 3
    # names with spaces, capitals, dashes, and with characters that mean something to glob / regex when a path built
    # from the name is taken as a pattern ("ready?" next to "ready1", a bracket group)
    pool = ["wf", "order flow", "Billing", "billing", "a b c", "x-1", "orders[eu]", "ready?", "ready1"]
    names = r.sample(pool, k=1 if (reorder or fanout) else r.choice([1, 2, 3]))
    if "ready?" in names and "ready1" not in names and not (reorder or fanout) and len(names) < 3:
        names.append("ready1")
    # names that differ only in case come in pairs (two workflows of one service, one deployed capitalised)
    for a, b in (("Billing", "billing"), ("billing", "Billing")):
        if a in names and b not in names and not (reorder or fanout) and len(names) < 3:
            names.append(b)
    async_flag = True if fanout else r.random() < 0.5
    spans: list[dict[str, Any]] = []
    for i, n in enumerate(names):
        if fanout:
            counts = r.sample([1, 2, 3], k=r.choice([2, 3]))
            for t, cnt in enumerate(counts):
                jid = f"{n}-f{t}-{k}"
                st = T0 + (k * 100 + t) * 10**7
                rid = f"{jid}.r"
                mk = lambda typ, eid, a, b, par: {"job_name": n, "job_id": jid, "event_type": typ, "event_id": eid,  # noqa: E731
                                                   "start_timestamp": str(st + a), "end_timestamp": str(st + b),
                                                   "application_name": "app " + n, "parent_event_id": par}
                spans.append(mk("FA", rid, 0, 9000, None))
                for c in range(cnt):
                    spans.append(mk("FB", f"{jid}.b{c}", 100 + 10 * c, 2000 + 10 * c, rid))     # overlapping
                spans.append(mk("FC", f"{jid}.c", 3000, 3500, rid))
        else:
            spans += gen_workflow(r, n, k * 100 + i * 10, async_flag, reorder, many=rerun and i == 0)
    reorder = reorder or fanout     # same judging rule
    if fanout:
        ctx.tick("kind_fanout")
    if not reorder:
        r.shuffle(spans)    # reorder cases keep every trace in call-tree order: same stored order in every trace
    custom = r.random() < 0.5
    mapping = None
    if custom:
        mapping = {f: r.choice([f + "_x", f.upper(), "f" + str(i)]) for i, f in enumerate(FIELDS)}
        if r.random() < 0.4:
            # user names that are default names of *other* fields: a rotation of the default names over 2-4 fields
            # (still pairwise distinct, so save/load must invert each other: save_load); the rest stay fresh
            sub = r.sample(FIELDS, r.choice([2, 3, 4]))
            rot = sub[1:] + sub[:1] if r.random() < 0.5 else sub[-1:] + sub[:-1]
            for f, g in zip(sub, rot):
                mapping[f] = g
            if r.random() < 0.5:
                # a chain instead of a cycle: the last one gets a fresh name
                mapping[sub[-1]] = sub[-1] + "_y"
            ctx.tick("mapping_reuses_default_names")
    # the sequencer's other options: rename a root by the types of its children, group siblings as concurrent
    seq_opts: dict[str, Any] = {}
    if not fanout and r.random() < 0.4:
        nm = {}
        for n in names:
            root = f"{n[:1].upper()}A"
            nm[n] = {root: {"mapped_event_type": root + "_with_" + r.choice("BCD"),
                            "child_event_types": [f"{n[:1].upper()}{r.choice('BCD')}"]}}
        seq_opts["event_name_map_information"] = nm
        ctx.tick("sequencer_name_map")
    if not fanout and r.random() < 0.3:
        seq_opts["async_event_groups"] = {n: {f"{n[:1].upper()}A": {f"{n[:1].upper()}B": "g", f"{n[:1].upper()}C": "g"}}
                                          for n in names}
        ctx.tick("sequencer_groups")
    ctx.tick("mapping_custom" if custom else "mapping_default")
    ctx.tick("async" if async_flag else "sync")
    ctx.tick("kind_reorder_or_fanout" if reorder else "kind_alternatives")
    if rerun:
        ctx.tick("otel2pv_twice_into_one_folder")
    return {"names": names, "spans": spans, "async": async_flag, "mapping": mapping, "k": k, "reorder": reorder,
            "seq_opts": seq_opts, "rerun": rerun}


def write_inputs(tmp: str, case: dict[str, Any]) -> dict[str, str]:
    d = os.path.join(tmp, f"c{case['k']}")
    os.makedirs(os.path.join(d, "data"))
    with open(os.path.join(d, "data", "spans.json"), "w") as f:
        json.dump({"spans": case["spans"]}, f)
    cfg = {
        "ingest_data": {"data_source": "json", "data_holder": "sql"},
        "data_holders": {"sql": {"db_uri": "sqlite:///:memory:", "batch_size": 7, "time_buffer": 0}},
        "data_sources": {"json": {"dirpath": os.path.join(d, "data"), "filepath": None, "json_per_line": False,
                                  "jq_query": ".spans", "field_mapping": None}},
        "sequencer": {"async_flag": case["async"], **case.get("seq_opts", {})},
    }
    with open(os.path.join(d, "config.yaml"), "w") as f:
        yaml.safe_dump(cfg, f)
    paths = {"dir": d, "config": os.path.join(d, "config.yaml")}
    if case["mapping"]:
        with open(os.path.join(d, "mapping.yaml"), "w") as f:
            yaml.safe_dump(case["mapping"], f)
        paths["mapping"] = os.path.join(d, "mapping.yaml")
    for sub in ("out1", "out2", "out3"):
        os.mkdir(os.path.join(d, sub))
    return paths


def same_process_part(ctx: Ctx, tmp: str, quick: bool) -> None:
    """both routes in ONE interpreter, as a user's script would run them: otel2puml on two workflows that use the same
    event names (one plain AND fork, one whose root makes the first call once or twice), then otel2pv -se, then pv2puml
    per workflow.  The plain workflow's two diagrams must have one language (the other carries branch counts, which the
    Lean semantics does not model: its model files are compared)."""
    r = ctx.rng
    for k in range(3 if quick else 20):
        names = r.choice([["checkout", "refund"], ["b flow", "a flow"], ["wf1", "wf2"]])
        plain, counted = names[0], names[1]
        if r.random() < 0.5:
            plain, counted = counted, plain
        spans = []

        def trace(n: str, jid: str, base: int, bcount: int) -> None:
            st = T0 + base
            mk = lambda typ, eid, a, b, par: {"job_name": n, "job_id": jid, "event_type": typ, "event_id": eid,  # noqa: E731
                                               "start_timestamp": str(st + a), "end_timestamp": str(st + b),
                                               "application_name": "app", "parent_event_id": par}
            spans.append(mk("SA", f"{jid}.r", 0, 9000, None))
            for c in range(bcount):
                spans.append(mk("SB", f"{jid}.b{c}", 100 + 10 * c, 2000 + 10 * c, f"{jid}.r"))
            spans.append(mk("SC", f"{jid}.c", 150, 2500, f"{jid}.r"))          # overlaps the SB calls
            spans.append(mk("SD", f"{jid}.d", 3000, 3500, f"{jid}.r"))
        for t in range(2):
            trace(plain, f"{plain}-p{t}", (k * 10 + t) * 10**7, 1)
        for t, n in enumerate([1, 2]):
            trace(counted, f"{counted}-c{t}", (k * 10 + 5 + t) * 10**7, n)
        ctx.tick("same_process_cases")
        inp = {"spans": spans, "names": [plain, counted], "async": True, "same_process": True}
        bad, extra = same_process_case(tmp, spans, plain, counted, 10_000 + k)
        if bad:
            ctx.violation(bad, {"input": inp, **extra}, key=("sameproc", k))


def same_process_case(tmp: str, spans: list[dict[str, Any]], plain: str, counted: str, k: int) -> tuple[str | None, dict[str, Any]]:
    case = {"names": [plain, counted], "spans": spans, "async": True, "mapping": None, "k": k, "seq_opts": {}}
    p = write_inputs(tmp, case)
    w = pvlib.Worker(0)
    try:
        def cli(argv: list[str]) -> dict[str, Any]:
            w.send({"op": "cli", "argv": argv, "timeout": 120})
            return w.recv()
        r1 = cli(["-o", os.path.join(p["dir"], "out1"), "otel2puml", "-om", "-c", p["config"]])
        r2 = cli(["-o", os.path.join(p["dir"], "out2"), "otel2pv", "-c", p["config"], "-se"])
        r3 = {n: cli(["-o", os.path.join(p["dir"], "out3"), "pv2puml", "-om", "-fp", os.path.join(p["dir"], "out2", n),
                      "-jn", n]) for n in (plain, counted)}
    finally:
        w.close()
    if any("error" in x or x.get("exit") for x in [r1, r2, *r3.values()]):
        return ("a command fails when both routes run in one interpreter: "
                + " / ".join(str(x.get("error") or x.get("output", ""))[-80:] for x in [r1, r2, *r3.values()]
                             if "error" in x or x.get("exit"))), {}
    stem = plain.replace(" ", "_")
    with open(os.path.join(p["dir"], "out1", stem + ".puml")) as f1, \
            open(os.path.join(p["dir"], "out3", stem + ".puml")) as f3:
        t1, t3 = f1.read(), f3.read()
    pa, pb = pvlib.lean([{"op": "dg.parse", "text": t1}, {"op": "dg.parse", "text": t3}])
    bad = None
    if pa.get("ok") != pb.get("ok"):
        bad = "only one of the two routes gives a well-formed diagram"
    elif pa.get("ok") and json.dumps(norm_blk(pa["blk"])) != json.dumps(norm_blk(pb["blk"])):
        sub = pvlib.lean([{"op": "dg.subset", "learned": pa["blk"], "source": pb["blk"], "k": 2, "cap": 200},
                          {"op": "dg.subset", "learned": pb["blk"], "source": pa["blk"], "k": 2, "cap": 200}])
        if any(x.get("rejected") for x in sub):
            bad = "otel2puml and otel2pv+pv2puml give diagrams with different languages"
    if bad:
        return (f"both routes in one interpreter, workflow {plain!r} (next to {counted!r}, same event names): {bad}",
                {"otel2puml": t1, "pv2puml": t3})
    return None, {}


def evaluate(ctx: Any, cases: list[dict[str, Any]], tmp: str) -> None:
    """both routes through the real command line for every case; sets c["bad"] to what differs (None: nothing)"""
    for c in cases:
        c["paths"] = write_inputs(tmp, c)
    # route 1, route 2a, and the in-memory stream
    reqs = []
    for c in cases:
        p = c["paths"]
        mc = ["-mc", p["mapping"]] if "mapping" in p else []
        reqs.append({"op": "cli", "argv": ["-o", os.path.join(p["dir"], "out1"), "otel2puml", "-om", "-c", p["config"]],
                     "hash_seed": 0, "timeout": 120})
        reqs.append({"op": "cli", "argv": ["-o", os.path.join(p["dir"], "out2"), "otel2pv", "-c", p["config"], "-se"] + mc,
                     "hash_seed": 0, "timeout": 120})
        reqs.append({"op": "otel_to_pv", "config": p["config"], "hash_seed": 0, "timeout": 120})
    reps = pvlib.run_requests(reqs)
    for i, c in enumerate(cases):
        c["r1"], c["r2a"], c["mem"] = reps[3 * i], reps[3 * i + 1], reps[3 * i + 2]
    # the cases whose otel2pv -se is given twice: the second run into the folder the first one filled
    again = [i for i, c in enumerate(cases) if c.get("rerun") and not ("error" in c["r2a"] or c["r2a"].get("exit"))]
    if again:
        reqs2 = []
        for i in again:
            p = cases[i]["paths"]
            mc = ["-mc", p["mapping"]] if "mapping" in p else []
            reqs2.append({"op": "cli", "argv": ["-o", os.path.join(p["dir"], "out2"), "otel2pv", "-c", p["config"], "-se"] + mc,
                          "hash_seed": 0, "timeout": 120})
        for i, rp in zip(again, pvlib.run_requests(reqs2)):
            cases[i]["r2a"] = rp
    # route 2b: pv2puml per workflow folder
    reqs, meta = [], []
    for i, c in enumerate(cases):
        p = c["paths"]
        mc = ["-mc", p["mapping"]] if "mapping" in p else []
        for n in c["names"]:
            folder = os.path.join(p["dir"], "out2", n)
            if os.path.isdir(folder):
                reqs.append({"op": "cli", "argv": ["-o", os.path.join(p["dir"], "out3"), "pv2puml", "-om", "-fp", folder,
                                                   "-jn", n] + mc, "hash_seed": 0, "timeout": 120})
                meta.append((i, n))
    reps = pvlib.run_requests(reqs)
    for (i, n), rp in zip(meta, reps):
        cases[i].setdefault("r2b", {})[n] = rp
    # the saved files read back by the project's own loader
    reqs = []
    for c in cases:
        fl = []
        for n in c["names"]:
            folder = os.path.join(c["paths"]["dir"], "out2", n)
            fl += [os.path.join(folder, fn) for fn in sorted(os.listdir(folder))] if os.path.isdir(folder) else []
        reqs.append({"op": "load_pv_files", "files": fl, "mapping": c["mapping"], "hash_seed": 0, "timeout": 60})
    for c, rp in zip(cases, pvlib.run_requests(reqs)):
        c["readback"] = rp
    # collect
    lean_reqs, lmeta = [], []
    for i, c in enumerate(cases):
        p = c["paths"]
        c["bad"] = None
        if c["reorder"] and ("error" in c["r1"] or c["r1"].get("exit")) and not (
                "error" in c["r2a"] or c["r2a"].get("exit") or "error" in c["mem"]):
            ctx.tick("reorder_learner_failed_in_otel2puml")
            c["r1"] = {"exit": 0, "learner_failed": True}
        if "error" in c["r1"] or c["r1"].get("exit") or "error" in c["r2a"] or c["r2a"].get("exit") or "error" in c["mem"]:
            c["bad"] = (f"a route failed: otel2puml {c['r1'].get('error') or c['r1'].get('exit')}, otel2pv "
                        f"{c['r2a'].get('error') or c['r2a'].get('exit')}, in-memory {c['mem'].get('error')}: "
                        f"{(c['r1'].get('output') or '')[-200:]} {(c['r2a'].get('output') or '')[-200:]}")
            continue
        mp = c["mapping"] or {f: f for f in FIELDS}
        mem: dict[str, list[list[dict[str, Any]]]] = {}
        for name, job in c["mem"]["jobs"]:
            mem.setdefault(name, []).append(sorted(job, key=lambda e: str(e.get("eventId"))))
        files: dict[str, list[list[dict[str, Any]]]] = {}
        raw_objs: list[dict[str, Any]] = []
        for n in c["names"]:
            folder = os.path.join(p["dir"], "out2", n)
            for fn in sorted(os.listdir(folder)) if os.path.isdir(folder) else []:
                with open(os.path.join(folder, fn)) as f:
                    objs = json.load(f)
                raw_objs += objs
                files.setdefault(n, []).append(sorted(({k: o.get(mp[k], [] if k == "previousEventIds" else None)
                                                        for k in FIELDS} for o in objs), key=lambda e: str(e.get("eventId"))))
        key = lambda j: str(j[0].get("jobId")) if j else ""  # noqa: E731
        if {n: sorted(v, key=key) for n, v in mem.items()} != {n: sorted(v, key=key) for n, v in files.items()}:
            c["bad"] = "the saved PV files do not hold the events, links and field values of the in-memory stream"
            continue
        rb = c["readback"]
        if "error" in rb:
            c["bad"] = f"the saved PV files cannot be read back by pv_job_file_to_event_sequence: {rb['error'][:200]}"
            continue
        rbj = sorted((sorted(({k: e.get(k, []) for k in FIELDS} for e in j), key=lambda e: str(e.get("eventId")))
                      for j in rb["jobs"]), key=key)
        memj = sorted((j for js in mem.values() for j in js), key=key)
        if rbj != [[{k: e.get(k, []) for k in FIELDS} for e in j] for j in memj]:
            c["bad"] = ("the saved PV files, read back with the same mapping by the project's loader, do not give the "
                        "events, links and field values of the in-memory stream")
            continue
        c["raw_objs"] = raw_objs
        c["mem_events"] = [e for js in mem.values() for j in js for e in j]
        lean_reqs.append({"op": "pvfile.roundtrip", "cfg": [mp[k] for k in CFG_ORDER],
                          "events": c["mem_events"]})
        lmeta.append(i)
        for n in c["names"]:
            f1 = os.path.join(p["dir"], "out1", n.replace(" ", "_") + ".puml")
            f3 = os.path.join(p["dir"], "out3", n.replace(" ", "_") + ".puml")
            r2b = c.get("r2b", {}).get(n, {"error": "no saved folder"})
            m1, m3 = f1[:-5] + "_model.json", f3[:-5] + "_model.json"
            if os.path.exists(m1) and os.path.exists(m3):
                with open(m1) as fa, open(m3) as fb:
                    ma, mb = json.load(fa), json.load(fb)
                ctx.tick("model_files_compared")
                if canon_file(ma) != canon_file(mb) or ma.get("job_name") != mb.get("job_name"):
                    c["bad"] = (f"workflow {n!r}: the model file saved by otel2puml and the one saved by pv2puml on "
                                f"the saved PV files differ (types, successor/predecessor sets or counts)")
                    break
            if c["reorder"]:
                if c["r1"].get("learner_failed") or "error" in r2b or r2b.get("exit"):
                    ctx.tick("reorder_learner_failed")
                continue
            if "error" in r2b or r2b.get("exit") or not os.path.exists(f1) or not os.path.exists(f3):
                c["bad"] = (f"workflow {n!r}: pv2puml on the saved files failed or a diagram is missing "
                            f"({r2b.get('error') or r2b.get('exit')}; {str(r2b.get('output'))[-200:]})")
                break
            c.setdefault("texts", {})[n] = (open(f1).read(), open(f3).read())
    lres = pvlib.lean(lean_reqs) if lean_reqs else []
    for i, lr in zip(lmeta, lres):
        c = cases[i]
        if "error" in lr:
            ctx.broken_ties.append(f"model driver: {lr['error']}")
            continue
        want = sorted((json.dumps(o, sort_keys=True) for o in c["raw_objs"]))
        got = sorted((json.dumps(o, sort_keys=True) for o in lr["saved"]))
        if want != got:
            ctx.violation("correspondence: Lean save model and the saved PV objects differ",
                          {"input": {"mapping": c["mapping"]}, "model": lr["saved"][:3], "impl": c["raw_objs"][:3]},
                          key=("corr", c["k"]), concrete=False)
        elif sorted(json.dumps(e, sort_keys=True) for e in lr["loaded"]) != \
                sorted(json.dumps({k: e[k] for k in FIELDS}, sort_keys=True) for e in c["mem_events"]):
            ctx.violation("correspondence: Lean load model does not return the in-memory events",
                          {"input": {"mapping": c["mapping"]}, "model": lr["loaded"][:3]}, key=("corrl", c["k"]),
                          concrete=False)
    # diagrams
    preqs, pmeta = [], []
    for i, c in enumerate(cases):
        for n, (t1, t3) in c.get("texts", {}).items():
            preqs += [{"op": "dg.parse", "text": t1}, {"op": "dg.parse", "text": t3}]
            pmeta.append((i, n))
    pres = pvlib.lean(preqs) if preqs else []
    sreqs, smeta = [], []
    ctx.cov["diagram_pairs_compared"] = len(pmeta)
    for k, (i, n) in enumerate(pmeta):
        a, b = pres[2 * k], pres[2 * k + 1]
        c = cases[i]
        if a.get("ok") != b.get("ok"):
            c["bad"] = c["bad"] or f"workflow {n!r}: only one of the two routes gives a well-formed diagram"
        elif a.get("ok") and json.dumps(norm_blk(a["blk"])) != json.dumps(norm_blk(b["blk"])):
            sreqs += [{"op": "dg.subset", "learned": a["blk"], "source": b["blk"], "k": 2, "cap": 200},
                      {"op": "dg.subset", "learned": b["blk"], "source": a["blk"], "k": 2, "cap": 200}]
            smeta += [(i, n), (i, n)]
    for (i, n), a in zip(smeta, pvlib.lean(sreqs) if sreqs else []):
        if a.get("rejected"):
            job = [(x["typ"], x["prev"]) for x in (a.get("first_rejected") or [])]
            cases[i]["bad"] = cases[i]["bad"] or (f"workflow {n!r}: otel2puml and otel2pv+pv2puml give diagrams "
                                                  f"with different languages, e.g. {job}")


def run(ctx: Ctx) -> None:
    ctx.prove(["O2P.Props.C14"], THEOREMS)
    if ctx.tier == "thorough":
        ctx.leanchecker(["O2P.Props.C14"])
    quick = ctx.tier == "quick"
    ctx.cov["rule"] = (
        "seeded trace sets of 1-3 workflows (names with spaces, capitals, dashes), 2-4 traces each (root + 2-4 child calls, "
        "an alternative child type, optional nested call; every third case one workflow whose traces run the same "
        "calls in different orders, judged on saved files and model files only), spans shuffled x {default, custom} PV mapping x {sync, async} "
        "sequencing, through argparse + main_handler: otel2puml -om / otel2pv -se / pv2puml -om -fp -jn. non-trivial: >= 2 "
        "workflows, or a custom mapping, or async sequencing"
    )
    tmp = tempfile.mkdtemp(prefix="o2p14_")
    try:
        same_process_part(ctx, tmp, quick)
        cases = [gen_case(ctx, k) for k in range(24 if quick else 200)]
        evaluate(ctx, cases, tmp)
        for c in cases:
            if ctx.too_many():
                break
            nontrivial = len(c["names"]) >= 2 or bool(c["mapping"]) or c["async"]
            ctx.case({"spans": c["spans"], "m": c["mapping"], "a": c["async"]}, nontrivial,
                     sample={"workflows": c["names"], "mapping": c["mapping"], "async": c["async"], "spans": len(c["spans"])}
                     if ctx.cov["evaluations"] % 7 == 0 else None)
            if c["bad"]:
                ctx.violation(c["bad"], {"input": {"spans": c["spans"], "names": c["names"], "mapping": c["mapping"],
                                                   "async": c["async"], "sequencer": c.get("seq_opts"),
                                                   "reorder": c["reorder"], "rerun": c.get("rerun", False)}})
    finally:
        shutil.rmtree(tmp, ignore_errors=True)
    ctx.assumptions += [
        "yaml/json/pydantic and the file system are exercised, not modelled; workflow names are file-system safe and no "
        "two of them become the same file name (spaces are replaced by underscores by the writer)",
        "equivalence of the two diagrams given equivalent models is C03's unproved clause: decided per case by the Lean "
        "semantics",
    ]


class _Quiet:
    """what evaluate() needs of a Ctx when one recorded case is replayed"""

    def __init__(self) -> None:
        self.cov: dict[str, Any] = {}
        self.broken_ties: list[str] = []
        self.said: list[str] = []

    def tick(self, *_: Any) -> None:
        pass

    def violation(self, what: str, *_: Any, **__: Any) -> None:
        self.said.append(what)


def replay(data: dict[str, Any]) -> int:
    inp = data["input"]
    tmp = tempfile.mkdtemp(prefix="o2p14r_")
    try:
        if inp.get("same_process"):
            bad, _ = same_process_case(tmp, inp["spans"], inp["names"][0], inp["names"][1], 1)
        elif "spans" not in inp:
            print("correspondence case: re-run `check.py C14` with the recorded seed")
            return 1
        else:
            c = {"names": inp["names"], "spans": inp["spans"], "async": inp["async"], "mapping": inp.get("mapping"),
                 "k": 1, "reorder": bool(inp.get("reorder")), "seq_opts": inp.get("sequencer") or {},
                 "rerun": bool(inp.get("rerun"))}
            q = _Quiet()
            evaluate(q, [c], tmp)
            bad = c["bad"] or (q.said[0] if q.said else None)
    finally:
        shutil.rmtree(tmp, ignore_errors=True)
    print(bad or "ok")
    return 1 if bad else 0
