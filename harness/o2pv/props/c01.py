"""C01 — the learned diagram accepts every job it was learned from.

prove (O2P.Props.C01: every job the semantics produces is a well-formed DAG in topological order over the
definition's names; acceptance is decided by enumeration + isomorphism search) -> for definitions of fragment
F (exhaustive small family + seeded random) and the 63 corpus files: the complete job set (Lean `runs`,
loops 1..2; thorough also 1..3 on small ones) in a shuffled presentation -> the real `pv_to_puml_string` in
worker processes -> the emitted text is parsed by the Lean diagram model and must accept every input job.
PARTIAL: the learner is not modelled; the universal statement is `C01_full`, decided on the generated inputs.
"""
from __future__ import annotations

from typing import Any

from ..common import Ctx
from .. import pvlib, learncheck as lc

LEVEL = "translation_validation"
THEOREMS = [
    "O2P.Diagram.runs_types",
    "O2P.Diagram.runs_wellformed",
    "O2P.Diagram.accepts_iff",
    "O2P.Diagram.parse_ok_tail",
    "O2P.Diagram.isoB_sound",
    "O2P.Diagram.isoB_complete",
    "O2P.Diagram.accepts_iff_iso",
]


def run(ctx: Ctx) -> None:
    ctx.prove(["O2P.Props.C01"], THEOREMS)
    if ctx.tier == "thorough":
        ctx.leanchecker(["O2P.Props.C01"])
    quick = ctx.tier == "quick"
    cases = lc.build_cases(ctx, 250 if quick else 3000, [4, 6, 8, 10, 12], with_corpus=True, bunched=True)
    ctx.cov["rule"] = (
        "definitions: the exhaustive small family (one fork of 2-3 single-event branches, one loop of 1-2 events with and "
        "without a break, two nested forks of every operator pair), seeded random definitions of fragment F up to 12 "
        "events, and the 63 corpus files; job set = every execution with loops run once and twice (at most 400 jobs), "
        "jobs and the events inside each job shuffled. non-trivial: the definition has a loop or a fork nested in a fork"
    )
    lc.learn_all(ctx, cases)
    lc.judge_all(cases, want_subset=False)
    for c in cases:
        if ctx.too_many():
            break
        nontrivial = pvlib.has(c["blk"], "loop") or str(c["blk"]).count("'fork'") >= 2
        ctx.case(c["blk"], nontrivial, sample={"definition": c["blk"], "jobs": len(c["jobs"]), "classes": c["classes"]}
                 if ctx.cov["evaluations"] % 71 == 0 else None)
        lr = c["learn"]
        if "text" not in lr:
            lc.report(ctx, c, f"the learner did not terminate normally: {lr.get('error', '')[:160]}")
            continue
        pr, acc = c.get("parse", {}), c.get("acc", {})
        if not pr.get("ok"):
            lc.report(ctx, c, f"the emitted text is not a diagram the model can read ({pr.get('error', '')[:100]}), "
                              "so it accepts none of its jobs")
            continue
        if "accepted" not in acc:
            ctx.tick("judge_skipped_" + ("too_many" if "too-many" in acc.get("error", "") else "error"))
            continue
        rej = [i for i, a in enumerate(acc["accepted"]) if not a]
        if rej:
            job = [(e["eventType"], [p.split("-e")[-1] for p in e.get("previousEventIds", [])]) for e in c["pv"][rej[0]]]
            lc.report(ctx, c, f"the learned diagram rejects {len(rej)} of its {len(acc['accepted'])} training jobs, e.g. {job}",
                      {"rejected_jobs": rej[:5]})
    ctx.cov["programs"] = ctx.cov["evaluations"]
    ctx.assumptions += [
        "the learner (gate inference, loop detection, the walk) is not modelled: C01_full is a stated Prop decided on "
        "the generated definitions; the Lean diagram semantics (runs, isoB, parse) is the judge, and its calibration is "
        "the corpus: every file upstream marks as passing is accepted",
        "the janus stand-in supplies GraphSolution.from_event_list; PYTHONHASHSEED and uuid4 are pinned per case",
    ]


def replay(data: dict[str, Any]) -> int:
    return lc.replay_case(data, "accepts")
