"""C09 — unique-graph selection keeps one trace per distinct call-tree shape.

prove (O2P.Props.C09: canonical shape equal iff isomorphic up to sibling order; independent of storage order;
classes partition the hashed traces) -> correspondence of find_unique_graphs with the Lean store model
(classes, not ids: which member is returned is SQLite's choice) -> oracle: canonical forms computed
independently here, per workflow name, on the traces inside the window.
"""
from __future__ import annotations

import itertools
from typing import Any

from ..common import Ctx
from ..translate import translate
from .. import storelib as sl

LEVEL = "proof"
THEOREMS = [
    "O2P.Store.sortShapes_eq_of_perm",
    "O2P.Store.canon_iso",
    "O2P.Store.shapeOf_eq_canon",
    "O2P.Store.same_digest_iff_iso",
    "O2P.Store.shapeOf_perm",
    "O2P.Store.classes_cover",
    "O2P.Store.classes_members",
    "O2P.Store.classes_distinct",
    "O2P.Store.computeHashes_rows",
    "O2P.Store.computeHashes_ok",
]
MIN = 60 * 10**9


def SCRIPT(events: list[dict[str, Any]]) -> list[list[Any]]:
    """find_unique_graphs on the store as ingested, then again the way otel_to_pv reaches it (after cleaning)
    followed by the stream it would sequence"""
    return [["ingest", events], ["unique"], ["clean_inconsistent"], ["clean_window"], ["rename"], ["unique"],
            ["stream_unique"]]


def ordered_trees(n: int) -> list[list[int | None]]:
    """parent arrays (parent index < own index) of all ordered rooted trees on n nodes"""
    if n == 1:
        return [[None]]
    return [[None, *ps] for ps in itertools.product(*[range(i) for i in range(1, n)])]


def pool(max_nodes: int, labels: str) -> list[tuple[list[int | None], tuple[str, ...]]]:
    out = []
    for n in range(1, max_nodes + 1):
        for ps in ordered_trees(n):
            for ls in itertools.product(labels, repeat=n):
                out.append((ps, ls))
    return out


def canon(ps: list[int | None], ls: tuple[str, ...]) -> Any:
    kids: dict[int, list[int]] = {}
    for i, p in enumerate(ps):
        if p is not None:
            kids.setdefault(p, []).append(i)

    def go(i: int) -> Any:
        return (ls[i], tuple(sorted(go(c) for c in kids.get(i, []))))

    return go(0)


def random_tree(r: Any, labels: str) -> tuple[list[int | None], tuple[str, ...]]:
    n = r.choice([1, 2, 3, 4, 5, 6, 8])
    ps: list[int | None] = [None] + [r.randrange(0, i) for i in range(1, n)]
    return ps, tuple(r.choice(labels) for _ in range(n))


def twin(r: Any, t: tuple[list[int | None], tuple[str, ...]]) -> tuple[list[int | None], tuple[str, ...]]:
    """the same unordered tree with its non-root nodes renumbered (siblings permuted, children stored before/after)"""
    ps, ls = t
    n = len(ps)
    # a random relabelling that keeps parents before children: random topological order
    order = [0]
    avail = [i for i in range(1, n) if ps[i] == 0]
    while avail:
        x = avail.pop(r.randrange(len(avail)))
        order.append(x)
        avail += [i for i in range(1, n) if ps[i] == x]
    new = {old: k for k, old in enumerate(order)}
    ps2: list[int | None] = [None] * n
    ls2 = [""] * n
    for old in range(n):
        ps2[new[old]] = None if ps[old] is None else new[ps[old]]  # type: ignore[index]
        ls2[new[old]] = ls[old]
    return ps2, tuple(ls2)


def build_store(r: Any, traces: list[tuple[str, str, tuple[list[int | None], tuple[str, ...]], tuple[int, int]]],
                shuffle: bool) -> list[dict[str, Any]]:
    events = []
    k = 0
    for name, jid, (ps, ls), (st, en) in traces:
        ids = [f"{jid}.{i}" for i in range(len(ps))]
        for i, p in enumerate(ps):
            # a start / an end on a whole minute (other than the anchors') is a window edge and stays exact
            ds = 0 if (st % MIN == 0 and st > 0) else k % 3
            de = 0 if (en % MIN == 0 and en < 10 * MIN) else k % 5
            events.append(sl.ev(name, jid, ls[i], ids[i], st + ds, en + de, None if p is None else ids[p],
                                app=f"app{k % 4}"))
            k += 1
    if shuffle:
        r.shuffle(events)
    return events


def oracle(traces: list[Any], buffer: int, events: list[dict[str, Any]],
           window_events: list[dict[str, Any]] | None = None) -> dict[str, list[set[str]]] | None:
    # the window is that of the run which computes the hashes: the earliest start and the latest end of what THAT run
    # ingested (a second delivery sees only its own spans); the traces considered are those of the whole store
    we = window_events if window_events else events
    mn = min(e["start"] for e in we)
    mx = max(e["end"] for e in we)
    lo, hi = mn + buffer * MIN, mx - buffer * MIN
    if lo >= hi:
        return None
    inside = {e["jobId"] for e in events if lo <= e["start"] <= hi or lo <= e["end"] <= hi}
    classes: dict[tuple[str, Any], set[str]] = {}
    for name, jid, (ps, ls), _ in traces:
        if jid in inside:
            classes.setdefault((name, canon(ps, ls)), set()).add(jid)
    out: dict[str, list[set[str]]] = {}
    for (name, _), ids in classes.items():
        out.setdefault(name, []).append(ids)
    return out


def judge(want: dict[str, list[set[str]]] | None, got: Any) -> str | None:
    if want is None:
        return None if got == "valueerror" else f"empty window but find_unique_graphs returned {got!r}"
    if not isinstance(got, dict):
        return f"find_unique_graphs ended with {got!r}"
    if sorted(got) != sorted(want):
        return f"workflow names {sorted(got)} selected, shapes exist for {sorted(want)}"
    for name, classes in want.items():
        sel = set(got[name])
        for cl in classes:
            k = len(cl & sel)
            if k == 0:
                return f"workflow {name!r}: the shape of traces {sorted(cl)} has no selected representative (selected {sorted(sel)})"
            if k > 1:
                return f"workflow {name!r}: traces {sorted(cl & sel)} of one shape are both selected"
        extra = sel - set().union(*classes)
        if extra:
            return f"workflow {name!r}: selected {sorted(extra)} which are not stored traces inside the window"
    return None


def profile_twins(r: Any, labels: Any) -> tuple[Any, Any]:
    """two different shapes with the same counts of (level, parent type, child type): the same type twice under one
    parent with the grandchildren distributed differently — R[X[b], X[c]] / R[X[b, c], X[]], or
    R[X[p, p], X[q, q]] / R[X[p, q], X[q, p]]"""
    R, X, b, c = (r.choice(labels) for _ in range(4))
    if r.random() < 0.5:
        if b == c:
            return ([None, 0, 0, 1, 2], (R, X, X, b, c)), ([None, 0, 0, 1, 1], (R, X, X, b, c))
        return ([None, 0, 0, 1, 2], (R, X, X, b, c)), ([None, 0, 0, 1, 1], (R, X, X, b, c))
    p, q = (labels[0], labels[1]) if b == c else (b, c)
    return (([None, 0, 0, 1, 1, 2, 2], (R, X, X, p, p, q, q)), ([None, 0, 0, 1, 1, 2, 2], (R, X, X, p, q, q, p)))


def gen_case(ctx: Ctx, small: list[Any]) -> dict[str, Any]:
    r = ctx.rng
    labels = r.choice(["AB", "AB", "ABC"])
    names = r.sample(["wf", "wf2", "Wf"], k=r.choice([1, 1, 2, 3]))
    buffer = r.choice([0, 0, 1])
    traces = []
    n_tr = r.choice([2, 4, 6, 10, 16])
    base: list[Any] = []
    pending: list[Any] = []
    for t in range(n_tr):
        kind = r.choice(["small", "small", "random", "twin", "twin", "same", "ptwin"])
        if pending:
            tr = pending.pop()      # the second of a pair of profile twins, next to the first
            kind = "ptwin"
        elif kind == "ptwin":
            tr, other = profile_twins(r, labels)
            pending.append(other)
        elif kind == "small" or not base:
            tr = r.choice(small)
        elif kind == "random":
            tr = random_tree(r, labels)
        elif kind == "twin":
            tr = twin(r, r.choice(base))
        else:
            tr = r.choice(base)
        base.append(tr)
        ctx.tick("tree_" + kind)
        place = r.choice(["in", "in", "edge"]) if buffer else "in"
        if place == "in":
            st = 5 * MIN + r.randrange(0, 100)
            iv = (st, st + 50)
        else:
            # inside a buffer zone, or touching the window [1 min, 9 min] in exactly one instant: starting on its
            # upper edge, ending on its lower edge (both ends of the window are inclusive)
            iv = r.choice([(0, 10), (10 * MIN - 10, 10 * MIN), (9 * MIN, 9 * MIN + 50), (MIN - 50, MIN)])
        traces.append((r.choice(names), f"t{t}", tr, iv))
    if buffer:  # anchors so that the window is [1 min, 9 min]
        traces.append((names[0], "lo", small[0], (0, 5)))
        traces.append((names[0], "hi", small[0], (10 * MIN - 5, 10 * MIN)))
    if r.random() < 0.3:
        # span types that differ only by blanks at the edges, by case, by a leading zero, or that contain one another:
        # different types, hence different shapes
        m = dict(zip("ABC", r.choice([("pay", "pay ", " pay"), ("A", " A", "A "), ("ab", "a", "b"), ("1", "01", "1.0"),
                                      ("e", "E", "\u00e9"), ("x", "xx", "x x")])))
        traces = [(nm, jid, (ps, tuple(m[x] for x in ls)), iv) for nm, jid, (ps, ls), iv in traces]
        ctx.tick("types_near_duplicates")
    events = build_store(r, traces, shuffle=True)
    batch = r.choice([1, 2, 3, 1000])
    ctx.tick(f"batch{batch}")
    ctx.tick(f"buffer{buffer}")
    return {"batch": batch, "buffer": buffer, "events": events, "traces": traces,
            "script": SCRIPT(events)}


def gen_two_deliveries(ctx: Ctx, small: list[Any]) -> dict[str, Any]:
    """the store is filled by two runs; the second delivery brings new traces and late spans of traces the first run
    already hashed (their shape changes) — which shapes are represented must be those of the final store"""
    r = ctx.rng
    names = r.sample(["wf", "wf2"], k=r.choice([1, 2]))
    traces = []
    for t in range(r.choice([3, 5, 8])):
        tr = r.choice(small) if r.random() < 0.6 else random_tree(r, "AB")
        traces.append((r.choice(names), f"t{t}", tr, (100 + t, 200 + t)))
    events = build_store(r, traces, shuffle=False)
    late = set()
    for name, jid, (ps, ls), _ in traces:
        if len(ps) >= 2 and r.random() < 0.5:
            # the last span of the trace (a leaf: nothing hangs below the highest index) arrives later
            late.add(f"{jid}.{len(ps) - 1}")
    new_traces = {jid for _, jid, _, _ in traces if r.random() < 0.3}
    first = [e for e in events if e["id"] not in late and e["jobId"] not in new_traces]
    second = [e for e in events if e["id"] in late or e["jobId"] in new_traces]
    if r.random() < 0.5:
        second = second + r.sample(first, k=min(2, len(first)))   # and some spans sent again
    r.shuffle(first)
    r.shuffle(second)
    batch = r.choice([1, 2, 3, 1000])
    ctx.tick("two_deliveries")
    ctx.tick("late_spans", len(late))
    if not second:
        second = [first.pop()] if len(first) > 1 else list(first)
    return {"batch": batch, "buffer": 0, "events": events, "traces": traces, "file_db": True, "two": True,
            "second": second,
            "script": [["ingest", first], ["unique"], ["newrun"], ["ingest", second], ["unique"]]}


def run_cases(ctx: Ctx, cases: list[dict[str, Any]]) -> None:
    mcases = [c if c.get("two") else {**c, "script": c["script"][:6]} for c in cases]
    try:
        model = sl.run_model(mcases)
    except Exception as ex:  # noqa: BLE001
        ctx.broken_ties.append(f"model driver: {ex}")
        model = [None] * len(cases)  # type: ignore[list-item]
    for case, mres in zip(cases, model):
        if ctx.too_many():
            break
        if case.get("two"):
            try:
                ires = sl.run_impl(case["script"], case["batch"], case["buffer"], True)
            except Exception as ex:  # noqa: BLE001
                ires = [f"{type(ex).__name__}: {str(ex)[:200]}"] * 5
            want = oracle(case["traces"], case["buffer"], case["events"], case["second"])
            ctx.case({"e": case["script"], "b": case["batch"]}, True,
                     sample={"two_deliveries": True, "batch": case["batch"], "selected": ires[4]}
                     if ctx.cov["evaluations"] % 67 == 0 else None)
            inp = {k: case[k] for k in ("batch", "buffer", "events", "traces", "script")}
            bad = judge(want, ires[4])
            if bad:
                ctx.violation("after a second delivery (late spans of traces hashed by the first run): " + bad,
                              {"input": inp, "observed": [ires[1], ires[4]]})
            elif mres is not None:
                d = sl.unique_matches(mres[4], ires[4])
                if d:
                    ctx.violation("correspondence: " + d, {"input": inp, "model": mres[4], "impl": ires[4]},
                                  key=("corr", inp), concrete=False)
            continue
        try:
            ires = sl.run_impl(case["script"], case["batch"], case["buffer"], False)
        except Exception as ex:  # noqa: BLE001
            ires = [f"{type(ex).__name__}: {str(ex)[:200]}"] * 7
        want = oracle(case["traces"], case["buffer"], case["events"])
        n_cls = sum(len(v) for v in (want or {}).values())
        n_in = sum(len(c) for v in (want or {}).values() for c in v)
        ctx.case({"e": case["events"], "b": case["batch"]}, 1 < n_cls < n_in,
                 sample={"batch": case["batch"], "buffer": case["buffer"],
                         "traces": [[n, j, canon(*t)] for n, j, t, _ in case["traces"][:6]], "selected": ires[1]}
                 if ctx.cov["evaluations"] % 67 == 0 else None)
        inp = {k: case[k] for k in ("batch", "buffer", "events", "traces", "script")}
        bad = judge(want, ires[1])
        if not bad:
            bad = judge(want, ires[5])
            bad = bad and "after cleaning: " + bad
        if not bad and isinstance(ires[5], dict):
            streamed = ires[6]
            expect = sorted([n, sorted(v)] for n, v in ires[5].items())
            if streamed != expect:
                bad = f"otel_to_pv would stream {streamed} for the selection {expect}"
        if bad:
            ctx.violation(bad, {"input": inp, "observed": [ires[1], ires[5], ires[6]]})
            continue
        if mres is not None:
            d = sl.unique_matches(mres[1], ires[1]) or sl.unique_matches(mres[5], ires[5])
            if d:
                ctx.violation("correspondence: " + d, {"input": inp, "model": [mres[1], mres[5]],
                                                       "impl": [ires[1], ires[5]]},
                              key=("corr", inp), concrete=False)


def run(ctx: Ctx) -> None:
    for p in translate(["Consts"]):
        ctx.broken_ties.append("translator: " + p)
    ctx.prove(["O2P.Props.C09"], THEOREMS)
    if ctx.tier == "thorough":
        ctx.leanchecker(["O2P.Props.C09"])
    quick = ctx.tier == "quick"
    small = pool(4, "AB")
    ctx.cov["rule"] = (
        "exhaustive: one store holding every labelled ordered tree with <= 4 nodes over {A,B} (118 traces; thorough: "
        "<= 5 nodes over {A,B}, 886 traces) as separate traces, under one and under two workflow names, x batch sizes "
        "{1,2,3,7,1000} x two ingestion orders; seeded: multisets of 2-16 trees (drawn from that pool, random trees up "
        "to 8 nodes over 2-3 labels, renumbered twins, exact repeats) over 1-3 workflow names x batch {1,2,3,1000} x "
        "time_buffer {0,1} with traces on the window edge, shuffled ingestion. non-trivial: more than one class and "
        "some class with several traces"
    )
    cases: list[dict[str, Any]] = []
    full = small if quick else pool(5, "AB")
    for names in (["wf"], ["wf", "wf2"]):
        for batch in (1, 2, 3, 7, 1000):
            for shuffle in (False, True):
                traces = [(names[i % len(names)], f"t{i}", t, (100, 200)) for i, t in enumerate(full)]
                events = build_store(ctx.rng, traces, shuffle)
                cases.append({"batch": batch, "buffer": 0, "events": events, "traces": traces,
                              "script": SCRIPT(events)})
                ctx.tick("exhaustive_store")
    for _ in range(300 if quick else 3000):
        cases.append(gen_case(ctx, small))
    for _ in range(60 if quick else 600):
        cases.append(gen_two_deliveries(ctx, small))
    for i in range(0, len(cases), 200):
        run_cases(ctx, cases[i:i + 200])
    ctx.cov["exhaustive"] = False
    ctx.assumptions += [
        "xxh64 of (type + sorted child digests) is assumed collision-free on the strings that occur, and the "
        "concatenation uniquely decodable (digests have fixed length; a type ending in 16 hex digits could in principle "
        "collide with a child digest): the model's digest is the canonical shape itself",
        "traces are rooted trees (one root, parents inside the trace); a trace with two roots makes job_hashes' key fail "
        "in code and model alike and is outside the quantifier",
        "which member of a class is returned is left to SQLite (bare column under GROUP BY): classes are compared",
    ]


def replay(data: dict[str, Any]) -> int:
    case = data["input"]
    traces = [(n, j, (ps, tuple(ls)), tuple(iv)) for n, j, (ps, ls), iv in case["traces"]]
    if any(step[0] == "newrun" for step in case["script"]):
        # a store filled by two runs: the second run's window is that of its own delivery
        ires = sl.run_impl(case["script"], case["batch"], case["buffer"], True)
        second = next(step[1] for step in case["script"][3:] if step[0] == "ingest")
        want = oracle(traces, case["buffer"], case["events"], second)
        bad = judge(want, ires[4])
        print(bad or "ok", "\nselected:", ires[4])
        return 1 if bad else 0
    ires = sl.run_impl(case["script"], case["batch"], case["buffer"], False)
    want = oracle(traces, case["buffer"], case["events"])
    bad = judge(want, ires[1]) or judge(want, ires[5])
    print(bad or "ok", "\nselected:", ires[1], ires[5])
    return 1 if bad else 0
