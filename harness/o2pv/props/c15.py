"""C15 — re-running against a persisted store is repeatable.

prove (O2P.Props.C15: invariant after every history, no IntegrityError from ingestion/cleaning in any history,
window of a re-ingesting run = first run's, stale hash rows irrelevant, batch-free closed form) ->
histories of separate-process runs of the real `otel_to_pv` over ONE sqlite file (children forked from a
parent that imported the package and executed nothing; a seeded part also through cold `python -c`
subprocesses) -> oracle: every run ends ok; runs without unique graphs give exactly the PV sequences of
a fresh-database run; runs with unique graphs give one sequence per distinct shape of those ->
correspondence: the Lean `runOnce` model on the same histories, compared on full table dumps.
"""
from __future__ import annotations

import concurrent.futures as cf
import itertools
import json
import multiprocessing as mp
import os
import shutil
import sqlite3
import subprocess
import sys
import tempfile
from typing import Any

from ..common import Ctx, REPO, SHIM
from ..translate import translate
from .. import storelib as sl
from .c09 import canon, random_tree, twin, pool

LEVEL = "proof"
THEOREMS = [
    "O2P.Store.ingest_window",
    "O2P.Store.reingest_nodes",
    "O2P.Store.runOnce_inv",
    "O2P.Store.history_inv",
    "O2P.Store.runOnce_eq_spec",
    "O2P.Store.runSpec_hashes_irrelevant",
    "O2P.Store.inv_empty",
    "O2P.Store.faithful_empty",
    "O2P.Store.renameNodes_idem",
    "O2P.Store.reingest_fixpoint",
    "O2P.Store.noingest_fixpoint",
    "O2P.Store.rerun_same_answer",
    "O2P.Store.history_same_answer",
    "O2P.Store.first_run_sameNA",
]
T0 = 1_700_000_000_000_000_000
MIN = 60 * 10**9
FLAGS = [(i, u, s) for i in (True, False) for u in (False, True) for s in (False, True)]


# ------------------------------------------------------------------------------------------------
# one run in its own process


def child_run(data_dir: str, db: str, out_dir: str, batch: int, buffer: int, ing: bool, uq: bool, save: bool,
              result_path: str) -> None:
    """body of a separate process: exactly what `tel2puml otel2pv/otel2puml` does up to the PV streams"""
    res: dict[str, Any] = {}
    try:
        from tel2puml.otel_to_pv.config import load_config_from_dict
        from tel2puml.otel_to_pv.otel_to_pv import otel_to_pv
        config = load_config_from_dict({
            "ingest_data": {"data_source": "json", "data_holder": "sql"},
            "data_holders": {"sql": {"db_uri": f"sqlite:///{db}", "batch_size": batch, "time_buffer": buffer}},
            "data_sources": {"json": {"dirpath": data_dir, "filepath": None, "json_per_line": False,
                                      "jq_query": ".spans", "field_mapping": None}},
        })
        gen = otel_to_pv(config, ingest_data=ing, find_unique_graphs=uq, save_events=save,
                         output_file_directory=out_dir)
        jobs = []
        if save:
            for name in sorted(os.listdir(out_dir)) if os.path.isdir(out_dir) else []:
                for fn in sorted(os.listdir(os.path.join(out_dir, name))):
                    with open(os.path.join(out_dir, name, fn)) as f:
                        jobs.append([name, json.load(f)])
        else:
            for name, streams in gen:
                for pvs in streams:
                    jobs.append([name, [dict(p) for p in pvs]])
        res = {"status": "ok", "jobs": jobs}
    except BaseException as ex:  # noqa: BLE001
        res = {"status": f"{type(ex).__name__}: {str(ex)[:160]}", "jobs": []}
    with open(result_path, "w") as f:
        json.dump(res, f)


def dump_db(db: str) -> dict[str, Any]:
    if not os.path.exists(db):
        return {"nodes": [], "assoc": [], "hashes": []}
    c = sqlite3.connect(f"file:{db}?mode=ro", uri=True)
    try:
        nodes = c.execute("select job_name, job_id, event_type, event_id, start_timestamp, end_timestamp, "
                          "application_name, parent_event_id from nodes order by id").fetchall()
        assoc = c.execute("select parent_id, child_id from NODE_ASSOCIATION").fetchall()
        hashes = c.execute("select job_id, job_name from job_hashes").fetchall()
    finally:
        c.close()
    return {"nodes": [sl.ev(r[0], r[1], r[2], r[3], r[4], r[5], r[7], r[6]) for r in nodes],
            "assoc": sorted([list(r) for r in assoc]), "hashes": sorted([list(r) for r in hashes])}


def run_history(case: dict[str, Any]) -> list[dict[str, Any]]:
    """all runs of one history, each in its own process, over one database file"""
    tmp = tempfile.mkdtemp(prefix="o2p15_")
    try:
        data = os.path.join(tmp, "data")
        os.mkdir(data)
        for i, chunk in enumerate(case["files"]):
            with open(os.path.join(data, f"f{i}.json"), "w") as f:
                # 64-bit integers travel as strings in OTel JSON (protobuf mapping); as JSON numbers they would pass
                # through jq as doubles and lose their last digits
                json.dump({"spans": [{**sp, "start_timestamp": str(sp["start_timestamp"]),
                                      "end_timestamp": str(sp["end_timestamp"])} for sp in chunk]}, f)
        db = os.path.join(tmp, "store.db")
        out = []
        for k, (ing, uq, save) in enumerate(case["history"]):
            rp = os.path.join(tmp, f"r{k}.json")
            od = os.path.join(tmp, f"out{k}")
            if case.get("cold"):
                code = ("import sys, json; sys.path[:0] = %r; import logging; "
                        "from o2pv.props import c15; c15.child_run(*json.loads(sys.argv[1]))"
                        % [str(REPO), str(SHIM), os.path.dirname(os.path.dirname(os.path.dirname(__file__)))])
                subprocess.run([sys.executable, "-c", code,
                                json.dumps([data, db, od, case["batch"], case["buffer"], ing, uq, save, rp])],
                               capture_output=True, timeout=300, env={**os.environ, "TQDM_DISABLE": "1"})
            else:
                pid = os.fork()
                if pid == 0:
                    try:
                        devnull = os.open(os.devnull, os.O_WRONLY)
                        os.dup2(devnull, 1)
                        os.dup2(devnull, 2)
                        child_run(data, db, od, case["batch"], case["buffer"], ing, uq, save, rp)
                    finally:
                        os._exit(0)
                os.waitpid(pid, 0)
            try:
                with open(rp) as f:
                    r = json.load(f)
            except Exception:  # noqa: BLE001
                r = {"status": "process died", "jobs": []}
            r["dump"] = dump_db(db)
            out.append(r)
        return out
    finally:
        shutil.rmtree(tmp, ignore_errors=True)


# ------------------------------------------------------------------------------------------------
# inputs


def gen_dataset(ctx: Ctx, small: list[Any]) -> dict[str, Any]:
    r = ctx.rng
    buffer = r.choice([0, 0, 1])
    n_tr = r.choice([2, 3, 5, 8])
    names = r.sample(["wf", "wf2"], k=r.choice([1, 2]))
    spans: list[dict[str, Any]] = []
    shape: dict[str, Any] = {}
    base: list[Any] = []
    kinds = []
    for t in range(n_tr):
        jid = f"t{t}"
        kind = r.choice(["tree", "tree", "twin", "same", "dangling", "dangling", "names", "edge"] + (["edge"] if buffer else []))
        tr = r.choice(small) if kind in ("tree", "dangling", "names", "edge") or not base else (
            twin(r, r.choice(base)) if kind == "twin" else r.choice(base))
        if kind == "dangling" and r.random() < 0.5:
            # the broken trace has the shape of a well-formed one: of an earlier trace, or of the next one generated
            # (so that it is stored before its twin)
            tr = r.choice(base) if base else tr
            base.append(tr)
        if kind not in ("dangling",):
            base.append(tr)
        ps, ls = tr
        name = r.choice(names)
        if buffer and kind == "edge":
            # in the leading / trailing buffer, or with its only in-window instant EXACTLY on a window edge: the root's
            # start on the upper edge (everything else of the trace later), the root's end on the lower edge
            # (everything else earlier) — the window is [T0 + 1 min, T0 + 9 min], both ends inclusive
            st = T0 + r.choice([0, 10 * MIN - 100, 9 * MIN, 9 * MIN, MIN - 50, MIN - 50, -1])
        envelope = buffer and kind == "edge" and st == T0 - 1
        if envelope:
            # a trace none of whose instants lies inside the window but whose root covers all of it: the root starts in
            # the leading buffer and ends in the trailing one, its children live in the leading buffer
            st = T0 + 10
        elif not (buffer and kind == "edge"):
            st = T0 + 5 * MIN + r.randrange(0, 10**6)
        ids = [f"{jid}.{i}" for i in range(len(ps))]
        for i, p in enumerate(ps):
            parent = (None if r.random() < 0.7 else "") if p is None else ids[p]   # "": OTLP/JSON's root parentSpanId
            nm = name
            if kind == "dangling" and i == len(ps) - 1:
                parent = f"lost{t}"
            if kind == "names" and i > 0:
                nm = "othername"
            en = st + 50 - i
            if buffer and kind == "edge" and envelope and i == 0:
                en = T0 + 10 * MIN - 10
            spans.append({"job_name": nm, "job_id": jid, "event_type": ls[i], "event_id": ids[i],
                          "start_timestamp": st + i, "end_timestamp": en, "application_name": "app",
                          "parent_event_id": parent})
        shape[jid] = (name, canon(ps, ls))
        kinds.append(kind)
        ctx.tick("trace_" + kind)
    if buffer:
        spans.append({"job_name": names[0], "job_id": "lo", "event_type": "A", "event_id": "lo.0",
                      "start_timestamp": T0, "end_timestamp": T0 + 5, "application_name": "app", "parent_event_id": None})
        spans.append({"job_name": names[0], "job_id": "hi", "event_type": "A", "event_id": "hi.0",
                      "start_timestamp": T0 + 10 * MIN - 5, "end_timestamp": T0 + 10 * MIN,
                      "application_name": "app", "parent_event_id": None})
    dup = r.random()
    if dup < 0.3 and spans:
        spans.append(dict(r.choice(spans)))  # an exact duplicate record in the export (an exporter's retry)
        ctx.tick("duplicate_record")
    elif dup < 0.4 and spans:
        spans += [dict(s) for s in spans]    # the same export delivered twice
        ctx.tick("export_twice")
    r.shuffle(spans)
    cut = r.randrange(0, len(spans) + 1) if r.random() < 0.5 else len(spans)
    files = [spans[:cut], spans[cut:]] if 0 < cut < len(spans) else [spans]
    # with repeated records, half the cases use the default-sized batch: both copies then share one commit batch, in
    # the first run and in every re-ingesting one
    batch = 1000 if (dup < 0.4 and r.random() < 0.5) else r.choice([1, 2, 3, 1000])
    ctx.tick(f"batch{batch}")
    ctx.tick(f"buffer{buffer}")
    return {"files": files, "batch": batch, "buffer": buffer, "shape": shape, "kinds": kinds}


def histories(ctx: Ctx) -> list[list[tuple[bool, bool, bool]]]:
    first = [f for f in FLAGS if f[0]]
    hs = [[a] + list(rest) for a in first for rest in itertools.product(FLAGS, repeat=1)]
    return hs


def model_events(case: dict[str, Any]) -> list[dict[str, Any]]:
    # os.walk order inside one directory is the listing order; the harness names files f0, f1 and the data source
    # reads them in os.listdir order, which the dump comparison makes visible if it differs
    evs = []
    for chunk in case["files"]:
        for s in chunk:
            evs.append(sl.ev(s["job_name"], s["job_id"], s["event_type"], s["event_id"], s["start_timestamp"],
                             s["end_timestamp"], s["parent_event_id"], s["application_name"]))
    return evs


def canon_jobs(jobs: list[Any]) -> list[Any]:
    return sorted(([n, sorted(j, key=lambda e: e["eventId"])] for n, j in jobs),
                  key=lambda x: (x[0], x[1][0]["jobId"] if x[1] else "", json.dumps(x[1], sort_keys=True)))


def judge(case: dict[str, Any], runs: list[dict[str, Any]], ref: dict[bool, dict[str, Any]]) -> str | None:
    for k, (flags, r) in enumerate(zip(case["history"], runs)):
        ing, uq, save = flags
        tag = f"run {k + 1} (ingest={int(ing)} unique={int(uq)} save={int(save)})"
        want = ref[uq]
        if r["status"] != want["status"]:
            return f"{tag} ended with {r['status']!r}; a run on a fresh database ends with {want['status']!r}"
        if r["status"] != "ok":
            continue
        got = canon_jobs(r["jobs"])
        if not uq:
            if got != canon_jobs(ref[False]["jobs"]):
                return (f"{tag}: PV sequences differ from the first run's: traces "
                        f"{sorted(j[1][0]['jobId'] for j in got if j[1])} / "
                        f"{sorted(j[1][0]['jobId'] for j in canon_jobs(ref[False]['jobs']) if j[1])}")
        else:
            allj = {j[1][0]["jobId"]: j for j in canon_jobs(ref[False]["jobs"]) if j[1]}
            seen: dict[Any, str] = {}
            for j in got:
                jid = j[1][0]["jobId"]
                if jid not in allj or allj[jid] != j:
                    return f"{tag}: trace {jid} is not one of the first run's PV sequences"
                key = json.dumps(case["shape"].get(jid), sort_keys=True)
                if key in seen:
                    return f"{tag}: traces {seen[key]} and {jid} of one shape are both selected"
                seen[key] = jid
            want_shapes = {json.dumps(case["shape"].get(jid), sort_keys=True) for jid in allj}
            if set(seen) != want_shapes:
                return f"{tag}: {len(seen)} shapes selected, the first run's traces have {len(want_shapes)}"
    return None


def _task(case: dict[str, Any]) -> tuple[list[dict[str, Any]], dict[bool, dict[str, Any]]]:
    runs = run_history(case)
    ref = {}
    for uq in (False, True):
        if any(f[1] == uq for f in case["history"]) or not uq:
            ref[uq] = run_history({**case, "history": [(True, uq, False)], "cold": False})[0]
    return runs, ref


def run(ctx: Ctx) -> None:
    for p in translate(["Consts"]):
        ctx.broken_ties.append("translator: " + p)
    ctx.prove(["O2P.Props.C15Full"], THEOREMS)
    if ctx.tier == "thorough":
        ctx.leanchecker(["O2P.Props.C15Full"])
    quick = ctx.tier == "quick"
    # make sure the package is imported in this (parent) process before anything forks
    import tel2puml.otel_to_pv.otel_to_pv  # noqa: F401
    import tel2puml.otel_to_pv.config  # noqa: F401
    small = pool(3, "AB")
    first = [f for f in FLAGS if f[0]]
    cases: list[dict[str, Any]] = []
    n_sets = 3 if quick else 10
    for _ in range(n_sets):
        ds = gen_dataset(ctx, small)
        for a in first:
            for b in FLAGS:
                cases.append({**ds, "history": [a, b]})
        ctx.tick("datasets_all_len2")
    for _ in range(40 if quick else 400):
        ds = gen_dataset(ctx, small)
        n = ctx.rng.choice([3, 3, 4])
        h = [ctx.rng.choice(first)] + [ctx.rng.choice(FLAGS) for _ in range(n - 1)]
        cases.append({**ds, "history": h})
        ctx.tick(f"sampled_len{n}")
    if not quick:
        ds = gen_dataset(ctx, small)
        for a in first:
            for b in FLAGS:
                for c in FLAGS:
                    cases.append({**ds, "history": [a, b, c]})
        ctx.tick("datasets_all_len3")
    for c in cases:
        c["cold"] = ctx.rng.random() < (0.04 if quick else 0.1)
        if c["cold"]:
            ctx.tick("cold_subprocess_histories")
    ctx.cov["rule"] = (
        "data sets of 2-8 traces (trees <= 3 nodes over {A,B}, renumbered twins, repeats, a dangling-parent trace, "
        "inconsistent names, traces on the window edge, an exact duplicate record, 1-2 files) x batch {1,2,3,1000} x "
        "time_buffer {0,1}; histories: every pair (first run ingests) of flag triples {ingest,no-ingest} x {unique} x "
        "{save} on 3 data sets (thorough 10, plus every triple on one), seeded histories of length 3-4; every run a "
        "separate process over one sqlite file (forked from a parent that only imported the package; a seeded share "
        "through cold `python -c` subprocesses). non-trivial: some later run re-ingests or uses unique graphs on a "
        "store where cleaning removed a trace"
    )
    # model answers
    reqs = []
    for c in cases:
        evs = model_events(c)
        script: list[list[Any]] = []
        for ing, uq, _ in c["history"]:
            script += [["run", ing, uq, evs], ["dump"]]
        reqs.append({"batch": c["batch"], "buffer": c["buffer"], "script": script})
    try:
        model = sl.run_model(reqs)
    except Exception as ex:  # noqa: BLE001
        ctx.broken_ties.append(f"model driver: {ex}")
        model = [None] * len(cases)  # type: ignore[list-item]
    with cf.ProcessPoolExecutor(max_workers=min(14, os.cpu_count() or 4), mp_context=mp.get_context("fork")) as ex:
        results = list(ex.map(_task, cases, chunksize=1))
    for case, (runs, ref), mres in zip(cases, results, model):
        if ctx.too_many():
            break
        removed = any(k in ("dangling", "edge") for k in case["kinds"])
        later = any((f[0] or f[1]) for f in case["history"][1:])
        ctx.case({"f": case["files"], "h": case["history"], "b": case["batch"], "buf": case["buffer"]}, removed and later,
                 sample={"history": case["history"], "batch": case["batch"], "buffer": case["buffer"],
                         "kinds": case["kinds"], "statuses": [r["status"] for r in runs]}
                 if ctx.cov["evaluations"] % 37 == 0 else None)
        ctx.cov["traces_validated_against_impl"] += len(runs) - 1
        inp = {k: case[k] for k in ("files", "batch", "buffer", "history", "shape", "kinds", "cold")}
        bad = judge(case, runs, ref)
        if bad:
            ctx.violation(bad, {"input": inp, "statuses": [r["status"] for r in runs]})
            continue
        if mres is not None:
            for k, r in enumerate(runs):
                ms, md = mres[2 * k], mres[2 * k + 1]
                mstatus = ms.get("status") if isinstance(ms, dict) else ms
                istatus = "ok" if r["status"] == "ok" else ("integrity" if "IntegrityError" in r["status"] else
                                                           "valueerror" if "ValueError" in r["status"] else r["status"])
                if mstatus != istatus:
                    ctx.violation(f"correspondence: run {k + 1} status model {mstatus!r} / code {istatus!r}",
                                  {"input": inp}, key=("corr", inp), concrete=False)
                    break
                if istatus == "ok" and (md["nodes"] != r["dump"]["nodes"] or md["assoc"] != r["dump"]["assoc"]
                                        or md["hashes"] != r["dump"]["hashes"]):
                    ctx.violation(f"correspondence: tables after run {k + 1} differ between model and database",
                                  {"input": inp, "model": md, "impl": r["dump"]}, key=("corr", inp), concrete=False)
                    break
    ctx.assumptions += [
        "SQLite, SQLAlchemy sessions and the file system are modelled, not verified; separate processes share nothing "
        "but the database file",
        "history_same_answer assumes parents local to their trace in the input and, for runs that do not ingest, every "
        "input span inside the widest window (real nanosecond timestamps, buffers of minutes); the generated data sets "
        "satisfy both, the theorem's non-vacuity example checks them on a concrete input",
        "which member of a shape class is selected is SQLite's choice: runs with unique graphs are compared on shapes",
    ]


def replay(data: dict[str, Any]) -> int:
    case = data["input"]
    case["history"] = [tuple(f) for f in case["history"]]
    import tel2puml.otel_to_pv.otel_to_pv  # noqa: F401
    runs, ref = _task(case)
    bad = judge(case, runs, ref)
    print(bad or "ok", [r["status"] for r in runs])
    return 1 if bad else 0
