"""C12 — every stored trace is streamed once, whole, under one workflow name.

prove (O2P.Props.C12) -> correspondence of SQLDataHolder.stream_data with the Lean store model ->
oracle: independent grouping of the ingested spans by (workflow name, trace id) with the pair filter.
"""
from __future__ import annotations

from typing import Any

from ..common import Ctx
from ..translate import translate
from .. import storelib as sl

LEVEL = "proof"
THEOREMS = [
    "O2P.Store.sortNodes_perm",
    "O2P.Store.groupBy_flatten",
    "O2P.Store.groupBy_keys_chain",
    "O2P.Store.groupBy_eq_filter",
    "O2P.Store.stream_flatten_perm",
    "O2P.Store.stream_group_spec",
    "O2P.Store.stream_names_nodup",
    "O2P.Store.stream_filter_empty",
]


def gen_store(ctx: Ctx) -> tuple[list[dict[str, Any]], list[tuple[str, str]]]:
    r = ctx.rng
    names = r.sample(["wf", "wf2", "Wf", "a b", "z", "é1", "wf_10", "wf_9"], k=r.choice([1, 2, 3, 4]))
    share_ids = r.random() < 0.35  # the same trace id under several workflow names (distinct traces)
    # names that are prefixes of each other with trace ids that make up the difference: the pair
    # (name, id) must be matched as a pair, not through any joined key
    glue = r.random() < 0.25
    if glue:
        names = r.sample(["wf", "wf1", "wf12", "wf_", "wf_1"], k=r.choice([2, 3, 4]))
        ctx.tick("store_glue_names")
    events: list[dict[str, Any]] = []
    traces: list[tuple[str, str]] = []
    k = 0
    for name in names:
        for j in range(r.choice([1, 2, 3, 4])):
            jid = f"t{j}" if share_ids else f"{name}-t{j}"
            if glue:
                jid = ["2", "12", "1", "22", "_1", "1_1"][(j + len(name)) % 6]
            traces.append((name, jid))
            n = r.choice([1, 2, 3, 5])
            ids = [f"s{k + i}" for i in range(n)]
            for i in range(n):
                parent = (None if r.random() < 0.7 else "") if i == 0 else ids[r.randrange(0, i)]
                events.append(sl.ev(name, jid, r.choice("ABC"), ids[i], 100 + k, 200 + k, parent, app=f"app{k % 3}"))
                k += 1
            k += n
    r.shuffle(events)
    return events, traces


def gen_large_store(ctx: Ctx) -> tuple[list[dict[str, Any]], list[tuple[str, str]]]:
    """scale: 2-4 workflow names in no particular order with 60-140 traces each (several hundred trace ids, more than
    fit into a few pages or a few hundred bound parameters)"""
    r = ctx.rng
    names = r.sample(["beta", "gamma", "alpha", "Alpha", "delta 2", "a"], k=r.choice([2, 3, 4]))
    events: list[dict[str, Any]] = []
    traces: list[tuple[str, str]] = []
    k = 0
    for name in names:
        for j in range(r.choice([60, 100, 120, 140])):
            jid = f"{name}-{j}"
            traces.append((name, jid))
            n = r.choice([1, 1, 2])
            for i in range(n):
                events.append(sl.ev(name, jid, r.choice("ABC"), f"s{k}", 100 + k, 200 + k, None if i == 0 else f"s{k - 1}",
                                    app="app"))
                k += 1
    r.shuffle(events)
    ctx.tick("store_large")
    return events, traces


def gen_filter(ctx: Ctx, traces: list[tuple[str, str]]) -> dict[str, list[str]] | None:
    r = ctx.rng
    kind = r.choice(["none", "none", "empty", "subset", "subset", "one_name", "absent", "all", "no_ids", "some_no_ids"])
    ctx.tick("filter_" + kind)
    if kind == "none":
        return None
    if kind == "empty":
        return {}
    if kind == "all":
        f: dict[str, list[str]] = {}
        for n, j in traces:
            f.setdefault(n, []).append(j)
        return f
    if kind == "one_name":
        n = r.choice(traces)[0]
        return {n: [j for m, j in traces if m == n][: r.choice([1, 2, 5])]}
    if kind == "no_ids":
        # a non-empty map every name of which selects no trace id: nothing is streamed
        names = sorted({n for n, _ in traces})
        return {n: [] for n in names[: r.choice([1, 2, len(names)])]}
    if kind == "some_no_ids":
        f0: dict[str, list[str]] = {}
        for n, j in traces:
            f0.setdefault(n, [])
            if r.random() < 0.4:
                f0[n].append(j)
        return f0
    if kind == "absent":
        return {"nosuch": ["t0"], traces[0][0]: ["nosuch-id"]}
    f = {}
    for n, j in traces:
        if r.random() < 0.5:
            f.setdefault(n, []).append(j)
    if not f:
        f = {traces[0][0]: [traces[0][1]]}
    return f


def oracle(events: list[dict[str, Any]], filt: dict[str, list[str]] | None) -> Any:
    stored: dict[str, dict[str, Any]] = {}
    for e in events:
        stored.setdefault(e["id"], e)
    kids: dict[str, list[str]] = {}
    for e in stored.values():
        if e["parent"]:
            kids.setdefault(e["parent"], []).append(e["id"])
    sel = [e for e in stored.values()
           if not filt or any(e["jobName"] == n and e["jobId"] in ids for n, ids in filt.items())]
    by: dict[str, dict[str, list[dict[str, Any]]]] = {}
    for e in sel:
        by.setdefault(e["jobName"], {}).setdefault(e["jobId"], []).append(
            {"node": {**e, "parent": e["parent"] or None}, "children": sorted(kids.get(e["id"], []))})
    return [[n, [[j, sorted(by[n][j], key=lambda d: d["node"]["id"])]
                 for j in sorted(by[n], key=lambda s: s.encode())]] for n in sorted(by, key=lambda s: s.encode())]


def run(ctx: Ctx) -> None:
    for p in translate(["Consts"]):
        ctx.broken_ties.append("translator: " + p)
    ctx.prove(["O2P.Props.C12"], THEOREMS)
    if ctx.tier == "thorough":
        ctx.leanchecker(["O2P.Props.C12"])
    ctx.cov["rule"] = (
        "seeded stores: 1-4 workflow names (case, space, non-ASCII, prefix-of-each-other variants), 1-4 traces per name of "
        "1-5 spans, trace ids optionally shared between names, ingestion order shuffled; batch sizes {1,2,3,1000}; "
        "filters {none, empty map, subset of (name, id) pairs, one name, absent name/id, all, names with no ids}; large stores (2-4 names x "
        "60-140 traces, filters of several hundred ids with the names in no particular order, batch 50 / 1000). non-trivial: >= 2 names "
        "or >= 3 traces and a filter that selects some but not all traces, or interleaved ingestion"
    )
    cases = []
    for _ in range(800 if ctx.tier == "quick" else 8000):
        events, traces = gen_store(ctx)
        filt = gen_filter(ctx, traces)
        batch = ctx.rng.choice([1, 2, 3, 1000])
        ctx.tick(f"batch{batch}")
        cases.append({"batch": batch, "buffer": 0, "events": events, "filter": filt, "traces": traces,
                      "script": [["ingest", events], ["stream", filt]]})
    for _ in range(6 if ctx.tier == "quick" else 40):
        events, traces = gen_large_store(ctx)
        kind = ctx.rng.choice(["all", "all", "most", "none"])
        filt2: dict[str, list[str]] | None = None
        if kind != "none":
            filt2 = {}
            for n, j in traces:      # names in the order the store was built: not sorted
                if kind == "all" or ctx.rng.random() < 0.8:
                    filt2.setdefault(n, []).append(j)
        batch = ctx.rng.choice([50, 1000])
        ctx.tick("filter_large_" + kind)
        cases.append({"batch": batch, "buffer": 0, "events": events, "filter": filt2, "traces": traces,
                      "script": [["ingest", events], ["stream", filt2]]})
    try:
        model = sl.run_model(cases)
    except Exception as ex:  # noqa: BLE001
        ctx.broken_ties.append(f"model driver: {ex}")
        model = [None] * len(cases)  # type: ignore[list-item]
    for case, mres in zip(cases, model):
        if ctx.too_many():
            break
        try:
            ires = sl.run_impl(case["script"], case["batch"], 0, False)
            got = sl.canon_impl_result(case["script"][1], ires[1])
        except Exception as ex:  # noqa: BLE001
            ires, got = [f"{type(ex).__name__}: {str(ex)[:300]}"] * 2, None
        want = oracle(case["events"], case["filter"])
        nsel = sum(len(j) for _, j in want)
        nontrivial = len(case["traces"]) >= 3 and (case["filter"] is None or 0 < nsel < len(case["traces"]))
        ctx.case({"e": case["events"], "f": case["filter"], "b": case["batch"]}, nontrivial,
                 sample={"batch": case["batch"], "traces": case["traces"], "filter": case["filter"]}
                 if ctx.cov["evaluations"] % 97 == 0 else None)
        inp = {k: case[k] for k in ("batch", "events", "filter", "script")}
        if got != want:
            ctx.violation(f"streamed traces differ from the stored ones (batch {case['batch']}, filter {case['filter']})",
                          {"input": inp, "observed": got if got is not None else ires, "expected": want})
            continue
        if mres is not None and mres[1] != got:
            ctx.violation("correspondence: Lean stream model and stream_data differ",
                          {"input": inp, "model": mres[1], "impl": got}, key=("corr", inp), concrete=False)
    ctx.assumptions += [
        "cursor batching (yield_per) and lazy nested generators are runtime behaviour: the model has no batch size, the "
        "correspondence varies it; SQLite BINARY collation is modelled by code-point order of Lean strings",
    ]


def replay(data: dict[str, Any]) -> int:
    case = data["input"]
    ires = sl.run_impl(case["script"], case["batch"], 0, False)
    got = sl.canon_impl_result(case["script"][1], ires[1])
    want = oracle(case["events"], case["filter"])
    print("streamed:", got)
    print("expected:", want)
    return 0 if got == want else 1
