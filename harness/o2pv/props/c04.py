"""C04 — updating a saved model equals learning from all data at once.

prove (O2P.Props.C04: ingest_append; the model file round-trips every type, multiset and count; every chunking
through save/load gives a model equivalent to the one-shot model; the cached gate tree is always the tree of the
current successor family, with the repaired loader) -> the real learner chunk by chunk, every chunk boundary
crossing save_events_to_file / load_events_from_file: final model dump == one-shot model dump == Lean model;
the saved file == the Lean model's file -> (validated) the final diagram has the language of the one-shot
diagram.
"""
from __future__ import annotations

import json
import os
import tempfile
from typing import Any

from ..common import Ctx
from .. import pvlib, learncheck as lc
from .c03 import canon_model, norm_blk, _same_language

LEVEL = "proof"
THEOREMS = [
    "O2P.Learn.ingest_append",
    "O2P.Learn.fromCounts_toCounts",
    "O2P.Learn.json_roundtrip",
    "O2P.Learn.typesNodup_ingest",
    "O2P.Learn.update_through_file",
    "O2P.Learn.chunks_through_files",
    "O2P.Learn.cache_coherent",
    "O2P.Learn.cache_incoherent_old",
]


def splits(ctx: Ctx, n: int, quick: bool) -> list[list[int]]:
    """cut points of ordered splits into 2 and 3 chunks"""
    two = [[i] for i in range(1, n)]
    three = [[i, j] for i in range(1, n) for j in range(i + 1, n)]
    if n > 6 or quick:
        ctx.rng.shuffle(two)
        ctx.rng.shuffle(three)
        two, three = two[:3], three[:2]
    return two + three


def canon_file(f: Any) -> Any:
    evs = f["events"] if isinstance(f, dict) else f

    def sets(ss: list[Any]) -> list[Any]:
        return sorted(sorted([x["eventType"], x["count"]] for x in s) for s in ss)
    return sorted(([e["eventType"], sets(e["outgoingEventSets"]), sets(e["incomingEventSets"])] for e in evs),
                  key=lambda x: x[0])


def make_other_model(w: Any, tmp: str) -> str:
    """the saved model of another workflow ("other job": P; Q|R; S), written by the real `pv2puml -om`"""
    od = os.path.join(tmp, "other")
    os.makedirs(os.path.join(od, "in"))
    os.makedirs(os.path.join(od, "out"))
    for n, types in enumerate([["P", "Q", "S"], ["P", "R", "S"]]):
        with open(os.path.join(od, "in", f"job{n}.json"), "w") as f:
            json.dump([{"jobId": f"o{n}", "eventId": f"o{n}-{i}", "eventType": t, "timestamp": "2024-01-01T00:00:00.000000Z",
                        "applicationName": "app", "jobName": "other job",
                        "previousEventIds": [f"o{n}-{i - 1}"] if i else []} for i, t in enumerate(types)], f)
    w.send({"op": "cli", "argv": ["-o", os.path.join(od, "out"), "pv2puml", "-om", "-fp", os.path.join(od, "in"),
                                  "-jn", "other job"], "timeout": 120})
    w.recv()
    return os.path.join(od, "out", "other_job_model.json")


def cli_part(ctx: Ctx, cases: list[dict[str, Any]], quick: bool) -> None:
    """the same update through the real command line: `pv2puml -fp <chunk folder> -jn <name> -om` and then
    `-im <saved model>` for the next chunk, for job names with and without spaces; the model file of the last run must
    be the model file of a one-shot run (types, multisets, counts — independent of the walk)"""
    import shutil
    r = ctx.rng
    picked = [c for c in cases if c["kind"] in ("small", "alt_start", "counted") and 2 <= len(c["jobs"]) <= 12]
    r.shuffle(picked)
    picked = picked[: (6 if quick else 40)]
    tmp = tempfile.mkdtemp(prefix="o2p04c_")
    w = pvlib.Worker(0)
    try:
        # the saved model of ANOTHER workflow (other events): users hand several `-im` files to one run, the tool picks
        # the one whose job name matches
        other_model = make_other_model(w, tmp)
        for k, c in enumerate(picked):
            name = r.choice(["wf", "Order Flow", "a b c", "x-1", "wf one ", " lead", "Zo\u00eb 50%"])
            stem = name.replace(" ", "_")
            pv = [[{**e, "jobName": name} for e in j] for j in lc.present(ctx, c["jobs"])]
            cut = r.randrange(1, len(pv))
            chunks = [pv[:cut], pv[cut:]]
            base = os.path.join(tmp, f"c{k}")

            def run_cli(tag: str, jobs: list[Any], im: str | None, others: str = "none") -> tuple[dict[str, Any], str]:
                d = os.path.join(base, tag)
                os.makedirs(os.path.join(d, "in"))
                os.makedirs(os.path.join(d, "out"))
                for n, j in enumerate(jobs):
                    with open(os.path.join(d, "in", f"job{n}.json"), "w") as f:
                        json.dump(j, f)
                argv = ["-o", os.path.join(d, "out"), "pv2puml", "-om", "-fp", os.path.join(d, "in"), "-jn", name]
                if im:
                    ims = {"none": [im], "after": [im, other_model], "before": [other_model, im]}[others]
                    for x in ims:
                        argv += ["-im", x]
                w.send({"op": "cli", "argv": argv, "timeout": 120})
                return w.recv(), os.path.join(d, "out", stem + "_model.json")
            r1, m1 = run_cli("one", pv, None)
            ra, ma = run_cli("a", chunks[0], None)
            others = r.choice(["none", "after", "before"]) if os.path.exists(other_model) else "none"
            rb, mb = run_cli("b", chunks[1], ma if os.path.exists(ma) else None, others)
            ctx.tick("cli_updates")
            ctx.tick("cli_other_model_" + others)
            ctx.tick("cli_name_with_space" if " " in name else "cli_name_plain")
            inp = {"definition": c["blk"], "jobs_pv": pv, "job_name": name, "cut": cut, "other_model": others}
            if any("error" in x or x.get("exit") for x in (r1, ra, rb)):
                if not ("error" in r1 or r1.get("exit")):
                    ctx.violation(f"the command line update fails where the one-shot run succeeds (job name {name!r}): "
                                  f"{(ra.get('output') or '')[-120:]} {(rb.get('output') or '')[-120:]}",
                                  {"input": inp}, key=("cli", c["blk"], name))
                continue
            if not (os.path.exists(m1) and os.path.exists(mb)):
                ctx.violation(f"no model file {stem}_model.json was written by -om (job name {name!r})", {"input": inp},
                              key=("cli", c["blk"], name))
                continue
            with open(m1) as f1, open(mb) as f2:
                one, upd = json.load(f1), json.load(f2)
            if canon_file(one) != canon_file(upd) or one.get("job_name") != upd.get("job_name"):
                ctx.violation(f"job name {name!r}: after `-om` on the first chunk and `-im` with the second, the saved "
                              f"model is not the model of a one-shot run", {"input": inp, "one_shot": one, "updated": upd},
                              key=("cli", c["blk"], name))
    finally:
        w.close()
        shutil.rmtree(tmp, ignore_errors=True)


def run(ctx: Ctx) -> None:
    ctx.prove(["O2P.Props.C04"], THEOREMS)
    if ctx.tier == "thorough":
        ctx.leanchecker(["O2P.Props.C04"])
    quick = ctx.tier == "quick"
    cases = lc.build_cases(ctx, 60 if quick else 500, [4, 6, 8, 10], with_corpus=True)
    cases = [c for c in cases if 2 <= len(c["jobs"]) <= 40]
    # job sets with counted multisets (the same event type 1, 2 or 3 times in parallel): the count clause of the
    # model file.  Outside fragment F's distinct names, so only the model layer and diagram stability are judged.
    for _ in range(12 if quick else 80):
        r = ctx.rng
        b = r.choice(["B", "Bx", "K"])
        counts = r.sample([1, 2, 3], k=r.choice([2, 3]))
        jobs = []
        for n in counts:
            nodes = [{"id": 0, "typ": "A", "prev": []}]
            nodes += [{"id": 1 + i, "typ": b, "prev": [0]} for i in range(n)]
            nodes.append({"id": n + 1, "typ": "C", "prev": list(range(1, n + 1))})
            jobs.append(nodes)
        if r.random() < 0.5:
            jobs.append([{"id": 0, "typ": "A", "prev": []}, {"id": 1, "typ": "D", "prev": [0]},
                         {"id": 2, "typ": "C", "prev": [1]}])
        cases.append({"kind": "counted", "blk": ["seq", [["ev", f"counted {b} x{sorted(counts)}"]]], "jobs": jobs,
                      "classes": []})
        ctx.tick("def_counted")
    # job sets whose jobs do not all begin with the same event (an XOR or a concurrent pair at the very start): a later
    # chunk then brings a first event the saved model has not seen.  Outside F's grammar (a sequence begins with an
    # event); the statement is about every split of the data.
    for _ in range(10 if quick else 60):
        r = ctx.rng
        jobs = []
        tail = r.choice([1, 2])
        def chain(firsts: list[str]) -> list[dict[str, Any]]:
            nodes = [{"id": i, "typ": t, "prev": []} for i, t in enumerate(firsts)]
            prev = list(range(len(firsts)))
            for k in range(tail):
                nodes.append({"id": len(nodes), "typ": "CDE"[k], "prev": prev})
                prev = [len(nodes) - 1]
            return nodes
        starts = r.choice([[["A"], ["B"]], [["A"], ["B"], ["F"]], [["A"], ["A", "B"]], [["A", "B"], ["F"]]])
        for st in starts:
            for _ in range(r.choice([1, 2])):
                jobs.append(chain(st))
        cases.append({"kind": "alt_start", "blk": ["seq", [["ev", f"starts {starts} tail {tail}"]]], "jobs": jobs,
                      "classes": []})
        ctx.tick("def_alt_start")
    cli_part(ctx, cases, quick)
    ctx.cov["rule"] = (
        "job sets (2-40 jobs) of fragment-F definitions and the corpus in a shuffled order; ordered splits into 2 and 3 "
        "chunks (every cut point for sets <= 6 jobs in the thorough tier, a seeded 5 otherwise), every chunk boundary "
        "crossing the model file; compared with the one-shot run. non-trivial: some event type of an earlier chunk does "
        "not occur in the last chunk (its logic must survive the reload)"
    )
    tmp = tempfile.mkdtemp(prefix="o2p04_")
    reqs, meta = [], []
    try:
        for i, c in enumerate(cases):
            c["pv"] = lc.present(ctx, c["jobs"])
            reqs.append({"op": "learn", "chunks": [c["pv"]], "hash_seed": 0, "uuid_seed": i, "timeout": 40})
            meta.append((i, None))
            for cuts in splits(ctx, len(c["pv"]), quick):
                b = [0] + cuts + [len(c["pv"])]
                chunks = [c["pv"][b[k]:b[k + 1]] for k in range(len(b) - 1)]
                reqs.append({"op": "learn", "chunks": chunks, "through_files": True,
                             "model_path": os.path.join(tmp, f"m{i}_{'_'.join(map(str, cuts))}.json"),
                             "hash_seed": 0, "uuid_seed": i, "timeout": 60})
                meta.append((i, cuts))
        reps = pvlib.run_requests(reqs)
    finally:
        import shutil
        shutil.rmtree(tmp, ignore_errors=True)
    by: dict[int, list[tuple[Any, dict[str, Any], dict[str, Any]]]] = {}
    for (i, cuts), q, rp in zip(meta, reqs, reps):
        by.setdefault(i, []).append((cuts, q, rp))
    # Lean model through files for every chunking
    lreqs, lmeta = [], []
    for i, rs in by.items():
        for cuts, q, rp in rs:
            if cuts is not None:
                lreqs.append({"op": "learn.ingest", "chunks": q["chunks"], "through_files": True})
                lmeta.append((i, tuple(cuts)))
    lres = dict(zip(lmeta, pvlib.lean(lreqs))) if lreqs else {}
    # diagram comparison
    preqs, pmeta = [], []
    for i, rs in by.items():
        for k, (cuts, q, rp) in enumerate(rs):
            if "text" in rp:
                preqs.append({"op": "dg.parse", "text": rp["text"]})
                pmeta.append((i, k))
    parsed = dict(zip(pmeta, pvlib.lean(preqs))) if preqs else {}
    sreqs, smeta = [], []
    for i, rs in by.items():
        p0 = parsed.get((i, 0), {})
        for k in range(1, len(rs)):
            pk = parsed.get((i, k), {})
            if p0.get("ok") and pk.get("ok") and json.dumps(norm_blk(p0["blk"])) != json.dumps(norm_blk(pk["blk"])):
                sreqs.append({"op": "dg.subset", "learned": pk["blk"], "source": p0["blk"], "k": 2, "cap": 200})
                smeta.append((i, k))
                sreqs.append({"op": "dg.subset", "learned": p0["blk"], "source": pk["blk"], "k": 2, "cap": 200})
                smeta.append((i, k))
    sres = pvlib.lean(sreqs) if sreqs else []
    lang_bad: dict[tuple[int, int], Any] = {}
    for (i, k), a in zip(smeta, sres):
        if a.get("rejected"):
            lang_bad[(i, k)] = a.get("first_rejected")
    for i, c in enumerate(cases):
        if ctx.too_many():
            break
        rs = by.get(i, [])
        one = rs[0][2]
        c["learn"] = one
        bad = None
        survive = False
        for k, (cuts, q, rp) in enumerate(rs[1:], start=1):
            last_types = {e["eventType"] for j in q["chunks"][-1] for e in j}
            all_types = {e["eventType"] for ch in q["chunks"] for j in ch for e in j}
            survive = survive or bool(all_types - last_types)
            ctx.cov["traces_validated_against_impl"] += 1
            if ("text" in one) != ("text" in rp):
                bad = (f"split at {cuts}: the chunked run {'fails' if 'text' not in rp else 'succeeds'} while the one-shot "
                       f"run {'succeeds' if 'text' in one else 'fails'}: {rp.get('error', one.get('error', ''))[:140]}")
                break
            if "text" not in rp:
                continue
            if rp["model"] != one["model"]:
                diff = [e["typ"] for e, f in zip(rp["model"], one["model"]) if e != f][:4]
                bad = f"split at {cuts}: the final model differs from the one-shot model (event types {diff})"
                break
            lm = lres.get((i, tuple(cuts)), {})
            if lm.get("status") == "ok":
                if canon_model(lm["model"]) != rp["model"]:
                    ctx.violation("correspondence: Lean model through files and the real chunked model differ",
                                  {"input": {"definition": c["blk"], "chunks": q["chunks"]}, "model": lm["model"],
                                   "impl": rp["model"]}, key=("corr", c["blk"], cuts), concrete=False)
                elif canon_file(lm["file"]) != canon_file(rp["file"]):
                    ctx.violation("correspondence: Lean model file and the saved model file differ",
                                  {"input": {"definition": c["blk"], "chunks": q["chunks"]}, "model": lm["file"],
                                   "impl": rp["file"]}, key=("corrf", c["blk"], cuts), concrete=False)
            p0, pk = parsed.get((i, 0), {}), parsed.get((i, k), {})
            if p0.get("ok") != pk.get("ok"):
                bad = f"split at {cuts}: one of the two diagrams is unreadable"
                break
            if (i, k) in lang_bad:
                job = [(n["typ"], n["prev"]) for n in (lang_bad[(i, k)] or [])]
                bad = (f"split at {cuts}: the diagram after updating the saved model has another language than the "
                       f"one-shot diagram, e.g. {job}")
                break
        ctx.case(c["blk"], survive, sample={"definition": c["blk"], "jobs": len(c["pv"]), "splits": [r[0] for r in rs[1:]]}
                 if ctx.cov["evaluations"] % 31 == 0 else None)
        if bad:
            lc.report(ctx, c, bad, {"chunks_cut_at": [r[0] for r in rs[1:]]})
    ctx.assumptions += [
        "pydantic's EventInputsFile (de)serialisation and json are exercised, not modelled; the model file is compared "
        "after canonical sorting",
        "equivalence of diagrams given equivalent models is C03's unproved clause: here it is decided per split by the "
        "Lean semantics (loops <= 2)",
    ]


def replay(data: dict[str, Any]) -> int:
    inp = data["input"]
    jobs = inp["jobs_pv"]
    if "job_name" in inp:
        # the command-line route: one-shot vs -om / -im over the recorded cut
        import shutil
        name, cut = inp["job_name"], inp["cut"]
        stem = name.replace(" ", "_")
        tmp = tempfile.mkdtemp(prefix="o2p04r_")
        w = pvlib.Worker(0)
        try:
            def run_cli(tag: str, js: list[Any], im: str | None) -> str:
                d = os.path.join(tmp, tag)
                os.makedirs(os.path.join(d, "in"))
                os.makedirs(os.path.join(d, "out"))
                for n, j in enumerate(js):
                    with open(os.path.join(d, "in", f"job{n}.json"), "w") as f:
                        json.dump(j, f)
                argv = ["-o", os.path.join(d, "out"), "pv2puml", "-om", "-fp", os.path.join(d, "in"), "-jn", name]
                ims = [] if not im else {"none": [im], "after": [im, other_model], "before": [other_model, im]}[
                    inp.get("other_model", "none")]
                for x in ims:
                    argv += ["-im", x]
                w.send({"op": "cli", "argv": argv, "timeout": 120})
                print(tag, w.recv().get("exit"))
                return os.path.join(d, "out", stem + "_model.json")
            other_model = make_other_model(w, tmp) if inp.get("other_model", "none") != "none" else ""
            m1 = run_cli("one", jobs, None)
            ma = run_cli("a", jobs[:cut], None)
            mb = run_cli("b", jobs[cut:], ma if os.path.exists(ma) else None)
            if not (os.path.exists(m1) and os.path.exists(mb)):
                print("a model file is missing")
                return 1
            with open(m1) as f1, open(mb) as f2:
                one, upd = json.load(f1), json.load(f2)
            same = canon_file(one) == canon_file(upd) and one.get("job_name") == upd.get("job_name")
            print("one-shot:", json.dumps(one)[:600], "\nupdated:", json.dumps(upd)[:600])
            return 0 if same else 1
        finally:
            w.close()
            shutil.rmtree(tmp, ignore_errors=True)
    cuts_list = data.get("chunks_cut_at") or [[max(1, len(jobs) // 2)]]
    tmp = tempfile.mkdtemp(prefix="o2p04r_")
    reqs = [{"op": "learn", "chunks": [jobs], "hash_seed": 0, "timeout": 60}]
    for cuts in cuts_list:
        b = [0] + list(cuts) + [len(jobs)]
        reqs.append({"op": "learn", "chunks": [jobs[b[k]:b[k + 1]] for k in range(len(b) - 1)], "through_files": True,
                     "model_path": os.path.join(tmp, "m.json"), "hash_seed": 0, "timeout": 60})
    reps = pvlib.run_requests(reqs, n_workers=1)
    rc = 0
    for cuts, rp in zip([None] + cuts_list, reps):
        print(cuts, rp.get("error") or ("model equal" if rp["model"] == reps[0].get("model") else "MODEL DIFFERS"))
        if "text" in rp and rp["model"] != reps[0].get("model"):
            rc = 1
        if ("text" in rp) != ("text" in reps[0]):
            rc = 1
    if rc == 0 and all("text" in rp for rp in reps) and not _same_language([rp["text"] for rp in reps]):
        print("the diagram after updating the saved model has another language than the one-shot diagram")
        rc = 1
    return rc
