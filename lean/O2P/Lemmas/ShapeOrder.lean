import O2P.Model.Store
/-!
`Shape.cmp` is a lawful total order on call-tree shapes, hence sorting child shapes (insertion sort by
`shapeLe`, as `sorted(child hashes)` does on digests) yields a canonical form: two lists that are
permutations of each other sort to the same list.
-/
namespace O2P.Store

theorem str_eq_of_not_lt {a b : String} (h1 : ¬ a < b) (h2 : ¬ b < a) : a = b :=
  String.le_antisymm (String.not_lt.mp h2) (String.not_lt.mp h1)

mutual
theorem cmp_refl : ∀ (a : Shape), a.cmp a = .eq
  | .mk a as => by
    unfold Shape.cmp
    simp only [String.lt_irrefl, if_false]
    exact cmpL_refl as
theorem cmpL_refl : ∀ (l : List Shape), cmpL l l = .eq
  | [] => by unfold cmpL; rfl
  | x :: xs => by
    unfold cmpL
    rw [cmp_refl x]
    exact cmpL_refl xs
end

mutual
theorem cmp_eq : ∀ (a b : Shape), a.cmp b = .eq → a = b
  | .mk a as, .mk b bs, h => by
    unfold Shape.cmp at h
    by_cases h1 : a < b
    · simp [h1] at h
    · by_cases h2 : b < a
      · simp [h1, h2] at h
      · simp only [h1, h2, if_false] at h
        rw [str_eq_of_not_lt h1 h2, cmpL_eq as bs h]
theorem cmpL_eq : ∀ (l m : List Shape), cmpL l m = .eq → l = m
  | [], [], _ => rfl
  | [], _ :: _, h => by unfold cmpL at h; simp at h
  | _ :: _, [], h => by unfold cmpL at h; simp at h
  | x :: xs, y :: ys, h => by
    unfold cmpL at h
    cases hc : x.cmp y with
    | eq =>
      rw [hc] at h
      rw [cmp_eq x y hc, cmpL_eq xs ys h]
    | lt => rw [hc] at h; simp at h
    | gt => rw [hc] at h; simp at h
end

mutual
theorem cmp_swap : ∀ (a b : Shape), b.cmp a = (a.cmp b).swap
  | .mk a as, .mk b bs => by
    unfold Shape.cmp
    by_cases h1 : a < b
    · have h2 : ¬ b < a := String.lt_asymm h1
      simp [h1, h2]
    · by_cases h2 : b < a
      · simp [h1, h2]
      · simp only [h1, h2, if_false]
        exact cmpL_swap as bs
theorem cmpL_swap : ∀ (l m : List Shape), cmpL m l = (cmpL l m).swap
  | [], [] => by unfold cmpL; rfl
  | [], _ :: _ => by unfold cmpL; rfl
  | _ :: _, [] => by unfold cmpL; rfl
  | x :: xs, y :: ys => by
    unfold cmpL
    rw [cmp_swap x y]
    cases hc : x.cmp y with
    | eq => simp only [Ordering.swap]; exact cmpL_swap xs ys
    | lt => simp [Ordering.swap]
    | gt => simp [Ordering.swap]
end

theorem cmp_lt_mk {a b : String} {as bs : List Shape} :
    (Shape.mk a as).cmp (.mk b bs) = .lt ↔ a < b ∨ (a = b ∧ cmpL as bs = .lt) := by
  unfold Shape.cmp
  by_cases h1 : a < b
  · simp [h1]
  · by_cases h2 : b < a
    · simp only [h1, h2, if_false, if_true, false_or]
      constructor
      · intro h; cases h
      · rintro ⟨e, _⟩; subst e; exact absurd h2 (String.lt_irrefl _)
    · simp only [h1, h2, if_false, false_or]
      constructor
      · intro h; exact ⟨str_eq_of_not_lt h1 h2, h⟩
      · rintro ⟨_, h⟩; exact h

mutual
theorem cmp_lt_trans : ∀ (a b c : Shape), a.cmp b = .lt → b.cmp c = .lt → a.cmp c = .lt
  | .mk a as, .mk b bs, .mk c cs, h1, h2 => by
    rw [cmp_lt_mk] at h1 h2 ⊢
    rcases h1 with h1 | ⟨e1, h1⟩ <;> rcases h2 with h2 | ⟨e2, h2⟩
    · exact Or.inl (String.lt_trans h1 h2)
    · exact Or.inl (e2 ▸ h1)
    · exact Or.inl (e1 ▸ h2)
    · exact Or.inr ⟨e1.trans e2, cmpL_lt_trans as bs cs h1 h2⟩
theorem cmpL_lt_trans : ∀ (l m n : List Shape), cmpL l m = .lt → cmpL m n = .lt → cmpL l n = .lt
  | [], [], _, h1, _ => by unfold cmpL at h1; simp at h1
  | [], _ :: _, [], _, h2 => by unfold cmpL at h2; simp at h2
  | [], _ :: _, _ :: _, _, _ => by unfold cmpL; rfl
  | _ :: _, [], _, h1, _ => by unfold cmpL at h1; simp at h1
  | _ :: _, _ :: _, [], _, h2 => by unfold cmpL at h2; simp at h2
  | x :: xs, y :: ys, z :: zs, h1, h2 => by
    unfold cmpL at h1 h2 ⊢
    cases hxy : x.cmp y with
    | gt => rw [hxy] at h1; simp at h1
    | lt =>
      cases hyz : y.cmp z with
      | gt => rw [hyz] at h2; simp at h2
      | lt => rw [cmp_lt_trans x y z hxy hyz]
      | eq => rw [← cmp_eq y z hyz, hxy]
    | eq =>
      have e := cmp_eq x y hxy
      subst e
      rw [hxy] at h1
      cases hyz : x.cmp z with
      | gt => rw [hyz] at h2; simp at h2
      | lt => rfl
      | eq =>
        rw [hyz] at h2
        exact cmpL_lt_trans xs ys zs h1 h2
end

/-! ### `shapeLe` is total, transitive, antisymmetric -/

theorem shapeLe_iff (a b : Shape) : shapeLe a b = true ↔ a.cmp b ≠ .gt := by
  unfold shapeLe; simp

theorem shapeLe_total (a b : Shape) : shapeLe a b = true ∨ shapeLe b a = true := by
  rw [shapeLe_iff, shapeLe_iff, cmp_swap a b]
  cases a.cmp b <;> simp [Ordering.swap]

theorem shapeLe_antisymm (a b : Shape) (h1 : shapeLe a b = true) (h2 : shapeLe b a = true) : a = b := by
  rw [shapeLe_iff] at h1 h2
  rw [cmp_swap a b] at h2
  apply cmp_eq
  cases hc : a.cmp b with
  | eq => rfl
  | lt => rw [hc] at h2; simp [Ordering.swap] at h2
  | gt => exact absurd hc h1

theorem shapeLe_trans (a b c : Shape) (h1 : shapeLe a b = true) (h2 : shapeLe b c = true) :
    shapeLe a c = true := by
  rw [shapeLe_iff] at h1 h2 ⊢
  cases hab : a.cmp b with
  | gt => exact absurd hab h1
  | eq => rw [cmp_eq a b hab]; exact h2
  | lt =>
    cases hbc : b.cmp c with
    | gt => exact absurd hbc h2
    | eq => rw [← cmp_eq b c hbc, hab]; simp
    | lt => rw [cmp_lt_trans a b c hab hbc]; simp

theorem shapeEq_iff (a b : Shape) : shapeEq a b = true ↔ a = b := by
  unfold shapeEq
  constructor
  · intro h; exact cmp_eq a b (by simpa using h)
  · rintro rfl; simp [cmp_refl]

/-! ### the sort is canonical -/

def sortShapes (l : List Shape) : List Shape := l.foldr insertShape []

open List in
theorem insertShape_perm (x : Shape) : ∀ (l : List Shape), insertShape x l ~ x :: l
  | [] => by simp [insertShape]
  | y :: ys => by
    unfold insertShape
    split
    · exact Perm.refl _
    · exact ((insertShape_perm x ys).cons y).trans (Perm.swap x y ys)

open List in
theorem sortShapes_perm : ∀ (l : List Shape), sortShapes l ~ l
  | [] => Perm.refl _
  | x :: xs => (insertShape_perm x _).trans ((sortShapes_perm xs).cons x)

theorem insertShape_sorted (x : Shape) : ∀ (l : List Shape), l.Pairwise (shapeLe · · = true) →
    (insertShape x l).Pairwise (shapeLe · · = true)
  | [], _ => by simp [insertShape]
  | y :: ys, h => by
    unfold insertShape
    split
    · rename_i hxy
      refine List.Pairwise.cons ?_ h
      intro z hz
      rcases List.mem_cons.mp hz with rfl | hz
      · exact hxy
      · exact shapeLe_trans x y z hxy ((List.pairwise_cons.mp h).1 z hz)
    · rename_i hxy
      have hyx : shapeLe y x = true := (shapeLe_total x y).resolve_left hxy
      have hp := List.pairwise_cons.mp h
      refine List.Pairwise.cons ?_ (insertShape_sorted x ys hp.2)
      intro z hz
      rcases List.mem_cons.mp ((insertShape_perm x ys).subset hz) with rfl | hz
      · exact hyx
      · exact hp.1 z hz

theorem sortShapes_sorted : ∀ (l : List Shape), (sortShapes l).Pairwise (shapeLe · · = true)
  | [] => List.Pairwise.nil
  | x :: xs => insertShape_sorted x _ (sortShapes_sorted xs)

open List in
/-- **sorting is canonical**: permuted lists of shapes sort to the same list -/
theorem sortShapes_eq_of_perm {l m : List Shape} (h : l ~ m) : sortShapes l = sortShapes m :=
  Perm.eq_of_pairwise (fun a b _ _ h1 h2 => shapeLe_antisymm a b h1 h2)
    (sortShapes_sorted l) (sortShapes_sorted m)
    ((sortShapes_perm l).trans (h.trans (sortShapes_perm m).symm))

end O2P.Store
