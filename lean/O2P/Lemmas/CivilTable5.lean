import O2P.Lemmas.CivilCheck
namespace O2P.Time
/-- days 40000 .. 47846: the whole table, checked by the kernel -/
theorem civilTable5 : allRange 40000 7847 = true := by decide +kernel
end O2P.Time
