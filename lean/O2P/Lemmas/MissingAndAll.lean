/-
The AND recovery over the whole tree (`process_missing_and_gates` = `missingAnd`, under every choice of the cover step):
every outcome stands for the tree it was computed from, in the sense of `Good` (Lemmas/InferOrAll.lean).  The congruence
lemmas are restated for children related position by position (`Rel2`), since the outcomes of the children are
chosen independently (`Rel2`).  Core Lean only.
-/
import O2P.Lemmas.InferOrAll
import O2P.Lemmas.PostFlat
namespace O2P.Gate

section congrRel
variable (F : List (List String)) (s : List String) (L : List String)
  (hemp : "" ∉ s) (hproj : ∃ s0 ∈ F, ∀ x ∈ L, (x ∈ s0 ↔ x ∈ s))
include hemp hproj

theorem child_step_rel (c c' : PTree) (p : List String) (hcL : ∀ x ∈ c.labels, x ∈ L)
    (hag : ∀ x ∈ c.labels, (x ∈ s ↔ x ∈ p)) (hg : Good F c c') (hc : c.sem p) : c'.sem p :=
  child_step F (fun _ => c') s L hemp hproj c p hcL hag hg hc

theorem semAny_rel : ∀ (cs cs' : List PTree), Rel2 (Good F) cs cs' → (∀ x ∈ PTree.labelsL cs, x ∈ L) →
    PTree.semAny cs s → PTree.semAny cs' s
  | _, _, .nil, _, h => by simp only [PTree.semAny] at h
  | c :: cs, c' :: cs', .cons hg hgs, hL, h => by
    simp only [PTree.semAny] at h ⊢
    rcases h with h | h
    · left
      exact child_step_rel F s L hemp hproj c c' s (fun x hx => hL x (by simp [PTree.labelsL, hx]))
        (fun _ _ => Iff.rfl) hg h
    · right
      exact semAny_rel cs cs' hgs (fun x hx => hL x (by simp [PTree.labelsL, hx])) h

theorem semAll_rel : ∀ (cs cs' : List PTree) (ps : List (List String)), Rel2 (Good F) cs cs' →
    (∀ x ∈ PTree.labelsL cs, x ∈ L) → (NE (PTree.labelsL cs)).Nodup → PTree.semAll cs ps →
    (∀ x ∈ ps.flatten, x ∈ s) → (∀ x ∈ s, x ∈ PTree.labelsL cs → x ∈ ps.flatten) → PTree.semAll cs' ps
  | _, _, ps, .nil, _, _, h, _, _ => by simpa [PTree.semAll] using h
  | c :: cs, c' :: cs', ps, .cons hg hgs, hL, hnd, h, hsub, hcov => by
    simp only [PTree.semAll] at h
    obtain ⟨p, ps', rfl, h1, h2⟩ := h
    simp only [PTree.semAll]
    simp only [PTree.labelsL, NE_append] at hnd
    have hdis : ∀ x, x ∈ NE c.labels → x ∉ NE (PTree.labelsL cs) := fun x hx hx' =>
      (List.nodup_append.mp hnd).2.2 x hx x hx' rfl
    refine ⟨p, ps', rfl, ?_, ?_⟩
    · apply child_step_rel F s L hemp hproj c c' p (fun x hx => hL x (by simp [PTree.labelsL, hx])) ?_ hg h1
      intro x hx
      constructor
      · intro hxs
        have := hcov x hxs (by simp [PTree.labelsL, hx])
        simp only [List.flatten_cons, List.mem_append] at this
        rcases this with h | h
        · exact h
        · have hne : x ≠ "" := fun e => hemp (e ▸ hxs)
          exact absurd (mem_NE.mpr ⟨PTree.semAll_sub cs ps' h2 x h, hne⟩) (hdis x (mem_NE.mpr ⟨hx, hne⟩))
      · intro hxp
        exact hsub x (by simp [hxp])
    · apply semAll_rel cs cs' ps' hgs (fun x hx => hL x (by simp [PTree.labelsL, hx])) (List.nodup_append.mp hnd).2.1 h2
        (fun x hx => hsub x (by simp [hx]))
      intro x hxs hxl
      have := hcov x hxs (by simp [PTree.labelsL, hxl])
      simp only [List.flatten_cons, List.mem_append] at this
      rcases this with h | h
      · have hne : x ≠ "" := fun e => hemp (e ▸ hxs)
        exact absurd (mem_NE.mpr ⟨hxl, hne⟩) (hdis x (mem_NE.mpr ⟨PTree.sem_sub c p h1 x h, hne⟩))
      · exact h

theorem semSome_rel : ∀ (cs cs' : List PTree) (ps : List (List String)), Rel2 (Good F) cs cs' →
    (∀ x ∈ PTree.labelsL cs, x ∈ L) → (NE (PTree.labelsL cs)).Nodup → PTree.semSome cs ps →
    (∀ x ∈ ps.flatten, x ∈ s) → (∀ x ∈ s, x ∈ PTree.labelsL cs → x ∈ ps.flatten) → PTree.semSome cs' ps
  | _, _, ps, .nil, _, _, h, _, _ => by simpa [PTree.semSome] using h
  | c :: cs, c' :: cs', ps, .cons hg hgs, hL, hnd, h, hsub, hcov => by
    simp only [PTree.semSome] at h
    simp only [PTree.semSome]
    simp only [PTree.labelsL, NE_append] at hnd
    have hdis : ∀ x, x ∈ NE c.labels → x ∉ NE (PTree.labelsL cs) := fun x hx hx' =>
      (List.nodup_append.mp hnd).2.2 x hx x hx' rfl
    rcases h with h | ⟨p, ps', rfl, h1, h2⟩
    · left
      exact semSome_rel cs cs' ps hgs (fun x hx => hL x (by simp [PTree.labelsL, hx])) (List.nodup_append.mp hnd).2.1 h
        hsub (fun x hxs hxl => hcov x hxs (by simp [PTree.labelsL, hxl]))
    · right
      refine ⟨p, ps', rfl, ?_, ?_⟩
      · apply child_step_rel F s L hemp hproj c c' p (fun x hx => hL x (by simp [PTree.labelsL, hx])) ?_ hg h1
        intro x hx
        constructor
        · intro hxs
          have := hcov x hxs (by simp [PTree.labelsL, hx])
          simp only [List.flatten_cons, List.mem_append] at this
          rcases this with h | h
          · exact h
          · have hne : x ≠ "" := fun e => hemp (e ▸ hxs)
            exact absurd (mem_NE.mpr ⟨PTree.semSome_sub cs ps' h2 x h, hne⟩) (hdis x (mem_NE.mpr ⟨hx, hne⟩))
        · intro hxp
          exact hsub x (by simp [hxp])
      · apply semSome_rel cs cs' ps' hgs (fun x hx => hL x (by simp [PTree.labelsL, hx]))
          (List.nodup_append.mp hnd).2.1 h2 (fun x hx => hsub x (by simp [hx]))
        intro x hxs hxl
        have := hcov x hxs (by simp [PTree.labelsL, hxl])
        simp only [List.flatten_cons, List.mem_append] at this
        rcases this with h | h
        · have hne : x ≠ "" := fun e => hemp (e ▸ hxs)
          exact absurd (mem_NE.mpr ⟨hxl, hne⟩) (hdis x (mem_NE.mpr ⟨PTree.sem_sub c p h1 x h, hne⟩))
        · exact h
end congrRel

theorem labelsL_rel_sub : ∀ (cs cs' : List PTree), Rel2 (fun c c' => ∀ x ∈ c'.labels, x ∈ c.labels) cs cs' →
    ∀ x ∈ PTree.labelsL cs', x ∈ PTree.labelsL cs
  | _, _, .nil, x, hx => by simp [PTree.labelsL] at hx
  | c :: cs, c' :: cs', .cons h hs, x, hx => by
    simp only [PTree.labelsL, List.mem_append] at hx ⊢
    rcases hx with hx | hx
    · exact Or.inl (h x hx)
    · exact Or.inr (labelsL_rel_sub cs cs' hs x hx)

theorem node_congr_rel (F : List (List String)) (hF : ∀ s0 ∈ F, "" ∉ s0) (op : POp) (cs cs' : List PTree)
    (hnd : (NE (PTree.labelsL cs)).Nodup) (hg : Rel2 (Good F) cs cs') :
    Good F (.node op cs) (.node op cs') := by
  have key : ∀ (s : List String), "" ∉ s → (∃ s0 ∈ F, ∀ x ∈ PTree.labelsL cs, (x ∈ s0 ↔ x ∈ s)) →
      (PTree.node op cs).sem s → (PTree.node op cs').sem s := by
    intro s hemp hproj h
    cases op with
    | xor =>
      simp only [PTree.sem] at h ⊢
      exact semAny_rel F s (PTree.labelsL cs) hemp hproj cs cs' hg (fun _ hx => hx) h
    | and =>
      simp only [PTree.sem] at h ⊢
      obtain ⟨ps, h1, h2⟩ := h
      exact ⟨ps, semAll_rel F s (PTree.labelsL cs) hemp hproj cs cs' ps hg (fun _ hx => hx) hnd h1
        (fun x hx => (h2 x).mpr hx) (fun x hx _ => (h2 x).mp hx), h2⟩
    | or =>
      simp only [PTree.sem] at h ⊢
      obtain ⟨ps, h1, hne, h2⟩ := h
      exact ⟨ps, semSome_rel F s (PTree.labelsL cs) hemp hproj cs cs' ps hg (fun _ hx => hx) hnd h1
        (fun x hx => (h2 x).mpr hx) (fun x hx _ => (h2 x).mp hx), hne, h2⟩
    | other => simp only [PTree.sem] at h
  refine ⟨?_, ?_, ?_⟩
  · intro s hp hs
    obtain ⟨s0, hs0, hag⟩ := hp
    simp only [PTree.labels] at hag
    have hemp : "" ∉ s := by
      intro he
      have := PTree.sem_sub _ s hs "" he
      simp only [PTree.labels] at this
      exact hF s0 hs0 ((hag "" this).mpr he)
    exact key s hemp ⟨s0, hs0, hag⟩ hs
  · intro x hx
    simp only [PTree.labels] at hx ⊢
    exact labelsL_rel_sub cs cs' (Rel2.imp (fun h => h.lab) hg) x hx
  · intro h
    simp only [PTree.labels] at h ⊢
    exact (nd_rel cs cs' (Rel2.imp (fun h => ⟨h.lab, h.nd⟩) hg) h).1

/-! ### the outcomes of the recursion -/

theorem missingAndL_rel (F : List (List String)) (fuel : Nat) : ∀ (cs cs'' : List PTree),
    cs'' ∈ missingAndL fuel F cs → Rel2 (fun c c'' => c'' ∈ missingAnd fuel F c) cs cs''
  | [], cs'', h => by
    simp only [missingAndL, List.mem_singleton] at h
    subst h
    exact .nil
  | c :: cs, cs'', h => by
    simp only [missingAndL, List.mem_flatMap, List.mem_map] at h
    obtain ⟨c', hc', rest, hrest, rfl⟩ := h
    exact .cons hc' (missingAndL_rel F fuel cs rest hrest)

theorem mapM_leafLabel_eq : ∀ (cs : List PTree) (uni : List String), cs.mapM leafLabel? = some uni →
    cs = uni.map PTree.leaf
  | [], uni, h => by
    simp only [List.mapM_nil] at h
    cases h
    rfl
  | c :: cs, uni, h => by
    simp only [List.mapM_cons] at h
    cases hc : leafLabel? c with
    | none => simp [hc] at h
    | some a =>
      cases hm : cs.mapM leafLabel? with
      | none => simp [hc, hm] at h
      | some rest =>
        simp only [hc, hm] at h
        cases h
        have : c = .leaf a := by
          cases c <;> simp [leafLabel?] at hc
          exact congrArg _ hc
        rw [this, mapM_leafLabel_eq cs rest hm]
        rfl

/-- what the children of a node may be replaced by before the recursion goes on -/
theorem missingAnd_node (F : List (List String)) (fuel : Nat) (op : POp) (cs : List PTree) (o : PTree)
    (h : o ∈ missingAnd (fuel + 1) F (.node op cs)) :
    ∃ cs' cs'', o = .node op cs'' ∧ cs'' ∈ missingAndL fuel F cs' ∧
      (cs' = cs ∨ (op = .or ∧ ∃ uni cover, cs = uni.map PTree.leaf ∧ some cover ∈ weightedCover (projF F uni) uni ∧
        cs' = cover.map partTree)) := by
  simp only [missingAnd, List.mem_flatMap, List.mem_map] at h
  obtain ⟨cs', hcs', cs'', hcs'', rfl⟩ := h
  refine ⟨cs', cs'', rfl, hcs'', ?_⟩
  by_cases hop : (op == POp.or) = true
  · simp only [hop, if_true] at hcs'
    cases hm : cs.mapM leafLabel? with
    | none =>
      simp only [hm, List.mem_singleton] at hcs'
      exact Or.inl hcs'
    | some uni =>
      simp only [hm, List.mem_map] at hcs'
      obtain ⟨r, hr, rfl⟩ := hcs'
      cases r with
      | none => exact Or.inl rfl
      | some cover =>
        right
        refine ⟨by simpa using hop, uni, cover, mapM_leafLabel_eq cs uni hm, hr, rfl⟩
  · simp only [hop, Bool.false_eq_true, if_false, List.mem_singleton] at hcs'
    exact Or.inl hcs'

/-! ### one rebuilt OR gate -/

theorem semAll_leaves : ∀ (p : List String), PTree.semAll (p.map PTree.leaf) (p.map fun a => [a])
  | [] => by simp [PTree.semAll]
  | a :: as => ⟨[a], as.map fun a => [a], rfl, by simp [PTree.sem, SameSet], semAll_leaves as⟩

theorem partTree_sem (p : List String) : (partTree p).sem p := by
  unfold partTree
  split
  · simp [PTree.sem, SameSet]
  · simp only [PTree.sem]
    refine ⟨p.map fun a => [a], semAll_leaves p, ?_⟩
    intro x
    simp only [List.mem_flatten, List.mem_map]
    constructor
    · intro hx
      exact ⟨[x], ⟨x, hx, rfl⟩, by simp⟩
    · rintro ⟨l, ⟨a, ha, rfl⟩, hx⟩
      simp only [List.mem_singleton] at hx
      exact hx ▸ ha

theorem partTree_labels (p : List String) : (partTree p).labels = p := by
  unfold partTree
  split
  · rfl
  · simp [PTree.labels, labelsL_leaves]

theorem labelsL_parts : ∀ (c : List (List String)), PTree.labelsL (c.map partTree) = c.flatten
  | [] => rfl
  | p :: ps => by simp [PTree.labelsL, partTree_labels, labelsL_parts ps]

theorem flatten_nodup : ∀ (L : List (List String)), (∀ l ∈ L, l.Nodup) →
    L.Pairwise (fun a b => ∀ x, ¬ (x ∈ a ∧ x ∈ b)) → L.flatten.Nodup
  | [], _, _ => by simp
  | l :: L, h1, h2 => by
    rw [List.pairwise_cons] at h2
    simp only [List.flatten_cons]
    refine List.nodup_append.mpr ⟨h1 l (List.mem_cons_self ..),
      flatten_nodup L (fun m hm => h1 m (List.mem_cons_of_mem _ hm)) h2.2, ?_⟩
    intro a ha b hb e
    obtain ⟨m, hm, hbm⟩ := List.mem_flatten.mp hb
    exact h2.1 m hm a ⟨ha, e ▸ hbm⟩

/-- selecting the cover members that lie inside `s` -/
theorem semSome_select (s : List String) : ∀ (cover : List (List String)),
    PTree.semSome (cover.map partTree) (cover.filter fun p => subsetS p s && !p.isEmpty)
  | [] => by simp [PTree.semSome]
  | p :: ps => by
    simp only [List.map_cons, PTree.semSome, List.filter_cons]
    by_cases hp : (subsetS p s && !p.isEmpty) = true
    · simp only [hp, if_true]
      exact Or.inr ⟨p, _, rfl, partTree_sem p, semSome_select s ps⟩
    · simp only [hp, Bool.false_eq_true, if_false]
      exact Or.inl (semSome_select s ps)

theorem rebuild_good (F : List (List String)) (hFnd : ∀ s0 ∈ F, s0.Nodup) (R : List String)
    (cover : List (List String)) (h : some cover ∈ weightedCover (projF F R) R) :
    Good F (.node .or (R.map PTree.leaf)) (.node .or (cover.map partTree)) := by
  obtain ⟨c1, c2, c3, c4⟩ := weightedCover_spec _ R cover h
  have hpR : ∀ p ∈ cover, ∀ y ∈ p, y ∈ R := by
    intro p hp y hy
    obtain ⟨s', _, rfl, _⟩ := mem_projF.mp (c1 p hp)
    exact (mem_interS.mp hy).2
  have hnil : ¬ (PTree.node .or (R.map PTree.leaf)).sem [] := by
    intro hs
    simp only [PTree.sem] at hs
    obtain ⟨ps, h1, hne, h2⟩ := hs
    have hall := flatten_nil_parts ps (fun x hx => by simpa using (h2 x).mpr hx)
    -- a selected leaf produces a non-empty set
    have : ∀ (l : List String) (ps : List (List String)), PTree.semSome (l.map PTree.leaf) ps →
        (∀ p ∈ ps, p = []) → ps = [] := by
      intro l
      induction l with
      | nil => intro ps h _; simpa [PTree.semSome] using h
      | cons a as ih =>
        intro ps h hp
        simp only [List.map_cons, PTree.semSome] at h
        rcases h with h | ⟨p, ps', rfl, h1, _⟩
        · exact ih ps h hp
        · have hp0 : p = [] := hp p (List.mem_cons_self ..)
          subst hp0
          simp only [PTree.sem] at h1
          have := (h1 a).mpr (by simp)
          cases this
    exact hne (this R ps h1 hall)
  refine ⟨?_, ?_, ?_⟩
  · intro s hp hs
    have hne : s ≠ [] := fun e => hnil (e ▸ hs)
    obtain ⟨s0, hs0, hag⟩ := hp
    simp only [PTree.labels, labelsL_leaves] at hag
    have hsR : ∀ x ∈ s, x ∈ R := by
      intro x hx
      have := PTree.sem_sub _ s hs x hx
      simpa [PTree.labels, labelsL_leaves] using this
    -- `s` has the members of `interS s0 R`
    have hse : ∀ x, x ∈ s ↔ x ∈ interS s0 R := by
      intro x
      rw [mem_interS]
      constructor
      · intro hx
        exact ⟨(hag x (hsR x hx)).mpr hx, hsR x hx⟩
      · rintro ⟨h0, hR⟩
        exact (hag x hR).mp h0
    have hene : interS s0 R ≠ [] := by
      intro e
      cases s with
      | nil => exact hne rfl
      | cons a as =>
        have := (hse a).mp (by simp)
        rw [e] at this
        cases this
    have hmem : interS s0 R ∈ projF F R := mem_projF.mpr ⟨s0, hs0, rfl, hene⟩
    -- every member of `s` lies in a cover member inside `s`
    have hstar : ∀ x ∈ s, ∃ p ∈ cover, (∀ y ∈ p, y ∈ s) ∧ x ∈ p := by
      intro x hx
      by_cases hsame : sameS (interS s0 R) R = true
      · obtain ⟨p, hp, hxp⟩ := c3 x (hsR x hx)
        refine ⟨p, hp, ?_, hxp⟩
        intro y hy
        exact (hse y).mpr ((sameS_iff.mp hsame).2 y (hpR p hp y hy))
      · obtain ⟨p, hp, hsub, hxp⟩ := c4 _ hmem (by simpa using hsame) x ((hse x).mp hx)
        exact ⟨p, hp, fun y hy => (hse y).mpr (hsub y hy), hxp⟩
    simp only [PTree.sem]
    refine ⟨cover.filter fun p => subsetS p s && !p.isEmpty, semSome_select s cover, ?_, ?_⟩
    · cases s with
      | nil => exact absurd rfl hne
      | cons a as =>
        obtain ⟨p, hp, hsub, hap⟩ := hstar a (by simp)
        intro e
        have : p ∈ cover.filter fun p => subsetS p (a :: as) && !p.isEmpty := by
          rw [List.mem_filter]
          refine ⟨hp, ?_⟩
          simp only [Bool.and_eq_true, subsetS_iff, Bool.not_eq_true', List.isEmpty_eq_false_iff]
          exact ⟨hsub, List.ne_nil_of_mem hap⟩
        rw [e] at this
        cases this
    · intro x
      constructor
      · intro hx
        obtain ⟨p, hp, hsub, hxp⟩ := hstar x hx
        refine List.mem_flatten.mpr ⟨p, ?_, hxp⟩
        rw [List.mem_filter]
        refine ⟨hp, ?_⟩
        simp only [Bool.and_eq_true, subsetS_iff, Bool.not_eq_true', List.isEmpty_eq_false_iff]
        exact ⟨hsub, List.ne_nil_of_mem hxp⟩
      · intro hx
        obtain ⟨p, hp, hxp⟩ := List.mem_flatten.mp hx
        rw [List.mem_filter] at hp
        simp only [Bool.and_eq_true, subsetS_iff] at hp
        exact hp.2.1 x hxp
  · intro x hx
    simp only [PTree.labels, labelsL_parts, labelsL_leaves] at hx ⊢
    obtain ⟨p, hp, hxp⟩ := List.mem_flatten.mp hx
    exact hpR p hp x hxp
  · intro _
    simp only [PTree.labels, labelsL_parts]
    apply List.Nodup.sublist List.filter_sublist
    apply flatten_nodup cover ?_ c2
    intro p hp
    obtain ⟨s0, hs0, rfl, _⟩ := mem_projF.mp (c1 p hp)
    exact List.Nodup.sublist List.filter_sublist (hFnd s0 hs0)

/-! ### the whole tree -/

theorem rel2_good_of_mem (F : List (List String)) (fuel : Nat)
    (ih : ∀ c, (NE c.labels).Nodup → ∀ o ∈ missingAnd fuel F c, Good F c o) :
    ∀ (cs cs'' : List PTree), (NE (PTree.labelsL cs)).Nodup →
      Rel2 (fun c c'' => c'' ∈ missingAnd fuel F c) cs cs'' → Rel2 (Good F) cs cs''
  | _, _, _, .nil => .nil
  | c :: cs, c'' :: cs'', hnd, .cons h hs => by
    refine .cons (ih c (nd_child hnd c (List.mem_cons_self ..)) c'' h) (rel2_good_of_mem F fuel ih cs cs'' ?_ hs)
    simp only [PTree.labelsL, NE_append] at hnd
    exact (List.nodup_append.mp hnd).2.1

/-- **the AND recovery over the whole tree**: every outcome of `missingAnd` — every choice of the cover step at every
OR gate over plain events, anywhere in the tree — stands for the tree it was computed from -/
theorem missingAnd_good (F : List (List String)) (hF : ∀ s0 ∈ F, "" ∉ s0) (hFnd : ∀ s0 ∈ F, s0.Nodup) :
    ∀ (fuel : Nat) (t : PTree), (NE t.labels).Nodup → ∀ o ∈ missingAnd fuel F t, Good F t o
  | 0, t, _, o, ho => by
    simp only [missingAnd, List.mem_singleton] at ho
    exact ho ▸ Good.refl F t
  | fuel + 1, .leaf a, _, o, ho => by
    simp only [missingAnd, List.mem_singleton] at ho
    exact ho ▸ Good.refl F _
  | fuel + 1, .tau, _, o, ho => by
    simp only [missingAnd, List.mem_singleton] at ho
    exact ho ▸ Good.refl F _
  | fuel + 1, .node op cs, hnd, o, ho => by
    obtain ⟨cs', cs'', rfl, hcs'', hcase⟩ := missingAnd_node F fuel op cs o ho
    simp only [PTree.labels] at hnd
    have ih := missingAnd_good F hF hFnd fuel
    have finish : (NE (PTree.labelsL cs')).Nodup → Good F (.node op cs') (.node op cs'') := fun hnd' =>
      node_congr_rel F hF op cs' cs'' hnd'
        (rel2_good_of_mem F fuel ih cs' cs'' hnd' (missingAndL_rel F fuel cs' cs'' hcs''))
    rcases hcase with rfl | ⟨rfl, uni, cover, rfl, hcov, rfl⟩
    · exact finish hnd
    · have hrb := rebuild_good F hFnd uni cover hcov
      refine hrb.trans (finish ?_)
      have := hrb.nd (by simpa only [PTree.labels] using hnd)
      simpa only [PTree.labels] using this

end O2P.Gate
