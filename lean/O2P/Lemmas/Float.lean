/-
Error analysis of the binary64 path of `unix_nano_to_pv_string` (model: `O2P.Time.fl`, `rne`,
`fromNanosParts`).  Values are rationals; the only facts used about a rounding are
  * round-half-even of a/b is within 1/2 of a/b (`rne_err`), and
  * `fl a b` carries at most 53 significant bits, so when a/b < 2^P its error is at most 2^(P-54)
    (`fl_err`).
Mathlib is imported for ℚ, `linarith`, `field_simp`, `positivity` only.
-/
import O2P.Model.Time
import Mathlib.Tactic.Linarith
import Mathlib.Tactic.Ring
import Mathlib.Tactic.NormNum
import Mathlib.Tactic.Positivity
import Mathlib.Tactic.FieldSimp
import Mathlib.Algebra.Order.Field.Basic

namespace O2P.Time

/-- round-half-even stays within half a unit, in integers -/
theorem rne_bounds (a b : ℕ) (hb : 0 < b) :
    2 * (rne a b * b) ≤ 2 * a + b ∧ 2 * a ≤ 2 * (rne a b * b) + b := by
  have h1 := Nat.div_add_mod a b
  have h2 := Nat.mod_lt a hb
  unfold rne
  simp only
  generalize a / b = q at *
  generalize a % b = r at *
  have h3 : (q + 1) * b = b * q + b := by ring
  have h4 : q * b = b * q := Nat.mul_comm _ _
  split_ifs <;> (first | rw [h3] | rw [h4]) <;> omega

theorem rne_err (a b : ℕ) (hb : 0 < b) : |((rne a b : ℕ) : ℚ) - (a : ℚ) / b| ≤ 1 / 2 := by
  obtain ⟨h1, h2⟩ := rne_bounds a b hb
  have hbq : (0 : ℚ) < b := by exact_mod_cast hb
  have h1q : (2 : ℚ) * (rne a b * b) ≤ 2 * a + b := by exact_mod_cast h1
  have h2q : (2 : ℚ) * a ≤ 2 * (rne a b * b) + b := by exact_mod_cast h2
  have e : ((rne a b : ℕ) : ℚ) - (a : ℚ) / b = ((rne a b : ℚ) * b - a) / b := by
    field_simp
  rw [e, abs_le]
  constructor
  · rw [le_div_iff₀ hbq]; linarith
  · rw [div_le_iff₀ hbq]; linarith

/-- the value of a model double -/
def Dbl.val (x : Dbl) : ℚ := (x.num : ℚ) / x.den

theorem Dbl.den_pos (x : Dbl) : 0 < x.den := by
  unfold Dbl.den; split <;> positivity

/-- the exponent `fl` chooses -/
def flExp (a b : ℕ) : ℤ :=
  let t : Int := (a.log2 : Int) - (b.log2 : Int)
  let ge : Bool := if 0 ≤ t then decide (b * 2 ^ t.toNat ≤ a) else decide (b ≤ a * 2 ^ (-t).toNat)
  (if ge then t else t - 1) - 52

theorem fl_eq (a b : ℕ) (ha : a ≠ 0) :
    fl a b = ⟨if 0 ≤ flExp a b then rne a (b * 2 ^ (flExp a b).toNat)
              else rne (a * 2 ^ (-flExp a b).toNat) b, flExp a b⟩ := by
  unfold fl flExp
  simp only [ha, if_false]

/-- 53 significant bits: a quotient below `2^P` gets an exponent of at most `P - 53` -/
theorem flExp_le (a b P : ℕ) (ha : a ≠ 0) (h : a < b * 2 ^ P) :
    flExp a b ≤ (P : ℤ) - 53 := by
  have h1 : 2 ^ a.log2 ≤ a := Nat.log2_self_le ha
  have h2 : b < 2 ^ (b.log2 + 1) := Nat.lt_log2_self
  unfold flExp
  simp only
  generalize a.log2 = la at *
  generalize b.log2 = lb at *
  by_cases ht : (0 : ℤ) ≤ (la : ℤ) - (lb : ℤ)
  · simp only [ht, if_true]
    by_cases hge : b * 2 ^ ((la : ℤ) - (lb : ℤ)).toNat ≤ a
    · simp only [hge, decide_true, if_true]
      have : b * 2 ^ ((la : ℤ) - (lb : ℤ)).toNat < b * 2 ^ P := lt_of_le_of_lt hge h
      have := Nat.lt_of_mul_lt_mul_left this
      have := (Nat.pow_lt_pow_iff_right (by norm_num : 1 < 2)).mp this
      omega
    · simp only [hge, decide_false, Bool.false_eq_true, if_false]
      have h3 : 2 ^ la < 2 ^ (lb + 1 + P) := by
        calc 2 ^ la ≤ a := h1
          _ < b * 2 ^ P := h
          _ < 2 ^ (lb + 1) * 2 ^ P := Nat.mul_lt_mul_of_pos_right h2 (by positivity)
          _ = 2 ^ (lb + 1 + P) := (Nat.pow_add 2 _ _).symm
      have := (Nat.pow_lt_pow_iff_right (by norm_num : 1 < 2)).mp h3
      omega
  · simp only [ht, if_false]
    have h3 : 2 ^ la < 2 ^ (lb + 1 + P) := by
      calc 2 ^ la ≤ a := h1
        _ < b * 2 ^ P := h
        _ < 2 ^ (lb + 1) * 2 ^ P := Nat.mul_lt_mul_of_pos_right h2 (by positivity)
        _ = 2 ^ (lb + 1 + P) := (Nat.pow_add 2 _ _).symm
    have := (Nat.pow_lt_pow_iff_right (by norm_num : 1 < 2)).mp h3
    split <;> omega

/-- the rounding error of `fl a b` when the exact quotient is below `2^P` -/
theorem fl_err (a b P : ℕ) (hb : 0 < b) (h : a < b * 2 ^ P) :
    |(fl a b).val - (a : ℚ) / b| ≤ (2 : ℚ) ^ P / 2 ^ 54 := by
  by_cases ha : a = 0
  · subst ha
    simp [fl, Dbl.val, Dbl.num, Dbl.den]
    positivity
  have hle := flExp_le a b P ha h
  have hbq : (0 : ℚ) < b := by exact_mod_cast hb
  rw [fl_eq a b ha]
  generalize flExp a b = e at *
  by_cases he : 0 ≤ e
  · obtain ⟨E, rfl⟩ := Int.eq_ofNat_of_zero_le he
    simp only [Dbl.val, Dbl.num, Dbl.den, he, if_true, Int.toNat_natCast, Nat.cast_one, div_one,
      Nat.cast_mul, Nat.cast_pow, Nat.cast_ofNat]
    have hE : E + 53 ≤ P := by omega
    have hpos : 0 < b * 2 ^ E := by positivity
    have r := rne_err a (b * 2 ^ E) hpos
    set m : ℚ := ((rne a (b * 2 ^ E) : ℕ) : ℚ)
    have hEq : (0 : ℚ) < 2 ^ E := by positivity
    have e1 : m * 2 ^ E - (a : ℚ) / b = 2 ^ E * (m - (a : ℚ) / ((b * 2 ^ E : ℕ) : ℚ)) := by
      push_cast
      field_simp
    rw [e1, abs_mul, abs_of_pos hEq]
    have hpw : (2 : ℚ) ^ (E + 53) ≤ 2 ^ P := pow_le_pow_right₀ (by norm_num) hE
    have e2 : (2 : ℚ) ^ (E + 53) = 2 ^ E * 2 ^ 53 := pow_add _ _ _
    have e3 : (2 : ℚ) ^ 54 = 2 * 2 ^ 53 := by norm_num
    rw [le_div_iff₀ (by positivity)]
    calc (2 : ℚ) ^ E * |m - (a : ℚ) / ((b * 2 ^ E : ℕ) : ℚ)| * 2 ^ 54
        ≤ 2 ^ E * (1 / 2) * 2 ^ 54 := by
          apply mul_le_mul_of_nonneg_right _ (by positivity)
          exact mul_le_mul_of_nonneg_left r (le_of_lt hEq)
      _ = 2 ^ (E + 53) := by rw [e2, e3]; ring
      _ ≤ 2 ^ P := hpw
  · have hneg : e < 0 := lt_of_not_ge he
    obtain ⟨E, hE⟩ : ∃ E : ℕ, -e = (E : ℤ) := Int.eq_ofNat_of_zero_le (by omega)
    simp only [Dbl.val, Dbl.num, Dbl.den, he, if_false, hE, Int.toNat_natCast, Nat.cast_pow,
      Nat.cast_ofNat]
    have hPE : 53 ≤ P + E := by omega
    have r := rne_err (a * 2 ^ E) b hb
    set m : ℚ := ((rne (a * 2 ^ E) b : ℕ) : ℚ)
    have hEq : (0 : ℚ) < 2 ^ E := by positivity
    have e1 : m / 2 ^ E - (a : ℚ) / b = (m - ((a * 2 ^ E : ℕ) : ℚ) / b) / 2 ^ E := by
      push_cast
      field_simp
    rw [e1, abs_div, abs_of_pos hEq, div_le_div_iff₀ hEq (by positivity)]
    have hpw : (2 : ℚ) ^ 53 ≤ 2 ^ (P + E) := pow_le_pow_right₀ (by norm_num) hPE
    have e2 : (2 : ℚ) ^ (P + E) = 2 ^ P * 2 ^ E := pow_add _ _ _
    have e3 : (2 : ℚ) ^ 54 = 2 * 2 ^ 53 := by norm_num
    calc |m - ((a * 2 ^ E : ℕ) : ℚ) / b| * 2 ^ 54 ≤ (1 / 2) * 2 ^ 54 :=
          mul_le_mul_of_nonneg_right r (by positivity)
      _ = 2 ^ 53 := by rw [e3]; ring
      _ ≤ 2 ^ (P + E) := hpw
      _ = 2 ^ P * 2 ^ E := e2

/-- `fromNanosMicros` written without the pair -/
theorem fromNanosMicros_eq (n : ℕ) :
    fromNanosMicros n =
      (let x0 := fl n 1
       let x1 := fl x0.num (x0.den * 1000000000)
       let y := fl (x1.num % x1.den * 1000000) x1.den
       x1.num / x1.den * 1000000 + rne y.num y.den) := by
  unfold fromNanosMicros fromNanosParts
  simp only [show Gen.nanoDivisor = 1000000000 from rfl]
  split <;> omega

/-- **The binary64 path is within a microsecond.**  For every nanosecond count up to 4.2·10^18
(year 2103) the microsecond count shown by `unix_nano_to_pv_string` differs from `n / 1000` by less
than 0.995: float(n) loses at most 256 ns, the division by 1e9 at most 2^-22 s, the product with 1e6
at most 2^-34 µs and round-half-even at most 0.5 µs. -/
theorem fromNanos_near (n : ℕ) (hn : n < 4200000000000000000) :
    |((fromNanosMicros n : ℕ) : ℚ) * 1000 - n| < 995 := by
  rw [fromNanosMicros_eq]
  simp only
  set x0 := fl n 1 with hx0
  set x1 := fl x0.num (x0.den * 1000000000) with hx1
  set y := fl (x1.num % x1.den * 1000000) x1.den with hy
  -- float(n)
  have hA := fl_err n 1 62 (by norm_num) (by omega)
  rw [← hx0] at hA
  have e62 : (2 : ℚ) ^ 62 / 2 ^ 54 = 256 := by norm_num
  rw [e62, Nat.cast_one, div_one, abs_le] at hA
  have d0 : (0 : ℚ) < x0.den := by exact_mod_cast x0.den_pos
  have hv0 : x0.val = (x0.num : ℚ) / x0.den := rfl
  -- / 1e9
  have hlt : x0.num < x0.den * 1000000000 * 2 ^ 32 := by
    have : (x0.num : ℚ) < x0.den * 1000000000 * 2 ^ 32 := by
      have h1 : (x0.num : ℚ) / x0.den < 1000000000 * 2 ^ 32 := by
        rw [← hv0]
        have : (n : ℚ) < 4200000000000000000 := by exact_mod_cast hn
        norm_num
        linarith [hA.2]
      rw [div_lt_iff₀ d0] at h1
      linarith
    exact_mod_cast this
  have hB := fl_err x0.num (x0.den * 1000000000) 32 (by have := x0.den_pos; omega) hlt
  rw [← hx1] at hB
  have e32 : (2 : ℚ) ^ 32 / 2 ^ 54 = 1 / 4194304 := by norm_num
  have eq0 : ((x0.num : ℕ) : ℚ) / ((x0.den * 1000000000 : ℕ) : ℚ) = x0.val / 1000000000 := by
    rw [hv0]; push_cast; field_simp
  rw [e32, eq0, abs_le] at hB
  -- modf
  have d1n : 0 < x1.den := x1.den_pos
  have d1 : (0 : ℚ) < x1.den := by exact_mod_cast d1n
  have hv1 : x1.val = ((x1.num / x1.den : ℕ) : ℚ) + ((x1.num % x1.den : ℕ) : ℚ) / x1.den := by
    have := Nat.div_add_mod x1.num x1.den
    have hq : (x1.num : ℚ) = x1.den * ((x1.num / x1.den : ℕ) : ℚ) + ((x1.num % x1.den : ℕ) : ℚ) := by
      exact_mod_cast this.symm
    show (x1.num : ℚ) / x1.den = _
    rw [hq]; field_simp
  -- * 1e6
  have hmod := Nat.mod_lt x1.num d1n
  have hC := fl_err (x1.num % x1.den * 1000000) x1.den 20 d1n (by norm_num; omega)
  rw [← hy] at hC
  have e20 : (2 : ℚ) ^ 20 / 2 ^ 54 = 1 / 17179869184 := by norm_num
  have eqf : ((x1.num % x1.den * 1000000 : ℕ) : ℚ) / x1.den
      = ((x1.num % x1.den : ℕ) : ℚ) / x1.den * 1000000 := by
    push_cast; field_simp
  rw [e20, eqf, abs_le] at hC
  -- round
  have hD := rne_err y.num y.den y.den_pos
  have hvy : y.val = (y.num : ℚ) / y.den := rfl
  rw [← hvy, abs_le] at hD
  push_cast
  generalize ((x1.num / x1.den : ℕ) : ℚ) = ip at *
  generalize ((x1.num % x1.den : ℕ) : ℚ) / x1.den = fr at *
  generalize ((rne y.num y.den : ℕ) : ℚ) = us at *
  rw [abs_lt]
  constructor <;> linarith [hA.1, hA.2, hB.1, hB.2, hC.1, hC.2, hD.1, hD.2]

/-- a nanosecond count that is a whole number of microseconds is shown exactly -/
theorem fromNanosMicros_exact (k : ℕ) (hk : 1000 * k < 4200000000000000000) :
    fromNanosMicros (1000 * k) = k := by
  have h := fromNanos_near (1000 * k) hk
  rw [abs_lt] at h
  push_cast at h
  rcases Nat.lt_trichotomy (fromNanosMicros (1000 * k)) k with l | e | g
  · have : ((fromNanosMicros (1000 * k) : ℕ) : ℚ) + 1 ≤ k := by exact_mod_cast l
    linarith [h.1]
  · exact e
  · have : (k : ℚ) + 1 ≤ ((fromNanosMicros (1000 * k) : ℕ) : ℚ) := by exact_mod_cast g
    linarith [h.2]

/-- instants at least two microseconds apart keep their order through the binary64 path -/
theorem fromNanosMicros_mono_far (n n' : ℕ) (hn' : n' < 4200000000000000000) (h : n + 1990 ≤ n') :
    fromNanosMicros n ≤ fromNanosMicros n' := by
  have a := fromNanos_near n (by omega)
  have b := fromNanos_near n' hn'
  rw [abs_lt] at a b
  have hq : (n : ℚ) + 1990 ≤ n' := by exact_mod_cast h
  by_contra hc
  have : ((fromNanosMicros n' : ℕ) : ℚ) + 1 ≤ (fromNanosMicros n : ℕ) := by
    exact_mod_cast Nat.lt_of_not_le hc
  linarith [a.1, a.2, b.1, b.2]

end O2P.Time
