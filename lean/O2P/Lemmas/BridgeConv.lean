/-
The converse of the bridge: for a tree without silent leaves the judge's executable semantics and `PTree.sem` coincide.
Core Lean only.
-/
import O2P.Lemmas.RawSound
namespace O2P.Gate

mutual
theorem outcomes_eq_outs : ∀ (t : PTree) (g : Gate), noTau t = true → t.toGate = some g → outcomes g = t.outs
  | .leaf a, g, _, hg => by
    simp only [PTree.toGate, Option.some.injEq] at hg
    subst hg
    simp [outcomes, PTree.outs]
  | .tau, _, hn, _ => by simp [noTau] at hn
  | .node .xor cs, g, hn, hg => by
    simp only [PTree.toGate, Option.map_eq_some_iff] at hg
    obtain ⟨gs, hgs, rfl⟩ := hg
    simp only [noTau] at hn
    simp only [outcomes, PTree.outs, outcomesL_eq_outsL cs gs hn hgs]
  | .node .and cs, g, hn, hg => by
    simp only [PTree.toGate, Option.map_eq_some_iff] at hg
    obtain ⟨gs, hgs, rfl⟩ := hg
    simp only [noTau] at hn
    simp only [outcomes, PTree.outs, outcomesL_eq_outsL cs gs hn hgs]
  | .node .or cs, g, hn, hg => by
    simp only [PTree.toGate, Option.map_eq_some_iff] at hg
    obtain ⟨gs, hgs, rfl⟩ := hg
    simp only [noTau] at hn
    simp only [outcomes, PTree.outs, outcomesL_eq_outsL cs gs hn hgs]
  | .node .other cs, g, _, hg => by simp [PTree.toGate] at hg
theorem outcomesL_eq_outsL : ∀ (cs : List PTree) (gs : List Gate), noTauL cs = true → PTree.toGateL cs = some gs →
    outcomesL gs = PTree.outsL cs
  | [], gs, _, hg => by
    simp only [PTree.toGateL, Option.some.injEq] at hg
    subst hg
    rfl
  | c :: cs, gs, hn, hg => by
    obtain ⟨g, gs', rfl, hc, hcs⟩ := toGateL_cons hg
    simp only [noTauL, Bool.and_eq_true] at hn
    simp only [outcomesL, PTree.outsL, outcomes_eq_outs c g hn.1 hc, outcomesL_eq_outsL cs gs' hn.2 hcs]
end

/-- what the judge admits, the tree produces -/
theorem admits_sem (t : PTree) (g : Gate) (hn : noTau t = true) (hg : t.toGate = some g) (s : List String)
    (h : admits g s = true) : t.sem s := by
  unfold admits family at h
  have hmem : norm s ∈ dedupF ((outcomes g).map norm) := by simpa using h
  rw [mem_dedupF, List.mem_map] at hmem
  obtain ⟨o, ho, hno⟩ := hmem
  rw [outcomes_eq_outs t g hn hg] at ho
  refine sem_congr t o s (outs_sem t o ho) ?_
  intro x
  rw [← mem_norm x s, ← mem_norm x o, hno]

/-- **the two semantics coincide** on trees without silent leaves -/
theorem admits_iff_sem (t : PTree) (g : Gate) (hn : noTau t = true) (hg : t.toGate = some g) (s : List String) :
    admits g s = true ↔ t.sem s :=
  ⟨admits_sem t g hn hg s, sem_admits t g hn hg s⟩

end O2P.Gate
