/-
What a node produces does not depend on the order of its children.  The correspondence run compares the real
post-processing with the model's outcomes *up to the order of children* (the cover is a Python set); this is what makes
that canonicalisation harmless.  Core Lean only.
-/
import O2P.Lemmas.InferOrTree
namespace O2P.Gate

theorem semAny_perm {cs cs' : List PTree} (h : cs.Perm cs') (s : List String) :
    PTree.semAny cs s → PTree.semAny cs' s := by
  induction h with
  | nil => exact id
  | cons c _ ih =>
    simp only [PTree.semAny]
    exact fun h => h.elim Or.inl (fun h => Or.inr (ih h))
  | swap a b l =>
    simp only [PTree.semAny]
    rintro (h | h | h)
    · exact Or.inr (Or.inl h)
    · exact Or.inl h
    · exact Or.inr (Or.inr h)
  | trans _ _ ih1 ih2 => exact fun h => ih2 (ih1 h)

theorem semAll_perm {cs cs' : List PTree} (h : cs.Perm cs') : ∀ (ps : List (List String)),
    PTree.semAll cs ps → ∃ ps', PTree.semAll cs' ps' ∧ ∀ x, x ∈ ps.flatten ↔ x ∈ ps'.flatten := by
  induction h with
  | nil => exact fun ps h => ⟨ps, h, fun _ => Iff.rfl⟩
  | cons c _ ih =>
    intro ps h
    simp only [PTree.semAll] at h
    obtain ⟨p, ps1, rfl, h1, h2⟩ := h
    obtain ⟨ps', h3, hm⟩ := ih ps1 h2
    refine ⟨p :: ps', ?_, ?_⟩
    · simp only [PTree.semAll]
      exact ⟨p, ps', rfl, h1, h3⟩
    · intro x
      simp only [List.flatten_cons, List.mem_append, hm x]
  | swap a b l =>
    intro ps h
    simp only [PTree.semAll] at h
    obtain ⟨p, ps1, rfl, h1, q, ps2, rfl, h2, h3⟩ := h
    refine ⟨q :: p :: ps2, ?_, ?_⟩
    · simp only [PTree.semAll]
      exact ⟨q, _, rfl, h2, p, ps2, rfl, h1, h3⟩
    · intro x
      simp only [List.flatten_cons, List.mem_append]
      constructor
      · rintro (h | h | h)
        · exact Or.inr (Or.inl h)
        · exact Or.inl h
        · exact Or.inr (Or.inr h)
      · rintro (h | h | h)
        · exact Or.inr (Or.inl h)
        · exact Or.inl h
        · exact Or.inr (Or.inr h)
  | trans _ _ ih1 ih2 =>
    intro ps h
    obtain ⟨ps1, h1, m1⟩ := ih1 ps h
    obtain ⟨ps2, h2, m2⟩ := ih2 ps1 h1
    exact ⟨ps2, h2, fun x => (m1 x).trans (m2 x)⟩

theorem semSome_perm {cs cs' : List PTree} (h : cs.Perm cs') : ∀ (ps : List (List String)),
    PTree.semSome cs ps → ∃ ps', PTree.semSome cs' ps' ∧ (ps ≠ [] → ps' ≠ []) ∧
      ∀ x, x ∈ ps.flatten ↔ x ∈ ps'.flatten := by
  induction h with
  | nil => exact fun ps h => ⟨ps, h, id, fun _ => Iff.rfl⟩
  | cons c _ ih =>
    intro ps h
    simp only [PTree.semSome] at h
    rcases h with h | ⟨p, ps1, rfl, h1, h2⟩
    · obtain ⟨ps', h3, hne, hm⟩ := ih ps h
      exact ⟨ps', by simp only [PTree.semSome]; exact Or.inl h3, hne, hm⟩
    · obtain ⟨ps', h3, _, hm⟩ := ih ps1 h2
      refine ⟨p :: ps', ?_, fun _ => by simp, ?_⟩
      · simp only [PTree.semSome]
        exact Or.inr ⟨p, ps', rfl, h1, h3⟩
      · intro x
        simp only [List.flatten_cons, List.mem_append, hm x]
  | swap a b l =>
    intro ps h
    simp only [PTree.semSome] at h
    rcases h with (h | ⟨q, ps2, rfl, h2, h3⟩) | ⟨p, ps1, rfl, h1, (h | ⟨q, ps2, rfl, h2, h3⟩)⟩
    · exact ⟨ps, by simp only [PTree.semSome]; exact Or.inl (Or.inl h), id, fun _ => Iff.rfl⟩
    · refine ⟨q :: ps2, ?_, id, fun _ => Iff.rfl⟩
      simp only [PTree.semSome]
      exact Or.inr ⟨q, ps2, rfl, h2, Or.inl h3⟩
    · refine ⟨p :: ps1, ?_, id, fun _ => Iff.rfl⟩
      simp only [PTree.semSome]
      exact Or.inl (Or.inr ⟨p, ps1, rfl, h1, h⟩)
    · refine ⟨q :: p :: ps2, ?_, fun _ => by simp, ?_⟩
      · simp only [PTree.semSome]
        exact Or.inr ⟨q, _, rfl, h2, Or.inr ⟨p, ps2, rfl, h1, h3⟩⟩
      · intro x
        simp only [List.flatten_cons, List.mem_append]
        constructor
        · rintro (h | h | h)
          · exact Or.inr (Or.inl h)
          · exact Or.inl h
          · exact Or.inr (Or.inr h)
        · rintro (h | h | h)
          · exact Or.inr (Or.inl h)
          · exact Or.inl h
          · exact Or.inr (Or.inr h)
  | trans _ _ ih1 ih2 =>
    intro ps h
    obtain ⟨ps1, h1, n1, m1⟩ := ih1 ps h
    obtain ⟨ps2, h2, n2, m2⟩ := ih2 ps1 h1
    exact ⟨ps2, h2, fun hne => n2 (n1 hne), fun x => (m1 x).trans (m2 x)⟩

/-- **order of children does not matter** -/
theorem sem_perm (op : POp) {cs cs' : List PTree} (h : cs.Perm cs') (s : List String) :
    (PTree.node op cs).sem s → (PTree.node op cs').sem s := by
  cases op with
  | xor => simp only [PTree.sem]; exact semAny_perm h s
  | and =>
    simp only [PTree.sem]
    rintro ⟨ps, h1, h2⟩
    obtain ⟨ps', h3, hm⟩ := semAll_perm h ps h1
    exact ⟨ps', h3, fun x => (h2 x).trans (hm x)⟩
  | or =>
    simp only [PTree.sem]
    rintro ⟨ps, h1, hne, h2⟩
    obtain ⟨ps', h3, hne', hm⟩ := semSome_perm h ps h1
    exact ⟨ps', h3, hne' hne, fun x => (h2 x).trans (hm x)⟩
  | other => simp only [PTree.sem]; exact id

end O2P.Gate
