import O2P.Lemmas.CivilCheck
namespace O2P.Time
/-- days 0 .. 7999: the whole table, checked by the kernel -/
theorem civilTable0 : allRange 0 8000 = true := by decide +kernel
end O2P.Time
