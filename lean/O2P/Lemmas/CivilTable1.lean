import O2P.Lemmas.CivilCheck
namespace O2P.Time
/-- days 8000 .. 15999: the whole table, checked by the kernel -/
theorem civilTable1 : allRange 8000 8000 = true := by decide +kernel
end O2P.Time
