import O2P.Lemmas.CivilTable0
import O2P.Lemmas.CivilTable1
import O2P.Lemmas.CivilTable2
import O2P.Lemmas.CivilTable3
import O2P.Lemmas.CivilTable4
import O2P.Lemmas.CivilTable5
namespace O2P.Time

/-- Every day of 1970-01-01 .. 2100-12-31 round-trips through the civil date with fields in range. -/
theorem civilOk_all {n : Nat} (h : n < maxDay) : civilOk n = true := by
  unfold maxDay at h
  by_cases h0 : n < 8000
  · exact allRange_spec civilTable0 (by omega) (by omega)
  by_cases h1 : n < 16000
  · exact allRange_spec civilTable1 (by omega) (by omega)
  by_cases h2 : n < 24000
  · exact allRange_spec civilTable2 (by omega) (by omega)
  by_cases h3 : n < 32000
  · exact allRange_spec civilTable3 (by omega) (by omega)
  by_cases h4 : n < 40000
  · exact allRange_spec civilTable4 (by omega) (by omega)
  · exact allRange_spec civilTable5 (by omega) (by omega)

end O2P.Time
