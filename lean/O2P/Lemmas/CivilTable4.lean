import O2P.Lemmas.CivilCheck
namespace O2P.Time
/-- days 32000 .. 39999: the whole table, checked by the kernel -/
theorem civilTable4 : allRange 32000 8000 = true := by decide +kernel
end O2P.Time
