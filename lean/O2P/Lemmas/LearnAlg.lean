import O2P.Model.Learn
/-!
Semantic view of the learner's model and the characterisation of ingestion: after ingesting a list of
jobs the model holds exactly the successor / predecessor multisets that were observed (plus what it held
before) — `ingest_sem`.  Everything C03, C04 and C14 need about ingestion follows from it.
-/
namespace O2P.Learn

def hasType (m : Model) (t : String) : Prop := ∃ e ∈ m, e.typ = t
def outSem (m : Model) (t : String) (T : ESet) : Prop := ∃ e ∈ m, e.typ = t ∧ ∃ S ∈ e.outs, S.Perm T
def inSem (m : Model) (t : String) (T : ESet) : Prop := ∃ e ∈ m, e.typ = t ∧ ∃ S ∈ e.ins, S.Perm T

/-- two models are equivalent when they know the same event types and hold the same multisets -/
def Equiv (m m' : Model) : Prop :=
  (∀ t, hasType m t ↔ hasType m' t) ∧ (∀ t T, outSem m t T ↔ outSem m' t T) ∧ (∀ t T, inSem m t T ↔ inSem m' t T)

theorem Equiv.refl (m : Model) : Equiv m m := ⟨fun _ => Iff.rfl, fun _ _ => Iff.rfl, fun _ _ => Iff.rfl⟩
theorem Equiv.symm {m m' : Model} (h : Equiv m m') : Equiv m' m :=
  ⟨fun t => (h.1 t).symm, fun t T => (h.2.1 t T).symm, fun t T => (h.2.2 t T).symm⟩
theorem Equiv.trans {a b c : Model} (h1 : Equiv a b) (h2 : Equiv b c) : Equiv a c :=
  ⟨fun t => (h1.1 t).trans (h2.1 t), fun t T => (h1.2.1 t T).trans (h2.2.1 t T),
   fun t T => (h1.2.2 t T).trans (h2.2.2 t T)⟩

/-! ### families -/

def famSem (fam : List ESet) (T : ESet) : Prop := ∃ S ∈ fam, S.Perm T

theorem hasSet_iff (fam : List ESet) (S : ESet) : hasSet fam S = true ↔ famSem fam S := by
  unfold hasSet famSem
  rw [List.any_eq_true]
  constructor
  · rintro ⟨X, hX, h⟩; exact ⟨X, hX, List.isPerm_iff.mp h⟩
  · rintro ⟨X, hX, h⟩; exact ⟨X, hX, List.isPerm_iff.mpr h⟩

theorem famSem_addSet (fam : List ESet) (S T : ESet) :
    famSem (addSet fam S) T ↔ famSem fam T ∨ (S ≠ [] ∧ S.Perm T) := by
  unfold addSet
  by_cases he : S = []
  · subst he
    simp only [List.isEmpty_nil, Bool.true_or, if_true, ne_eq, not_true_eq_false, false_and, or_false]
  · have hne : S.isEmpty = false := by
      cases S with
      | nil => exact absurd rfl he
      | cons _ _ => rfl
    by_cases hs : hasSet fam S = true
    · simp only [hne, hs, Bool.false_or, if_true]
      constructor
      · exact Or.inl
      · rintro (h | ⟨_, h⟩)
        · exact h
        · obtain ⟨X, hX, hp⟩ := (hasSet_iff fam S).mp hs
          exact ⟨X, hX, hp.trans h⟩
    · simp only [hne, hs, Bool.false_or]
      rw [if_neg (by simp)]
      unfold famSem
      simp only [List.mem_append, List.mem_singleton]
      constructor
      · rintro ⟨X, hX | rfl, hp⟩
        · exact Or.inl ⟨X, hX, hp⟩
        · exact Or.inr ⟨he, hp⟩
      · rintro (⟨X, hX, hp⟩ | ⟨_, hp⟩)
        · exact ⟨X, Or.inl hX, hp⟩
        · exact ⟨S, Or.inr rfl, hp⟩

/-! ### single updates -/

theorem ensure_mem (m : Model) (t : String) (e : Ev) :
    e ∈ ensure m t ↔ e ∈ m ∨ (¬ hasType m t ∧ e = ⟨t, [], []⟩) := by
  unfold ensure hasType
  by_cases h : m.any (·.typ == t) = true
  · simp only [h, if_true]
    constructor
    · exact Or.inl
    · rintro (h1 | ⟨h2, _⟩)
      · exact h1
      · exfalso; apply h2
        obtain ⟨x, hx, hxt⟩ := List.any_eq_true.mp h
        exact ⟨x, hx, by simpa using hxt⟩
  · simp only [h]
    rw [if_neg (by simp)]
    simp only [List.mem_append, List.mem_singleton]
    constructor
    · rintro (h1 | h1)
      · exact Or.inl h1
      · refine Or.inr ⟨?_, h1⟩
        rintro ⟨x, hx, hxt⟩
        apply h
        exact List.any_eq_true.mpr ⟨x, hx, by simpa using hxt⟩
    · rintro (h1 | ⟨_, h1⟩)
      · exact Or.inl h1
      · exact Or.inr h1

theorem hasType_ensure (m : Model) (t u : String) : hasType (ensure m t) u ↔ hasType m u ∨ u = t := by
  unfold hasType
  constructor
  · rintro ⟨e, he, rfl⟩
    rcases (ensure_mem m t e).mp he with h | ⟨_, rfl⟩
    · exact Or.inl ⟨e, h, rfl⟩
    · exact Or.inr rfl
  · rintro (⟨e, he, rfl⟩ | rfl)
    · exact ⟨e, (ensure_mem m t e).mpr (Or.inl he), rfl⟩
    · by_cases h : hasType m u
      · obtain ⟨e, he, ht⟩ := h
        exact ⟨e, (ensure_mem m u e).mpr (Or.inl he), ht⟩
      · exact ⟨⟨u, [], []⟩, (ensure_mem m u _).mpr (Or.inr ⟨h, rfl⟩), rfl⟩

theorem ensure_has (m : Model) (t : String) : hasType (ensure m t) t := (hasType_ensure m t t).mpr (Or.inr rfl)

theorem outSem_ensure (m : Model) (t u : String) (T : ESet) : outSem (ensure m t) u T ↔ outSem m u T := by
  unfold outSem
  constructor
  · rintro ⟨e, he, hu, S, hS, hp⟩
    rcases (ensure_mem m t e).mp he with h | ⟨_, rfl⟩
    · exact ⟨e, h, hu, S, hS, hp⟩
    · simp at hS
  · rintro ⟨e, he, r⟩
    exact ⟨e, (ensure_mem m t e).mpr (Or.inl he), r⟩

theorem inSem_ensure (m : Model) (t u : String) (T : ESet) : inSem (ensure m t) u T ↔ inSem m u T := by
  unfold inSem
  constructor
  · rintro ⟨e, he, hu, S, hS, hp⟩
    rcases (ensure_mem m t e).mp he with h | ⟨_, rfl⟩
    · exact ⟨e, h, hu, S, hS, hp⟩
    · simp at hS
  · rintro ⟨e, he, r⟩
    exact ⟨e, (ensure_mem m t e).mpr (Or.inl he), r⟩

theorem hasType_map (m : Model) (f : Ev → Ev) (hf : ∀ e, (f e).typ = e.typ) (u : String) :
    hasType (m.map f) u ↔ hasType m u := by
  unfold hasType
  constructor
  · rintro ⟨e, he, rfl⟩
    obtain ⟨x, hx, rfl⟩ := List.mem_map.mp he
    exact ⟨x, hx, (hf x).symm⟩
  · rintro ⟨e, he, rfl⟩
    exact ⟨f e, List.mem_map.mpr ⟨e, he, rfl⟩, hf e⟩

theorem hasType_updOut (m : Model) (t : String) (S : ESet) (u : String) :
    hasType (updOut m t S) u ↔ hasType m u ∨ u = t := by
  unfold updOut
  rw [hasType_map _ _ (by intro e; split <;> rfl), hasType_ensure]

theorem hasType_updIn (m : Model) (t : String) (S : ESet) (u : String) :
    hasType (updIn m t S) u ↔ hasType m u ∨ u = t := by
  unfold updIn
  rw [hasType_map _ _ (by intro e; split <;> rfl), hasType_ensure]

theorem outSem_updOut (m : Model) (t : String) (S : ESet) (u : String) (T : ESet) :
    outSem (updOut m t S) u T ↔ outSem m u T ∨ (u = t ∧ S ≠ [] ∧ S.Perm T) := by
  unfold updOut
  constructor
  · rintro ⟨e, he, hu, hfam⟩
    obtain ⟨x, hx, rfl⟩ := List.mem_map.mp he
    by_cases hxt : (x.typ == t) = true
    · simp only [hxt, if_true] at hu hfam
      rcases (famSem_addSet x.outs S T).mp hfam with h | h
      · exact Or.inl ((outSem_ensure m t u T).mp ⟨x, hx, hu, h⟩)
      · exact Or.inr ⟨hu.symm.trans (by simpa using hxt), h⟩
    · simp only [hxt] at hu hfam
      exact Or.inl ((outSem_ensure m t u T).mp ⟨x, hx, hu, hfam⟩)
  · rintro (h | ⟨rfl, hne, hp⟩)
    · obtain ⟨x, hx, hu, hfam⟩ := (outSem_ensure m t u T).mpr h
      refine ⟨_, List.mem_map.mpr ⟨x, hx, rfl⟩, ?_, ?_⟩
      · split <;> exact hu
      · split
        · exact (famSem_addSet x.outs S T).mpr (Or.inl hfam)
        · exact hfam
    · obtain ⟨x, hx, hxt⟩ := ensure_has m u
      refine ⟨_, List.mem_map.mpr ⟨x, hx, rfl⟩, ?_, ?_⟩
      · simp only [hxt, beq_self_eq_true, if_true]
      · simp only [hxt, beq_self_eq_true, if_true]
        exact (famSem_addSet x.outs S T).mpr (Or.inr ⟨hne, hp⟩)

theorem inSem_updOut (m : Model) (t : String) (S : ESet) (u : String) (T : ESet) :
    inSem (updOut m t S) u T ↔ inSem m u T := by
  unfold updOut
  rw [← inSem_ensure m t u T]
  unfold inSem
  constructor
  · rintro ⟨e, he, hu, hfam⟩
    obtain ⟨x, hx, rfl⟩ := List.mem_map.mp he
    refine ⟨x, hx, ?_, ?_⟩
    · split at hu <;> exact hu
    · split at hfam <;> exact hfam
  · rintro ⟨x, hx, hu, hfam⟩
    refine ⟨_, List.mem_map.mpr ⟨x, hx, rfl⟩, ?_, ?_⟩
    · split <;> exact hu
    · split <;> exact hfam

theorem inSem_updIn (m : Model) (t : String) (S : ESet) (u : String) (T : ESet) :
    inSem (updIn m t S) u T ↔ inSem m u T ∨ (u = t ∧ S ≠ [] ∧ S.Perm T) := by
  unfold updIn
  constructor
  · rintro ⟨e, he, hu, hfam⟩
    obtain ⟨x, hx, rfl⟩ := List.mem_map.mp he
    by_cases hxt : (x.typ == t) = true
    · simp only [hxt, if_true] at hu hfam
      rcases (famSem_addSet x.ins S T).mp hfam with h | h
      · exact Or.inl ((inSem_ensure m t u T).mp ⟨x, hx, hu, h⟩)
      · exact Or.inr ⟨hu.symm.trans (by simpa using hxt), h⟩
    · simp only [hxt] at hu hfam
      exact Or.inl ((inSem_ensure m t u T).mp ⟨x, hx, hu, hfam⟩)
  · rintro (h | ⟨rfl, hne, hp⟩)
    · obtain ⟨x, hx, hu, hfam⟩ := (inSem_ensure m t u T).mpr h
      refine ⟨_, List.mem_map.mpr ⟨x, hx, rfl⟩, ?_, ?_⟩
      · split <;> exact hu
      · split
        · exact (famSem_addSet x.ins S T).mpr (Or.inl hfam)
        · exact hfam
    · obtain ⟨x, hx, hxt⟩ := ensure_has m u
      refine ⟨_, List.mem_map.mpr ⟨x, hx, rfl⟩, ?_, ?_⟩
      · simp only [hxt, beq_self_eq_true, if_true]
      · simp only [hxt, beq_self_eq_true, if_true]
        exact (famSem_addSet x.ins S T).mpr (Or.inr ⟨hne, hp⟩)

theorem outSem_updIn (m : Model) (t : String) (S : ESet) (u : String) (T : ESet) :
    outSem (updIn m t S) u T ↔ outSem m u T := by
  unfold updIn
  rw [← outSem_ensure m t u T]
  unfold outSem
  constructor
  · rintro ⟨e, he, hu, hfam⟩
    obtain ⟨x, hx, rfl⟩ := List.mem_map.mp he
    refine ⟨x, hx, ?_, ?_⟩
    · split at hu <;> exact hu
    · split at hfam <;> exact hfam
  · rintro ⟨x, hx, hu, hfam⟩
    refine ⟨_, List.mem_map.mpr ⟨x, hx, rfl⟩, ?_, ?_⟩
    · split <;> exact hu
    · split <;> exact hfam

/-! ### what one job shows -/

/-- the job shows the event type `u` -/
def obsType (job : List PV) (u : String) : Prop := (∃ e ∈ job, e.typ = u) ∨ u = dummyStart

/-- the job shows the multiset `T` directly after an event of type `u` -/
def obsOut (job : List PV) (u : String) (T : ESet) : Prop :=
  (∃ e ∈ job, e.typ = u ∧ postTypes job e ≠ [] ∧ (postTypes job e).Perm T) ∨
  (u = dummyStart ∧ startTypes job ≠ [] ∧ (startTypes job).Perm T)

/-- the job shows the multiset `T` directly before an event of type `u` -/
def obsIn (job : List PV) (u : String) (T : ESet) : Prop :=
  ∃ e ∈ job, e.typ = u ∧ prevTypes job e ≠ [] ∧ (prevTypes job e).Perm T

def jobStep (job : List PV) (acc : Model) (e : PV) : Model :=
  updIn (updOut acc e.typ (postTypes job e)) e.typ (prevTypes job e)

theorem foldl_jobStep_sem (job : List PV) : ∀ (es : List PV) (acc : Model),
    (∀ u, hasType (es.foldl (jobStep job) acc) u ↔ hasType acc u ∨ ∃ e ∈ es, e.typ = u) ∧
    (∀ u T, outSem (es.foldl (jobStep job) acc) u T ↔
      outSem acc u T ∨ ∃ e ∈ es, e.typ = u ∧ postTypes job e ≠ [] ∧ (postTypes job e).Perm T) ∧
    (∀ u T, inSem (es.foldl (jobStep job) acc) u T ↔
      inSem acc u T ∨ ∃ e ∈ es, e.typ = u ∧ prevTypes job e ≠ [] ∧ (prevTypes job e).Perm T)
  | [], acc => by simp
  | e :: es, acc => by
    obtain ⟨h1, h2, h3⟩ := foldl_jobStep_sem job es (jobStep job acc e)
    simp only [List.foldl_cons]
    refine ⟨?_, ?_, ?_⟩
    · intro u
      rw [h1 u]
      unfold jobStep
      rw [hasType_updIn, hasType_updOut]
      simp only [List.mem_cons, exists_eq_or_imp]
      constructor
      · rintro ((( h | h) | h) | h)
        · exact Or.inl h
        · exact Or.inr (Or.inl h.symm)
        · exact Or.inr (Or.inl h.symm)
        · exact Or.inr (Or.inr h)
      · rintro (h | h | h)
        · exact Or.inl (Or.inl (Or.inl h))
        · exact Or.inl (Or.inr h.symm)
        · exact Or.inr h
    · intro u T
      rw [h2 u T]
      unfold jobStep
      rw [outSem_updIn, outSem_updOut]
      simp only [List.mem_cons, exists_eq_or_imp]
      constructor
      · rintro ((h | ⟨rfl, h⟩) | h)
        · exact Or.inl h
        · exact Or.inr (Or.inl ⟨rfl, h⟩)
        · exact Or.inr (Or.inr h)
      · rintro (h | ⟨rfl, h⟩ | h)
        · exact Or.inl (Or.inl h)
        · exact Or.inl (Or.inr ⟨rfl, h⟩)
        · exact Or.inr h
    · intro u T
      rw [h3 u T]
      unfold jobStep
      rw [inSem_updIn, inSem_updOut]
      simp only [List.mem_cons, exists_eq_or_imp]
      constructor
      · rintro ((h | ⟨rfl, h⟩) | h)
        · exact Or.inl h
        · exact Or.inr (Or.inl ⟨rfl, h⟩)
        · exact Or.inr (Or.inr h)
      · rintro (h | ⟨rfl, h⟩ | h)
        · exact Or.inl (Or.inl h)
        · exact Or.inl (Or.inr ⟨rfl, h⟩)
        · exact Or.inr h

/-- **one job adds exactly what it shows** -/
theorem ingestJob_sem (m : Model) (job : List PV) :
    (∀ u, hasType (ingestJob m job) u ↔ hasType m u ∨ obsType job u) ∧
    (∀ u T, outSem (ingestJob m job) u T ↔ outSem m u T ∨ obsOut job u T) ∧
    (∀ u T, inSem (ingestJob m job) u T ↔ inSem m u T ∨ obsIn job u T) := by
  obtain ⟨h1, h2, h3⟩ := foldl_jobStep_sem job job m
  have e : ingestJob m job = updOut (job.foldl (jobStep job) m) dummyStart (startTypes job) := rfl
  rw [e]
  refine ⟨?_, ?_, ?_⟩
  · intro u
    rw [hasType_updOut, h1 u]
    unfold obsType
    constructor
    · rintro ((h | h) | h)
      · exact Or.inl h
      · exact Or.inr (Or.inl h)
      · exact Or.inr (Or.inr h)
    · rintro (h | h | h)
      · exact Or.inl (Or.inl h)
      · exact Or.inl (Or.inr h)
      · exact Or.inr h
  · intro u T
    rw [outSem_updOut, h2 u T]
    unfold obsOut
    constructor
    · rintro ((h | h) | h)
      · exact Or.inl h
      · exact Or.inr (Or.inl h)
      · exact Or.inr (Or.inr h)
    · rintro (h | h | h)
      · exact Or.inl (Or.inl h)
      · exact Or.inl (Or.inr h)
      · exact Or.inr h
  · intro u T
    rw [inSem_updOut, h3 u T]
    rfl

/-- **ingestion adds exactly what the jobs show**: the learned model is the set of observed successor
and predecessor multisets per event type, nothing more and nothing less -/
theorem ingest_sem : ∀ (jobs : List (List PV)) (m : Model),
    (∀ u, hasType (ingest m jobs) u ↔ hasType m u ∨ ∃ j ∈ jobs, obsType j u) ∧
    (∀ u T, outSem (ingest m jobs) u T ↔ outSem m u T ∨ ∃ j ∈ jobs, obsOut j u T) ∧
    (∀ u T, inSem (ingest m jobs) u T ↔ inSem m u T ∨ ∃ j ∈ jobs, obsIn j u T)
  | [], m => by simp [ingest]
  | j :: js, m => by
    obtain ⟨h1, h2, h3⟩ := ingest_sem js (ingestJob m j)
    obtain ⟨g1, g2, g3⟩ := ingestJob_sem m j
    have e : ingest m (j :: js) = ingest (ingestJob m j) js := rfl
    rw [e]
    refine ⟨?_, ?_, ?_⟩
    · intro u
      rw [h1 u, g1 u]
      simp only [List.mem_cons, exists_eq_or_imp]
      exact or_assoc
    · intro u T
      rw [h2 u T, g2 u T]
      simp only [List.mem_cons, exists_eq_or_imp]
      exact or_assoc
    · intro u T
      rw [h3 u T, g3 u T]
      simp only [List.mem_cons, exists_eq_or_imp]
      exact or_assoc

/-- ingestion respects model equivalence -/
theorem ingest_congr (jobs : List (List PV)) (m m' : Model) (h : Equiv m m') :
    Equiv (ingest m jobs) (ingest m' jobs) := by
  obtain ⟨a1, a2, a3⟩ := ingest_sem jobs m
  obtain ⟨b1, b2, b3⟩ := ingest_sem jobs m'
  refine ⟨?_, ?_, ?_⟩
  · intro t; rw [a1 t, b1 t, h.1 t]
  · intro t T; rw [a2 t T, b2 t T, h.2.1 t T]
  · intro t T; rw [a3 t T, b3 t T, h.2.2 t T]

/-- two lists of jobs that show the same things give equivalent models -/
theorem ingest_equiv_of_same_obs (m : Model) (jobs jobs' : List (List PV))
    (h1 : ∀ u, (∃ j ∈ jobs, obsType j u) ↔ ∃ j ∈ jobs', obsType j u)
    (h2 : ∀ u T, (∃ j ∈ jobs, obsOut j u T) ↔ ∃ j ∈ jobs', obsOut j u T)
    (h3 : ∀ u T, (∃ j ∈ jobs, obsIn j u T) ↔ ∃ j ∈ jobs', obsIn j u T) :
    Equiv (ingest m jobs) (ingest m jobs') := by
  obtain ⟨a1, a2, a3⟩ := ingest_sem jobs m
  obtain ⟨b1, b2, b3⟩ := ingest_sem jobs' m
  refine ⟨?_, ?_, ?_⟩
  · intro t; rw [a1 t, b1 t, h1 t]
  · intro t T; rw [a2 t T, b2 t T, h2 t T]
  · intro t T; rw [a3 t T, b3 t T, h3 t T]

end O2P.Learn
