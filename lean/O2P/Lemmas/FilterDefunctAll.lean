/-
The defunct-OR filter over the whole tree (`filter_defunct_or_gates` = `filterDefunct`, with Python's iteration by
position over the list it is mutating and `list.remove` by structural equality): the filtered tree stands for the tree
it was computed from, in the sense of `Good`.  Flattening an OR gate into its parent OR gate does not change what the
parent produces.  Core Lean only.
-/
import O2P.Lemmas.MissingAndAll
namespace O2P.Gate

/-! ### `list.remove` by structural equality -/

mutual
theorem beq_eq : ∀ (a b : PTree), a.beq b = true → a = b
  | .leaf a, .leaf b, h => by simp only [PTree.beq, beq_iff_eq] at h; rw [h]
  | .tau, .tau, _ => rfl
  | .node o1 c1, .node o2 c2, h => by
    simp only [PTree.beq, Bool.and_eq_true, beq_iff_eq] at h
    rw [h.1, beqL_eq c1 c2 h.2]
  | .leaf _, .tau, h => by simp [PTree.beq] at h
  | .leaf _, .node _ _, h => by simp [PTree.beq] at h
  | .tau, .leaf _, h => by simp [PTree.beq] at h
  | .tau, .node _ _, h => by simp [PTree.beq] at h
  | .node _ _, .leaf _, h => by simp [PTree.beq] at h
  | .node _ _, .tau, h => by simp [PTree.beq] at h
theorem beqL_eq : ∀ (a b : List PTree), PTree.beqL a b = true → a = b
  | [], [], _ => rfl
  | x :: xs, y :: ys, h => by
    simp only [PTree.beqL, Bool.and_eq_true] at h
    rw [beq_eq x y h.1, beqL_eq xs ys h.2]
  | [], _ :: _, h => by simp [PTree.beqL] at h
  | _ :: _, [], h => by simp [PTree.beqL] at h
end

mutual
theorem beq_refl : ∀ (a : PTree), a.beq a = true
  | .leaf a => by simp [PTree.beq]
  | .tau => rfl
  | .node o c => by simp [PTree.beq, beqL_refl c]
theorem beqL_refl : ∀ (a : List PTree), PTree.beqL a a = true
  | [] => rfl
  | x :: xs => by simp [PTree.beqL, beq_refl x, beqL_refl xs]
end

theorem removeFirst_split (x : PTree) : ∀ (cs : List PTree), x ∈ cs →
    ∃ l1 l2, cs = l1 ++ x :: l2 ∧ removeFirst x cs = l1 ++ l2
  | [], h => by cases h
  | y :: ys, h => by
    simp only [removeFirst]
    by_cases hb : y.beq x = true
    · have := beq_eq y x hb
      subst this
      exact ⟨[], ys, rfl, by simp [hb]⟩
    · have hx : x ∈ ys := by
        rcases List.mem_cons.mp h with rfl | h
        · exact absurd (beq_refl x) hb
        · exact h
      obtain ⟨l1, l2, e1, e2⟩ := removeFirst_split x ys hx
      refine ⟨y :: l1, l2, by rw [e1]; rfl, ?_⟩
      simp only [hb, Bool.false_eq_true, if_false, e2, List.cons_append]

/-! ### flattening an OR gate into its parent OR gate -/

theorem semSome_split : ∀ (a b : List PTree) (ps : List (List String)), PTree.semSome (a ++ b) ps →
    ∃ pa pb, ps = pa ++ pb ∧ PTree.semSome a pa ∧ PTree.semSome b pb
  | [], b, ps, h => ⟨[], ps, rfl, by simp [PTree.semSome], h⟩
  | c :: a, b, ps, h => by
    simp only [List.cons_append, PTree.semSome] at h
    rcases h with h | ⟨p, ps', rfl, h1, h2⟩
    · obtain ⟨pa, pb, e, ha, hb⟩ := semSome_split a b ps h
      exact ⟨pa, pb, e, by simp only [PTree.semSome]; exact Or.inl ha, hb⟩
    · obtain ⟨pa, pb, e, ha, hb⟩ := semSome_split a b ps' h2
      refine ⟨p :: pa, pb, by rw [e]; rfl, ?_, hb⟩
      simp only [PTree.semSome]
      exact Or.inr ⟨p, pa, rfl, h1, ha⟩

theorem flatten_sem (l1 l2 gcs : List PTree) (s : List String)
    (h : (PTree.node .or (l1 ++ .node .or gcs :: l2)).sem s) : (PTree.node .or (l1 ++ l2 ++ gcs)).sem s := by
  simp only [PTree.sem] at h ⊢
  obtain ⟨ps, h1, hne, h2⟩ := h
  obtain ⟨pa, pb, rfl, ha, hb⟩ := semSome_split l1 _ ps h1
  simp only [PTree.semSome] at hb
  rcases hb with hb | ⟨p, pb', rfl, hp, hb⟩
  · refine ⟨pa ++ pb ++ [], ?_, by simpa using hne, by simpa using h2⟩
    exact semSome_append _ _ _ _ (semSome_append _ _ _ _ ha hb) (semSome_none gcs)
  · simp only [PTree.sem] at hp
    obtain ⟨qs, hq, hqne, hqs⟩ := hp
    refine ⟨pa ++ pb' ++ qs, semSome_append _ _ _ _ (semSome_append _ _ _ _ ha hb) hq, ?_, ?_⟩
    · intro e
      have := List.append_eq_nil_iff.mp e
      exact hqne this.2
    · intro x
      rw [h2 x]
      simp only [List.flatten_append, List.flatten_cons, List.mem_append, hqs x]
      constructor
      · rintro (h | h | h)
        · exact Or.inl (Or.inl h)
        · exact Or.inr h
        · exact Or.inl (Or.inr h)
      · rintro ((h | h) | h)
        · exact Or.inl h
        · exact Or.inr (Or.inr h)
        · exact Or.inr (Or.inl h)

theorem flatten_good (F : List (List String)) (l1 l2 gcs : List PTree) :
    Good F (.node .or (l1 ++ .node .or gcs :: l2)) (.node .or (l1 ++ l2 ++ gcs)) := by
  refine ⟨fun s _ h => flatten_sem l1 l2 gcs s h, ?_, ?_⟩
  · intro x hx
    simp only [PTree.labels, labelsL_append, PTree.labelsL, List.mem_append] at hx ⊢
    rcases hx with (h | h) | h
    · exact Or.inl h
    · exact Or.inr (Or.inr h)
    · exact Or.inr (Or.inl h)
  · intro h
    simp only [PTree.labels, labelsL_append, PTree.labelsL] at h ⊢
    refine List.Perm.nodup (List.Perm.filter _ ?_) h
    rw [List.append_assoc]
    exact List.Perm.append_left _ List.perm_append_comm

/-! ### the loop -/

theorem rel2_set (F : List (List String)) (c' : PTree) : ∀ (cs : List PTree) (i : Nat) (c : PTree),
    cs[i]? = some c → Good F c c' → Rel2 (Good F) cs (cs.set i c')
  | [], _, _, h, _ => by simp at h
  | d :: ds, 0, c, h, hg => by
    simp only [List.getElem?_cons_zero, Option.some.injEq] at h
    subst h
    exact .cons hg (rel2_refl (Good.refl F) ds)
  | d :: ds, i + 1, c, h, hg => by
    simp only [List.getElem?_cons_succ] at h
    exact .cons (Good.refl F d) (rel2_set F c' ds i c h hg)

theorem filter_good (F : List (List String)) (hF : ∀ s0 ∈ F, "" ∉ s0) : ∀ (fuel : Nat),
    (∀ (t : PTree), (NE t.labels).Nodup → Good F t (filterDefunct fuel t)) ∧
    (∀ (pop : POp) (i : Nat) (cs : List PTree), (NE (PTree.labelsL cs)).Nodup →
      Good F (.node pop cs) (.node pop (filterLoop fuel pop i cs)))
  | 0 => ⟨fun t _ => by simp only [filterDefunct]; exact Good.refl F t,
          fun pop i cs _ => by simp only [filterLoop]; exact Good.refl F _⟩
  | fuel + 1 => by
    obtain ⟨ihA, ihB⟩ := filter_good F hF fuel
    constructor
    · intro t hnd
      cases t with
      | leaf a => simp only [filterDefunct]; exact Good.refl F _
      | tau => simp only [filterDefunct]; exact Good.refl F _
      | node op cs =>
        simp only [filterDefunct]
        exact ihB op 0 cs (by simpa only [PTree.labels] using hnd)
    · intro pop i cs hnd
      simp only [filterLoop]
      cases hi : cs[i]? with
      | none => exact Good.refl F _
      | some c =>
        simp only
        have hc : c ∈ cs := List.mem_of_getElem? hi
        have hgc : Good F c (filterDefunct fuel c) := ihA c (nd_child hnd c hc)
        have hset : Good F (.node pop cs) (.node pop (cs.set i (filterDefunct fuel c))) :=
          node_congr_rel F hF pop cs _ hnd (rel2_set F _ cs i c hi hgc)
        have hnd1 : (NE (PTree.labelsL (cs.set i (filterDefunct fuel c)))).Nodup := by
          have := hset.nd (by simpa only [PTree.labels] using hnd)
          simpa only [PTree.labels] using this
        by_cases hcond : ((filterDefunct fuel c).opOf == some POp.or && pop == POp.or) = true
        · simp only [hcond, if_true]
          simp only [Bool.and_eq_true, beq_iff_eq] at hcond
          obtain ⟨hop, hpop⟩ := hcond
          subst hpop
          -- the filtered child is an OR gate
          cases hc' : filterDefunct fuel c with
          | leaf a => rw [hc'] at hop; simp [PTree.opOf] at hop
          | tau => rw [hc'] at hop; simp [PTree.opOf] at hop
          | node op' gcs =>
            rw [hc'] at hop hset hnd1
            simp only [PTree.opOf, Option.some.injEq] at hop
            subst hop
            have hmem : PTree.node .or gcs ∈ cs.set i (.node .or gcs) := by
              have hlt : i < cs.length := by
                rcases List.getElem?_eq_some_iff.mp hi with ⟨h, _⟩
                exact h
              exact List.mem_iff_getElem.mpr ⟨i, by simpa using hlt, by simp⟩
            obtain ⟨l1, l2, e1, e2⟩ := removeFirst_split _ _ hmem
            simp only [PTree.children]
            rw [e2]
            have hflat := flatten_good F l1 l2 gcs
            rw [← e1] at hflat
            have hnd2 : (NE (PTree.labelsL (l1 ++ l2 ++ gcs))).Nodup := by
              have := hflat.nd (by simpa only [PTree.labels] using hnd1)
              simpa only [PTree.labels] using this
            exact (hset.trans hflat).trans (ihB .or (i + 1) _ hnd2)
        · simp only [hcond, Bool.false_eq_true, if_false]
          exact hset.trans (ihB pop (i + 1) _ hnd1)

end O2P.Gate
