/-
The block parser recovers every well-formed diagram from its token stream: `parseToks (renderFile d) = d`.
So a text the learner emits is rejected by the judge only if it is not the rendering of any block diagram
(completeness of the grammar; soundness is `parse_ok_core`).  Core Lean only.
-/
import O2P.Model.Diagram
namespace O2P.Diagram

mutual
/-- the token stream of a block -/
def render : Blk → List Tok
  | .ev n => [.ev n]
  | .brk => [.brk]
  | .detach => [.detach]
  | .loop b => .repeat_ :: render b ++ [.repeatWhile]
  | .fork op bs => .open_ op :: (if op == .xor then [.again .xor] else []) ++ renderBranches op bs ++ [.close op]
  | .seq l => renderL l
def renderL : List Blk → List Tok
  | [] => []
  | b :: bs => render b ++ renderL bs
def renderBranches (op : Op) : List Blk → List Tok
  | [] => []
  | b :: bs => render b ++ (match bs with
      | [] => []
      | _ :: _ => .again op :: renderBranches op bs)
end

mutual
/-- normal form of what the parser builds: items are events, break, detach, loops over a sequence, forks
whose (at least one) branches are sequences; a sequence is never an item itself -/
def nfItem : Blk → Bool
  | .ev _ => true
  | .brk => true
  | .detach => true
  | .loop b => nfSeq b
  | .fork _ bs => !bs.isEmpty && nfBranches bs
  | .seq _ => false
def nfSeq : Blk → Bool
  | .seq l => nfItems l
  | _ => false
def nfItems : List Blk → Bool
  | [] => true
  | b :: bs => nfItem b && nfItems bs
def nfBranches : List Blk → Bool
  | [] => true
  | b :: bs => nfSeq b && nfBranches bs
end

def stopOfTok : Tok → Option Stop
  | .again op => some (.again op)
  | .close op => some (.close op)
  | .else_ => some .else_
  | .endif => some .endif
  | .repeatWhile => some .repeatWhile
  | .groupEnd => some .groupEnd
  | .partEnd => some .partEnd
  | .enduml => some .enduml
  | _ => none

theorem size_pos (b : Blk) : 1 ≤ size b := by
  cases b <;> simp [size] <;> omega

theorem parseSeq_stop (st : Tok) (stop : Stop) (rest : List Tok) (h : stopOfTok st = some stop) (fuel : Nat) :
    parseSeq (fuel + 1) (st :: rest) = .ok ([], stop, rest) := by
  cases st <;> simp [stopOfTok] at h <;> subst h <;> simp [parseSeq, pure, Except.pure]

theorem parseSeq_ev (fuel : Nat) (n : String) (ts : List Tok) (r : List Blk) (st : Stop) (rest : List Tok)
    (h : parseSeq fuel ts = .ok (r, st, rest)) : parseSeq (fuel + 1) (.ev n :: ts) = .ok (.ev n :: r, st, rest) := by
  simp [parseSeq, h, bind, Except.bind, pure, Except.pure]

theorem parseSeq_brk (fuel : Nat) (ts : List Tok) (r : List Blk) (st : Stop) (rest : List Tok)
    (h : parseSeq fuel ts = .ok (r, st, rest)) : parseSeq (fuel + 1) (.brk :: ts) = .ok (.brk :: r, st, rest) := by
  simp [parseSeq, h, bind, Except.bind, pure, Except.pure]

theorem parseSeq_detach (fuel : Nat) (ts : List Tok) (r : List Blk) (st : Stop) (rest : List Tok)
    (h : parseSeq fuel ts = .ok (r, st, rest)) : parseSeq (fuel + 1) (.detach :: ts) = .ok (.detach :: r, st, rest) := by
  simp [parseSeq, h, bind, Except.bind, pure, Except.pure]

theorem parseSeq_repeat (fuel : Nat) (ts : List Tok) (body r : List Blk) (st : Stop) (mid rest : List Tok)
    (h1 : parseSeq fuel ts = .ok (body, .repeatWhile, mid)) (h2 : parseSeq fuel mid = .ok (r, st, rest)) :
    parseSeq (fuel + 1) (.repeat_ :: ts) = .ok (.loop (.seq body) :: r, st, rest) := by
  simp [parseSeq, h1, h2, bind, Except.bind, pure, Except.pure]

theorem parseSeq_open (fuel : Nat) (op : Op) (ts : List Tok) (bs r : List Blk) (st : Stop) (mid rest : List Tok)
    (h1 : parseSeq.parseBranches fuel op ts = .ok (bs, mid)) (h2 : parseSeq fuel mid = .ok (r, st, rest)) :
    parseSeq (fuel + 1) (.open_ op :: (if op == .xor then [.again .xor] else []) ++ ts) =
      .ok (.fork op bs :: r, st, rest) := by
  cases op <;> simp [parseSeq, h1, h2, bind, Except.bind, pure, Except.pure]

theorem parseBranches_last (fuel : Nat) (op : Op) (ts : List Tok) (b : List Blk) (rest : List Tok)
    (h : parseSeq fuel ts = .ok (b, .close op, rest)) :
    parseSeq.parseBranches (fuel + 1) op ts = .ok ([.seq b], rest) := by
  simp [parseSeq.parseBranches, h, bind, Except.bind, pure, Except.pure]

theorem parseBranches_more (fuel : Nat) (op : Op) (ts : List Tok) (b bs : List Blk) (mid rest : List Tok)
    (h1 : parseSeq fuel ts = .ok (b, .again op, mid)) (h2 : parseSeq.parseBranches fuel op mid = .ok (bs, rest)) :
    parseSeq.parseBranches (fuel + 1) op ts = .ok (.seq b :: bs, rest) := by
  simp [parseSeq.parseBranches, h1, h2, bind, Except.bind, pure, Except.pure]

/-- both statements for blocks of size at most `n`; the fuel needed depends on the block alone (the parser never
looks past the terminator) -/
def RoundTrip (n : Nat) : Prop :=
  (∀ items, sizeL items ≤ n → nfItems items = true → ∀ st stop rest fuel, stopOfTok st = some stop →
      (renderL items).length < fuel →
      parseSeq fuel (renderL items ++ st :: rest) = .ok (items, stop, rest)) ∧
  (∀ op bs, sizeL bs ≤ n → bs ≠ [] → nfBranches bs = true → ∀ R fuel,
      (renderBranches op bs).length + 1 < fuel →
      parseSeq.parseBranches fuel op (renderBranches op bs ++ .close op :: R) = .ok (bs, R))

theorem roundTrip : ∀ n, RoundTrip n
  | 0 => by
    constructor
    · intro items hs _ st stop rest fuel hst hf
      cases items with
      | nil =>
        obtain ⟨f, rfl⟩ : ∃ f, fuel = f + 1 := ⟨fuel - 1, by omega⟩
        exact parseSeq_stop st stop rest hst f
      | cons b bs => have := size_pos b; simp [sizeL] at hs; omega
    · intro op bs hs hne
      cases bs with
      | nil => exact absurd rfl hne
      | cons b bs => have := size_pos b; simp [sizeL] at hs; omega
  | n + 1 => by
    obtain ⟨ihI, ihB⟩ := roundTrip n
    constructor
    · intro items hs hnf st stop rest fuel hst hf
      cases items with
      | nil =>
        obtain ⟨f, rfl⟩ : ∃ f, fuel = f + 1 := ⟨fuel - 1, by omega⟩
        exact parseSeq_stop st stop rest hst f
      | cons b tl =>
        simp only [nfItems, Bool.and_eq_true] at hnf
        obtain ⟨hb, htl⟩ := hnf
        have hsb := size_pos b
        simp only [sizeL] at hs
        have hstl : sizeL tl ≤ n := by omega
        obtain ⟨f, rfl⟩ : ∃ f, fuel = f + 1 := ⟨fuel - 1, by omega⟩
        cases b with
        | ev nm =>
          simp only [renderL, render, List.cons_append, List.nil_append, List.length_cons] at hf ⊢
          exact parseSeq_ev f nm _ tl stop rest (ihI tl hstl htl st stop rest f hst (by omega))
        | brk =>
          simp only [renderL, render, List.cons_append, List.nil_append, List.length_cons] at hf ⊢
          exact parseSeq_brk f _ tl stop rest (ihI tl hstl htl st stop rest f hst (by omega))
        | detach =>
          simp only [renderL, render, List.cons_append, List.nil_append, List.length_cons] at hf ⊢
          exact parseSeq_detach f _ tl stop rest (ihI tl hstl htl st stop rest f hst (by omega))
        | seq l => simp [nfItem] at hb
        | loop body =>
          cases body with
          | seq l =>
            simp only [nfItem, nfSeq] at hb
            simp only [size] at hs
            have e : renderL (.loop (.seq l) :: tl) ++ st :: rest =
                .repeat_ :: (renderL l ++ .repeatWhile :: (renderL tl ++ st :: rest)) := by
              simp [renderL, render]
            have el : (renderL (.loop (.seq l) :: tl)).length = (renderL l).length + (renderL tl).length + 2 := by
              simp [renderL, render]; omega
            rw [e]
            rw [el] at hf
            exact parseSeq_repeat f _ l tl stop _ rest
              (ihI l (by omega) hb .repeatWhile .repeatWhile _ f rfl (by omega))
              (ihI tl hstl htl st stop rest f hst (by omega))
          | _ => simp [nfItem, nfSeq] at hb
        | fork op bs =>
          simp only [nfItem, Bool.and_eq_true, Bool.not_eq_true', List.isEmpty_eq_false_iff] at hb
          simp only [size] at hs
          have e : renderL (.fork op bs :: tl) ++ st :: rest =
              .open_ op :: (if op == .xor then [.again .xor] else []) ++
                (renderBranches op bs ++ .close op :: (renderL tl ++ st :: rest)) := by
            simp [renderL, render]
          have el : (renderBranches op bs).length + (renderL tl).length + 2 ≤ (renderL (.fork op bs :: tl)).length := by
            simp [renderL, render]; omega
          rw [e]
          exact parseSeq_open f op _ bs tl stop _ rest
            (ihB op bs (by omega) hb.1 hb.2 _ f (by omega))
            (ihI tl hstl htl st stop rest f hst (by omega))
    · intro op bs hs hne hnf R fuel hf
      cases bs with
      | nil => exact absurd rfl hne
      | cons b tl =>
        simp only [nfBranches, Bool.and_eq_true] at hnf
        obtain ⟨hb, htl⟩ := hnf
        cases b with
        | seq l =>
          simp only [nfSeq] at hb
          simp only [sizeL, size] at hs
          obtain ⟨f, rfl⟩ : ∃ f, fuel = f + 1 := ⟨fuel - 1, by omega⟩
          cases tl with
          | nil =>
            have e : renderBranches op [.seq l] ++ .close op :: R = renderL l ++ .close op :: R := by
              simp [renderBranches, render]
            have el : (renderBranches op [.seq l]).length = (renderL l).length := by simp [renderBranches, render]
            rw [e]
            rw [el] at hf
            exact parseBranches_last f op _ l R (ihI l (by omega) hb (.close op) (.close op) R f rfl (by omega))
          | cons b2 tl2 =>
            have e : renderBranches op (.seq l :: b2 :: tl2) ++ .close op :: R =
                renderL l ++ .again op :: (renderBranches op (b2 :: tl2) ++ .close op :: R) := by
              simp [renderBranches, render]
            have el : (renderBranches op (.seq l :: b2 :: tl2)).length =
                (renderL l).length + (renderBranches op (b2 :: tl2)).length + 1 := by
              simp [renderBranches, render]; omega
            rw [e]
            rw [el] at hf
            have hsz : sizeL (b2 :: tl2) ≤ n := by omega
            exact parseBranches_more f op _ l (b2 :: tl2) _ R
              (ihI l (by omega) hb (.again op) (.again op) _ f rfl (by omega))
              (ihB op (b2 :: tl2) hsz (by simp) htl R f (by omega))
        | _ => simp [nfSeq] at hb

/-- a whole file -/
def renderFile (body : List Blk) : List Tok :=
  [.startuml, .partStart, .groupStart] ++ renderL body ++ [.groupEnd, .partEnd, .enduml]

/-- **completeness of the grammar**: the block parser recovers every normal-form diagram from its token stream -/
theorem parse_render (body : List Blk) (h : nfItems body = true) :
    parseToks (renderFile body) = .ok (.seq body) := by
  have hr := (roundTrip (sizeL body)).1 body (Nat.le_refl _) h Tok.groupEnd Stop.groupEnd [Tok.partEnd, Tok.enduml]
    ((renderL body ++ [Tok.groupEnd, Tok.partEnd, Tok.enduml]).length + 1) rfl (by simp; omega)
  simp only [renderFile, parseToks, List.cons_append, List.nil_append, bind, Except.bind, pure, Except.pure]
  have e : renderL body ++ [Tok.groupEnd, Tok.partEnd, Tok.enduml] = renderL body ++ Tok.groupEnd :: [Tok.partEnd, Tok.enduml] := rfl
  rw [e, hr]
  simp

end O2P.Diagram
