import O2P.Model.Diagram
/-!
Facts about the semantics `exec`/`runs` of job definitions, by induction on the recursion fuel over the
four mutually recursive functions:

* `runs_types`: every event of every job of a definition carries a name of the definition;
* `runs_wellformed`: every job is a DAG listed in topological order — ids are consecutive, every
  predecessor id belongs to an earlier event of the same job.
-/
namespace O2P.Diagram

theorem namesL_append (a b : List Blk) : namesL (a ++ b) = namesL a ++ namesL b := by
  induction a with
  | nil => simp [namesL]
  | cons x xs ih => simp [namesL, ih, List.append_assoc]

theorem names_mem_namesL {b : Blk} {l : List Blk} (h : b ∈ l) {x : String} (hx : x ∈ names b) : x ∈ namesL l := by
  induction l with
  | nil => simp at h
  | cons y ys ih =>
    simp only [namesL, List.mem_append]
    rcases List.mem_cons.mp h with rfl | h
    · exact Or.inl hx
    · exact Or.inr (ih h)

theorem namesL_subset_of_subset {a b : List Blk} (h : ∀ x ∈ a, x ∈ b) {s : String} (hs : s ∈ namesL a) :
    s ∈ namesL b := by
  induction a with
  | nil => simp [namesL] at hs
  | cons x xs ih =>
    simp only [namesL, List.mem_append] at hs
    rcases hs with hs | hs
    · exact names_mem_namesL (h x List.mem_cons_self) hs
    · exact ih (fun y hy => h y (List.mem_cons_of_mem _ hy)) hs

theorem mem_of_mem_nonEmptySublists {α : Type} : ∀ (l sel : List α), sel ∈ nonEmptySublists l → ∀ x ∈ sel, x ∈ l
  | [], sel, h, _, _ => by simp [nonEmptySublists] at h
  | a :: as, sel, h, x, hx => by
    simp only [nonEmptySublists, List.mem_cons, List.mem_append, List.mem_map] at h
    rcases h with (rfl | ⟨t, ht, rfl⟩) | h
    · simp only [List.mem_singleton] at hx; subst hx; exact List.mem_cons_self
    · rcases List.mem_cons.mp hx with rfl | hx
      · exact List.mem_cons_self
      · exact List.mem_cons_of_mem _ (mem_of_mem_nonEmptySublists as t ht x hx)
    · exact List.mem_cons_of_mem _ (mem_of_mem_nonEmptySublists as sel h x hx)

/-- the four invariants proved together, for the functions at one fuel level -/
def TypesInv (k fuel : Nat) : Prop :=
  (∀ b entry next o, o ∈ exec k fuel b entry next → ∀ n ∈ o.nodes, n.typ ∈ names b) ∧
  (∀ l entry next o, o ∈ exec.execSeq k fuel l entry next → ∀ n ∈ o.nodes, n.typ ∈ namesL l) ∧
  (∀ l entry next o, o ∈ exec.execPar k fuel l entry next → ∀ n ∈ o.nodes, n.typ ∈ namesL l) ∧
  (∀ i body entry next o, o ∈ exec.execLoop k fuel i body entry next → ∀ n ∈ o.nodes, n.typ ∈ names body)

theorem typesInv (k : Nat) : ∀ fuel, TypesInv k fuel
  | 0 => by
    refine ⟨?_, ?_, ?_, ?_⟩
    · intro b entry next o h; simp [exec] at h
    · intro l entry next o h; simp [exec.execSeq] at h
    · intro l entry next o h; simp [exec.execPar] at h
    · intro i body entry next o h; simp [exec.execLoop] at h
  | fuel + 1 => by
    obtain ⟨ihE, ihS, ihP, ihL⟩ := typesInv k fuel
    refine ⟨?_, ?_, ?_, ?_⟩
    · intro b entry next o h
      cases b with
      | ev n =>
        simp only [exec, List.mem_singleton] at h
        subst h
        intro x hx
        simp only [List.mem_singleton] at hx
        subst hx
        simp [names]
      | brk => simp only [exec, List.mem_singleton] at h; subst h; intro x hx; exact absurd hx List.not_mem_nil
      | detach => simp only [exec, List.mem_singleton] at h; subst h; intro x hx; exact absurd hx List.not_mem_nil
      | seq l =>
        simp only [exec] at h
        intro x hx
        simpa [names] using ihS l entry next o h x hx
      | loop body =>
        simp only [exec] at h
        intro x hx
        simpa [names] using ihL k body entry next o h x hx
      | fork op bs =>
        have key : ∃ sel, (∀ y ∈ sel, y ∈ bs) ∧ o ∈ exec.execPar k fuel sel entry next := by
          cases op with
          | and =>
            simp only [exec, List.flatMap_cons, List.flatMap_nil, List.append_nil] at h
            exact ⟨bs, fun _ h => h, h⟩
          | xor =>
            simp only [exec, List.mem_flatMap, List.mem_map] at h
            obtain ⟨sel, ⟨b, hb, rfl⟩, ho⟩ := h
            refine ⟨[b], ?_, ho⟩
            intro y hy
            simp only [List.mem_singleton] at hy
            subst hy; exact hb
          | or =>
            simp only [exec, List.mem_flatMap] at h
            obtain ⟨sel, hsel, ho⟩ := h
            exact ⟨sel, mem_of_mem_nonEmptySublists bs sel hsel, ho⟩
        obtain ⟨sel, sub, ho⟩ := key
        intro x hx
        have hin := ihP sel entry next o ho x hx
        simpa [names] using namesL_subset_of_subset sub hin
    · intro l entry next o h
      cases l with
      | nil =>
        simp only [exec.execSeq, List.mem_singleton] at h
        subst h
        intro x hx; simp at hx
      | cons b bs =>
        simp only [exec.execSeq, List.mem_flatMap] at h
        obtain ⟨o1, ho1, h2⟩ := h
        intro x hx
        simp only [namesL, List.mem_append]
        split at h2
        · simp only [List.mem_singleton] at h2
          rw [h2] at hx
          exact Or.inl (ihE b entry next o1 ho1 x hx)
        · simp only [List.mem_map] at h2
          obtain ⟨r, hr, rfl⟩ := h2
          simp only [List.mem_append] at hx
          rcases hx with hx | hx
          · exact Or.inl (ihE b entry next o1 ho1 x hx)
          · exact Or.inr (ihS bs o1.exits o1.next r hr x hx)
    · intro l entry next o h
      cases l with
      | nil =>
        simp only [exec.execPar, List.mem_singleton] at h
        subst h
        intro x hx; simp at hx
      | cons b bs =>
        simp only [exec.execPar, List.mem_flatMap, List.mem_map] at h
        obtain ⟨o1, ho1, r, hr, rfl⟩ := h
        intro x hx
        simp only [namesL, List.mem_append] at hx ⊢
        rcases hx with hx | hx
        · exact Or.inl (ihE b entry next o1 ho1 x hx)
        · exact Or.inr (ihP bs entry o1.next r hr x hx)
    · intro i body entry next o h
      cases i with
      | zero => simp [exec.execLoop] at h
      | succ i =>
        simp only [exec.execLoop, List.mem_flatMap, List.mem_cons] at h
        obtain ⟨o1, ho1, h2⟩ := h
        intro x hx
        rcases h2 with h2 | h2
        · rw [h2] at hx
          exact ihE body entry next o1 ho1 x hx
        · split at h2
          · simp at h2
          · simp only [List.mem_map] at h2
            obtain ⟨r, hr, rfl⟩ := h2
            simp only [List.mem_append] at hx
            rcases hx with hx | hx
            · exact ihE body entry next o1 ho1 x hx
            · exact ihL i body o1.exits o1.next r hr x hx

/-- every event of every job of a definition carries a name that occurs in the definition -/
theorem runs_types (k : Nat) (d : Blk) : ∀ j ∈ runs k d, ∀ n ∈ j, n.typ ∈ names d := by
  intro j hj n hn
  unfold runs at hj
  obtain ⟨o, ho, rfl⟩ := List.mem_map.mp hj
  exact (typesInv k _).1 d [] 0 o ho n hn


/-! ### every job is a DAG in topological order -/

/-- ids handed out by an execution are consecutive from `next`; every predecessor, exit and break id is
an entry id or an id handed out earlier -/
structure WF (entry : List Nat) (next : Nat) (o : Out) : Prop where
  le : next ≤ o.next
  ids : o.nodes.map (·.id) = List.range' next (o.next - next)
  prev : ∀ n ∈ o.nodes, ∀ p ∈ n.prev, p ∈ entry ∨ (next ≤ p ∧ p < n.id)
  exits : ∀ x ∈ o.exits, x ∈ entry ∨ (next ≤ x ∧ x < o.next)
  breaks : ∀ x ∈ o.breaks, x ∈ entry ∨ (next ≤ x ∧ x < o.next)

theorem WF.id_range {entry next o} (h : WF entry next o) : ∀ n ∈ o.nodes, next ≤ n.id ∧ n.id < o.next := by
  intro n hn
  have : n.id ∈ o.nodes.map (·.id) := List.mem_map.mpr ⟨n, hn, rfl⟩
  rw [h.ids, List.mem_range'_1] at this
  have := h.le
  omega

theorem range'_split (a b c : Nat) (h1 : a ≤ b) (h2 : b ≤ c) :
    List.range' a (c - a) = List.range' a (b - a) ++ List.range' b (c - b) := by
  have e1 : c - a = (b - a) + (c - b) := by omega
  have e2 : List.range' b (c - b) = List.range' (a + (b - a)) (c - b) := by congr 1; omega
  rw [e1, e2, List.range'_append_1]

/-- sequential composition: the second part is entered through the exits of the first -/


theorem wf_seq {entry : List Nat} {next : Nat} {o r : Out} (h1 : WF entry next o) (h2 : WF o.exits o.next r) :
    WF entry next ⟨o.nodes ++ r.nodes, r.exits, o.breaks ++ r.breaks, r.next⟩ := by
  have l1 := h1.le
  have l2 := h2.le
  refine ⟨by simp only; omega, ?_, ?_, ?_, ?_⟩
  · simp only [List.map_append, h1.ids, h2.ids]
    exact (range'_split next o.next r.next l1 l2).symm
  · intro n hn p hp
    rcases List.mem_append.mp hn with hn | hn
    · exact h1.prev n hn p hp
    · rcases h2.prev n hn p hp with hx | hx
      · rcases h1.exits p hx with he | he
        · exact Or.inl he
        · have := (h2.id_range n hn).1
          exact Or.inr ⟨he.1, by omega⟩
      · exact Or.inr ⟨by omega, hx.2⟩
  · intro x hx
    rcases h2.exits x hx with he | he
    · rcases h1.exits x he with h | h
      · exact Or.inl h
      · exact Or.inr ⟨h.1, by simp only; omega⟩
    · exact Or.inr ⟨by omega, he.2⟩
  · intro x hx
    rcases List.mem_append.mp hx with hx | hx
    · rcases h1.breaks x hx with h | h
      · exact Or.inl h
      · exact Or.inr ⟨h.1, by simp only; omega⟩
    · rcases h2.breaks x hx with he | he
      · rcases h1.exits x he with h | h
        · exact Or.inl h
        · exact Or.inr ⟨h.1, by simp only; omega⟩
      · exact Or.inr ⟨by omega, he.2⟩

/-- parallel composition: both parts are entered from the same events -/
theorem wf_par {entry : List Nat} {next : Nat} {o r : Out} (h1 : WF entry next o) (h2 : WF entry o.next r) :
    WF entry next ⟨o.nodes ++ r.nodes, o.exits ++ r.exits, o.breaks ++ r.breaks, r.next⟩ := by
  have l1 := h1.le
  have l2 := h2.le
  refine ⟨by simp only; omega, ?_, ?_, ?_, ?_⟩
  · simp only [List.map_append, h1.ids, h2.ids]
    exact (range'_split next o.next r.next l1 l2).symm
  · intro n hn p hp
    rcases List.mem_append.mp hn with hn | hn
    · exact h1.prev n hn p hp
    · rcases h2.prev n hn p hp with hx | hx
      · exact Or.inl hx
      · exact Or.inr ⟨by omega, hx.2⟩
  · intro x hx
    rcases List.mem_append.mp hx with hx | hx
    · rcases h1.exits x hx with h | h
      · exact Or.inl h
      · exact Or.inr ⟨h.1, by simp only; omega⟩
    · rcases h2.exits x hx with h | h
      · exact Or.inl h
      · exact Or.inr ⟨by omega, h.2⟩
  · intro x hx
    rcases List.mem_append.mp hx with hx | hx
    · rcases h1.breaks x hx with h | h
      · exact Or.inl h
      · exact Or.inr ⟨h.1, by simp only; omega⟩
    · rcases h2.breaks x hx with h | h
      · exact Or.inl h
      · exact Or.inr ⟨by omega, h.2⟩

def WFInv (k fuel : Nat) : Prop :=
  (∀ b entry next o, o ∈ exec k fuel b entry next → WF entry next o) ∧
  (∀ l entry next o, o ∈ exec.execSeq k fuel l entry next → WF entry next o) ∧
  (∀ l entry next o, o ∈ exec.execPar k fuel l entry next → WF entry next o) ∧
  (∀ i body entry next o, o ∈ exec.execLoop k fuel i body entry next → WF entry next o)

theorem wfInv (k : Nat) : ∀ fuel, WFInv k fuel
  | 0 => by
    refine ⟨?_, ?_, ?_, ?_⟩
    · intro b entry next o h; simp [exec] at h
    · intro l entry next o h; simp [exec.execSeq] at h
    · intro l entry next o h; simp [exec.execPar] at h
    · intro i body entry next o h; simp [exec.execLoop] at h
  | fuel + 1 => by
    obtain ⟨ihE, ihS, ihP, ihL⟩ := wfInv k fuel
    refine ⟨?_, ?_, ?_, ?_⟩
    · intro b entry next o h
      cases b with
      | ev n =>
        simp only [exec, List.mem_singleton] at h
        subst h
        refine ⟨by simp, by simp [List.range'], ?_, ?_, ?_⟩
        · intro x hx p hp
          simp only [List.mem_singleton] at hx
          subst hx
          exact Or.inl hp
        · intro x hx
          simp only [List.mem_singleton] at hx
          subst hx
          exact Or.inr ⟨Nat.le_refl _, Nat.lt_succ_self _⟩
        · intro x hx; exact absurd hx List.not_mem_nil
      | brk =>
        simp only [exec, List.mem_singleton] at h
        subst h
        exact ⟨Nat.le_refl _, by simp, fun x hx => absurd hx List.not_mem_nil,
          fun x hx => absurd hx List.not_mem_nil, fun x hx => Or.inl hx⟩
      | detach =>
        simp only [exec, List.mem_singleton] at h
        subst h
        exact ⟨Nat.le_refl _, by simp, fun x hx => absurd hx List.not_mem_nil,
          fun x hx => absurd hx List.not_mem_nil, fun x hx => absurd hx List.not_mem_nil⟩
      | seq l =>
        simp only [exec] at h
        exact ihS l entry next o h
      | loop body =>
        simp only [exec] at h
        exact ihL k body entry next o h
      | fork op bs =>
        have key : ∃ sel, o ∈ exec.execPar k fuel sel entry next := by
          cases op with
          | and =>
            simp only [exec, List.flatMap_cons, List.flatMap_nil, List.append_nil] at h
            exact ⟨bs, h⟩
          | xor =>
            simp only [exec, List.mem_flatMap, List.mem_map] at h
            obtain ⟨sel, _, ho⟩ := h
            exact ⟨sel, ho⟩
          | or =>
            simp only [exec, List.mem_flatMap] at h
            obtain ⟨sel, _, ho⟩ := h
            exact ⟨sel, ho⟩
        obtain ⟨sel, ho⟩ := key
        exact ihP sel entry next o ho
    · intro l entry next o h
      cases l with
      | nil =>
        simp only [exec.execSeq, List.mem_singleton] at h
        subst h
        exact ⟨Nat.le_refl _, by simp, fun x hx => absurd hx List.not_mem_nil, fun x hx => Or.inl hx,
          fun x hx => absurd hx List.not_mem_nil⟩
      | cons b bs =>
        simp only [exec.execSeq, List.mem_flatMap] at h
        obtain ⟨o1, ho1, h2⟩ := h
        have w1 := ihE b entry next o1 ho1
        split at h2
        · simp only [List.mem_singleton] at h2
          rw [h2]; exact w1
        · simp only [List.mem_map] at h2
          obtain ⟨r, hr, rfl⟩ := h2
          exact wf_seq w1 (ihS bs o1.exits o1.next r hr)
    · intro l entry next o h
      cases l with
      | nil =>
        simp only [exec.execPar, List.mem_singleton] at h
        subst h
        exact ⟨Nat.le_refl _, by simp, fun x hx => absurd hx List.not_mem_nil,
          fun x hx => absurd hx List.not_mem_nil, fun x hx => absurd hx List.not_mem_nil⟩
      | cons b bs =>
        simp only [exec.execPar, List.mem_flatMap, List.mem_map] at h
        obtain ⟨o1, ho1, r, hr, rfl⟩ := h
        exact wf_par (ihE b entry next o1 ho1) (ihP bs entry o1.next r hr)
    · intro i body entry next o h
      cases i with
      | zero => simp [exec.execLoop] at h
      | succ i =>
        simp only [exec.execLoop, List.mem_flatMap, List.mem_cons] at h
        obtain ⟨o1, ho1, h2⟩ := h
        have w1 := ihE body entry next o1 ho1
        rcases h2 with h2 | h2
        · rw [h2]
          refine ⟨w1.le, w1.ids, w1.prev, ?_, fun x hx => absurd hx List.not_mem_nil⟩
          intro x hx
          rcases List.mem_append.mp hx with hx | hx
          · exact w1.exits x hx
          · exact w1.breaks x hx
        · split at h2
          · simp at h2
          · simp only [List.mem_map] at h2
            obtain ⟨r, hr, rfl⟩ := h2
            have w2 := ihL i body o1.exits o1.next r hr
            have w := wf_seq w1 w2
            refine ⟨w.le, w.ids, w.prev, ?_, fun x hx => absurd hx List.not_mem_nil⟩
            intro x hx
            rcases List.mem_append.mp hx with hx | hx
            · exact w.exits x hx
            · have := w1.breaks x hx
              have l2 := w2.le
              rcases this with h | h
              · exact Or.inl h
              · exact Or.inr ⟨h.1, by simp only; omega⟩

/-- **every job of a definition is a DAG listed in topological order**: the ids are 0, 1, 2, … in
listing order and every predecessor id is smaller than the event's own id (hence names an earlier event
of the same job) -/
theorem runs_wellformed (k : Nat) (d : Blk) : ∀ j ∈ runs k d,
    j.map (·.id) = List.range j.length ∧ ∀ n ∈ j, ∀ p ∈ n.prev, p < n.id := by
  intro j hj
  unfold runs at hj
  obtain ⟨o, ho, rfl⟩ := List.mem_map.mp hj
  have w := (wfInv k _).1 d [] 0 o ho
  have hid := w.ids
  simp only [Nat.sub_zero] at hid
  have hlen : o.nodes.length = o.next := by
    have := congrArg List.length hid
    simpa using this
  refine ⟨?_, ?_⟩
  · rw [hid, hlen, List.range_eq_range']
  · intro n hn p hp
    rcases w.prev n hn p hp with h | h
    · exact absurd h List.not_mem_nil
    · exact h.2

end O2P.Diagram
