/-
The variable trie of the jq compiler: allocation keeps parents before children (`TrieWF`), the
depth-first binding order lists parents first and reaches every variable, hence every compiled
mapping is a well-formed program (`wfProgram`).  Core Lean only.
-/
import O2P.Model.JqCore
namespace O2P.Jq

/-- the parent of variable `v` (variable `i+1` is entry `i`) -/
def Trie.parent (t : Trie) (v : Nat) : Nat := (t.getD (v - 1) (0, "")).1

/-- `c` is a variable of the trie hanging below `p` -/
def Trie.isChild (t : Trie) (p c : Nat) : Prop := 1 ≤ c ∧ c ≤ t.length ∧ t.parent c = p

/-- the children of `cur` as `Trie.dfs` enumerates them -/
def Trie.children (t : Trie) (cur : Nat) : List Nat :=
  (t.zipIdx.filter fun (d, _) => d.1 == cur).map fun (_, i) => i + 1

theorem Trie.dfs_succ (t : Trie) (fuel cur : Nat) :
    Trie.dfs t (fuel + 1) cur = (t.children cur).flatMap fun v => v :: Trie.dfs t fuel v := rfl

theorem Trie.mem_children (t : Trie) (cur c : Nat) : c ∈ t.children cur ↔ t.isChild cur c := by
  unfold Trie.children Trie.isChild Trie.parent
  simp only [List.mem_map, List.mem_filter, beq_iff_eq]
  constructor
  · rintro ⟨⟨d, i⟩, ⟨hm, hd⟩, rfl⟩
    have hg := List.mem_zipIdx_iff_getElem?.mp hm
    simp only at hg hd
    have hlt : i < t.length := by
      rcases List.getElem?_eq_some_iff.mp hg with ⟨h, _⟩
      exact h
    refine ⟨by omega, by omega, ?_⟩
    simp only [Nat.add_sub_cancel, List.getD_eq_getElem?_getD, hg, Option.getD_some]
    exact hd
  · rintro ⟨h1, h2, h3⟩
    have hlt : c - 1 < t.length := by omega
    refine ⟨(t[c - 1], c - 1), ⟨?_, ?_⟩, by simp; omega⟩
    · exact List.mem_zipIdx_iff_getElem?.mpr (by simp [List.getElem?_eq_getElem hlt])
    · simp only [List.getD_eq_getElem?_getD, List.getElem?_eq_getElem hlt, Option.getD_some] at h3
      exact h3

/-! ### parents come first -/

/-- every element has `cur` as its parent or its parent earlier in the list -/
def ParentsFirst (t : Trie) (cur : Nat) (L : List Nat) : Prop :=
  ∀ pre v post, L = pre ++ v :: post → t.parent v = cur ∨ t.parent v ∈ pre

theorem ParentsFirst.append (t : Trie) (cur : Nat) (A B : List Nat)
    (ha : ParentsFirst t cur A) (hb : ParentsFirst t cur B) : ParentsFirst t cur (A ++ B) := by
  intro pre v post h
  rcases List.append_eq_append_iff.mp h with ⟨a', h1, h2⟩ | ⟨c', h1, h2⟩
  · -- pre = A ++ a', B = a' ++ v :: post
    rcases hb a' v post h2 with h | h
    · exact Or.inl h
    · exact Or.inr (by rw [h1]; exact List.mem_append_right _ h)
  · -- A = pre ++ c', v :: post = c' ++ B
    cases c' with
    | nil =>
      simp only [List.nil_append] at h2
      rcases hb [] v post (by simpa using h2.symm) with h | h
      · exact Or.inl h
      · simp at h
    | cons x xs =>
      simp only [List.cons_append, List.cons.injEq] at h2
      obtain ⟨rfl, _⟩ := h2
      exact ha pre v xs h1

theorem ParentsFirst.block (t : Trie) (cur v : Nat) (D : List Nat) (hv : t.parent v = cur)
    (hd : ParentsFirst t v D) : ParentsFirst t cur (v :: D) := by
  intro pre w post h
  cases pre with
  | nil =>
    simp only [List.nil_append, List.cons.injEq] at h
    exact Or.inl (h.1 ▸ hv)
  | cons x xs =>
    simp only [List.cons_append, List.cons.injEq] at h
    obtain ⟨rfl, h2⟩ := h
    rcases hd xs w post h2 with h | h
    · exact Or.inr (by rw [h]; exact List.mem_cons_self)
    · exact Or.inr (List.mem_cons_of_mem _ h)

theorem dfs_parentsFirst (t : Trie) : ∀ (fuel cur : Nat), ParentsFirst t cur (Trie.dfs t fuel cur)
  | 0, cur => by
    intro pre v post h
    simp [Trie.dfs] at h
  | fuel + 1, cur => by
    rw [Trie.dfs_succ]
    have hch : ∀ c ∈ t.children cur, t.parent c = cur := fun c hc => ((Trie.mem_children t cur c).mp hc).2.2
    generalize t.children cur = cs at hch
    induction cs with
    | nil => intro pre v post h; simp at h
    | cons c cs ih =>
      simp only [List.flatMap_cons]
      exact ParentsFirst.append t cur _ _
        (ParentsFirst.block t cur c _ (hch c List.mem_cons_self) (dfs_parentsFirst t fuel c))
        (ih fun x hx => hch x (List.mem_cons_of_mem _ hx))

/-! ### every variable is reached -/

/-- allocation order: the parent of entry `i` (variable `i+1`) is a variable `≤ i` -/
def TrieWF (t : Trie) : Prop := ∀ i (h : i < t.length), (t[i]).1 ≤ i

theorem dfs_head_child (t : Trie) (fuel cur c : Nat) (h : t.isChild cur c) : c ∈ Trie.dfs t (fuel + 1) cur := by
  rw [Trie.dfs_succ, List.mem_flatMap]
  exact ⟨c, (Trie.mem_children t cur c).mpr h, List.mem_cons_self⟩

theorem dfs_children_next (t : Trie) : ∀ (fuel cur w c : Nat), w ∈ Trie.dfs t fuel cur → t.isChild w c →
    c ∈ Trie.dfs t (fuel + 1) cur
  | 0, _, _, _, h, _ => by simp [Trie.dfs] at h
  | fuel + 1, cur, w, c, h, hc => by
    rw [Trie.dfs_succ, List.mem_flatMap] at h
    obtain ⟨v, hv, hw⟩ := h
    rw [Trie.dfs_succ, List.mem_flatMap]
    refine ⟨v, hv, ?_⟩
    rcases List.mem_cons.mp hw with rfl | hw
    · exact List.mem_cons_of_mem _ (dfs_head_child t fuel w c hc)
    · exact List.mem_cons_of_mem _ (dfs_children_next t fuel v w c hw hc)

theorem parent_lt (t : Trie) (hwf : TrieWF t) (w : Nat) (h1 : 1 ≤ w) (h2 : w ≤ t.length) : t.parent w < w := by
  have hlt : w - 1 < t.length := by omega
  have := hwf (w - 1) hlt
  unfold Trie.parent
  simp only [List.getD_eq_getElem?_getD, List.getElem?_eq_getElem hlt, Option.getD_some]
  omega

theorem dfs_reaches (t : Trie) (hwf : TrieWF t) : ∀ (w : Nat), 1 ≤ w → w ≤ t.length →
    ∀ fuel, w ≤ fuel → w ∈ Trie.dfs t fuel 0 := by
  intro w
  induction w using Nat.strongRecOn with
  | _ w ih =>
    intro h1 h2 fuel hf
    have hp := parent_lt t hwf w h1 h2
    obtain ⟨f, rfl⟩ : ∃ f, fuel = f + 1 := ⟨fuel - 1, by omega⟩
    by_cases hp0 : t.parent w = 0
    · exact dfs_head_child t f 0 w ⟨h1, h2, hp0⟩
    · have := ih (t.parent w) hp (by omega) (by omega) f (by omega)
      exact dfs_children_next t f 0 (t.parent w) w this ⟨h1, h2, rfl⟩

/-! ### `mkProgram` of a well-formed trie is a well-formed program -/

theorem wfOrder_map (g : Nat → Nat × List String) : ∀ (l : List Nat) (n : Nat),
    (∀ pre v post, l = pre ++ v :: post → (g v).1 < n + pre.length) → wfOrder n (l.map g) = true
  | [], _, _ => rfl
  | v :: vs, n, h => by
    simp only [List.map_cons, wfOrder, Bool.and_eq_true, decide_eq_true_eq]
    refine ⟨by simpa using h [] v vs rfl, ?_⟩
    apply wfOrder_map g vs (n + 1)
    intro pre w post hw
    have := h (v :: pre) w post (by simp [hw])
    simp only [List.length_cons] at this
    omega

theorem idxOf_lt_of_mem_prefix (pre post : List Nat) (x : Nat) (h : x ∈ pre) :
    List.idxOf x (pre ++ post) < pre.length := by
  rw [List.idxOf_append]
  simp only [h, if_true]
  exact List.idxOf_lt_length_iff.mpr h

/-- the leaves of the fields (before re-slotting) only mention variables of the trie -/
def leavesIn (n : Nat) (fields : List (String × Spec)) : Prop :=
  ∀ f ∈ fields, f.2.parts ≠ [] ∧ ∀ p ∈ f.2.parts, p ≠ [] ∧ ∀ l ∈ p, l.slot' ≤ n

theorem mkProgram_wf (t : Trie) (fields : List (String × Spec)) (hwf : TrieWF t) (hl : leavesIn t.length fields) :
    wfProgram (mkProgram t fields) = true := by
  unfold wfProgram mkProgram
  simp only [Bool.and_eq_true]
  have hpf := dfs_parentsFirst t (t.length + 1) 0
  have hreach := dfs_reaches t hwf
  generalize hov : Trie.dfs t (t.length + 1) 0 = orderVars at hpf
  constructor
  · -- the loops
    apply wfOrder_map
    intro pre v post hv
    simp only
    rcases hpf pre v post hv with h0 | hin
    · have h0' : (t[v - 1]?.getD (0, "")).1 = 0 := by
        have : (t.getD (v - 1) (0, "")).1 = 0 := h0
        simpa [List.getD_eq_getElem?_getD] using this
      simp [h0']; omega
    · have hin' : (t[v - 1]?.getD (0, "")).1 ∈ pre := by
        have : (t.getD (v - 1) (0, "")).1 ∈ pre := hin
        simpa [List.getD_eq_getElem?_getD] using this
      by_cases hz : (t[v - 1]?.getD (0, "")).1 = 0
      · simp [hz]; omega
      · have := idxOf_lt_of_mem_prefix pre (v :: post) _ hin'
        rw [hv]
        simp only [List.getD_eq_getElem?_getD, beq_iff_eq, hz, if_false]
        omega
  · -- the fields
    have hslot : ∀ v, v ≤ t.length → (if (v == 0) = true then 0 else List.idxOf v orderVars + 1) < orderVars.length + 1 := by
      intro v hv
      by_cases hz : v = 0
      · simp [hz]
      · have hm : v ∈ orderVars := hov ▸ hreach v (by omega) hv (t.length + 1) (by omega)
        have := List.idxOf_lt_length_iff.mpr hm
        simp only [beq_iff_eq, hz, if_false]
        omega
    simp only [wfFieldsB, List.all_eq_true, List.length_map]
    intro f' hf'
    obtain ⟨f, hf, rfl⟩ := List.mem_map.mp hf'
    obtain ⟨hparts, hp⟩ := hl f hf
    simp only [Bool.and_eq_true, Bool.not_eq_true', List.all_eq_true, decide_eq_true_eq]
    refine ⟨by cases hps : f.2.parts <;> simp_all, ?_⟩
    intro p' hp'
    obtain ⟨p, hpm, rfl⟩ := List.mem_map.mp hp'
    obtain ⟨hpne, hls⟩ := hp p hpm
    refine ⟨by cases p <;> simp_all, ?_⟩
    intro l' hl'
    obtain ⟨l, hlm, rfl⟩ := List.mem_map.mp hl'
    have hle := hls l hlm
    cases l with
    | plain v pth => exact hslot v hle
    | lookup v a k vp kv => exact hslot v hle

/-! ### allocation keeps the trie well-formed -/

theorem Trie.child_le (t : Trie) (parent : Nat) (chunk : String) (v : Nat) (h : t.child parent chunk = some v) :
    v ≤ t.length := by
  unfold Trie.child at h
  cases hf : t.zipIdx.find? (fun (d, _) => d.1 == parent && d.2 == chunk) with
  | none => simp [hf] at h
  | some x =>
    simp only [hf, Option.map_some, Option.some.injEq] at h
    have hm := List.mem_of_find?_eq_some hf
    have hg := List.mem_zipIdx_iff_getElem?.mp hm
    rcases List.getElem?_eq_some_iff.mp hg with ⟨hlt, _⟩
    omega

theorem TrieWF.snoc (t : Trie) (hwf : TrieWF t) (cur : Nat) (c : String) (hc : cur ≤ t.length) :
    TrieWF (t ++ [(cur, c)]) := by
  intro i hi
  by_cases hlt : i < t.length
  · rw [List.getElem_append_left hlt]; exact hwf i hlt
  · have : i = t.length := by simp at hi; omega
    subst this
    simp [hc]

theorem Trie.walk_wf : ∀ (cs : List String) (t : Trie) (cur : Nat), TrieWF t → cur ≤ t.length →
    TrieWF (Trie.walk t cur cs).1 ∧ (Trie.walk t cur cs).2 ≤ (Trie.walk t cur cs).1.length ∧
      t.length ≤ (Trie.walk t cur cs).1.length
  | [], t, cur, hwf, hc => by simp [Trie.walk, hwf, hc]
  | c :: cs, t, cur, hwf, hc => by
    simp only [Trie.walk]
    cases hch : t.child cur c with
    | some v => exact Trie.walk_wf cs t v hwf (Trie.child_le t cur c v hch)
    | none =>
      have := Trie.walk_wf cs (t ++ [(cur, c)]) (t.length + 1) (TrieWF.snoc t hwf cur c hc) (by simp)
      simp only [List.length_append, List.length_singleton] at this
      simp only []
      exact ⟨this.1, this.2.1, by omega⟩

theorem leafOf_slot (v : Nat) (a : AltSpec) (txt : String) : (leafOf v a txt).slot' = v := by
  unfold leafOf
  split
  · rfl
  · split <;> rfl

theorem compileAlts_wf : ∀ (alts : List AltSpec) (t : Trie), TrieWF t →
    TrieWF (compileAlts t alts).1 ∧ t.length ≤ (compileAlts t alts).1.length ∧
      (∀ l ∈ (compileAlts t alts).2, l.slot' ≤ (compileAlts t alts).1.length) ∧
      (compileAlts t alts).2.length = alts.length
  | [], t, hwf => by simp [compileAlts, hwf]
  | a :: as, t, hwf => by
    simp only [compileAlts]
    obtain ⟨w1, w2, w3⟩ := Trie.walk_wf (chunksOf a).1 t 0 hwf (Nat.zero_le _)
    obtain ⟨i1, i2, i3, i4⟩ := compileAlts_wf as (Trie.walk t 0 (chunksOf a).1).1 w1
    refine ⟨i1, by omega, ?_, by simp [i4]⟩
    intro l hl
    rcases List.mem_cons.mp hl with rfl | hl
    · rw [leafOf_slot]; omega
    · exact i3 l hl

theorem compileParts_wf : ∀ (parts : List (List AltSpec)) (t : Trie), TrieWF t → (∀ p ∈ parts, p ≠ []) →
    TrieWF (compileParts t parts).1 ∧ t.length ≤ (compileParts t parts).1.length ∧
      (∀ p ∈ (compileParts t parts).2, p ≠ [] ∧ ∀ l ∈ p, l.slot' ≤ (compileParts t parts).1.length) ∧
      (compileParts t parts).2.length = parts.length
  | [], t, hwf, _ => by simp [compileParts, hwf]
  | p :: ps, t, hwf, hne => by
    simp only [compileParts]
    obtain ⟨a1, a2, a3, a4⟩ := compileAlts_wf p t hwf
    obtain ⟨i1, i2, i3, i4⟩ := compileParts_wf ps (compileAlts t p).1 a1 (fun q hq => hne q (List.mem_cons_of_mem _ hq))
    refine ⟨i1, by omega, ?_, by simp [i4]⟩
    intro q hq
    rcases List.mem_cons.mp hq with rfl | hq
    · refine ⟨?_, fun l hl => Nat.le_trans (a3 l hl) i2⟩
      intro e
      have : p.length = 0 := by rw [← a4, e]; rfl
      exact hne p List.mem_cons_self (List.length_eq_zero_iff.mp this)
    · exact i3 q hq

/-- every field has a part and every part an alternative (the Python code raises otherwise) -/
def wfMapping (m : List (String × FieldSpecN)) : Prop :=
  ∀ f ∈ m, f.2.parts ≠ [] ∧ ∀ p ∈ f.2.parts, p ≠ []

theorem compileFields_wf : ∀ (m : List (String × FieldSpecN)) (t : Trie), TrieWF t → wfMapping m →
    TrieWF (compileFields t m).1 ∧ t.length ≤ (compileFields t m).1.length ∧
      leavesIn (compileFields t m).1.length (compileFields t m).2
  | [], t, hwf, _ => by
    simp only [compileFields]
    exact ⟨hwf, Nat.le_refl _, fun f hf => by simp at hf⟩
  | (n, f) :: fs, t, hwf, hm => by
    simp only [compileFields]
    obtain ⟨hp0, hpne⟩ := hm (n, f) List.mem_cons_self
    obtain ⟨p1, p2, p3, p4⟩ := compileParts_wf f.parts t hwf hpne
    obtain ⟨i1, i2, i3⟩ := compileFields_wf fs (compileParts t f.parts).1 p1 (fun g hg => hm g (List.mem_cons_of_mem _ hg))
    refine ⟨i1, by omega, ?_⟩
    intro g hg
    rcases List.mem_cons.mp hg with rfl | hg
    · refine ⟨?_, fun p hp => ⟨(p3 p hp).1, fun l hl => Nat.le_trans ((p3 p hp).2 l hl) i2⟩⟩
      intro e
      have : f.parts.length = 0 := by
        have h4 : (compileParts t f.parts).2.length = f.parts.length := p4
        simp only at e
        rw [← h4, e]; rfl
      exact hp0 (List.length_eq_zero_iff.mp this)
    · exact i3 g hg

theorem TrieWF.nil : TrieWF [] := fun i hi => absurd hi (by simp)

/-- **every compiled mapping is a well-formed program** -/
theorem compile_wf (m : List (String × FieldSpecN)) (h : wfMapping m) : wfProgram (compile m) = true := by
  unfold compile
  obtain ⟨w1, _, w3⟩ := compileFields_wf m [] TrieWF.nil h
  exact mkProgram_wf _ _ w1 w3

end O2P.Jq
