import O2P.Lemmas.CivilCheck
namespace O2P.Time
/-- days 24000 .. 31999: the whole table, checked by the kernel -/
theorem civilTable3 : allRange 24000 8000 = true := by decide +kernel
end O2P.Time
