import O2P.Model.Time
/-! Checker for the days ↔ civil date table, and its specification lemma. -/
namespace O2P.Time

/-- number of days from 1970-01-01 to 2101-01-01: the instants of the property are those before. -/
def maxDay : Nat := 47847

def civilOk (n : Nat) : Bool :=
  let p := civilFromDays n
  daysFromCivil p.1 p.2.1 p.2.2 == n && 1970 ≤ p.1 && p.1 ≤ 2100 && 1 ≤ p.2.1 && p.2.1 ≤ 12 &&
    1 ≤ p.2.2 && p.2.2 ≤ daysInMonth p.1 p.2.1

def allRange (lo len : Nat) : Bool := (List.range' lo len).all civilOk

theorem allRange_spec {lo len : Nat} (h : allRange lo len = true) {n : Nat}
    (h1 : lo ≤ n) (h2 : n < lo + len) : civilOk n = true := by
  unfold allRange at h
  rw [List.all_eq_true] at h
  apply h
  rw [List.mem_range'_1]
  exact ⟨h1, h2⟩

end O2P.Time
