import O2P.Model.Store
/-! Helper lemmas about the `Store` model: `nodup`, `firstOcc`, `linksOf`, `newNodes`. -/
namespace O2P.Store

theorem nodup_iff {α : Type} [DecidableEq α] : ∀ (l : List α), nodup l = true ↔ l.Nodup
  | [] => by simp [nodup]
  | x :: xs => by
    simp only [nodup, Bool.and_eq_true, Bool.not_eq_true', List.nodup_cons, nodup_iff xs]
    constructor
    · rintro ⟨h1, h2⟩
      exact ⟨by simpa using h1, h2⟩
    · rintro ⟨h1, h2⟩
      exact ⟨by simpa using h1, h2⟩

/-! ### firstOcc -/

theorem firstOcc_ids_subset : ∀ (l : List Node) (x : String), x ∈ (firstOcc l).map (·.id) → x ∈ l.map (·.id)
  | [], _, h => by simp [firstOcc] at h
  | n :: ns, x, h => by
    simp only [firstOcc, List.map_cons, List.mem_cons, List.mem_map, List.mem_filter] at h ⊢
    rcases h with h | ⟨m, ⟨hm, _⟩, rfl⟩
    · exact Or.inl h
    · exact Or.inr (List.mem_map.mp (firstOcc_ids_subset ns m.id (List.mem_map.mpr ⟨m, hm, rfl⟩)))

theorem ids_subset_firstOcc : ∀ (l : List Node) (x : String), x ∈ l.map (·.id) → x ∈ (firstOcc l).map (·.id)
  | [], _, h => by simp at h
  | n :: ns, x, h => by
    simp only [firstOcc, List.map_cons, List.mem_cons] at h ⊢
    by_cases e : x = n.id
    · exact Or.inl e
    · right
      rcases h with h | h
      · exact absurd h e
      · obtain ⟨m, hm, rfl⟩ := List.mem_map.mp (ids_subset_firstOcc ns x h)
        exact List.mem_map.mpr ⟨m, List.mem_filter.mpr ⟨hm, by simpa using e⟩, rfl⟩

theorem map_filter_nodup {l : List Node} (p : Node → Bool) (h : (l.map (·.id)).Nodup) :
    ((l.filter p).map (·.id)).Nodup := by
  induction l with
  | nil => simp
  | cons n ns ih =>
    simp only [List.map_cons, List.nodup_cons] at h
    by_cases hp : p n = true
    · simp only [List.filter_cons, hp, ite_true, List.map_cons, List.nodup_cons]
      refine ⟨?_, ih h.2⟩
      intro hm
      apply h.1
      obtain ⟨m, hm1, hm2⟩ := List.mem_map.mp hm
      exact List.mem_map.mpr ⟨m, (List.mem_filter.mp hm1).1, hm2⟩
    · simp only [List.filter_cons, hp]
      exact ih h.2

theorem firstOcc_nodup : ∀ (l : List Node), ((firstOcc l).map (·.id)).Nodup
  | [] => by simp [firstOcc]
  | n :: ns => by
    simp only [firstOcc, List.map_cons, List.nodup_cons]
    refine ⟨?_, map_filter_nodup _ (firstOcc_nodup ns)⟩
    intro h
    obtain ⟨m, hm, e⟩ := List.mem_map.mp h
    have := (List.mem_filter.mp hm).2
    simp [e] at this

theorem firstOcc_of_nodup : ∀ (l : List Node), (l.map (·.id)).Nodup → firstOcc l = l
  | [], _ => rfl
  | n :: ns, h => by
    simp only [List.map_cons, List.nodup_cons] at h
    simp only [firstOcc, firstOcc_of_nodup ns h.2]
    congr 1
    apply List.filter_eq_self.mpr
    intro m hm
    have : m.id ≠ n.id := fun e => h.1 (e ▸ List.mem_map.mpr ⟨m, hm, rfl⟩)
    simpa using this

theorem firstOcc_append (a b : List Node) :
    firstOcc (a ++ b) = firstOcc a ++ (firstOcc b).filter (fun n => !(a.map (·.id)).contains n.id) := by
  induction a with
  | nil =>
    simp only [firstOcc, List.map_nil, List.contains_nil, Bool.not_false, List.nil_append]
    exact (List.filter_eq_self.mpr (fun _ _ => rfl)).symm
  | cons n ns ih =>
    simp only [List.cons_append, firstOcc, ih, List.filter_append, List.filter_filter, List.map_cons]
    congr 2
    apply List.filter_congr
    intro m _
    simp only [List.contains_cons, Bool.not_or]
    by_cases e : m.id = n.id
    · simp [e]
    · have e1 : (m.id == n.id) = false := by simpa using e
      have e2 : (m.id != n.id) = true := by simpa using e
      simp [e1, e2]

/-! ### links -/

theorem linksOf_append (a b : List Node) : linksOf (a ++ b) = linksOf a ++ linksOf b := by
  simp [linksOf, List.filterMap_append]

theorem linksOf_snd : ∀ (l : List Node) (x : Link), x ∈ linksOf l → x.2 ∈ l.map (·.id)
  | [], _, h => by simp [linksOf] at h
  | n :: ns, x, h => by
    simp only [linksOf, List.filterMap_cons] at h
    cases hp : linkOf n with
    | none =>
      rw [hp] at h
      exact List.mem_cons_of_mem _ (linksOf_snd ns x h)
    | some l =>
      rw [hp] at h
      rcases List.mem_cons.mp h with rfl | h
      · simp only [linkOf, Option.map_eq_some_iff] at hp
        obtain ⟨p, _, rfl⟩ := hp
        simp
      · exact List.mem_cons_of_mem _ (linksOf_snd ns x h)

theorem linksOf_nodup : ∀ (l : List Node), (l.map (·.id)).Nodup → (linksOf l).Nodup
  | [], _ => by simp [linksOf]
  | n :: ns, h => by
    simp only [List.map_cons, List.nodup_cons] at h
    simp only [linksOf, List.filterMap_cons]
    cases hp : linkOf n with
    | none => exact linksOf_nodup ns h.2
    | some l =>
      simp only [List.nodup_cons]
      refine ⟨?_, linksOf_nodup ns h.2⟩
      intro hm
      have := linksOf_snd ns l hm
      simp only [linkOf, Option.map_eq_some_iff] at hp
      obtain ⟨p, _, rfl⟩ := hp
      exact h.1 this

end O2P.Store
