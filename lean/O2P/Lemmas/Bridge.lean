/-
From the semantics of process trees (`PTree.sem`, in which the whole-tree theorems are stated) to the judge's
executable semantics of gate trees (`outcomes` / `family` / `admits`, which decides every tree a check sees): a tree
without silent leaves that produces `s` is, as a gate tree, one that admits `s`.  Core Lean only.
-/
import O2P.Lemmas.InferOrAll
namespace O2P.Gate

mutual
def noTau : PTree → Bool
  | .leaf _ => true
  | .tau => false
  | .node _ cs => noTauL cs
def noTauL : List PTree → Bool
  | [] => true
  | c :: cs => noTau c && noTauL cs
end

/-- one outcome picked from every family, united, is an outcome of the product -/
theorem pick_productAll : ∀ (fs : List (List (List String))) (os : List (List String)),
    Rel2 (fun f o => o ∈ f) fs os → ∃ o ∈ productAll fs, ∀ x, x ∈ o ↔ x ∈ os.flatten
  | _, _, .nil => ⟨[], by simp [productAll], by simp⟩
  | f :: fs, a :: os, .cons ha hs => by
    obtain ⟨o', ho', hm⟩ := pick_productAll fs os hs
    refine ⟨union a o', ?_, ?_⟩
    · simp only [productAll, List.mem_flatMap, List.mem_map]
      exact ⟨a, ha, o', ho', rfl⟩
    · intro x
      simp only [mem_union, List.flatten_cons, List.mem_append, hm x]

theorem toGateL_cons {c : PTree} {cs : List PTree} {gs : List Gate} (h : PTree.toGateL (c :: cs) = some gs) :
    ∃ g gs', gs = g :: gs' ∧ c.toGate = some g ∧ PTree.toGateL cs = some gs' := by
  simp only [PTree.toGateL] at h
  cases hc : c.toGate with
  | none => simp [hc] at h
  | some g =>
    cases hcs : PTree.toGateL cs with
    | none => simp [hc, hcs] at h
    | some gs' =>
      simp only [hc, hcs, Option.some.injEq] at h
      exact ⟨g, gs', h.symm, rfl, rfl⟩

mutual
theorem sem_outcome : ∀ (t : PTree) (g : Gate), noTau t = true → t.toGate = some g → ∀ (s : List String),
    t.sem s → ∃ o ∈ outcomes g, ∀ x, x ∈ s ↔ x ∈ o
  | .leaf a, g, _, hg, s, h => by
    simp only [PTree.toGate, Option.some.injEq] at hg
    subst hg
    simp only [PTree.sem] at h
    exact ⟨[a], by simp [outcomes], h⟩
  | .tau, _, hn, _, _, _ => by simp [noTau] at hn
  | .node .xor cs, g, hn, hg, s, h => by
    simp only [PTree.toGate, Option.map_eq_some_iff] at hg
    obtain ⟨gs, hgs, rfl⟩ := hg
    simp only [PTree.sem] at h
    simp only [noTau] at hn
    simp only [outcomes]
    exact semAny_outcome cs gs hn hgs s h
  | .node .and cs, g, hn, hg, s, h => by
    simp only [PTree.toGate, Option.map_eq_some_iff] at hg
    obtain ⟨gs, hgs, rfl⟩ := hg
    simp only [PTree.sem] at h
    obtain ⟨ps, h1, h2⟩ := h
    simp only [noTau] at hn
    obtain ⟨os, hrel, hm⟩ := semAll_outcome cs gs hn hgs ps h1
    obtain ⟨o, ho, hmo⟩ := pick_productAll _ os hrel
    exact ⟨o, by simpa only [outcomes] using ho, fun x => by rw [h2 x, hm x, hmo x]⟩
  | .node .or cs, g, hn, hg, s, h => by
    simp only [PTree.toGate, Option.map_eq_some_iff] at hg
    obtain ⟨gs, hgs, rfl⟩ := hg
    simp only [PTree.sem] at h
    obtain ⟨ps, h1, hne, h2⟩ := h
    simp only [noTau] at hn
    obtain ⟨sub, os, hsub, hrel, hm, hlen⟩ := semSome_outcome cs gs hn hgs ps h1
    obtain ⟨o, ho, hmo⟩ := pick_productAll _ os hrel
    refine ⟨o, ?_, fun x => by rw [h2 x, hm x, hmo x]⟩
    simp only [outcomes, List.mem_flatMap]
    exact ⟨sub, sublist_mem_nonEmptySublists _ _ hsub (hlen hne), ho⟩
  | .node .other cs, g, _, hg, _, _ => by simp [PTree.toGate] at hg
theorem semAny_outcome : ∀ (cs : List PTree) (gs : List Gate), noTauL cs = true → PTree.toGateL cs = some gs →
    ∀ (s : List String), PTree.semAny cs s → ∃ o ∈ (outcomesL gs).flatten, ∀ x, x ∈ s ↔ x ∈ o
  | [], _, _, _, _, h => by simp only [PTree.semAny] at h
  | c :: cs, gs, hn, hg, s, h => by
    obtain ⟨g, gs', rfl, hc, hcs⟩ := toGateL_cons hg
    simp only [noTauL, Bool.and_eq_true] at hn
    simp only [PTree.semAny] at h
    simp only [outcomesL, List.flatten_cons, List.mem_append]
    rcases h with h | h
    · obtain ⟨o, ho, hm⟩ := sem_outcome c g hn.1 hc s h
      exact ⟨o, Or.inl ho, hm⟩
    · obtain ⟨o, ho, hm⟩ := semAny_outcome cs gs' hn.2 hcs s h
      exact ⟨o, Or.inr ho, hm⟩
theorem semAll_outcome : ∀ (cs : List PTree) (gs : List Gate), noTauL cs = true → PTree.toGateL cs = some gs →
    ∀ (ps : List (List String)), PTree.semAll cs ps →
      ∃ os, Rel2 (fun f o => o ∈ f) (outcomesL gs) os ∧ ∀ x, x ∈ ps.flatten ↔ x ∈ os.flatten
  | [], gs, _, hg, ps, h => by
    simp only [PTree.toGateL, Option.some.injEq] at hg
    subst hg
    simp only [PTree.semAll] at h
    subst h
    exact ⟨[], .nil, fun _ => Iff.rfl⟩
  | c :: cs, gs, hn, hg, ps, h => by
    obtain ⟨g, gs', rfl, hc, hcs⟩ := toGateL_cons hg
    simp only [noTauL, Bool.and_eq_true] at hn
    simp only [PTree.semAll] at h
    obtain ⟨p, ps', rfl, h1, h2⟩ := h
    obtain ⟨o, ho, hm⟩ := sem_outcome c g hn.1 hc p h1
    obtain ⟨os, hrel, hms⟩ := semAll_outcome cs gs' hn.2 hcs ps' h2
    refine ⟨o :: os, by simp only [outcomesL]; exact .cons ho hrel, ?_⟩
    intro x
    simp only [List.flatten_cons, List.mem_append, hm x, hms x]
theorem semSome_outcome : ∀ (cs : List PTree) (gs : List Gate), noTauL cs = true → PTree.toGateL cs = some gs →
    ∀ (ps : List (List String)), PTree.semSome cs ps →
      ∃ sub os, sub.Sublist (outcomesL gs) ∧ Rel2 (fun f o => o ∈ f) sub os ∧
        (∀ x, x ∈ ps.flatten ↔ x ∈ os.flatten) ∧ (ps ≠ [] → sub ≠ [])
  | [], gs, _, hg, ps, h => by
    simp only [PTree.toGateL, Option.some.injEq] at hg
    subst hg
    simp only [PTree.semSome] at h
    subst h
    exact ⟨[], [], by simp [outcomesL], .nil, fun _ => Iff.rfl, fun h => absurd rfl h⟩
  | c :: cs, gs, hn, hg, ps, h => by
    obtain ⟨g, gs', rfl, hc, hcs⟩ := toGateL_cons hg
    simp only [noTauL, Bool.and_eq_true] at hn
    simp only [PTree.semSome] at h
    simp only [outcomesL]
    rcases h with h | ⟨p, ps', rfl, h1, h2⟩
    · obtain ⟨sub, os, hsub, hrel, hm, hl⟩ := semSome_outcome cs gs' hn.2 hcs ps h
      exact ⟨sub, os, hsub.cons _, hrel, hm, hl⟩
    · obtain ⟨o, ho, hm⟩ := sem_outcome c g hn.1 hc p h1
      obtain ⟨sub, os, hsub, hrel, hms, _⟩ := semSome_outcome cs gs' hn.2 hcs ps' h2
      refine ⟨outcomes g :: sub, o :: os, hsub.cons₂ _, .cons ho hrel, ?_, fun _ => by simp⟩
      intro x
      simp only [List.flatten_cons, List.mem_append, hm x, hms x]
end

/-- **the bridge**: what a tree without silent leaves produces, the judge admits -/
theorem sem_admits (t : PTree) (g : Gate) (hn : noTau t = true) (hg : t.toGate = some g) (s : List String)
    (h : t.sem s) : admits g s = true := by
  obtain ⟨o, ho, hm⟩ := sem_outcome t g hn hg s h
  unfold admits family
  have : norm s ∈ dedupF ((outcomes g).map norm) := by
    rw [mem_dedupF, norm_ext s o hm]
    exact List.mem_map.mpr ⟨o, ho, rfl⟩
  simpa using this

end O2P.Gate
