/-
The OR inference over the whole tree (`get_extended_or_gates_from_process_tree` = `inferOrAll`): the per-node theorem
of `InferOrTree.lean` composed along the recursion.  The composition needs three things of the miner's tree, all
decidable and evaluated by the C06 check on every real raw tree:
* event names occur once (`ND`),
* below a parallel node with optional branches no mandatory child can produce the empty set, and mandatory children
  share no label with the optional branches (the hypotheses of the per-node theorem),
* below the top, such a parallel node has at least one mandatory child — otherwise the rewritten node `O(r…)` loses the
  empty set its parent may rely on (`inferOrAll_unsound_cex` in Props/C06 shows the recursion is unsound there).
Core Lean only.
-/
import O2P.Lemmas.InferOrTree
namespace O2P.Gate

/-! ### which trees can produce the empty set -/


theorem flatten_nil_parts : ∀ (ps : List (List String)), (∀ x, x ∉ ps.flatten) → ∀ p ∈ ps, p = []
  | [], _, p, hp => by cases hp
  | q :: qs, h, p, hp => by
    rcases List.mem_cons.mp hp with rfl | hp
    · cases p with
      | nil => rfl
      | cons a as => exact absurd (by simp) (h a)
    · exact flatten_nil_parts qs (fun x hx => h x (by simp [hx])) p hp

mutual
theorem sem_nil_canEmpty : ∀ (c : PTree), c.sem [] → canEmpty c = true
  | .leaf a, h => by
    simp only [PTree.sem] at h
    have := (h a).mpr (by simp)
    simp at this
  | .tau, _ => rfl
  | .node .xor cs, h => by
    simp only [PTree.sem] at h
    simp only [canEmpty]
    exact semAny_nil_canEmpty cs h
  | .node .and cs, h => by
    simp only [PTree.sem] at h
    obtain ⟨ps, h1, h2⟩ := h
    simp only [canEmpty]
    exact semAll_nil_canEmpty cs ps h1 (flatten_nil_parts ps fun x hx => by simpa using (h2 x).mpr hx)
  | .node .or cs, h => by
    simp only [PTree.sem] at h
    obtain ⟨ps, h1, hne, h2⟩ := h
    simp only [canEmpty]
    exact semSome_nil_canEmpty cs ps h1 hne (flatten_nil_parts ps fun x hx => by simpa using (h2 x).mpr hx)
  | .node .other cs, h => by simp only [PTree.sem] at h
theorem semAny_nil_canEmpty : ∀ (cs : List PTree), PTree.semAny cs [] → canEmptyAny cs = true
  | [], h => by simp only [PTree.semAny] at h
  | c :: cs, h => by
    simp only [PTree.semAny] at h
    simp only [canEmptyAny, Bool.or_eq_true]
    rcases h with h | h
    · exact Or.inl (sem_nil_canEmpty c h)
    · exact Or.inr (semAny_nil_canEmpty cs h)
theorem semAll_nil_canEmpty : ∀ (cs : List PTree) (ps : List (List String)), PTree.semAll cs ps →
    (∀ p ∈ ps, p = []) → canEmptyAll cs = true
  | [], _, _, _ => rfl
  | c :: cs, ps, h, hp => by
    simp only [PTree.semAll] at h
    obtain ⟨p, ps', rfl, h1, h2⟩ := h
    simp only [canEmptyAll, Bool.and_eq_true]
    have hp0 : p = [] := hp p (List.mem_cons_self ..)
    exact ⟨sem_nil_canEmpty c (hp0 ▸ h1), semAll_nil_canEmpty cs ps' h2 fun q hq => hp q (List.mem_cons_of_mem _ hq)⟩
theorem semSome_nil_canEmpty : ∀ (cs : List PTree) (ps : List (List String)), PTree.semSome cs ps → ps ≠ [] →
    (∀ p ∈ ps, p = []) → canEmptyAny cs = true
  | [], ps, h, hne, _ => by
    simp only [PTree.semSome] at h
    exact absurd h hne
  | c :: cs, ps, h, hne, hp => by
    simp only [PTree.semSome] at h
    simp only [canEmptyAny, Bool.or_eq_true]
    rcases h with h | ⟨p, ps', rfl, h1, _⟩
    · exact Or.inr (semSome_nil_canEmpty cs ps h hne hp)
    · have hp0 : p = [] := hp p (List.mem_cons_self ..)
      exact Or.inl (sem_nil_canEmpty c (hp0 ▸ h1))
end

/-! ### the relation the recursion preserves, and its congruence -/


theorem mem_NE {l : List String} {x : String} : x ∈ NE l ↔ x ∈ l ∧ x ≠ "" := by
  simp [NE]

theorem NE_append (a b : List String) : NE (a ++ b) = NE a ++ NE b := by simp [NE]

/-- `s` is what some observed set shows of the labels `L` -/
def Proj (F : List (List String)) (L : List String) (s : List String) : Prop :=
  ∃ s0 ∈ F, ∀ x ∈ L, (x ∈ s0 ↔ x ∈ s)

/-- `t'` may stand for `t`: it produces every non-empty projection of an observed set that `t` produces, the empty set
if `t` does, and carries no new label -/
structure Good (F : List (List String)) (t t' : PTree) : Prop where
  sem : ∀ s, Proj F t.labels s → t.sem s → t'.sem s
  lab : ∀ x ∈ t'.labels, x ∈ t.labels
  nd : (NE t.labels).Nodup → (NE t'.labels).Nodup

theorem Good.refl (F : List (List String)) (t : PTree) : Good F t t :=
  ⟨fun _ _ h => h, fun _ h => h, fun h => h⟩

/-- two lists related position by position (core Lean has no `List.Forall₂`) -/
inductive Rel2 {α β : Type} (R : α → β → Prop) : List α → List β → Prop where
  | nil : Rel2 R [] []
  | cons {a b as bs} : R a b → Rel2 R as bs → Rel2 R (a :: as) (b :: bs)

theorem Rel2.imp {α β : Type} {R S : α → β → Prop} (h : ∀ {a b}, R a b → S a b) :
    ∀ {as : List α} {bs : List β}, Rel2 R as bs → Rel2 S as bs
  | _, _, .nil => .nil
  | _, _, .cons r rs => .cons (h r) (Rel2.imp h rs)

theorem rel2_map {α β : Type} {R : α → β → Prop} (f : α → β) : ∀ (as : List α), (∀ a ∈ as, R a (f a)) →
    Rel2 R as (as.map f)
  | [], _ => .nil
  | a :: as, h => .cons (h a (List.mem_cons_self ..)) (rel2_map f as fun b hb => h b (List.mem_cons_of_mem _ hb))

theorem rel2_refl {α : Type} {R : α → α → Prop} (h : ∀ a, R a a) : ∀ (as : List α), Rel2 R as as
  | [] => .nil
  | a :: as => .cons (h a) (rel2_refl h as)

theorem Good.trans {F : List (List String)} {a b c : PTree} (h1 : Good F a b) (h2 : Good F b c) : Good F a c := by
  refine ⟨?_, fun x hx => h1.lab x (h2.lab x hx), fun h => h2.nd (h1.nd h)⟩
  intro s hp hs
  obtain ⟨s0, hs0, hag⟩ := hp
  exact h2.sem s ⟨s0, hs0, fun x hx => hag x (h1.lab x hx)⟩ (h1.sem s ⟨s0, hs0, hag⟩ hs)

theorem labelsL_map_sub (f : PTree → PTree) : ∀ (cs : List PTree), (∀ c ∈ cs, ∀ x ∈ (f c).labels, x ∈ c.labels) →
    ∀ x ∈ PTree.labelsL (cs.map f), x ∈ PTree.labelsL cs
  | [], _, x, hx => by simp [PTree.labelsL] at hx
  | c :: cs, h, x, hx => by
    simp only [List.map_cons, PTree.labelsL, List.mem_append] at hx ⊢
    rcases hx with hx | hx
    · exact Or.inl (h c (List.mem_cons_self ..) x hx)
    · exact Or.inr (labelsL_map_sub f cs (fun d hd => h d (List.mem_cons_of_mem _ hd)) x hx)

theorem labelsL_mem {c : PTree} : ∀ {cs : List PTree}, c ∈ cs → ∀ x ∈ c.labels, x ∈ PTree.labelsL cs
  | [], h, _, _ => by cases h
  | d :: ds, h, x, hx => by
    simp only [PTree.labelsL, List.mem_append]
    rcases List.mem_cons.mp h with rfl | h
    · exact Or.inl hx
    · exact Or.inr (labelsL_mem h x hx)

/-- names stay distinct when every child is replaced by one with no new label and distinct names of its own -/
theorem nd_rel : ∀ (cs cs' : List PTree),
    Rel2 (fun c c' => (∀ x ∈ c'.labels, x ∈ c.labels) ∧ ((NE c.labels).Nodup → (NE c'.labels).Nodup)) cs cs' →
    (NE (PTree.labelsL cs)).Nodup → (NE (PTree.labelsL cs')).Nodup ∧ ∀ x ∈ PTree.labelsL cs', x ∈ PTree.labelsL cs
  | _, _, .nil, h => ⟨h, fun _ hx => hx⟩
  | c :: cs, c' :: cs', .cons hc hcs, h => by
    simp only [PTree.labelsL, NE_append] at h ⊢
    obtain ⟨h1, h2, h3⟩ := List.nodup_append.mp h
    obtain ⟨ih1, ih2⟩ := nd_rel cs cs' hcs h2
    refine ⟨List.nodup_append.mpr ⟨hc.2 h1, ih1, ?_⟩, ?_⟩
    · intro a ha b hb e
      exact h3 a (mem_NE.mpr ⟨hc.1 a (mem_NE.mp ha).1, (mem_NE.mp ha).2⟩) b
        (mem_NE.mpr ⟨ih2 b (mem_NE.mp hb).1, (mem_NE.mp hb).2⟩) e
    · intro x hx
      rcases List.mem_append.mp hx with hx | hx
      · exact List.mem_append_left _ (hc.1 x hx)
      · exact List.mem_append_right _ (ih2 x hx)

section congr
variable (F : List (List String)) (f : PTree → PTree) (s : List String) (L : List String)
  (hemp : "" ∉ s) (hproj : ∃ s0 ∈ F, ∀ x ∈ L, (x ∈ s0 ↔ x ∈ s))
include hemp hproj

/-- one child: its part of `s` is what `s` shows of the child's labels -/
theorem child_step (c : PTree) (p : List String) (hcL : ∀ x ∈ c.labels, x ∈ L)
    (hag : ∀ x ∈ c.labels, (x ∈ s ↔ x ∈ p)) (hg : Good F c (f c)) (hc : c.sem p) : (f c).sem p := by
  have _ := hemp
  obtain ⟨s0, hs0, hpr⟩ := hproj
  exact hg.sem p ⟨s0, hs0, fun x hx => (hpr x (hcL x hx)).trans (hag x hx)⟩ hc

theorem semAny_map : ∀ (cs : List PTree), (∀ x ∈ PTree.labelsL cs, x ∈ L) → PTree.semAny cs s →
    (∀ c ∈ cs, Good F c (f c)) → PTree.semAny (cs.map f) s
  | [], _, h, _ => by simp only [PTree.semAny] at h
  | c :: cs, hL, h, hg => by
    simp only [PTree.semAny] at h
    simp only [List.map_cons, PTree.semAny]
    rcases h with h | h
    · left
      exact child_step F f s L hemp hproj c s (fun x hx => hL x (by simp [PTree.labelsL, hx]))
        (fun _ _ => Iff.rfl) (hg c (List.mem_cons_self ..)) h
    · right
      exact semAny_map cs (fun x hx => hL x (by simp [PTree.labelsL, hx])) h
        (fun d hd => hg d (List.mem_cons_of_mem _ hd))

theorem semAll_map : ∀ (cs : List PTree) (ps : List (List String)), (∀ x ∈ PTree.labelsL cs, x ∈ L) →
    (NE (PTree.labelsL cs)).Nodup → PTree.semAll cs ps → (∀ x ∈ ps.flatten, x ∈ s) →
    (∀ x ∈ s, x ∈ PTree.labelsL cs → x ∈ ps.flatten) → (∀ c ∈ cs, Good F c (f c)) →
    PTree.semAll (cs.map f) ps
  | [], ps, _, _, h, _, _, _ => by simpa [PTree.semAll] using h
  | c :: cs, ps, hL, hnd, h, hsub, hcov, hg => by
    simp only [PTree.semAll] at h
    obtain ⟨p, ps', rfl, h1, h2⟩ := h
    simp only [List.map_cons, PTree.semAll]
    simp only [PTree.labelsL, NE_append] at hnd
    have hdis : ∀ x, x ∈ NE c.labels → x ∉ NE (PTree.labelsL cs) := fun x hx hx' =>
      (List.nodup_append.mp hnd).2.2 x hx x hx' rfl
    refine ⟨p, ps', rfl, ?_, ?_⟩
    · apply child_step F f s L hemp hproj c p (fun x hx => hL x (by simp [PTree.labelsL, hx])) ?_
        (hg c (List.mem_cons_self ..)) h1
      intro x hx
      constructor
      · intro hxs
        have := hcov x hxs (by simp [PTree.labelsL, hx])
        simp only [List.flatten_cons, List.mem_append] at this
        rcases this with h | h
        · exact h
        · have hne : x ≠ "" := fun e => hemp (e ▸ hxs)
          exact absurd (mem_NE.mpr ⟨PTree.semAll_sub cs ps' h2 x h, hne⟩) (hdis x (mem_NE.mpr ⟨hx, hne⟩))
      · intro hxp
        exact hsub x (by simp [hxp])
    · apply semAll_map cs ps' (fun x hx => hL x (by simp [PTree.labelsL, hx])) (List.nodup_append.mp hnd).2.1 h2
        (fun x hx => hsub x (by simp [hx])) ?_ (fun d hd => hg d (List.mem_cons_of_mem _ hd))
      intro x hxs hxl
      have := hcov x hxs (by simp [PTree.labelsL, hxl])
      simp only [List.flatten_cons, List.mem_append] at this
      rcases this with h | h
      · have hne : x ≠ "" := fun e => hemp (e ▸ hxs)
        exact absurd (mem_NE.mpr ⟨hxl, hne⟩) (hdis x (mem_NE.mpr ⟨PTree.sem_sub c p h1 x h, hne⟩))
      · exact h

theorem semSome_map : ∀ (cs : List PTree) (ps : List (List String)), (∀ x ∈ PTree.labelsL cs, x ∈ L) →
    (NE (PTree.labelsL cs)).Nodup → PTree.semSome cs ps → (∀ x ∈ ps.flatten, x ∈ s) →
    (∀ x ∈ s, x ∈ PTree.labelsL cs → x ∈ ps.flatten) → (∀ c ∈ cs, Good F c (f c)) →
    PTree.semSome (cs.map f) ps
  | [], ps, _, _, h, _, _, _ => by simpa [PTree.semSome] using h
  | c :: cs, ps, hL, hnd, h, hsub, hcov, hg => by
    simp only [PTree.semSome] at h
    simp only [List.map_cons, PTree.semSome]
    simp only [PTree.labelsL, NE_append] at hnd
    have hdis : ∀ x, x ∈ NE c.labels → x ∉ NE (PTree.labelsL cs) := fun x hx hx' =>
      (List.nodup_append.mp hnd).2.2 x hx x hx' rfl
    rcases h with h | ⟨p, ps', rfl, h1, h2⟩
    · left
      exact semSome_map cs ps (fun x hx => hL x (by simp [PTree.labelsL, hx])) (List.nodup_append.mp hnd).2.1 h hsub
        (fun x hxs hxl => hcov x hxs (by simp [PTree.labelsL, hxl])) (fun d hd => hg d (List.mem_cons_of_mem _ hd))
    · right
      refine ⟨p, ps', rfl, ?_, ?_⟩
      · apply child_step F f s L hemp hproj c p (fun x hx => hL x (by simp [PTree.labelsL, hx])) ?_
          (hg c (List.mem_cons_self ..)) h1
        intro x hx
        constructor
        · intro hxs
          have := hcov x hxs (by simp [PTree.labelsL, hx])
          simp only [List.flatten_cons, List.mem_append] at this
          rcases this with h | h
          · exact h
          · have hne : x ≠ "" := fun e => hemp (e ▸ hxs)
            exact absurd (mem_NE.mpr ⟨PTree.semSome_sub cs ps' h2 x h, hne⟩) (hdis x (mem_NE.mpr ⟨hx, hne⟩))
        · intro hxp
          exact hsub x (by simp [hxp])
      · apply semSome_map cs ps' (fun x hx => hL x (by simp [PTree.labelsL, hx])) (List.nodup_append.mp hnd).2.1 h2
          (fun x hx => hsub x (by simp [hx])) ?_ (fun d hd => hg d (List.mem_cons_of_mem _ hd))
        intro x hxs hxl
        have := hcov x hxs (by simp [PTree.labelsL, hxl])
        simp only [List.flatten_cons, List.mem_append] at this
        rcases this with h | h
        · have hne : x ≠ "" := fun e => hemp (e ▸ hxs)
          exact absurd (mem_NE.mpr ⟨hxl, hne⟩) (hdis x (mem_NE.mpr ⟨PTree.sem_sub c p h1 x h, hne⟩))
        · exact h
end congr

/-- the sets of a node whose children are replaced by good stand-ins -/
theorem node_sem_congr (F : List (List String)) (f : PTree → PTree) (op : POp) (cs : List PTree)
    (hnd : (NE (PTree.labelsL cs)).Nodup) (hg : ∀ c ∈ cs, Good F c (f c)) (s : List String) (hemp : "" ∉ s)
    (hproj : ∃ s0 ∈ F, ∀ x ∈ PTree.labelsL cs, (x ∈ s0 ↔ x ∈ s))
    (h : (PTree.node op cs).sem s) : (PTree.node op (cs.map f)).sem s := by
  cases op with
  | xor =>
    simp only [PTree.sem] at h ⊢
    exact semAny_map F f s (PTree.labelsL cs) hemp hproj cs (fun _ hx => hx) h hg
  | and =>
    simp only [PTree.sem] at h ⊢
    obtain ⟨ps, h1, h2⟩ := h
    exact ⟨ps, semAll_map F f s (PTree.labelsL cs) hemp hproj cs ps (fun _ hx => hx) hnd h1
      (fun x hx => (h2 x).mpr hx) (fun x hx _ => (h2 x).mp hx) hg, h2⟩
  | or =>
    simp only [PTree.sem] at h ⊢
    obtain ⟨ps, h1, hne, h2⟩ := h
    exact ⟨ps, semSome_map F f s (PTree.labelsL cs) hemp hproj cs ps (fun _ hx => hx) hnd h1
      (fun x hx => (h2 x).mpr hx) (fun x hx _ => (h2 x).mp hx) hg, hne, h2⟩
  | other => simp only [PTree.sem] at h

theorem node_congr (F : List (List String)) (hF : ∀ s0 ∈ F, "" ∉ s0) (f : PTree → PTree) (op : POp)
    (cs : List PTree) (hnd : (NE (PTree.labelsL cs)).Nodup) (hg : ∀ c ∈ cs, Good F c (f c)) :
    Good F (.node op cs) (.node op (cs.map f)) := by
  refine ⟨?_, ?_, ?_⟩
  · intro s hp hs
    obtain ⟨s0, hs0, hag⟩ := hp
    simp only [PTree.labels] at hag
    have hemp : "" ∉ s := by
      intro he
      have := PTree.sem_sub _ s hs "" he
      simp only [PTree.labels] at this
      exact hF s0 hs0 ((hag "" this).mpr he)
    exact node_sem_congr F f op cs hnd hg s hemp ⟨s0, hs0, hag⟩ hs
  · intro x hx
    simp only [PTree.labels] at hx ⊢
    exact labelsL_map_sub f cs (fun c hc => (hg c hc).lab) x hx
  · intro h
    simp only [PTree.labels] at h ⊢
    exact (nd_rel cs (cs.map f) (rel2_map f cs fun c hc => ⟨(hg c hc).lab, (hg c hc).nd⟩) h).1

theorem inferOrAllL_eq_map (F : List (List String)) (fuel : Nat) : ∀ (cs : List PTree),
    inferOrAllL F fuel cs = cs.map (inferOrAll F fuel)
  | [] => by simp [inferOrAllL]
  | c :: cs => by simp [inferOrAllL, inferOrAllL_eq_map F fuel cs]

/-! ### the well-formedness of a raw tree that the composition needs (decidable) -/

theorem wfL_mem {strict : Bool} {F : List (List String)} : ∀ {cs : List PTree}, wfL strict F cs = true →
    ∀ c ∈ cs, wfT strict F c = true
  | [], _, c, hc => by cases hc
  | d :: ds, h, c, hc => by
    simp only [wfL, Bool.and_eq_true] at h
    rcases List.mem_cons.mp hc with rfl | hc
    · exact h.1
    · exact wfL_mem h.2 c hc

theorem wfL_of_forall {strict : Bool} {F : List (List String)} : ∀ {cs : List PTree},
    (∀ c ∈ cs, wfT strict F c = true) → wfL strict F cs = true
  | [], _ => rfl
  | d :: ds, h => by
    simp only [wfL, Bool.and_eq_true]
    exact ⟨h d (List.mem_cons_self ..), wfL_of_forall fun c hc => h c (List.mem_cons_of_mem _ hc)⟩

/-- below a parallel, OR or other node the children are strict; below a choice they inherit the flag, and only if the
choice itself can be asked for the empty set -/
theorem wfT_children {strict : Bool} {F : List (List String)} {op : POp} {cs : List PTree}
    (h : wfT strict F (.node op cs) = true) :
    wfL (if op = .xor then (strict && (cs.any PTree.isTau || missAny F (PTree.labelsL cs))) else true) F cs = true := by
  cases op <;> simp only [wfT, Bool.and_eq_true] at h
  · simpa using h.2
  · simpa using h
  · simpa using h
  · simpa using h

/-! ### labels along `classify` -/

theorem labelsL_append : ∀ (a b : List PTree), PTree.labelsL (a ++ b) = PTree.labelsL a ++ PTree.labelsL b
  | [], b => by simp [PTree.labelsL]
  | c :: a, b => by simp [PTree.labelsL, labelsL_append a b]

theorem labelsL_sublist : ∀ {a b : List PTree}, a.Sublist b → (PTree.labelsL a).Sublist (PTree.labelsL b)
  | _, _, .slnil => by simp [PTree.labelsL]
  | _, _, .cons c h => by
    simp only [PTree.labelsL]
    exact (labelsL_sublist h).trans (List.sublist_append_right _ _)
  | _, _, .cons₂ c h => by
    simp only [PTree.labelsL]
    exact List.Sublist.append (List.Sublist.refl _) (labelsL_sublist h)

theorem classify_sublist : ∀ (cs : List PTree), (classify cs).1.Sublist cs ∧ (classify cs).2.Sublist cs
  | [] => by simp [classify]
  | c :: cs => by
    have ih := classify_sublist cs
    cases hcl : classify cs with
    | mk t n =>
      rw [hcl] at ih
      have toN : (t.Sublist (c :: cs)) ∧ ((c :: n).Sublist (c :: cs)) := ⟨ih.1.cons _, ih.2.cons₂ _⟩
      have toT : ((c :: t).Sublist (c :: cs)) ∧ (n.Sublist (c :: cs)) := ⟨ih.1.cons₂ _, ih.2.cons _⟩
      match c with
      | .leaf a => simpa only [classify, hcl] using toN
      | .tau => simpa only [classify, hcl] using toN
      | .node .and _ => simpa only [classify, hcl] using toN
      | .node .or _ => simpa only [classify, hcl] using toN
      | .node .other _ => simpa only [classify, hcl] using toN
      | .node .xor gcs =>
        by_cases hany : gcs.any PTree.isTau = true
        · simpa only [classify, hcl, hany, if_true] using toT
        · have hany' : gcs.any PTree.isTau = false := by simpa using hany
          simpa only [classify, hcl, hany', Bool.false_eq_true, if_false] using toN

/-- the mandatory children, classified again, are all mandatory -/
theorem classify_nonTau : ∀ (cs : List PTree), classify (classify cs).2 = ([], (classify cs).2)
  | [] => by simp [classify]
  | c :: cs => by
    have ih := classify_nonTau cs
    cases hcl : classify cs with
    | mk t n =>
      rw [hcl] at ih
      simp only at ih
      match c with
      | .leaf a => simp only [classify, hcl, ih]
      | .tau => simp only [classify, hcl, ih]
      | .node .and _ => simp only [classify, hcl, ih]
      | .node .or _ => simp only [classify, hcl, ih]
      | .node .other _ => simp only [classify, hcl, ih]
      | .node .xor gcs =>
        by_cases hany : gcs.any PTree.isTau = true
        · simp only [classify, hcl, hany, if_true, ih]
        · have hany' : gcs.any PTree.isTau = false := by simpa using hany
          simp only [classify, hcl, hany', Bool.false_eq_true, if_false, ih]

theorem labelsL_filter_sublist (q : PTree → Bool) : ∀ (gcs : List PTree),
    (PTree.labelsL (gcs.filter q)).Sublist (PTree.labelsL gcs) :=
  fun gcs => labelsL_sublist List.filter_sublist

/-- the labels of the grandchildren lie, in order, among the labels of the optional branches -/
theorem labelsL_removed_sublist : ∀ (tc : List PTree),
    (PTree.labelsL (tc.flatMap grandchildrenOf)).Sublist (PTree.labelsL tc)
  | [] => by simp [PTree.labelsL]
  | c :: tc => by
    simp only [List.flatMap_cons, labelsL_append, PTree.labelsL]
    apply List.Sublist.append _ (labelsL_removed_sublist tc)
    match c with
    | .leaf _ => simp [grandchildrenOf, PTree.labelsL]
    | .tau => simp [grandchildrenOf, PTree.labelsL]
    | .node _ gcs =>
      simp only [grandchildrenOf, PTree.labels]
      exact labelsL_filter_sublist _ gcs

/-- the optional branches are choices with a silent alternative -/
theorem classify_tau_has : ∀ (cs : List PTree), ∀ c ∈ (classify cs).1, ∃ gcs, c = .node .xor gcs ∧
    gcs.any PTree.isTau = true
  | [], c, h => by simp [classify] at h
  | d :: cs, c, h => by
    have ih := classify_tau_has cs
    cases hcl : classify cs with
    | mk t n =>
      rw [hcl] at ih
      match d with
      | .leaf a => simp only [classify, hcl] at h; exact ih c h
      | .tau => simp only [classify, hcl] at h; exact ih c h
      | .node .xor gcs =>
        by_cases hany : gcs.any PTree.isTau = true
        · simp only [classify, hcl, hany, if_true, List.mem_cons] at h
          rcases h with h | h
          · exact ⟨gcs, h, hany⟩
          · exact ih c h
        · have hany' : gcs.any PTree.isTau = false := by simpa using hany
          simp only [classify, hcl, hany', Bool.false_eq_true, if_false] at h
          exact ih c h
      | .node .and _ => simp only [classify, hcl] at h; exact ih c h
      | .node .or _ => simp only [classify, hcl] at h; exact ih c h
      | .node .other _ => simp only [classify, hcl] at h; exact ih c h

theorem grandchild_wf {F : List (List String)} (cs : List PTree)
    (h : ∀ c ∈ (classify cs).1, wfT true F c = true) :
    ∀ g ∈ (classify cs).1.flatMap grandchildrenOf, wfT true F g = true := by
  intro g hg
  obtain ⟨c, hc, hgc⟩ := List.mem_flatMap.mp hg
  obtain ⟨gcs, rfl, hany⟩ := classify_tau_has cs c hc
  have hw := h _ hc
  simp only [wfT, hany, Bool.true_or, Bool.and_self] at hw
  simp only [grandchildrenOf, List.mem_filter] at hgc
  exact wfL_mem hw g hgc.1

theorem NE_sublist {a b : List String} (h : a.Sublist b) : (NE a).Sublist (NE b) := List.Sublist.filter _ h

theorem nd_child : ∀ {cs : List PTree}, (NE (PTree.labelsL cs)).Nodup → ∀ c ∈ cs, (NE c.labels).Nodup
  | [], _, c, hc => by cases hc
  | d :: ds, h, c, hc => by
    simp only [PTree.labelsL, NE_append] at h
    rcases List.mem_cons.mp hc with rfl | hc
    · exact (List.nodup_append.mp h).1
    · exact nd_child (List.nodup_append.mp h).2.1 c hc

/-! ### one rewritten node -/

theorem semAll_nil_each : ∀ (cs : List PTree) (ps : List (List String)), PTree.semAll cs ps → (∀ p ∈ ps, p = []) →
    ∀ c ∈ cs, c.sem []
  | [], _, _, _, c, hc => by cases hc
  | d :: ds, ps, h, hp, c, hc => by
    simp only [PTree.semAll] at h
    obtain ⟨p, ps', rfl, h1, h2⟩ := h
    have hp0 : p = [] := hp p (List.mem_cons_self ..)
    rcases List.mem_cons.mp hc with rfl | hc
    · exact hp0 ▸ h1
    · exact semAll_nil_each ds ps' h2 (fun q hq => hp q (List.mem_cons_of_mem _ hq)) c hc

theorem disjointS_iff {a b : List String} : disjointS a b = true ↔ ∀ x ∈ a, x ∉ b := by
  simp only [disjointS, interS, List.isEmpty_iff, List.filter_eq_nil_iff, List.contains_eq_mem,
    decide_eq_true_eq]

/-- what the rewritten node's children are -/
inductive Shape (removed nonTau : List PTree) : POp → List PTree → Prop where
  | orBlock : Shape removed nonTau .or (removed ++ [.node .and nonTau])
  | orFlat : Shape removed nonTau .or (removed ++ nonTau)
  | andOr : Shape removed nonTau .and (nonTau ++ [.node .or removed])

theorem inferOrNode_shape (F : List (List String)) (cs : List PTree) (hte : (classify cs).1.isEmpty = false) :
    ∃ op1 cs1, inferOrNode F (.node .and cs) = .node op1 cs1 ∧
      Shape ((classify cs).1.flatMap grandchildrenOf) (classify cs).2 op1 cs1 := by
  cases hcl : classify cs with
  | mk tauC nonTau =>
    rw [hcl] at hte
    simp only [inferOrNode, hcl, hte, Bool.false_eq_true, if_false]
    by_cases hchk : checkIsOr F nonTau (tauC.flatMap grandchildrenOf) = true
    · simp only [hchk, if_true]
      by_cases hlen : nonTau.length > 1
      · simp only [hlen, if_true]
        exact ⟨_, _, rfl, .orBlock⟩
      · simp only [hlen, if_false]
        exact ⟨_, _, rfl, .orFlat⟩
    · simp only [hchk, Bool.false_eq_true, if_false]
      exact ⟨_, _, rfl, .andOr⟩

theorem shape_labels {removed nonTau : List PTree} {op1 : POp} {cs1 : List PTree} (h : Shape removed nonTau op1 cs1) :
    ∀ x, x ∈ PTree.labelsL cs1 ↔ (x ∈ PTree.labelsL removed ∨ x ∈ PTree.labelsL nonTau) := by
  intro x
  cases h <;> simp [labelsL_append, PTree.labelsL, PTree.labels, or_comm]

theorem shape_nd {removed nonTau : List PTree} {op1 : POp} {cs1 : List PTree} (h : Shape removed nonTau op1 cs1)
    (hr : (NE (PTree.labelsL removed)).Nodup) (hn : (NE (PTree.labelsL nonTau)).Nodup)
    (hd : ∀ x ∈ PTree.labelsL nonTau, x ∉ PTree.labelsL removed) : (NE (PTree.labelsL cs1)).Nodup := by
  have h1 : (NE (PTree.labelsL removed) ++ NE (PTree.labelsL nonTau)).Nodup :=
    List.nodup_append.mpr ⟨hr, hn, fun a ha b hb e =>
      hd b (mem_NE.mp hb).1 (e ▸ (mem_NE.mp ha).1)⟩
  have h2 : (NE (PTree.labelsL nonTau) ++ NE (PTree.labelsL removed)).Nodup :=
    List.nodup_append.mpr ⟨hn, hr, fun a ha b hb e =>
      hd a (mem_NE.mp ha).1 (e ▸ (mem_NE.mp hb).1)⟩
  cases h
  · simpa [labelsL_append, PTree.labelsL, PTree.labels, NE_append, NE] using h1
  · simpa [labelsL_append, NE_append] using h1
  · simpa [labelsL_append, PTree.labelsL, PTree.labels, NE_append, NE] using h2

theorem shape_wf {F : List (List String)} {removed nonTau : List PTree} {op1 : POp} {cs1 : List PTree}
    (h : Shape removed nonTau op1 cs1)
    (hr : ∀ c ∈ removed, wfT true F c = true) (hn : ∀ c ∈ nonTau, wfT true F c = true)
    (hcl : classify nonTau = ([], nonTau)) : ∀ c ∈ cs1, wfT true F c = true := by
  have hblock : wfT true F (.node .and nonTau) = true := by
    simp only [wfT, wfAnd, hcl, List.isEmpty_nil, Bool.true_or, Bool.true_and]
    exact wfL_of_forall hn
  have hor : wfT true F (.node .or removed) = true := by
    simp only [wfT]
    exact wfL_of_forall hr
  intro c hc
  cases h
  · rcases List.mem_append.mp hc with hc | hc
    · exact hr c hc
    · simp only [List.mem_singleton] at hc
      exact hc ▸ hblock
  · rcases List.mem_append.mp hc with hc | hc
    · exact hr c hc
    · exact hn c hc
  · rcases List.mem_append.mp hc with hc | hc
    · exact hn c hc
    · simp only [List.mem_singleton] at hc
      exact hc ▸ hor

/-- `Good`, asked for the empty set only when `strict` -/
structure GoodS (strict : Bool) (F : List (List String)) (t t' : PTree) : Prop where
  sem : ∀ s, (s ≠ [] ∨ strict = true) → Proj F t.labels s → t.sem s → t'.sem s
  lab : ∀ x ∈ t'.labels, x ∈ t.labels
  nd : (NE t.labels).Nodup → (NE t'.labels).Nodup

theorem Good.toS {F : List (List String)} {t t' : PTree} (h : Good F t t') (strict : Bool) : GoodS strict F t t' :=
  ⟨fun s _ => h.sem s, h.lab, h.nd⟩

theorem GoodS.toGood {F : List (List String)} {t t' : PTree} (h : GoodS true F t t') : Good F t t' :=
  ⟨fun s => h.sem s (Or.inr rfl), h.lab, h.nd⟩

theorem GoodS.trans {strict : Bool} {F : List (List String)} {a b c : PTree} (h1 : GoodS strict F a b)
    (h2 : Good F b c) : GoodS strict F a c := by
  refine ⟨?_, fun x hx => h1.lab x (h2.lab x hx), fun h => h2.nd (h1.nd h)⟩
  intro s hg hp hs
  obtain ⟨s0, hs0, hag⟩ := hp
  exact h2.sem s ⟨s0, hs0, fun x hx => hag x (h1.lab x hx)⟩ (h1.sem s hg ⟨s0, hs0, hag⟩ hs)

theorem missAny_of_proj {F : List (List String)} {L : List String} (h : Proj F L []) : missAny F L = true := by
  obtain ⟨s0, hs0, hag⟩ := h
  simp only [missAny, List.any_eq_true]
  refine ⟨s0, hs0, ?_⟩
  simp only [interS, List.isEmpty_iff, List.filter_eq_nil_iff, List.contains_eq_mem, decide_eq_true_eq]
  intro x hx hxl
  exact absurd ((hag x hxl).mp hx) (by simp)

/-- the rewritten node stands for the raw one -/
theorem step_good (F : List (List String)) (strict : Bool) (cs : List PTree)
    (hte : (classify cs).1.isEmpty = false) (hw : wfAnd strict F cs = true) :
    GoodS strict F (.node .and cs) (inferOrNode F (.node .and cs)) := by
  simp only [wfAnd, hte, Bool.false_or, Bool.and_eq_true, List.all_eq_true, Bool.not_eq_true',
    Bool.or_eq_true] at hw
  obtain ⟨⟨hall, hdj⟩, hstrict⟩ := hw
  have hsub := classify_sublist cs
  have hlabN : ∀ x ∈ PTree.labelsL (classify cs).2, x ∈ PTree.labelsL cs :=
    fun x hx => (labelsL_sublist hsub.2).subset hx
  have hlabR : ∀ x ∈ PTree.labelsL ((classify cs).1.flatMap grandchildrenOf), x ∈ PTree.labelsL cs :=
    fun x hx => (labelsL_sublist hsub.1).subset ((labelsL_removed_sublist _).subset hx)
  have hne : ∀ c ∈ (classify cs).2, ∀ s, c.sem s → s ≠ [] := by
    intro c hc s hs e
    subst e
    have := sem_nil_canEmpty c hs
    rw [hall c hc] at this
    cases this
  refine ⟨?_, ?_, ?_⟩
  · intro s hguard hp hraw
    by_cases hsne : s = []
    · exfalso
      subst hsne
      have hst : strict = true := hguard.resolve_left (fun h => h rfl)
      have hmiss : missAny F (PTree.labelsL cs) = true := missAny_of_proj (by simpa only [PTree.labels] using hp)
      simp only [PTree.sem] at hraw
      obtain ⟨ps, h1, h2⟩ := hraw
      have hall0 := semAll_nil_each cs ps h1 (flatten_nil_parts ps fun x hx => by simpa using (h2 x).mpr hx)
      cases hn : (classify cs).2 with
      | nil =>
        rw [hn, hst, hmiss] at hstrict
        simp at hstrict
      | cons c rest =>
        have hc : c ∈ (classify cs).2 := by simp [hn]
        exact hne c hc [] (hall0 c (hsub.2.subset hc)) rfl
    · obtain ⟨s0, hs0, hag⟩ := hp
      simp only [PTree.labels] at hag
      exact infer_or_tree_sound_proj F cs hne (fun x hx => disjointS_iff.mp hdj x hx) s
        ⟨s0, hs0, fun x hx => hag x (hx.elim (hlabN x) (hlabR x))⟩ hsne hraw
  · obtain ⟨op1, cs1, he, hsh⟩ := inferOrNode_shape F cs hte
    rw [he]
    intro x hx
    simp only [PTree.labels] at hx ⊢
    rcases (shape_labels hsh x).mp hx with h | h
    · exact hlabR x h
    · exact hlabN x h
  · intro hnd
    simp only [PTree.labels] at hnd
    obtain ⟨op1, cs1, he, hsh⟩ := inferOrNode_shape F cs hte
    rw [he]
    simp only [PTree.labels]
    exact shape_nd hsh
      ((NE_sublist ((labelsL_removed_sublist _).trans (labelsL_sublist hsub.1))).nodup hnd)
      ((NE_sublist (labelsL_sublist hsub.2)).nodup hnd) (disjointS_iff.mp hdj)

/-- a choice hands its set to one child: its children are asked for the empty set only if the choice is, and then some
observed set shows none of the choice's events -/
theorem xor_congrS (F : List (List String)) (strict : Bool) (f : PTree → PTree) (cs : List PTree)
    (hg : ∀ c ∈ cs, GoodS (strict && (cs.any PTree.isTau || missAny F (PTree.labelsL cs))) F c (f c)) :
    GoodS strict F (.node .xor cs) (.node .xor (cs.map f)) := by
  have key : ∀ (l : List PTree), (∀ c ∈ l, c ∈ cs) → ∀ (s : List String), (s ≠ [] ∨ strict = true) →
      (∃ s0 ∈ F, ∀ x ∈ PTree.labelsL cs, (x ∈ s0 ↔ x ∈ s)) → PTree.semAny l s → PTree.semAny (l.map f) s := by
    intro l
    induction l with
    | nil => intro _ s _ _ h; simp only [PTree.semAny] at h
    | cons c l ih =>
      intro hl s hgd hp h
      simp only [PTree.semAny] at h
      simp only [List.map_cons, PTree.semAny]
      have hc : c ∈ cs := hl c (List.mem_cons_self ..)
      rcases h with h | h
      · left
        obtain ⟨s0, hs0, hag⟩ := hp
        refine (hg c hc).sem s ?_ ⟨s0, hs0, fun x hx => hag x (labelsL_mem hc x hx)⟩ h
        rcases hgd with hne | hst
        · exact Or.inl hne
        · by_cases hs : s = []
          · subst hs
            right
            rw [hst, missAny_of_proj ⟨s0, hs0, hag⟩]
            simp
          · exact Or.inl hs
      · right
        exact ih (fun d hd => hl d (List.mem_cons_of_mem _ hd)) s hgd hp h
  refine ⟨?_, ?_, ?_⟩
  · intro s hgd hp hs
    simp only [PTree.labels] at hp
    simp only [PTree.sem] at hs ⊢
    exact key cs (fun _ h => h) s hgd hp hs
  · intro x hx
    simp only [PTree.labels] at hx ⊢
    exact labelsL_map_sub f cs (fun c hc => (hg c hc).lab) x hx
  · intro h
    simp only [PTree.labels] at h ⊢
    exact (nd_rel cs (cs.map f) (rel2_map f cs fun c hc => ⟨(hg c hc).lab, (hg c hc).nd⟩) h).1

/-- **the OR inference over the whole tree** -/
theorem inferOrAll_goodS (F : List (List String)) (hF : ∀ s0 ∈ F, "" ∉ s0) : ∀ (fuel : Nat) (strict : Bool)
    (t : PTree), wfT strict F t = true → (NE t.labels).Nodup → GoodS strict F t (inferOrAll F fuel t)
  | 0, strict, t, _, _ => by
    simp only [inferOrAll]
    exact (Good.refl F t).toS strict
  | fuel + 1, strict, t, hw, hnd => by
    have ih : ∀ c, wfT true F c = true → (NE c.labels).Nodup → Good F c (inferOrAll F fuel c) :=
      fun c h1 h2 => (inferOrAll_goodS F hF fuel true c h1 h2).toGood
    have children : ∀ (op : POp) (cs : List PTree), wfL true F cs = true → (NE (PTree.labelsL cs)).Nodup →
        Good F (.node op cs) (.node op (cs.map (inferOrAll F fuel))) := fun op cs hwl hndl =>
      node_congr F hF _ op cs hndl (fun c hc => ih c (wfL_mem hwl c hc) (nd_child hndl c hc))
    cases t with
    | leaf a =>
      simp only [inferOrAll, inferOrNode]
      exact (Good.refl F _).toS strict
    | tau =>
      simp only [inferOrAll, inferOrNode]
      exact (Good.refl F _).toS strict
    | node op cs =>
      have hwl0 := wfT_children hw
      simp only [PTree.labels] at hnd
      have unchanged : wfL true F cs = true → inferOrNode F (.node op cs) = .node op cs →
          GoodS strict F (.node op cs) (inferOrAll F (fuel + 1) (.node op cs)) := by
        intro hwl hid
        have : inferOrAll F (fuel + 1) (.node op cs) = .node op (cs.map (inferOrAll F fuel)) := by
          simp only [inferOrAll, hid, inferOrAllL_eq_map]
        rw [this]
        exact (children op cs hwl hnd).toS strict
      cases op with
      | xor =>
        have hwl : wfL (strict && (cs.any PTree.isTau || missAny F (PTree.labelsL cs))) F cs = true := by
          simpa using hwl0
        have : inferOrAll F (fuel + 1) (.node .xor cs) = .node .xor (cs.map (inferOrAll F fuel)) := by
          simp only [inferOrAll, inferOrNode, inferOrAllL_eq_map]
        rw [this]
        exact xor_congrS F strict _ cs fun c hc =>
          inferOrAll_goodS F hF fuel _ c (wfL_mem hwl c hc) (nd_child hnd c hc)
      | or => exact unchanged (by simpa using hwl0) (by simp only [inferOrNode])
      | other => exact unchanged (by simpa using hwl0) (by simp only [inferOrNode])
      | and =>
        have hwl : wfL true F cs = true := by simpa using hwl0
        by_cases hte : (classify cs).1.isEmpty = true
        · apply unchanged hwl
          cases hcl : classify cs with
          | mk tauC nonTau =>
            rw [hcl] at hte
            simp only [inferOrNode, hcl, hte, if_true]
        · have hte' : (classify cs).1.isEmpty = false := by simpa using hte
          have hwa : wfAnd strict F cs = true := by
            simp only [wfT, Bool.and_eq_true] at hw
            exact hw.1
          have hstep := step_good F strict cs hte' hwa
          obtain ⟨op1, cs1, he, hsh⟩ := inferOrNode_shape F cs hte'
          have hall : inferOrAll F (fuel + 1) (.node .and cs) = .node op1 (cs1.map (inferOrAll F fuel)) := by
            simp only [inferOrAll, he, inferOrAllL_eq_map]
          rw [hall]
          rw [he] at hstep
          apply hstep.trans
          have hsub := classify_sublist cs
          have hwa' := hwa
          simp only [wfAnd, hte', Bool.false_or, Bool.and_eq_true] at hwa'
          have hdj := disjointS_iff.mp hwa'.1.2
          have hndR : (NE (PTree.labelsL ((classify cs).1.flatMap grandchildrenOf))).Nodup :=
            (NE_sublist ((labelsL_removed_sublist _).trans (labelsL_sublist hsub.1))).nodup hnd
          have hndN : (NE (PTree.labelsL (classify cs).2)).Nodup :=
            (NE_sublist (labelsL_sublist hsub.2)).nodup hnd
          have hwN : ∀ c ∈ (classify cs).2, wfT true F c = true := fun c hc => wfL_mem hwl c (hsub.2.subset hc)
          have hwR : ∀ c ∈ (classify cs).1.flatMap grandchildrenOf, wfT true F c = true :=
            grandchild_wf cs (fun c hc => wfL_mem hwl c (hsub.1.subset hc))
          exact children op1 cs1 (wfL_of_forall (shape_wf hsh hwR hwN (classify_nonTau cs)))
            (shape_nd hsh hndR hndN hdj)

end O2P.Gate
