/-
End to end on the flat case: for the miner's node over optional plain events only, `+(X(tau,r)…)`, every outcome of
the modelled post-processing (`postProcess` = OR inference, defunct-OR filter, AND recovery under every choice of
the cover step) is a gate tree that admits every non-empty observed set below those events.  Core Lean only.
-/
import O2P.Lemmas.InferOr
namespace O2P.Gate

theorem set_same {α : Type} (l : List α) (i : Nat) (a : α) (h : l[i]? = some a) : l.set i a = l := by
  rcases List.getElem?_eq_some_iff.mp h with ⟨hlt, e⟩
  rw [← e]
  exact List.set_getElem_self hlt

/-- leaves are left alone by the recursive OR inference -/
theorem inferOrAllL_leaves (F : List (List String)) (fuel : Nat) : ∀ (l : List String),
    inferOrAllL F fuel (l.map PTree.leaf) = l.map PTree.leaf
  | [] => by simp [inferOrAllL]
  | a :: as => by
    simp only [List.map_cons, inferOrAllL, inferOrAllL_leaves F fuel as]
    cases fuel <;> simp [inferOrAll, inferOrNode]

/-- … and by the defunct-OR filter, whatever the fuel and the position -/
theorem filterLoop_leaves (op : POp) (l : List String) : ∀ (fuel i : Nat),
    filterLoop fuel op i (l.map PTree.leaf) = l.map PTree.leaf
  | 0, _ => rfl
  | fuel + 1, i => by
    simp only [filterLoop, List.getElem?_map]
    cases hi : l[i]? with
    | none => rfl
    | some a =>
      have hleaf : filterDefunct fuel (PTree.leaf a) = PTree.leaf a := by
        cases fuel <;> rfl
      simp only [Option.map_some, hleaf, PTree.opOf]
      have hset : (l.map PTree.leaf).set i (PTree.leaf a) = l.map PTree.leaf :=
        set_same _ i _ (by simp [List.getElem?_map, hi])
      rw [hset]
      simpa using filterLoop_leaves op l fuel (i + 1)

theorem mapM_leafLabel_leaves : ∀ (l : List String), (l.map PTree.leaf).mapM leafLabel? = some l
  | [] => rfl
  | a :: as => by simp [List.mapM_cons, leafLabel?, mapM_leafLabel_leaves as]

/-- a cover member as a tree (what `process_missing_and_gates` builds) -/
def partTree (p : List String) : PTree :=
  match p with
  | [a] => PTree.leaf a
  | _ => PTree.node .and (p.map PTree.leaf)

theorem missingAnd_partTree (F : List (List String)) (fuel : Nat) (p : List String) :
    missingAnd (fuel + 2) F (partTree p) = [partTree p] := by
  unfold partTree
  split
  · simp [missingAnd]
  · simp only [missingAnd]
    have : (POp.and == POp.or) = false := rfl
    simp only [this, Bool.false_eq_true, if_false, List.flatMap_cons, List.flatMap_nil, List.append_nil]
    have hL : ∀ (l : List String), missingAndL (fuel + 1) F (l.map PTree.leaf) = [l.map PTree.leaf] := by
      intro l
      induction l with
      | nil => simp [missingAndL]
      | cons a as ih => simp [missingAndL, missingAnd, ih]
    rw [hL]
    simp

theorem missingAndL_parts (F : List (List String)) (fuel : Nat) : ∀ (c : List (List String)),
    missingAndL (fuel + 2) F (c.map partTree) = [c.map partTree]
  | [] => by simp [missingAndL]
  | p :: ps => by
    simp only [List.map_cons, missingAndL, missingAnd_partTree, missingAndL_parts F fuel ps, List.flatMap_cons,
      List.flatMap_nil, List.map_cons, List.map_nil, List.append_nil]

theorem missingAndL_leaves (F : List (List String)) (fuel : Nat) (l : List String) :
    missingAndL (fuel + 2) F (l.map PTree.leaf) = [l.map PTree.leaf] := by
  have := missingAndL_parts F fuel (l.map fun a => [a])
  simpa [List.map_map, partTree, Function.comp_def] using this

theorem toGate_partTree (p : List String) : (partTree p).toGate = some (partGate p) := by
  unfold partTree partGate
  split
  · rfl
  · simp [PTree.toGate, toGateL_leaves]

theorem toGateL_parts : ∀ (c : List (List String)), PTree.toGateL (c.map partTree) = some (c.map partGate)
  | [] => rfl
  | p :: ps => by simp [PTree.toGateL, toGate_partTree, toGateL_parts ps]

/-- the observed sets as `process_missing_and_gates` hands them to the cover step (after dcf1496): every set with
the part of it that lies among the gate's events, the empty parts dropped, as a set of sets -/
def projF (F : List (List String)) (R : List String) : List (List String) :=
  ((F.map fun s => interS s R).filter fun s => !s.isEmpty).eraseDups

theorem mem_projF {F : List (List String)} {R t : List String} :
    t ∈ projF F R ↔ ∃ s ∈ F, interS s R = t ∧ t ≠ [] := by
  unfold projF
  rw [List.mem_eraseDups, List.mem_filter, List.mem_map]
  constructor
  · rintro ⟨⟨s, hs, rfl⟩, hne⟩
    exact ⟨s, hs, rfl, by simpa using hne⟩
  · rintro ⟨s, hs, rfl, hne⟩
    exact ⟨⟨s, hs, rfl⟩, by simpa using hne⟩

/-- the outcomes of the post-processing on the flat node, listed -/
theorem postProcess_flat (F : List (List String)) (R : List String) (hR : R ≠ []) :
    postProcess F (rawLeaves [] R) =
      (weightedCover (projF F R) R).map fun r => match r with
        | some cover => PTree.node .or (cover.map partTree)
        | none => PTree.node .or (R.map PTree.leaf) := by
  unfold postProcess
  have h1 : inferOrAll F 50 (rawLeaves [] R) = .node .or (R.map PTree.leaf) := by
    have hn := inferOrNode_rawLeaves F [] R hR
    simp only [List.map_nil, checkIsOr, List.isEmpty_nil, Bool.true_or, if_true, List.length_nil,
      Nat.not_lt_zero, gt_iff_lt, if_false, List.append_nil] at hn
    simp only [inferOrAll, hn, inferOrAllL_leaves]
  have h2 : filterDefunct 200 (.node .or (R.map PTree.leaf)) = .node .or (R.map PTree.leaf) := by
    show PTree.node .or (filterLoop 199 .or 0 (R.map PTree.leaf)) = _
    rw [filterLoop_leaves]
  rw [h1, h2]
  show (missingAnd (48 + 2) F (.node .or (R.map PTree.leaf))) = _
  simp only [missingAnd, beq_self_eq_true, if_true, mapM_leafLabel_leaves, List.flatMap_map]
  show List.flatMap _ (weightedCover (projF F R) R) = _
  induction weightedCover (projF F R) R with
  | nil => rfl
  | cons r rs ih =>
    simp only [List.flatMap_cons, List.map_cons, ih]
    cases r with
    | none =>
      have h : missingAndL (48 + 1) F (R.map PTree.leaf) = [R.map PTree.leaf] := missingAndL_leaves F 47 R
      simp only [h, List.map_cons, List.map_nil, List.singleton_append]
    | some cover =>
      show List.map (fun cs'' => PTree.node POp.or cs'') (missingAndL (47 + 2) F (cover.map partTree)) ++ _ = _
      rw [missingAndL_parts F 47 cover]
      rfl

theorem sameS_iff {a b : List String} : sameS a b = true ↔ (∀ x ∈ a, x ∈ b) ∧ (∀ x ∈ b, x ∈ a) := by
  simp [sameS, subsetS_iff]

/-- **end to end on the flat case**: whatever else the observed sets contain (the gate may sit anywhere in the
tree), every outcome admits the part of every observed set that lies among the gate's events -/
theorem post_flat_sound_proj (F : List (List String)) (R : List String) (hR : R ≠ [])
    (o : PTree) (ho : o ∈ postProcess F (rawLeaves [] R))
    (s : List String) (hs : s ∈ F) (hne : interS s R ≠ []) :
    ∃ g, o.toGate = some g ∧ admits g (interS s R) = true := by
  have hsub : ∀ x ∈ interS s R, x ∈ R := fun x hx => (mem_interS.mp hx).2
  rw [postProcess_flat F R hR, List.mem_map] at ho
  obtain ⟨r, hr, rfl⟩ := ho
  cases r with
  | none =>
    refine ⟨rebuilt (R.map fun a => [a]), ?_, ?_⟩
    · simp only [PTree.toGate, toGateL_leaves, Option.map_some, rebuilt, map_partGate_singletons]
    · apply rebuilt_admits _ _ hne
      intro x hx
      refine ⟨[x], List.mem_map.mpr ⟨x, hsub x hx, rfl⟩, ?_, List.mem_singleton.mpr rfl⟩
      intro y hy
      simp only [List.mem_singleton] at hy
      exact hy ▸ hx
  | some cover =>
    refine ⟨rebuilt cover, ?_, ?_⟩
    · simp only [PTree.toGate, toGateL_parts, Option.map_some, rebuilt]
    · have hmem : interS s R ∈ projF F R := mem_projF.mpr ⟨s, hs, rfl, hne⟩
      obtain ⟨c1, _, c3, c4⟩ := weightedCover_spec _ R cover hr
      by_cases hsame : sameS (interS s R) R = true
      · -- the part is the whole universe: every member of the cover lies inside it
        apply rebuilt_admits cover _ hne
        intro x hx
        obtain ⟨p, hp, hxp⟩ := c3 x (hsub x hx)
        refine ⟨p, hp, ?_, hxp⟩
        intro y hy
        obtain ⟨s', _, rfl, _⟩ := mem_projF.mp (c1 p hp)
        exact (sameS_iff.mp hsame).2 y (mem_interS.mp hy).2
      · exact rebuilt_admits cover _ hne (c4 _ hmem (by simpa using hsame))

theorem interS_of_subset {s R : List String} (h : ∀ x ∈ s, x ∈ R) : interS s R = s := by
  unfold interS
  exact List.filter_eq_self.mpr fun x hx => by simpa using h x hx

/-- the special case of sets lying wholly below the gate -/
theorem post_flat_sound (F : List (List String)) (R : List String) (hR : R ≠ [])
    (o : PTree) (ho : o ∈ postProcess F (rawLeaves [] R))
    (s : List String) (hs : s ∈ F) (hne : s ≠ []) (hsub : ∀ x ∈ s, x ∈ R) :
    ∃ g, o.toGate = some g ∧ admits g s = true := by
  have h := post_flat_sound_proj F R hR o ho s hs (by rw [interS_of_subset hsub]; exact hne)
  rwa [interS_of_subset hsub] at h

end O2P.Gate
