/-
The executable test `PTree.produces` is sound for the semantics `PTree.sem`: the hypothesis "the miner's tree produces
the observed set" of `post_process_sound` can be discharged by evaluation, per input.  Core Lean only.
-/
import O2P.Lemmas.Bridge
import O2P.Lemmas.PostFlat
namespace O2P.Gate

/-- an outcome of the product is a union of one outcome from every family -/
theorem mem_productAll : ∀ (fs : List (List (List String))) (o : List String), o ∈ productAll fs →
    ∃ os, Rel2 (fun f o => o ∈ f) fs os ∧ ∀ x, x ∈ o ↔ x ∈ os.flatten
  | [], o, h => by
    simp only [productAll, List.mem_singleton] at h
    subst h
    exact ⟨[], .nil, fun _ => Iff.rfl⟩
  | f :: fs, o, h => by
    simp only [productAll, List.mem_flatMap, List.mem_map] at h
    obtain ⟨a, ha, b, hb, rfl⟩ := h
    obtain ⟨os, hrel, hm⟩ := mem_productAll fs b hb
    refine ⟨a :: os, .cons ha hrel, ?_⟩
    intro x
    simp only [mem_union, List.flatten_cons, List.mem_append, hm x]

theorem mem_nonEmptySublists {α : Type} : ∀ (l sub : List α), sub ∈ nonEmptySublists l → sub.Sublist l ∧ sub ≠ []
  | [], sub, h => by simp [nonEmptySublists] at h
  | x :: xs, sub, h => by
    simp only [nonEmptySublists, List.mem_cons, List.mem_append, List.mem_map] at h
    rcases h with (rfl | ⟨t, ht, rfl⟩) | h
    · exact ⟨(List.nil_sublist xs).cons₂ x, by simp⟩
    · exact ⟨(mem_nonEmptySublists xs t ht).1.cons₂ x, by simp⟩
    · exact ⟨(mem_nonEmptySublists xs sub h).1.cons x, (mem_nonEmptySublists xs sub h).2⟩

mutual
theorem sem_congr : ∀ (t : PTree) (o s : List String), t.sem o → SameSet s o → t.sem s
  | .leaf a, o, s, h, hs => by
    simp only [PTree.sem] at h ⊢
    exact fun x => (hs x).trans (h x)
  | .tau, o, s, h, hs => by
    simp only [PTree.sem] at h ⊢
    subst h
    cases s with
    | nil => rfl
    | cons a as => exact absurd ((hs a).mp (by simp)) (by simp)
  | .node .xor cs, o, s, h, hs => by
    simp only [PTree.sem] at h ⊢
    exact semAny_congr cs o s h hs
  | .node .and cs, o, s, h, hs => by
    simp only [PTree.sem] at h ⊢
    obtain ⟨ps, h1, h2⟩ := h
    exact ⟨ps, h1, fun x => (hs x).trans (h2 x)⟩
  | .node .or cs, o, s, h, hs => by
    simp only [PTree.sem] at h ⊢
    obtain ⟨ps, h1, hne, h2⟩ := h
    exact ⟨ps, h1, hne, fun x => (hs x).trans (h2 x)⟩
  | .node .other cs, o, s, h, _ => by simp only [PTree.sem] at h
theorem semAny_congr : ∀ (cs : List PTree) (o s : List String), PTree.semAny cs o → SameSet s o → PTree.semAny cs s
  | [], _, _, h, _ => by simp only [PTree.semAny] at h
  | c :: cs, o, s, h, hs => by
    simp only [PTree.semAny] at h ⊢
    rcases h with h | h
    · exact Or.inl (sem_congr c o s h hs)
    · exact Or.inr (semAny_congr cs o s h hs)
end

mutual
theorem outs_sem : ∀ (t : PTree) (o : List String), o ∈ t.outs → t.sem o
  | .leaf a, o, h => by
    simp only [PTree.outs, List.mem_singleton] at h
    subst h
    simp [PTree.sem, SameSet]
  | .tau, o, h => by
    simp only [PTree.outs, List.mem_singleton] at h
    subst h
    simp [PTree.sem]
  | .node .xor cs, o, h => by
    simp only [PTree.outs] at h
    simp only [PTree.sem]
    exact outsAny_sem cs o h
  | .node .and cs, o, h => by
    simp only [PTree.outs] at h
    simp only [PTree.sem]
    obtain ⟨os, hrel, hm⟩ := mem_productAll _ o h
    exact ⟨os, outsAll_sem cs os hrel, hm⟩
  | .node .or cs, o, h => by
    simp only [PTree.outs, List.mem_flatMap] at h
    obtain ⟨sub, hsub, ho⟩ := h
    obtain ⟨hsl, hne⟩ := mem_nonEmptySublists _ sub hsub
    obtain ⟨os, hrel, hm⟩ := mem_productAll sub o ho
    simp only [PTree.sem]
    refine ⟨os, outsSome_sem cs sub os hsl hrel, ?_, hm⟩
    intro e
    subst e
    cases hrel
    exact hne rfl
  | .node .other cs, o, h => by simp [PTree.outs] at h
theorem outsAny_sem : ∀ (cs : List PTree) (o : List String), o ∈ (PTree.outsL cs).flatten → PTree.semAny cs o
  | [], o, h => by simp [PTree.outsL] at h
  | c :: cs, o, h => by
    simp only [PTree.outsL, List.flatten_cons, List.mem_append] at h
    simp only [PTree.semAny]
    rcases h with h | h
    · exact Or.inl (outs_sem c o h)
    · exact Or.inr (outsAny_sem cs o h)
theorem outsAll_sem : ∀ (cs : List PTree) (os : List (List String)),
    Rel2 (fun f o => o ∈ f) (PTree.outsL cs) os → PTree.semAll cs os
  | [], os, h => by
    simp only [PTree.outsL] at h
    cases h
    simp [PTree.semAll]
  | c :: cs, os, h => by
    simp only [PTree.outsL] at h
    cases h with
    | cons ho hrest =>
      simp only [PTree.semAll]
      exact ⟨_, _, rfl, outs_sem c _ ho, outsAll_sem cs _ hrest⟩
theorem outsSome_sem : ∀ (cs : List PTree) (sub : List (List (List String))) (os : List (List String)),
    sub.Sublist (PTree.outsL cs) → Rel2 (fun f o => o ∈ f) sub os → PTree.semSome cs os
  | [], sub, os, hs, hrel => by
    simp only [PTree.outsL, List.sublist_nil] at hs
    subst hs
    cases hrel
    simp [PTree.semSome]
  | c :: cs, sub, os, hs, hrel => by
    simp only [PTree.outsL] at hs
    simp only [PTree.semSome]
    cases hs with
    | cons _ h' => exact Or.inl (outsSome_sem cs sub os h' hrel)
    | cons_cons _ h' =>
      cases hrel with
      | cons ho hrest =>
        exact Or.inr ⟨_, _, rfl, outs_sem c _ ho, outsSome_sem cs _ _ h' hrest⟩
end

/-- **the executable test is sound**: a tree that `produces` a set produces it in the semantics of the theorems -/
theorem produces_sem (t : PTree) (s : List String) (h : t.produces s = true) : t.sem s := by
  simp only [PTree.produces, List.any_eq_true] at h
  obtain ⟨o, ho, hso⟩ := h
  exact sem_congr t o s (outs_sem t o ho) (fun x => by
    have := sameS_iff.mp hso
    exact ⟨this.1 x, this.2 x⟩)

end O2P.Gate
