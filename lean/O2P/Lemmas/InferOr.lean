/-
The decision logic of the OR inference (`infer_or_gate_from_node` / `check_is_or_operator`), stated outright:
whatever the children of the parallel node are, the rewritten node admits every non-empty observed set the raw
node admits.  Children are abstract (their labels, the sets they produce); event names are distinct between the
mandatory and the optional children.  Core Lean only.
-/
import O2P.Lemmas.Cover
namespace O2P.Gate

/-- a child of the parallel node: the event names below it and the (non-empty) sets of them it can produce -/
structure Child where
  labels : List String
  out : List String → Prop
  out_sub : ∀ s, out s → ∀ x ∈ s, x ∈ labels
  out_ne : ∀ s, out s → s ≠ []

def SameSet (a b : List String) : Prop := ∀ x, x ∈ a ↔ x ∈ b

/-- one produced set per child -/
inductive Picks : List Child → List (List String) → Prop where
  | nil : Picks [] []
  | cons {u us s ss} : u.out s → Picks us ss → Picks (u :: us) (s :: ss)

def labelsOfC (cs : List Child) : List String := cs.flatMap (·.labels)

/-- the miner's node `+(N…, X(tau, r)…)`: every mandatory child and any selection of the optional ones -/
def Raw (N R : List Child) (s : List String) : Prop :=
  ∃ ps T qs, Picks N ps ∧ T.Sublist R ∧ Picks T qs ∧ SameSet s (ps.flatten ++ qs.flatten)

/-- `O(r…, +(N…))` (or `O(r…, n)` for a single mandatory child, `O(r…)` for none): a non-empty selection among
the optional children and the mandatory block -/
def NewOr (N R : List Child) (s : List String) : Prop :=
  ∃ T qs ps, T.Sublist R ∧ Picks T qs ∧ (Picks N ps ∨ ps = []) ∧ (T ≠ [] ∨ (Picks N ps ∧ N ≠ [])) ∧
    SameSet s (qs.flatten ++ ps.flatten)

/-- `+(N…, O(r…))`: every mandatory child and a non-empty selection of the optional ones -/
def NewAnd (N R : List Child) (s : List String) : Prop :=
  ∃ ps T qs, Picks N ps ∧ T.Sublist R ∧ T ≠ [] ∧ Picks T qs ∧ SameSet s (ps.flatten ++ qs.flatten)

/-- `check_is_or_operator`: no mandatory child, or some observed set shows a mandatory event and no optional one -/
def IsOr (F : List (List String)) (N R : List Child) : Prop :=
  N = [] ∨ ∃ s ∈ F, (∃ x ∈ s, x ∈ labelsOfC N) ∧ (∀ x ∈ s, x ∉ labelsOfC R)

theorem Picks.flatten_sub : ∀ {cs : List Child} {ss : List (List String)}, Picks cs ss →
    ∀ x ∈ ss.flatten, x ∈ labelsOfC cs
  | _, _, .nil, x, hx => by simp at hx
  | _, _, .cons (u := u) (us := us) (s := s) (ss := ss) h1 h2, x, hx => by
    simp only [List.flatten_cons, List.mem_append] at hx
    simp only [labelsOfC, List.flatMap_cons, List.mem_append]
    rcases hx with h | h
    · exact Or.inl (u.out_sub s h1 x h)
    · exact Or.inr (Picks.flatten_sub h2 x h)

theorem Picks.nonempty : ∀ {cs : List Child} {ss : List (List String)}, Picks cs ss → cs ≠ [] →
    ∃ x, x ∈ ss.flatten
  | _, _, .nil, h => absurd rfl h
  | _, _, .cons (u := u) (s := s) h1 _, _ => by
    obtain ⟨x, hx⟩ := List.exists_mem_of_ne_nil s (u.out_ne s h1)
    exact ⟨x, by simp [hx]⟩

theorem Picks.nil_of_nil : ∀ {cs : List Child}, Picks cs [] → cs = []
  | _, .nil => rfl

/-- **soundness of the OR inference**: with distinct event names on the two sides, every non-empty observed set
that the raw node admits is admitted by the node the code puts in its place, in either branch of the decision -/
theorem infer_or_sound (F : List (List String)) (N R : List Child)
    (hdisj : ∀ x, x ∈ labelsOfC N → x ∉ labelsOfC R) (s : List String) (hs : s ∈ F) (hraw : Raw N R s) :
    (IsOr F N R → NewOr N R s ∨ s = []) ∧ (¬ IsOr F N R → NewAnd N R s) := by
  obtain ⟨ps, T, qs, hN, hT, hq, hsame⟩ := hraw
  constructor
  · intro _
    by_cases hNe : N = []
    · by_cases hTe : T = []
      · right
        subst hNe; subst hTe
        cases hN; cases hq
        apply List.eq_nil_iff_forall_not_mem.mpr
        intro x hx
        have := (hsame x).mp hx
        simp at this
      · left
        refine ⟨T, qs, [], hT, hq, Or.inr rfl, Or.inl hTe, ?_⟩
        subst hNe; cases hN
        intro x
        rw [hsame x]
        simp
    · left
      refine ⟨T, qs, ps, hT, hq, Or.inl hN, Or.inr ⟨hN, hNe⟩, ?_⟩
      intro x
      rw [hsame x]
      simp only [List.mem_append]
      exact Or.comm
  · intro hno
    have hNe : N ≠ [] := fun e => hno (Or.inl e)
    refine ⟨ps, T, qs, hN, hT, ?_, hq, hsame⟩
    -- a mandatory event is in `s`, so `s` is not "mandatory without optional": an optional event is in it too
    obtain ⟨x, hx⟩ := hN.nonempty hNe
    have hxs : x ∈ s := (hsame x).mpr (List.mem_append_left _ hx)
    have hxN : x ∈ labelsOfC N := hN.flatten_sub x hx
    have : ∃ y ∈ s, y ∈ labelsOfC R := by
      apply Classical.byContradiction
      intro hc
      exact hno (Or.inr ⟨s, hs, ⟨x, hxs, hxN⟩, fun y hy hyR => hc ⟨y, hy, hyR⟩⟩)
    obtain ⟨y, hys, hyR⟩ := this
    have hy' := (hsame y).mp hys
    rcases List.mem_append.mp hy' with h | h
    · exact absurd hyR (hdisj y (hN.flatten_sub y h))
    · intro hTe
      subst hTe
      cases hq
      simp at h

/-- the executable test is the decision above, on the labels of the subtrees -/
theorem checkIsOr_iff (sets : List (List String)) (nonTau removed : List PTree) :
    checkIsOr sets nonTau removed = true ↔
      (nonTau = [] ∨ ∃ s ∈ sets, (∃ x ∈ PTree.labelsL nonTau, x ∈ s) ∧ (∀ x ∈ PTree.labelsL removed, x ∉ s)) := by
  unfold checkIsOr
  simp only [Bool.or_eq_true, List.isEmpty_iff, List.any_eq_true, Bool.and_eq_true, Bool.not_eq_true',
    List.isEmpty_eq_false_iff]
  constructor
  · rintro (h | ⟨s, hs, h1, h2⟩)
    · exact Or.inl h
    · right
      refine ⟨s, hs, ?_, ?_⟩
      · obtain ⟨x, hx⟩ := List.exists_mem_of_ne_nil _ h1
        exact ⟨x, (mem_interS.mp hx).1, (mem_interS.mp hx).2⟩
      · intro x hx hxs
        have : x ∈ interS (PTree.labelsL removed) s := mem_interS.mpr ⟨hx, hxs⟩
        rw [h2] at this
        simp at this
  · rintro (h | ⟨s, hs, ⟨x, hx1, hx2⟩, h2⟩)
    · exact Or.inl h
    · right
      refine ⟨s, hs, ?_, ?_⟩
      · intro he
        have : x ∈ interS (PTree.labelsL nonTau) s := mem_interS.mpr ⟨hx1, hx2⟩
        rw [he] at this
        simp at this
      · apply List.eq_nil_iff_forall_not_mem.mpr
        intro y hy
        exact h2 y (mem_interS.mp hy).1 (mem_interS.mp hy).2

end O2P.Gate
