/-
The decision logic of the OR inference (`infer_or_gate_from_node` / `check_is_or_operator`), stated outright:
whatever the children of the parallel node are, the rewritten node admits every non-empty observed set the raw
node admits.  Children are abstract (their labels, the sets they produce); event names are distinct between the
mandatory and the optional children.  Core Lean only.
-/
import O2P.Lemmas.Cover
namespace O2P.Gate

/-- a child of the parallel node: the event names below it and the (non-empty) sets of them it can produce -/
structure Child where
  labels : List String
  out : List String → Prop
  out_sub : ∀ s, out s → ∀ x ∈ s, x ∈ labels
  out_ne : ∀ s, out s → s ≠ []

def SameSet (a b : List String) : Prop := ∀ x, x ∈ a ↔ x ∈ b

/-- one produced set per child -/
inductive Picks : List Child → List (List String) → Prop where
  | nil : Picks [] []
  | cons {u us s ss} : u.out s → Picks us ss → Picks (u :: us) (s :: ss)

def labelsOfC (cs : List Child) : List String := cs.flatMap (·.labels)

/-- the miner's node `+(N…, X(tau, r)…)`: every mandatory child and any selection of the optional ones -/
def Raw (N R : List Child) (s : List String) : Prop :=
  ∃ ps T qs, Picks N ps ∧ T.Sublist R ∧ Picks T qs ∧ SameSet s (ps.flatten ++ qs.flatten)

/-- `O(r…, +(N…))` (or `O(r…, n)` for a single mandatory child, `O(r…)` for none): a non-empty selection among
the optional children and the mandatory block -/
def NewOr (N R : List Child) (s : List String) : Prop :=
  ∃ T qs ps, T.Sublist R ∧ Picks T qs ∧ (Picks N ps ∨ ps = []) ∧ (T ≠ [] ∨ (Picks N ps ∧ N ≠ [])) ∧
    SameSet s (qs.flatten ++ ps.flatten)

/-- `+(N…, O(r…))`: every mandatory child and a non-empty selection of the optional ones -/
def NewAnd (N R : List Child) (s : List String) : Prop :=
  ∃ ps T qs, Picks N ps ∧ T.Sublist R ∧ T ≠ [] ∧ Picks T qs ∧ SameSet s (ps.flatten ++ qs.flatten)

/-- `check_is_or_operator`: no mandatory child, or some observed set shows a mandatory event and no optional one -/
def IsOr (F : List (List String)) (N R : List Child) : Prop :=
  N = [] ∨ ∃ s ∈ F, (∃ x ∈ s, x ∈ labelsOfC N) ∧ (∀ x ∈ s, x ∉ labelsOfC R)

theorem Picks.flatten_sub : ∀ {cs : List Child} {ss : List (List String)}, Picks cs ss →
    ∀ x ∈ ss.flatten, x ∈ labelsOfC cs
  | _, _, .nil, x, hx => by simp at hx
  | _, _, .cons (u := u) (us := us) (s := s) (ss := ss) h1 h2, x, hx => by
    simp only [List.flatten_cons, List.mem_append] at hx
    simp only [labelsOfC, List.flatMap_cons, List.mem_append]
    rcases hx with h | h
    · exact Or.inl (u.out_sub s h1 x h)
    · exact Or.inr (Picks.flatten_sub h2 x h)

theorem Picks.nonempty : ∀ {cs : List Child} {ss : List (List String)}, Picks cs ss → cs ≠ [] →
    ∃ x, x ∈ ss.flatten
  | _, _, .nil, h => absurd rfl h
  | _, _, .cons (u := u) (s := s) h1 _, _ => by
    obtain ⟨x, hx⟩ := List.exists_mem_of_ne_nil s (u.out_ne s h1)
    exact ⟨x, by simp [hx]⟩

theorem Picks.nil_of_nil : ∀ {cs : List Child}, Picks cs [] → cs = []
  | _, .nil => rfl

/-- **soundness of the OR inference**: with distinct event names on the two sides, every non-empty observed set
that the raw node admits is admitted by the node the code puts in its place, in either branch of the decision -/
theorem infer_or_sound (F : List (List String)) (N R : List Child)
    (hdisj : ∀ x, x ∈ labelsOfC N → x ∉ labelsOfC R) (s : List String) (hs : s ∈ F) (hraw : Raw N R s) :
    (IsOr F N R → NewOr N R s ∨ s = []) ∧ (¬ IsOr F N R → NewAnd N R s) := by
  obtain ⟨ps, T, qs, hN, hT, hq, hsame⟩ := hraw
  constructor
  · intro _
    by_cases hNe : N = []
    · by_cases hTe : T = []
      · right
        subst hNe; subst hTe
        cases hN; cases hq
        apply List.eq_nil_iff_forall_not_mem.mpr
        intro x hx
        have := (hsame x).mp hx
        simp at this
      · left
        refine ⟨T, qs, [], hT, hq, Or.inr rfl, Or.inl hTe, ?_⟩
        subst hNe; cases hN
        intro x
        rw [hsame x]
        simp
    · left
      refine ⟨T, qs, ps, hT, hq, Or.inl hN, Or.inr ⟨hN, hNe⟩, ?_⟩
      intro x
      rw [hsame x]
      simp only [List.mem_append]
      exact Or.comm
  · intro hno
    have hNe : N ≠ [] := fun e => hno (Or.inl e)
    refine ⟨ps, T, qs, hN, hT, ?_, hq, hsame⟩
    -- a mandatory event is in `s`, so `s` is not "mandatory without optional": an optional event is in it too
    obtain ⟨x, hx⟩ := hN.nonempty hNe
    have hxs : x ∈ s := (hsame x).mpr (List.mem_append_left _ hx)
    have hxN : x ∈ labelsOfC N := hN.flatten_sub x hx
    have : ∃ y ∈ s, y ∈ labelsOfC R := by
      apply Classical.byContradiction
      intro hc
      exact hno (Or.inr ⟨s, hs, ⟨x, hxs, hxN⟩, fun y hy hyR => hc ⟨y, hy, hyR⟩⟩)
    obtain ⟨y, hys, hyR⟩ := this
    have hy' := (hsame y).mp hys
    rcases List.mem_append.mp hy' with h | h
    · exact absurd hyR (hdisj y (hN.flatten_sub y h))
    · intro hTe
      subst hTe
      cases hq
      simp at h

/-- … and below the top of the tree, where the sets a node has to produce are the *projections* of the observed sets
onto its own event names: the same conclusion for every `s` that agrees, on the names of the node, with some observed
set `s0`.  (`infer_or_sound` is the case `s0 = s`.) -/
theorem infer_or_sound_proj (F : List (List String)) (N R : List Child)
    (hdisj : ∀ x, x ∈ labelsOfC N → x ∉ labelsOfC R) (s : List String)
    (hproj : ∃ s0 ∈ F, ∀ x, (x ∈ labelsOfC N ∨ x ∈ labelsOfC R) → (x ∈ s0 ↔ x ∈ s)) (hraw : Raw N R s) :
    (IsOr F N R → NewOr N R s ∨ s = []) ∧ (¬ IsOr F N R → NewAnd N R s) := by
  refine ⟨(infer_or_sound (s :: F) N R hdisj s (List.mem_cons_self ..) hraw).1 ∘ ?_, ?_⟩
  · intro h
    rcases h with h | ⟨t, ht, h1, h2⟩
    · exact Or.inl h
    · exact Or.inr ⟨t, List.mem_cons_of_mem _ ht, h1, h2⟩
  · intro hno
    apply (infer_or_sound (s :: F) N R hdisj s (List.mem_cons_self ..) hraw).2
    intro h
    apply hno
    rcases h with h | ⟨t, ht, ⟨x, hxt, hxN⟩, h2⟩
    · exact Or.inl h
    · rcases List.mem_cons.mp ht with rfl | ht
      · -- the witness is `s` itself: `s0` shows the same
        obtain ⟨s0, hs0, hag⟩ := hproj
        refine Or.inr ⟨s0, hs0, ⟨x, (hag x (Or.inl hxN)).mpr hxt, hxN⟩, ?_⟩
        intro y hy hyR
        exact h2 y ((hag y (Or.inr hyR)).mp hy) hyR
      · exact Or.inr ⟨t, ht, ⟨x, hxt, hxN⟩, h2⟩

/-- the executable test is the decision above, on the labels of the subtrees -/
theorem checkIsOr_iff (sets : List (List String)) (nonTau removed : List PTree) :
    checkIsOr sets nonTau removed = true ↔
      (nonTau = [] ∨ ∃ s ∈ sets, (∃ x ∈ PTree.labelsL nonTau, x ∈ s) ∧ (∀ x ∈ PTree.labelsL removed, x ∉ s)) := by
  unfold checkIsOr
  simp only [Bool.or_eq_true, List.isEmpty_iff, List.any_eq_true, Bool.and_eq_true, Bool.not_eq_true',
    List.isEmpty_eq_false_iff]
  constructor
  · rintro (h | ⟨s, hs, h1, h2⟩)
    · exact Or.inl h
    · right
      refine ⟨s, hs, ?_, ?_⟩
      · obtain ⟨x, hx⟩ := List.exists_mem_of_ne_nil _ h1
        exact ⟨x, (mem_interS.mp hx).1, (mem_interS.mp hx).2⟩
      · intro x hx hxs
        have : x ∈ interS (PTree.labelsL removed) s := mem_interS.mpr ⟨hx, hxs⟩
        rw [h2] at this
        simp at this
  · rintro (h | ⟨s, hs, ⟨x, hx1, hx2⟩, h2⟩)
    · exact Or.inl h
    · right
      refine ⟨s, hs, ?_, ?_⟩
      · intro he
        have : x ∈ interS (PTree.labelsL nonTau) s := mem_interS.mpr ⟨hx1, hx2⟩
        rw [he] at this
        simp at this
      · apply List.eq_nil_iff_forall_not_mem.mpr
        intro y hy
        exact h2 y (mem_interS.mp hy).1 (mem_interS.mp hy).2

/-! ### the miner's rendering over plain events, in the judge's gate semantics -/

def optLeaf (r : String) : PTree := .node .xor [.tau, .leaf r]

theorem classify_raw (N : List String) : ∀ (R : List String),
    classify (N.map PTree.leaf ++ R.map optLeaf) = (R.map optLeaf, N.map PTree.leaf) := by
  induction N with
  | nil =>
    intro R
    induction R with
    | nil => rfl
    | cons r rs ih =>
      simp only [List.map_nil, List.nil_append, List.map_cons] at ih ⊢
      simp only [classify, ih, optLeaf, List.any_cons, PTree.isTau, Bool.true_or, if_true]
  | cons n ns ih =>
    intro R
    simp only [List.map_cons, List.cons_append, classify, ih R]

theorem grandchildren_opt : ∀ (R : List String), (R.map optLeaf).flatMap grandchildrenOf = R.map PTree.leaf
  | [] => rfl
  | r :: rs => by
    simp only [List.map_cons, List.flatMap_cons, grandchildren_opt rs]
    simp [optLeaf, grandchildrenOf, PTree.isTau]

theorem labelsL_leaves : ∀ (l : List String), PTree.labelsL (l.map PTree.leaf) = l
  | [] => rfl
  | a :: as => by simp [PTree.labelsL, PTree.labels, labelsL_leaves as]

theorem toGateL_leaves : ∀ (l : List String), PTree.toGateL (l.map PTree.leaf) = some (l.map Gate.leaf)
  | [] => rfl
  | a :: as => by simp [PTree.toGateL, PTree.toGate, toGateL_leaves as]

theorem toGateL_append (a b : List PTree) (ga gb : List Gate) (ha : PTree.toGateL a = some ga)
    (hb : PTree.toGateL b = some gb) : PTree.toGateL (a ++ b) = some (ga ++ gb) := by
  induction a generalizing ga with
  | nil => simp [PTree.toGateL] at ha; subst ha; simpa using hb
  | cons x xs ih =>
    simp only [PTree.toGateL] at ha
    cases hx : x.toGate with
    | none => simp [hx] at ha
    | some g =>
      cases hxs : PTree.toGateL xs with
      | none => simp [hx, hxs] at ha
      | some gs =>
        simp only [hx, hxs, Option.some.injEq] at ha
        subst ha
        simp [PTree.toGateL, hx, ih gs hxs]

/-- what the code makes of the miner's node `+(N…, X(tau, r)…)` over plain events -/
theorem inferOrNode_rawLeaves (F : List (List String)) (N R : List String) (hR : R ≠ []) :
    inferOrNode F (rawLeaves N R) =
      if checkIsOr F (N.map PTree.leaf) (R.map PTree.leaf) then
        (if N.length > 1 then .node .or (R.map PTree.leaf ++ [.node .and (N.map PTree.leaf)])
         else .node .or (R.map PTree.leaf ++ N.map PTree.leaf))
      else .node .and (N.map PTree.leaf ++ [.node .or (R.map PTree.leaf)]) := by
  have hc : classify (N.map PTree.leaf ++ R.map (fun r => PTree.node .xor [.tau, .leaf r])) =
      (R.map optLeaf, N.map PTree.leaf) := classify_raw N R
  have hne : (R.map optLeaf).isEmpty = false := by
    cases R with
    | nil => exact absurd rfl hR
    | cons r rs => rfl
  simp only [rawLeaves, inferOrNode, hc, hne, Bool.false_eq_true, if_false, grandchildren_opt, List.length_map]

theorem outcomesL_leaves_snoc (g : Gate) : ∀ (M : List String),
    outcomesL (M.map Gate.leaf ++ [g]) = (M.map fun a => [[a]]) ++ [outcomes g]
  | [] => by simp [outcomesL]
  | a :: as => by
    simp only [List.map_cons, List.cons_append, outcomesL, outcomes, outcomesL_leaves_snoc g as]

/-- an AND over plain events and one OR over plain events admits "all of `N` and a non-empty selection of `R`" -/
theorem and_or_admits (N R T : List String) (s : List String) (hT : T.Sublist R) (hTne : T ≠ [])
    (hsame : SameSet s (N ++ T)) :
    admits (.node .and (N.map Gate.leaf ++ [.node .or (R.map Gate.leaf)])) s = true := by
  -- the OR child produces the union of the singletons of T
  have hsubT : (T.map fun r => [[r]]).Sublist (R.map fun r => [[r]]) := List.Sublist.map _ hT
  have hmemT := sublist_mem_nonEmptySublists _ _ hsubT (by simpa using hTne)
  obtain ⟨uT, huT, hmT⟩ := productAll_singletons (T.map fun r => [r])
  have huT' : productAll (T.map fun r => [[r]]) = [uT] := by
    have e : (T.map fun r => [[r]]) = ((T.map fun r => [r]).map fun o => [o]) := by simp [List.map_map]
    rw [e]; exact huT
  have horOut : uT ∈ outcomes (.node .or (R.map Gate.leaf)) := by
    simp only [outcomes, List.mem_flatMap]
    have e : outcomesL (R.map Gate.leaf) = R.map fun r => [[r]] := outcomesL_leaves R
    rw [e]
    exact ⟨_, hmemT, by rw [huT']; exact List.mem_singleton.mpr rfl⟩
  -- the AND: singletons of N, then the OR's outcomes
  have hprod : ∀ (M : List String), ∃ u, u ∈ productAll ((M.map fun a => [[a]]) ++ [outcomes (.node .or (R.map Gate.leaf))]) ∧
      ∀ x, x ∈ u ↔ x ∈ M ∨ x ∈ uT := by
    intro M
    induction M with
    | nil =>
      refine ⟨union uT [], ?_, ?_⟩
      · simp only [List.map_nil, List.nil_append, productAll, List.mem_flatMap, List.mem_map, List.mem_singleton]
        exact ⟨uT, horOut, [], rfl, rfl⟩
      · intro x; simp [mem_union]
    | cons a as ih =>
      obtain ⟨u, hu, hm⟩ := ih
      refine ⟨union [a] u, ?_, ?_⟩
      · simp only [List.map_cons, List.cons_append, productAll, List.mem_flatMap, List.mem_map, List.mem_singleton]
        exact ⟨[a], rfl, u, hu, rfl⟩
      · intro x
        rw [mem_union, hm]
        simp [or_assoc]
  obtain ⟨u, hu, hm⟩ := hprod N
  have hout : u ∈ outcomes (.node .and (N.map Gate.leaf ++ [.node .or (R.map Gate.leaf)])) := by
    have e := outcomesL_leaves_snoc (.node .or (R.map Gate.leaf)) N
    rw [outcomes, e]
    exact hu
  have hnorm : norm u = norm s := by
    apply norm_ext
    intro x
    rw [hm, hsame x, List.mem_append, hmT]
    constructor
    · rintro (h | ⟨o, ho, hx⟩)
      · exact Or.inl h
      · obtain ⟨r, hr, rfl⟩ := List.mem_map.mp ho
        simp only [List.mem_singleton] at hx
        exact Or.inr (hx ▸ hr)
    · rintro (h | h)
      · exact Or.inl h
      · exact Or.inr ⟨[x], List.mem_map.mpr ⟨x, h, rfl⟩, List.mem_singleton.mpr rfl⟩
  unfold admits family
  have : norm s ∈ dedupF ((outcomes (.node .and (N.map Gate.leaf ++ [.node .or (R.map Gate.leaf)]))).map norm) := by
    rw [mem_dedupF, ← hnorm]
    exact List.mem_map.mpr ⟨u, hout, rfl⟩
  simpa using this

theorem map_partGate_singletons : ∀ (l : List String), (l.map fun r => [r]).map partGate = l.map Gate.leaf
  | [] => rfl
  | a :: as => by simp [partGate, map_partGate_singletons as]

theorem partGate_many (N : List String) (h : N.length > 1) : partGate N = .node .and (N.map Gate.leaf) := by
  match N, h with
  | _ :: _ :: _, _ => rfl

/-- **the OR inference on plain events, in the judge's semantics**: for the miner's node `+(N…, X(tau, r)…)` over
distinct plain events and any observed family, the node `infer_or_gate_from_node` puts in its place is a gate tree
that admits every non-empty observed set of the form "all of `N` and some of `R`" -/
theorem infer_or_leaves_sound (F : List (List String)) (N R : List String) (hR : R ≠ [])
    (hdis : ∀ x ∈ N, x ∉ R) (s : List String) (hs : s ∈ F) (T : List String) (hT : T.Sublist R)
    (hsame : SameSet s (N ++ T)) (hne : s ≠ []) :
    ∃ g, (inferOrNode F (rawLeaves N R)).toGate = some g ∧ admits g s = true := by
  rw [inferOrNode_rawLeaves F N R hR]
  by_cases hck : checkIsOr F (N.map PTree.leaf) (R.map PTree.leaf) = true
  · simp only [hck, if_true]
    by_cases hlen : N.length > 1
    · simp only [hlen, if_true]
      refine ⟨rebuilt ((R.map fun r => [r]) ++ [N]), ?_, ?_⟩
      · have h1 := toGateL_leaves R
        have h2 : PTree.toGateL [PTree.node .and (N.map PTree.leaf)] = some [Gate.node .and (N.map Gate.leaf)] := by
          simp [PTree.toGateL, PTree.toGate, toGateL_leaves]
        simp only [PTree.toGate, toGateL_append _ _ _ _ h1 h2, Option.map_some, rebuilt, List.map_append,
          map_partGate_singletons, List.map_cons, List.map_nil, partGate_many N hlen]
      · apply rebuilt_admits _ s hne
        intro x hx
        rcases List.mem_append.mp ((hsame x).mp hx) with h | h
        · exact ⟨N, by simp, fun y hy => (hsame y).mpr (List.mem_append_left _ hy), h⟩
        · refine ⟨[x], ?_, ?_, List.mem_singleton.mpr rfl⟩
          · exact List.mem_append_left _ (List.mem_map.mpr ⟨x, hT.subset h, rfl⟩)
          · intro y hy
            simp only [List.mem_singleton] at hy
            exact hy ▸ hx
    · simp only [hlen, if_false]
      refine ⟨rebuilt ((R ++ N).map fun r => [r]), ?_, ?_⟩
      · have h1 := toGateL_leaves R
        have h2 := toGateL_leaves N
        simp only [PTree.toGate, toGateL_append _ _ _ _ h1 h2, Option.map_some, rebuilt, map_partGate_singletons,
          List.map_append]
      · apply rebuilt_admits _ s hne
        intro x hx
        refine ⟨[x], ?_, ?_, List.mem_singleton.mpr rfl⟩
        · apply List.mem_map.mpr
          refine ⟨x, ?_, rfl⟩
          rcases List.mem_append.mp ((hsame x).mp hx) with h | h
          · exact List.mem_append_right _ h
          · exact List.mem_append_left _ (hT.subset h)
        · intro y hy
          simp only [List.mem_singleton] at hy
          exact hy ▸ hx
  · simp only [hck, Bool.false_eq_true, if_false]
    have hnot := mt (checkIsOr_iff F (N.map PTree.leaf) (R.map PTree.leaf)).mpr hck
    rw [labelsL_leaves, labelsL_leaves] at hnot
    have hNne : N ≠ [] := by
      intro e
      exact hnot (Or.inl (by simp [e]))
    have hTne : T ≠ [] := by
      intro hTe
      subst hTe
      obtain ⟨n, hn⟩ := List.exists_mem_of_ne_nil N hNne
      apply hnot
      right
      refine ⟨s, hs, ⟨n, hn, (hsame n).mpr (by simp [hn])⟩, ?_⟩
      intro x hxR hxs
      have : x ∈ N := by simpa using (hsame x).mp hxs
      exact hdis x this hxR
    refine ⟨.node .and (N.map Gate.leaf ++ [.node .or (R.map Gate.leaf)]), ?_, and_or_admits N R T s hT hTne hsame⟩
    have h1 := toGateL_leaves N
    have h2 : PTree.toGateL [PTree.node .or (R.map PTree.leaf)] = some [Gate.node .or (R.map Gate.leaf)] := by
      simp [PTree.toGateL, PTree.toGate, toGateL_leaves]
    simp only [PTree.toGate, toGateL_append _ _ _ _ h1 h2, Option.map_some]

end O2P.Gate
