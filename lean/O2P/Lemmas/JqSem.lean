/-
Lemmas relating the jq semantics of `O2P.Jq.eval` on emitted expressions to the extraction model.
Core Lean only.
-/
import O2P.Model.JqCore
namespace O2P.Jq

@[simp] theorem Res.ok_err (l : List Json) : (Res.ok l).err = false := rfl
@[simp] theorem Res.ok_outs (l : List Json) : (Res.ok l).outs = l := rfl
@[simp] theorem Res.fail_err : Res.fail.err = true := rfl
@[simp] theorem Res.fail_outs : Res.fail.outs = [] := rfl

theorem bindOuts_ok (g : Json → List Json) : ∀ (l : List Json),
    bindOuts l (fun x => .ok (g x)) = .ok (l.flatMap g)
  | [] => rfl
  | x :: xs => by
    simp only [bindOuts, Res.ok_err, Bool.false_eq_true, if_false, bindOuts_ok g xs, Res.ok_outs,
      List.flatMap_cons]
    rfl

theorem bindRes_ok (l : List Json) (f : Json → Res) : bindRes (.ok l) f = bindOuts l f := by
  unfold bindRes
  simp only [Res.ok_outs, Res.ok_err]
  by_cases h : (bindOuts l f).err = true
  · simp [h]
  · simp only [h]
    cases hb : bindOuts l f
    simp_all

@[simp] theorem bindRes_single (v : Json) (f : Json → Res) : bindRes (.ok [v]) f = f v := by
  rw [bindRes_ok]
  simp only [bindOuts]
  split
  · rename_i h; cases hf : f v; simp_all
  · cases hf : f v; simp_all [Res.ok]

@[simp] theorem bindRes_fail (f : Json → Res) : bindRes .fail f = .fail := by
  simp [bindRes, bindOuts, Res.fail, Res.ok]

/-- the value of a path expression below a single-valued base -/
theorem eval_pathExpr (env : List Json) (inp : Json) : ∀ (p : List String) (base : Expr) (v : Json),
    eval base env inp = .ok [v] →
    eval (pathExpr base p) env inp = match path p v with
      | some w => .ok [w]
      | none => .fail
  | [], base, v, h => by simp [pathExpr, path, h]
  | k :: ks, base, v, h => by
    simp only [pathExpr, path]
    cases hf : field k v with
    | none =>
      simp only [Option.bind_none]
      have : eval (.field base k) env inp = .fail := by simp [eval, h, hf]
      exact eval_path_fail env inp ks _ this
    | some w =>
      simp only [Option.bind_some]
      exact eval_pathExpr env inp ks (.field base k) w (by simp [eval, h, hf])
where
  eval_path_fail (env : List Json) (inp : Json) : ∀ (p : List String) (base : Expr),
      eval base env inp = .fail → eval (pathExpr base p) env inp = .fail
    | [], _, h => h
    | k :: ks, base, h => eval_path_fail env inp ks (.field base k) (by simp [eval, h])

theorem eval_var (env : List Json) (inp : Json) (s : Nat) (h : s < env.length) :
    eval (.var s) env inp = .ok [env.getD s .null] := by
  simp [eval, List.getD, List.getElem?_eq_getElem h]

/-- the value of `try e catch j` when `e` is known -/
theorem eval_tryCatch_ok (e : Expr) (j : Json) (env : List Json) (inp : Json) (l : List Json)
    (h : eval e env inp = .ok l) : eval (.tryCatch e j) env inp = .ok l := by
  simp [eval, h]

theorem eval_tryCatch_fail (e : Expr) (j : Json) (env : List Json) (inp : Json)
    (h : eval e env inp = .fail) : eval (.tryCatch e j) env inp = .ok [j] := by
  simp [eval, h, Res.ok]

/-- `(try $p.chunk.[] catch null)` yields the loop values of the model -/
theorem eval_loopExpr (env : List Json) (inp : Json) (s : Nat) (chunk : List String) (h : s < env.length) :
    eval (loopExpr s chunk) env inp = .ok (items chunk (env.getD s .null)) := by
  unfold loopExpr items
  have hp := eval_pathExpr env inp chunk (.var s) _ (eval_var env inp s h)
  cases hpath : path chunk (env.getD s .null) with
  | none =>
    rw [hpath] at hp
    exact eval_tryCatch_fail _ _ _ _ (by simp [eval, hp])
  | some w =>
    rw [hpath] at hp
    simp only [Option.bind_some]
    cases hi : iter w with
    | none => exact eval_tryCatch_fail _ _ _ _ (by simp [eval, hp, hi])
    | some l => exact eval_tryCatch_ok _ _ _ _ _ (by simp [eval, hp, hi])

/-- `(try $v.p catch null)` -/
theorem eval_leaf_plain (env : List Json) (inp : Json) (s : Nat) (p : List String) (h : s < env.length) :
    eval (leafExpr (.plain s p)) env inp = .ok [evalLeaf env (.plain s p)] := by
  show eval (.tryCatch (pathExpr (.var s) p) .null) env inp = .ok [(path p (env.getD s .null)).getD .null]
  have hp := eval_pathExpr env inp p (.var s) _ (eval_var env inp s h)
  cases hpath : path p (env.getD s .null) with
  | none =>
    rw [hpath] at hp
    exact eval_tryCatch_fail _ .null _ _ hp
  | some w =>
    rw [hpath] at hp
    exact eval_tryCatch_ok _ .null _ _ _ hp

/-! ### the key/value lookup -/

theorem eval_id (env : List Json) (inp : Json) : eval .id env inp = .ok [inp] := rfl

/-- `$v.A.[]` -/
theorem eval_iter_path (env : List Json) (inp : Json) (s : Nat) (a : List String) (h : s < env.length) :
    eval (.iter (pathExpr (.var s) a)) env inp =
      match (path a (env.getD s .null)).bind iter with
      | some l => .ok l
      | none => .fail := by
  have hp := eval_pathExpr env inp a (.var s) _ (eval_var env inp s h)
  cases hpath : path a (env.getD s .null) with
  | none => rw [hpath] at hp; simp [eval, hp]
  | some w =>
    rw [hpath] at hp
    cases hi : iter w <;> simp [eval, hp, hi]

/-- the elements `select(try .K)` keeps -/
def keepElem (k : List String) (e : Json) : Bool :=
  match path k e with
  | some x => truthy x
  | none => false

theorem eval_select (env : List Json) (k : List String) (e : Json) :
    eval (.select (.tryE (pathExpr .id k))) env e = .ok (if keepElem k e then [e] else []) := by
  have hp := eval_pathExpr env e k .id e (eval_id env e)
  unfold keepElem
  cases hpath : path k e with
  | none => rw [hpath] at hp; simp [eval, hp, Res.ok, bindRes, bindOuts]
  | some x =>
    rw [hpath] at hp
    by_cases ht : truthy x <;> simp [eval, hp, ht]

/-- the pair `{(.K): .V}` builds from an element -/
def pairOf (k vp : List String) (e : Json) : Option (String × Json) :=
  match path k e, path vp e with
  | some (.str s), some v => some (s, v)
  | _, _ => none

theorem eval_objDyn (env : List Json) (k vp : List String) (e : Json) :
    eval (.objDyn (pathExpr .id k) (pathExpr .id vp)) env e =
      match pairOf k vp e with
      | some p => .ok [.obj [p]]
      | none => .fail := by
  have hk := eval_pathExpr env e k .id e (eval_id env e)
  have hv := eval_pathExpr env e vp .id e (eval_id env e)
  unfold pairOf
  cases hpk : path k e with
  | none => rw [hpk] at hk; simp [eval, hk]
  | some x =>
    rw [hpk] at hk
    cases hpv : path vp e with
    | none =>
      rw [hpv] at hv
      cases x <;> simp [eval, hk, hv]
    | some v =>
      rw [hpv] at hv
      cases x <;> simp [eval, hk, hv]

theorem bindOuts_filter (keep : Json → Bool) (l : List Json) :
    bindOuts l (fun e => .ok (if keep e then [e] else [])) = .ok (l.filter keep) := by
  rw [bindOuts_ok]
  congr 1
  induction l with
  | nil => rfl
  | cons x xs ih => by_cases hx : keep x <;> simp [List.flatMap_cons, List.filter_cons, hx, ih]

theorem bindOuts_mapM (g : Json → Option (String × Json)) : ∀ (l : List Json),
    (∀ ps, l.mapM g = some ps →
      bindOuts l (fun e => match g e with | some p => .ok [.obj [p]] | none => .fail) =
        .ok (ps.map fun p => .obj [p])) ∧
    (l.mapM g = none →
      (bindOuts l (fun e => match g e with | some p => .ok [.obj [p]] | none => .fail)).err = true)
  | [] => by simp [bindOuts]
  | x :: xs => by
    obtain ⟨ih1, ih2⟩ := bindOuts_mapM g xs
    cases hx : g x with
    | none => simp [bindOuts, hx, List.mapM_cons]
    | some p =>
      cases hm : xs.mapM g with
      | none =>
        have h2 := ih2 hm
        refine ⟨fun qs hq => ?_, fun _ => ?_⟩
        · simp [List.mapM_cons, hx, hm] at hq
        · simp only [bindOuts, hx, Res.ok_err, Bool.false_eq_true, if_false, h2]
      | some ps =>
        have h1 := ih1 ps hm
        refine ⟨fun qs hq => ?_, fun hn => ?_⟩
        · simp only [List.mapM_cons, hx, hm, Option.pure_def, Option.bind_eq_bind, Option.bind_some,
            Option.some.injEq] at hq
          subst hq
          simp only [bindOuts, hx, Res.ok_err, Bool.false_eq_true, if_false, h1, Res.ok_outs, List.map_cons]
          rfl
        · simp [List.mapM_cons, hx, hm] at hn

/-- value of key `kv` in an association list, null when absent -/
def getO (kvs : List (String × Json)) (kv : String) : Json :=
  match kvs.find? (·.1 == kv) with
  | some p => p.2
  | none => .null

theorem field_obj (kvs : List (String × Json)) (kv : String) : field kv (.obj kvs) = some (getO kvs kv) := rfl

theorem getO_merge (a : List (String × Json)) (p : String × Json) (kv : String) :
    getO ((a.filter fun q => !([p].any fun r => r.1 == q.1)) ++ [p]) kv =
      if p.1 == kv then p.2 else getO a kv := by
  unfold getO
  rw [List.find?_append]
  by_cases hp : p.1 == kv
  · have hk : p.1 = kv := by simpa using hp
    have : (a.filter fun q => !([p].any fun r => r.1 == q.1)).find? (·.1 == kv) = none := by
      rw [List.find?_eq_none]
      intro q hq
      simp only [List.mem_filter, List.any_cons, List.any_nil, Bool.or_false, Bool.not_eq_true',
        beq_eq_false_iff_ne, ne_eq] at hq
      simp only [beq_iff_eq]
      intro e
      exact hq.2 (hk.trans e.symm)
    rw [this]
    simp only [Option.none_or, List.find?_cons, hp, if_true]
  · have : (a.filter fun q => !([p].any fun r => r.1 == q.1)).find? (·.1 == kv) = a.find? (·.1 == kv) := by
      induction a with
      | nil => rfl
      | cons q qs ih =>
        simp only [List.filter_cons, List.any_cons, List.any_nil, Bool.or_false]
        by_cases hq : p.1 == q.1
        · have hqk : ¬ (q.1 == kv) = true := by
            have e1 : p.1 = q.1 := by simpa using hq
            rw [← e1]; exact hp
          simp only [hq, Bool.not_true, Bool.false_eq_true, if_false, List.find?_cons, hqk]
          simpa [List.any_cons] using ih
        · simp only [hq, Bool.not_false, if_true, List.find?_cons]
          split
          · rfl
          · simpa [List.any_cons] using ih
    rw [this]
    cases a.find? (·.1 == kv) <;> simp [hp]

/-- `add` over one-pair objects: the value of a key is that of its last occurrence -/
theorem addAll_objs (kv : String) : ∀ (ps : List (String × Json)) (a : List (String × Json)),
    ∃ o, (ps.map fun p => Json.obj [p]).foldl (fun acc x => acc.bind fun v => plusJ v x) (some (.obj a)) = some (.obj o) ∧
      getO o kv = match ps.reverse.find? (·.1 == kv) with
        | some p => p.2
        | none => getO a kv
  | [], a => ⟨a, rfl, by simp⟩
  | p :: ps, a => by
    simp only [List.map_cons, List.foldl_cons, Option.bind_some, plusJ]
    obtain ⟨o, ho, hg⟩ := addAll_objs kv ps ((a.filter fun q => !([p].any fun r => r.1 == q.1)) ++ [p])
    refine ⟨o, ho, ?_⟩
    rw [hg, List.reverse_cons, List.find?_append, getO_merge]
    cases ps.reverse.find? (·.1 == kv) with
    | some q => rfl
    | none =>
      simp only [Option.none_or, List.find?_cons, List.find?_nil]
      by_cases hp : p.1 == kv <;> simp [hp]

theorem eval_pipe (a b : Expr) (env : List Json) (inp : Json) :
    eval (.pipe a b) env inp = bindRes (eval a env inp) fun v => eval b env v := by simp only [eval]

theorem eval_arr (e : Expr) (env : List Json) (inp : Json) :
    eval (.arr e) env inp = if (eval e env inp).err then .fail else .ok [.arr (eval e env inp).outs] := by
  simp only [eval]

theorem eval_field_id (kv : String) (env : List Json) (v : Json) :
    eval (.field .id kv) env v = match field kv v with
      | some w => .ok [w]
      | none => .fail := by
  simp only [eval, bindRes_single]
  rfl

theorem evalLeaf_lookup_eq (env : List Json) (s : Nat) (a k vp : List String) (kv : String) :
    evalLeaf env (.lookup s a k vp kv) =
      match (path a (env.getD s .null)).bind iter with
      | none => .null
      | some elems =>
        match (elems.filter (keepElem k)).mapM (pairOf k vp) with
        | none => .null
        | some pairs => match pairs.reverse.find? (·.1 == kv) with
          | some p => p.2
          | none => .null := rfl

theorem eval_add_objs (env : List Json) (kv : String) (pairs : List (String × Json)) :
    eval (.pipe .add (.field .id kv)) env (.arr (pairs.map fun p => .obj [p])) =
      .ok [match pairs.reverse.find? (·.1 == kv) with
        | some p => p.2
        | none => .null] := by
  cases pairs with
  | nil => simp [eval, iter, addAll, field]
  | cons p ps =>
    obtain ⟨o, ho, hg⟩ := addAll_objs kv ps [p]
    have hadd : addAll ((p :: ps).map fun p => Json.obj [p]) = some (.obj o) := by
      simp only [addAll, List.map_cons, List.foldl_cons, Option.bind_some, plusJ]
      exact ho
    have : eval .add env (.arr ((p :: ps).map fun p => Json.obj [p])) = .ok [.obj o] := by
      simp only [eval, iter, Option.bind_some, hadd]
    rw [eval_pipe, this, bindRes_single, eval_field_id, field_obj, hg]
    congr 2
    rw [List.reverse_cons, List.find?_append]
    cases ps.reverse.find? (·.1 == kv) with
    | some q => rfl
    | none =>
      simp only [Option.none_or, List.find?_cons, List.find?_nil, getO]

/-- `(try ([$v.A.[] | select(try .K) | {(.K): .V}] | add | ."kv") catch null)` is the lookup of the model -/
theorem eval_leaf_lookup (env : List Json) (inp : Json) (s : Nat) (a k vp : List String) (kv : String)
    (h : s < env.length) :
    eval (leafExpr (.lookup s a k vp kv)) env inp = .ok [evalLeaf env (.lookup s a k vp kv)] := by
  rw [evalLeaf_lookup_eq]
  show eval (.tryCatch (.pipe (.pipe (.arr (.pipe (.pipe (.iter (pathExpr (.var s) a))
      (.select (.tryE (pathExpr .id k)))) (.objDyn (pathExpr .id k) (pathExpr .id vp)))) .add) (.field .id kv)) .null)
      env inp = _
  have hI := eval_iter_path env inp s a h
  have hsel : (fun e => eval (.select (.tryE (pathExpr .id k))) env e) =
      fun e => .ok (if keepElem k e then [e] else []) := funext (eval_select env k)
  have hobj : (fun e => eval (.objDyn (pathExpr .id k) (pathExpr .id vp)) env e) =
      fun e => match pairOf k vp e with | some p => .ok [.obj [p]] | none => .fail :=
    funext (eval_objDyn env k vp)
  cases hel : (path a (env.getD s .null)).bind iter with
  | none =>
    rw [hel] at hI
    apply eval_tryCatch_fail
    have : eval (.arr (.pipe (.pipe (.iter (pathExpr (.var s) a)) (.select (.tryE (pathExpr .id k))))
        (.objDyn (pathExpr .id k) (pathExpr .id vp)))) env inp = .fail := by
      rw [eval_arr, eval_pipe, eval_pipe, hI, bindRes_fail, bindRes_fail]
      rfl
    rw [eval_pipe, eval_pipe, this, bindRes_fail, bindRes_fail]
  | some elems =>
    rw [hel] at hI
    simp only []
    have hinner : eval (.pipe (.pipe (.iter (pathExpr (.var s) a)) (.select (.tryE (pathExpr .id k))))
        (.objDyn (pathExpr .id k) (pathExpr .id vp))) env inp =
        bindOuts (elems.filter (keepElem k))
          (fun e => match pairOf k vp e with | some p => .ok [.obj [p]] | none => .fail) := by
      rw [eval_pipe, eval_pipe, hI]
      show bindRes (bindRes (.ok elems) (fun e => eval (.select (.tryE (pathExpr .id k))) env e))
        (fun e => eval (.objDyn (pathExpr .id k) (pathExpr .id vp)) env e) = _
      rw [hsel, hobj, bindRes_ok, bindOuts_filter, bindRes_ok]
    obtain ⟨m1, m2⟩ := bindOuts_mapM (pairOf k vp) (elems.filter (keepElem k))
    cases hm : (elems.filter (keepElem k)).mapM (pairOf k vp) with
    | none =>
      have herr := m2 hm
      apply eval_tryCatch_fail
      have : eval (.arr (.pipe (.pipe (.iter (pathExpr (.var s) a)) (.select (.tryE (pathExpr .id k))))
          (.objDyn (pathExpr .id k) (pathExpr .id vp)))) env inp = .fail := by
        rw [eval_arr, hinner, herr]
        rfl
      rw [eval_pipe, eval_pipe, this, bindRes_fail, bindRes_fail]
    | some pairs =>
      have hok := m1 pairs hm
      apply eval_tryCatch_ok
      have harr : eval (.arr (.pipe (.pipe (.iter (pathExpr (.var s) a)) (.select (.tryE (pathExpr .id k))))
          (.objDyn (pathExpr .id k) (pathExpr .id vp)))) env inp = .ok [.arr (pairs.map fun p => .obj [p])] := by
        rw [eval_arr, hinner, hok]
        rfl
      have hpipe : eval (.pipe (.pipe (.arr (.pipe (.pipe (.iter (pathExpr (.var s) a))
          (.select (.tryE (pathExpr .id k)))) (.objDyn (pathExpr .id k) (pathExpr .id vp)))) .add) (.field .id kv))
          env inp = eval (.pipe .add (.field .id kv)) env (.arr (pairs.map fun p => .obj [p])) := by
        rw [eval_pipe, eval_pipe, harr, bindRes_single, eval_pipe]
      rw [hpipe, eval_add_objs]

theorem eval_leafExpr (env : List Json) (inp : Json) (l : Leaf) (h : l.slot' < env.length) :
    eval (leafExpr l) env inp = .ok [evalLeaf env l] := by
  cases l with
  | plain s p => exact eval_leaf_plain env inp s p h
  | lookup s a k vp kv => exact eval_leaf_lookup env inp s a k vp kv h

/-! ### alternatives, string parts, joins -/

inductive All2 {α β : Type} (R : α → β → Prop) : List α → List β → Prop where
  | nil : All2 R [] []
  | cons {a b as bs} : R a b → All2 R as bs → All2 R (a :: as) (b :: bs)

theorem eval_alt (a b : Expr) (env : List Json) (inp : Json) :
    eval (.alt a b) env inp =
      if ((eval a env inp).outs.filter truthy).isEmpty then eval b env inp
      else .ok ((eval a env inp).outs.filter truthy) := by
  simp only [eval]

/-- `a // b // c` on values -/
def altVals : List Json → Json
  | [] => .null
  | [v] => v
  | v :: rest => if truthy v then v else altVals rest

theorem alt_eq_altVals (env : List Json) : ∀ (ls : List Leaf), alt env ls = altVals (ls.map (evalLeaf env))
  | [] => rfl
  | [_] => rfl
  | l :: m :: rest => by
    simp only [alt, List.map_cons, altVals]
    rw [alt_eq_altVals env (m :: rest)]
    rfl

theorem eval_var_at (pre post : List Json) (v : Json) (inp : Json) :
    eval (.var pre.length) (pre ++ v :: post) inp = .ok [v] := by
  simp [eval]

theorem eval_altVars (inp : Json) : ∀ (vals pre post : List Json), vals ≠ [] →
    eval (altVars pre.length vals.length) (pre ++ vals ++ post) inp = .ok [altVals vals]
  | [], _, _, h => absurd rfl h
  | [v], pre, post, _ => by
    simp only [List.length_singleton, altVars, altVals, List.append_assoc, List.singleton_append]
    exact eval_var_at pre post v inp
  | v :: w :: rest, pre, post, _ => by
    have ih := eval_altVars inp (w :: rest) (pre ++ [v]) post (by simp)
    have e1 : pre ++ [v] ++ (w :: rest) ++ post = pre ++ (v :: w :: rest) ++ post := by simp
    have e2 : (pre ++ [v]).length = pre.length + 1 := by simp
    rw [e1, e2] at ih
    have hv : eval (.var pre.length) (pre ++ (v :: w :: rest) ++ post) inp = .ok [v] := by
      have := eval_var_at pre ((w :: rest) ++ post) v inp
      simpa using this
    show eval (.alt (.var pre.length) (altVars (pre.length + 1) ((w :: rest).length))) _ inp = _
    simp only [eval_alt, hv, altVals, Res.ok_outs]
    by_cases ht : truthy v
    · simp [ht]
    · simp only [List.filter_cons, ht, Bool.false_eq_true, if_false, List.filter_nil,
        List.isEmpty_nil, if_true]
      exact ih

theorem beq_null (x : Json) : x.beq .null = x.isNull := by cases x <;> rfl

/-- the value of a string part: null stays null, everything else becomes its text -/
def partVal (x : Json) : Json := if x.isNull then .null else .str (tostring x)

theorem eval_strPart (a : Expr) (env : List Json) (inp x : Json) (h : eval a env inp = .ok [x]) :
    eval (strPart a) env inp = .ok [partVal x] := by
  unfold strPart partVal
  rw [eval_pipe, h, bindRes_single]
  simp only [eval, bindRes_single, beq_null]
  cases hx : x.isNull <;> simp [truthy]

theorem eval_arrWrap (a : Expr) (env : List Json) (inp x : Json) (h : eval a env inp = .ok [x]) :
    eval (.arr a) env inp = .ok [.arr [x]] := by
  rw [eval_arr, h]; rfl

theorem eval_commaList {γ : Type} (env : List Json) (inp : Json) (f : γ → Json) :
    ∀ (es : List Expr) (gs : List γ), es ≠ [] →
    All2 (fun e g => eval e env inp = .ok [f g]) es gs → eval (commaList es) env inp = .ok (gs.map f)
  | [], _, h, _ => absurd rfl h
  | [e], gs, _, hf => by
    cases hf with
    | cons h1 h2 => cases h2; simpa [commaList] using h1
  | e :: e2 :: es, gs, _, hf => by
    cases hf with
    | cons h1 h2 =>
      have ih := eval_commaList env inp f (e2 :: es) _ (by simp) h2
      simp only [commaList, eval, h1, ih, Res.ok_err, Bool.false_eq_true, if_false, Res.ok_outs]
      rfl

theorem eval_plusList {γ : Type} (env : List Json) (inp : Json) (f : γ → Json) :
    ∀ (es : List Expr) (gs : List γ), es ≠ [] →
    All2 (fun e g => eval e env inp = .ok [.arr [f g]]) es gs → eval (plusList es) env inp = .ok [.arr (gs.map f)]
  | [], _, h, _ => absurd rfl h
  | [e], gs, _, hf => by
    cases hf with
    | cons h1 h2 => cases h2; simpa [plusList] using h1
  | e :: e2 :: es, gs, _, hf => by
    cases hf with
    | cons h1 h2 =>
      have ih := eval_plusList env inp f (e2 :: es) _ (by simp) h2
      simp only [plusList, eval, h1, ih, bindRes_single, plusJ]
      rfl

/-- the part expressions of a field evaluate to the wrapped alternatives of the parts -/
theorem eval_partExprs (wrap : Expr → Expr) (w : Json → Json) (inp : Json) (post : List Json)
    (hw : ∀ (a : Expr) (env : List Json) (x : Json), eval a env inp = .ok [x] → eval (wrap a) env inp = .ok [w x]) :
    ∀ (groups : List (List Json)) (pre : List Json), (∀ g ∈ groups, g ≠ []) →
    All2 (fun e g => eval e (pre ++ groups.flatten ++ post) inp = .ok [w (altVals g)])
      (partExprs wrap pre.length (groups.map List.length)) groups
  | [], _, _ => by simp only [List.map_nil, partExprs]; exact All2.nil
  | g :: gs, pre, hne => by
    simp only [List.map_cons, partExprs, List.flatten_cons]
    refine All2.cons ?_ ?_
    · apply hw
      have := eval_altVars inp g pre (gs.flatten ++ post) (hne g (by simp))
      simpa [List.append_assoc] using this
    · have ih := eval_partExprs wrap w inp post hw gs (pre ++ g) (fun g' hg' => hne g' (by simp [hg']))
      have e1 : (pre ++ g).length = pre.length + g.length := by simp
      rw [e1] at ih
      simpa [List.append_assoc] using ih

theorem eval_anyF (f : Expr) (env : List Json) (inp : Json) :
    eval (.anyF f) env inp = match (iter inp).bind (verdicts (eval f env)) with
      | some vs => .ok [.bool (vs.any (·))]
      | none => .fail := by
  simp only [eval]
  rfl

theorem eval_allF (f : Expr) (env : List Json) (inp : Json) :
    eval (.allF f) env inp = match (iter inp).bind (verdicts (eval f env)) with
      | some vs => .ok [.bool (vs.all (·))]
      | none => .fail := by
  simp only [eval]
  rfl

theorem eval_ite (c t e : Expr) (env : List Json) (inp : Json) :
    eval (.ite c t e) env inp =
      bindRes (eval c env inp) fun b => if truthy b then eval t env inp else eval e env inp := by
  simp only [eval]

theorem partExprs_ne_nil (wrap : Expr → Expr) (base : Nat) (sizes : List Nat) (h : sizes ≠ []) :
    partExprs wrap base sizes ≠ [] := by
  cases sizes with
  | nil => exact absurd rfl h
  | cons n ns => simp [partExprs]

theorem verdicts_isNull (env : List Json) : ∀ (ys : List Json),
    verdicts (eval (.eq .id (.lit .null)) env) ys = some (ys.map Json.isNull)
  | [] => rfl
  | y :: ys => by
    have : eval (.eq .id (.lit .null)) env y = .ok [.bool y.isNull] := by
      simp only [eval, bindRes_single, beq_null]
    simp only [verdicts, this, Res.ok_err, Bool.false_eq_true, if_false, verdicts_isNull env ys, Option.map_some,
      Res.ok_outs, List.any_cons, List.any_nil, Bool.or_false, List.map_cons]
    cases y.isNull <;> rfl

theorem partVal_isNull (x : Json) : (partVal x).isNull = x.isNull := by
  unfold partVal; cases h : x.isNull <;> simp [Json.isNull]

theorem mapM_strOf_partVal : ∀ (xs : List Json), xs.any Json.isNull = false →
    (xs.map partVal).mapM strOf? = some (xs.map tostring)
  | [], _ => rfl
  | x :: xs, h => by
    simp only [List.any_cons, Bool.or_eq_false_iff] at h
    have ih := mapM_strOf_partVal xs h.2
    simp only [List.map_cons, List.mapM_cons, partVal, h.1, Bool.false_eq_true, if_false, strOf?, ih]
    rfl

/-- string-valued field over the values of its alternatives -/
def strJoinVals (xs : List Json) : Json :=
  if xs.any Json.isNull then .null else .str ("_".intercalate (xs.map tostring))

theorem eval_stringJoin (inp : Json) (groups : List (List Json)) (pre post : List Json)
    (hne : ∀ g ∈ groups, g ≠ []) (hg : groups ≠ []) :
    eval (stringJoin pre.length (groups.map List.length)) (pre ++ groups.flatten ++ post) inp =
      .ok [strJoinVals (groups.map altVals)] := by
  unfold stringJoin
  have hparts := eval_partExprs strPart partVal inp post (fun a env x h => eval_strPart a env inp x h) groups pre hne
  have hcl := eval_commaList _ inp (fun g => partVal (altVals g)) _ groups
    (partExprs_ne_nil strPart pre.length _ (by simpa using hg)) hparts
  rw [eval_pipe, eval_arr, hcl]
  simp only [Res.ok_err, Bool.false_eq_true, if_false, Res.ok_outs, bindRes_single]
  have hmap : groups.map (fun g => partVal (altVals g)) = (groups.map altVals).map partVal := by simp
  rw [hmap]
  generalize groups.map altVals = xs
  have hany : eval (.anyF (.eq .id (.lit .null))) (pre ++ groups.flatten ++ post) (.arr (xs.map partVal)) =
      .ok [.bool (xs.any Json.isNull)] := by
    rw [eval_anyF]
    simp only [iter, Option.bind_some, verdicts_isNull, List.map_map]
    congr 3
    induction xs with
    | nil => rfl
    | cons x xs ih => simp [partVal_isNull, ih]
  unfold strJoinVals
  rw [eval_ite, hany, bindRes_single]
  cases hx : xs.any Json.isNull with
  | true => simp only [truthy, if_true]; rfl
  | false =>
    simp only [truthy, Bool.false_eq_true, if_false]
    simp only [eval, mapM_strOf_partVal xs hx]

theorem eval_and (a b : Expr) (env : List Json) (inp : Json) :
    eval (.and a b) env inp = bindRes (eval a env inp) fun x =>
      if truthy x then bindRes (eval b env inp) fun y => .ok [.bool (truthy y)] else .ok [.bool false] := by
  simp only [eval]

theorem beq_arr_nil (l : List Json) : (Json.arr l).beq (.arr []) = l.isEmpty := by
  cases l <;> rfl

/-- array-valued field over the values of its alternatives -/
def arrJoinVals (xs : List Json) : Json :=
  if !(flattenL xs).isEmpty && (flattenL xs).all Json.isNull then .null else .arr (flattenL xs)

theorem eval_arrayJoin (inp : Json) (groups : List (List Json)) (pre post : List Json)
    (hne : ∀ g ∈ groups, g ≠ []) (hg : groups ≠ []) :
    eval (arrayJoin pre.length (groups.map List.length)) (pre ++ groups.flatten ++ post) inp =
      .ok [arrJoinVals (groups.map altVals)] := by
  unfold arrayJoin
  have hparts := eval_partExprs .arr (fun x => .arr [x]) inp post
    (fun a env x h => eval_arrWrap a env inp x h) groups pre hne
  have hpl := eval_plusList _ inp altVals _ groups
    (partExprs_ne_nil .arr pre.length _ (by simpa using hg)) hparts
  rw [eval_pipe, eval_pipe, hpl, bindRes_single]
  generalize groups.map altVals = xs
  generalize pre ++ groups.flatten ++ post = env
  have hfl : eval .flatten env (.arr xs) = .ok [.arr (flattenL xs)] := by simp only [eval]
  rw [hfl, bindRes_single, eval_ite, eval_and, eval_pipe, eval_id, bindRes_single, eval_allF]
  simp only [iter, Option.bind_some, verdicts_isNull, bindRes_single]
  have hall : ((flattenL xs).map Json.isNull).all (·) = (flattenL xs).all Json.isNull := by
    rw [List.all_map]; rfl
  have hneq : eval (.neq .id (.lit (.arr []))) env (.arr (flattenL xs)) = .ok [.bool (!(flattenL xs).isEmpty)] := by
    simp only [eval, bindRes_single, beq_arr_nil]
  rw [hall, hneq]
  unfold arrJoinVals
  cases h1 : (flattenL xs).all Json.isNull <;> cases h2 : (flattenL xs).isEmpty <;>
    simp [truthy, eval]

/-! ### binding the leaves and the fields -/

theorem eval_bind (e body : Expr) (env : List Json) (inp : Json) :
    eval (.bind e body) env inp = bindRes (eval e env inp) fun v => eval body (env ++ [v]) inp := by
  simp only [eval]

/-- `es` evaluate one after the other, each seeing the values of the earlier ones appended to `env` -/
def EvalsTo (inp : Json) : List Expr → List Json → List Json → Prop
  | [], [], _ => True
  | e :: es, v :: vs, env => eval e env inp = .ok [v] ∧ EvalsTo inp es vs (env ++ [v])
  | _, _, _ => False

theorem eval_bindAll (inp : Json) (body : Expr) : ∀ (es : List Expr) (vals env : List Json),
    EvalsTo inp es vals env → eval (bindAll es body) env inp = eval body (env ++ vals) inp
  | [], [], env, _ => by simp [bindAll]
  | [], _ :: _, _, h => absurd h (by simp [EvalsTo])
  | _ :: _, [], _, h => absurd h (by simp [EvalsTo])
  | e :: es, v :: vs, env, h => by
    obtain ⟨h1, h2⟩ := h
    rw [bindAll, eval_bind, h1, bindRes_single, eval_bindAll inp body es vs (env ++ [v]) h2]
    simp

theorem getD_append_lt' (env suf : List Json) (s : Nat) (h : s < env.length) :
    (env ++ suf).getD s .null = env.getD s .null := by
  simp [List.getD, List.getElem?_append_left h]

theorem evalLeaf_prefix (env suf : List Json) (l : Leaf) (h : l.slot' < env.length) :
    evalLeaf (env ++ suf) l = evalLeaf env l := by
  cases l with
  | plain s p => simp only [evalLeaf]; rw [getD_append_lt' env suf s h]
  | lookup s a k vp kv => simp only [evalLeaf]; rw [getD_append_lt' env suf s h]

theorem leaves_evalsTo (inp : Json) (L : List Json) : ∀ (leaves : List Leaf) (extra : List Json),
    (∀ l ∈ leaves, l.slot' < L.length) →
    EvalsTo inp (leaves.map leafExpr) (leaves.map (evalLeaf L)) (L ++ extra)
  | [], _, _ => trivial
  | l :: ls, extra, h => by
    have hl := h l (by simp)
    refine ⟨?_, ?_⟩
    · rw [eval_leafExpr _ inp l (by simp; omega), evalLeaf_prefix L extra l hl]
    · have := leaves_evalsTo inp L ls (extra ++ [evalLeaf L l]) (fun x hx => h x (by simp [hx]))
      simpa [List.append_assoc] using this

theorem partStr_eq (env : List Json) (p : List Leaf) :
    partStr env p = if (alt env p).isNull then none else some (tostring (alt env p)) := by
  unfold partStr
  cases alt env p <;> rfl

theorem evalString_eq (env : List Json) (parts : List (List Leaf)) :
    evalString env parts = strJoinVals (parts.map (alt env)) := by
  unfold evalString strJoinVals
  have h1 : (parts.map (partStr env)).any Option.isNone = (parts.map (alt env)).any Json.isNull := by
    induction parts with
    | nil => rfl
    | cons p ps ih =>
      simp only [List.map_cons, List.any_cons, ih, partStr_eq]
      cases (alt env p).isNull <;> rfl
  rw [h1]
  cases hn : (parts.map (alt env)).any Json.isNull with
  | true => rfl
  | false =>
    simp only [Bool.false_eq_true, if_false]
    congr 2
    clear h1
    induction parts with
    | nil => rfl
    | cons p ps ih =>
      simp only [List.map_cons, List.any_cons, Bool.or_eq_false_iff] at hn
      simp only [List.map_cons, partStr_eq, hn.1, Bool.false_eq_true, if_false, List.filterMap_cons, id]
      rw [ih hn.2]

theorem evalArray_eq (env : List Json) (parts : List (List Leaf)) :
    evalArray env parts = arrJoinVals (parts.map (alt env)) := rfl

/-- the values of the output variables collected so far -/
def outVals (env : List Json) (outs : List (String × Nat)) : Option (List (String × Json)) :=
  outs.mapM fun (p : String × Nat) => (env[p.2]?).map fun v => (p.1, v)

theorem outVals_append (env suf : List Json) : ∀ (outs : List (String × Nat)) (vs : List (String × Json)),
    outVals env outs = some vs → outVals (env ++ suf) outs = some vs
  | [], vs, h => by simpa [outVals] using h
  | (n, i) :: outs, vs, h => by
    simp only [outVals, List.mapM_cons] at h ⊢
    cases hi : env[i]? with
    | none => simp [hi] at h
    | some v =>
      have hlt : i < env.length := by
        rcases List.getElem?_eq_some_iff.mp hi with ⟨hlt, _⟩
        exact hlt
      have hi' : (env ++ suf)[i]? = some v := by rw [List.getElem?_append_left hlt]; exact hi
      simp only [hi, Option.map_some, Option.pure_def, Option.bind_eq_bind, Option.bind_some] at h
      simp only [hi', Option.map_some, Option.pure_def, Option.bind_eq_bind, Option.bind_some]
      cases hr : outs.mapM (fun (p : String × Nat) => (env[p.2]?).map fun v => (p.1, v)) with
      | none => simp [hr] at h
      | some r =>
        have := outVals_append env suf outs r hr
        simp only [outVals] at this
        simp only [hr, Option.bind_some] at h
        simp only [this, Option.bind_some]
        exact h

theorem outVals_snoc (env : List Json) (outs : List (String × Nat)) (vs : List (String × Json)) (n : String) (v : Json)
    (h : outVals env outs = some vs) : outVals (env ++ [v]) (outs ++ [(n, env.length)]) = some (vs ++ [(n, v)]) := by
  have h' := outVals_append env [v] outs vs h
  simp only [outVals] at h' ⊢
  rw [List.mapM_append, h']
  simp [List.mapM_cons]

/-- every leaf reads a loop variable that exists, every field has a part and every part an alternative -/
def wfFields (n : Nat) (fields : List (String × Spec)) : Prop :=
  ∀ f ∈ fields, f.2.parts ≠ [] ∧ ∀ p ∈ f.2.parts, p ≠ [] ∧ ∀ l ∈ p, l.slot' < n

theorem eval_emitFields (inp : Json) (L : List Json) : ∀ (fields : List (String × Spec)) (extra : List Json)
    (outs : List (String × Nat)) (vs : List (String × Json)),
    wfFields L.length fields → outVals (L ++ extra) outs = some vs →
    eval (emitFields (L ++ extra).length fields outs) (L ++ extra) inp =
      .ok [.obj (vs ++ fields.map fun f => (f.1, evalField L f.2))]
  | [], extra, outs, vs, _, ho => by
    simp only [emitFields, eval, List.map_nil, List.append_nil]
    simp only [outVals] at ho
    rw [ho]
  | (n, s) :: rest, extra, outs, vs, hwf, ho => by
    obtain ⟨hparts, hp⟩ := hwf (n, s) (by simp)
    have hslots : ∀ l ∈ s.leaves, l.slot' < L.length := by
      intro l hl
      simp only [Spec.leaves, List.mem_flatten] at hl
      obtain ⟨p, hpm, hlp⟩ := hl
      exact (hp p hpm).2 l hlp
    simp only [emitFields]
    rw [eval_bindAll inp _ _ _ _ (leaves_evalsTo inp L s.leaves extra hslots), eval_bind]
    -- the joined value
    let groups := s.parts.map fun p => p.map (evalLeaf L)
    have hfl : s.leaves.map (evalLeaf L) = groups.flatten := by
      simp only [Spec.leaves, groups, List.map_flatten]
    have hsz : s.sizes = groups.map List.length := by
      simp only [Spec.sizes, groups, List.map_map]
      apply List.map_congr_left
      intro p _
      simp
    have hgne : ∀ g ∈ groups, g ≠ [] := by
      intro g hg
      simp only [groups, List.mem_map] at hg
      obtain ⟨p, hpm, rfl⟩ := hg
      simpa using (hp p hpm).1
    have hg0 : groups ≠ [] := by simpa [groups] using hparts
    have halt : groups.map altVals = s.parts.map (alt L) := by
      simp only [groups, List.map_map]
      apply List.map_congr_left
      intro p _
      simp [alt_eq_altVals]
    have hjoin : eval (if s.isArray then arrayJoin (L ++ extra).length s.sizes else stringJoin (L ++ extra).length s.sizes)
        (L ++ extra ++ s.leaves.map (evalLeaf L)) inp = .ok [evalField L s] := by
      rw [hfl, hsz]
      have e0 : L ++ extra ++ groups.flatten = L ++ extra ++ groups.flatten ++ [] := by simp
      rw [e0]
      unfold evalField
      cases s.isArray with
      | true =>
        simp only [if_true]
        rw [eval_arrayJoin inp groups (L ++ extra) [] hgne hg0, halt, evalArray_eq]
      | false =>
        simp only [Bool.false_eq_true, if_false]
        rw [eval_stringJoin inp groups (L ++ extra) [] hgne hg0, halt, evalString_eq]
    rw [hjoin, bindRes_single]
    -- the rest of the fields, in the longer environment
    have henv : L ++ extra ++ s.leaves.map (evalLeaf L) ++ [evalField L s] =
        L ++ (extra ++ s.leaves.map (evalLeaf L) ++ [evalField L s]) := by simp
    have hlen : (L ++ extra).length + s.leaves.length + 1 =
        (L ++ (extra ++ s.leaves.map (evalLeaf L) ++ [evalField L s])).length := by
      simp; omega
    have ho' : outVals (L ++ (extra ++ s.leaves.map (evalLeaf L) ++ [evalField L s]))
        (outs ++ [(n, (L ++ extra).length + s.leaves.length)]) = some (vs ++ [(n, evalField L s)]) := by
      have h1 := outVals_append (L ++ extra) (s.leaves.map (evalLeaf L)) outs vs ho
      have h2 := outVals_snoc _ outs vs n (evalField L s) h1
      have e1 : (L ++ extra ++ s.leaves.map (evalLeaf L)).length = (L ++ extra).length + s.leaves.length := by
        simp only [List.length_append, List.length_map]
      rw [e1, henv] at h2
      exact h2
    rw [henv, hlen]
    rw [eval_emitFields inp L rest _ _ _ (fun f hf => hwf f (by simp [hf])) ho']
    simp

/-! ### the loops -/

def loopStep (envs : List (List Json)) (d : Nat × List String) : List (List Json) :=
  envs.flatMap (bindVar d.1 d.2)

theorem foldl_loopStep_flatMap : ∀ (order : List (Nat × List String)) (E : List (List Json)),
    order.foldl loopStep E = E.flatMap fun e => order.foldl loopStep [e]
  | [], E => by simp
  | d :: rest, E => by
    simp only [List.foldl_cons]
    rw [foldl_loopStep_flatMap rest (loopStep E d)]
    simp only [loopStep, List.flatMap_assoc]
    congr 1
    funext e
    rw [foldl_loopStep_flatMap rest ([e].flatMap (bindVar d.1 d.2))]
    simp

theorem eval_emitLoops (inp : Json) (body : Expr) (f : List Json → Json) (N : Nat)
    (hbody : ∀ env', env'.length = N → eval body env' inp = .ok [f env']) :
    ∀ (order : List (Nat × List String)) (env : List Json), env.length + order.length = N →
    wfOrder env.length order = true →
    eval (emitLoops order body) env inp = .ok ((order.foldl loopStep [env]).map f)
  | [], env, hN, _ => by
    simp only [emitLoops, List.foldl_nil, List.map_cons, List.map_nil]
    exact hbody env (by simpa using hN)
  | d :: rest, env, hN, hwf => by
    simp only [wfOrder, Bool.and_eq_true, decide_eq_true_eq] at hwf
    simp only [emitLoops]
    rw [eval_bind, eval_loopExpr env inp d.1 d.2 hwf.1, bindRes_ok]
    have hstep : (fun v => eval (emitLoops rest body) (env ++ [v]) inp) =
        fun v => .ok ((rest.foldl loopStep [env ++ [v]]).map f) := by
      funext v
      exact eval_emitLoops inp body f N hbody rest (env ++ [v]) (by simp at hN ⊢; omega) (by simpa using hwf.2)
    rw [hstep, bindOuts_ok]
    congr 1
    simp only [List.foldl_cons]
    rw [foldl_loopStep_flatMap rest (loopStep [env] d)]
    simp only [loopStep, List.flatMap_cons, List.flatMap_nil, List.append_nil, bindVar, List.flatMap_map,
      List.map_flatMap]

theorem wfFields_of_B (n : Nat) (fields : List (String × Spec)) (h : wfFieldsB n fields = true) :
    wfFields n fields := by
  intro f hf
  simp only [wfFieldsB, List.all_eq_true, Bool.and_eq_true, Bool.not_eq_true', decide_eq_true_eq] at h
  obtain ⟨h1, h2⟩ := h f hf
  refine ⟨by intro e; simp [e] at h1, fun p hp => ?_⟩
  obtain ⟨h3, h4⟩ := h2 p hp
  exact ⟨by intro e; simp [e] at h3, h4⟩

end O2P.Jq
