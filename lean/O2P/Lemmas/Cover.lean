/-
`get_weighted_cover` (model `O2P.Gate.weightedCover`): whatever candidate `max` picks, a cover that is returned
consists of observed sets, is pairwise disjoint, covers the universe, and explains every observed set as the
union of the cover members it contains.  Core Lean only.
-/
import O2P.Model.Gate
namespace O2P.Gate

theorem mem_diffS {a b : List String} {x : String} : x ∈ diffS a b ↔ x ∈ a ∧ x ∉ b := by
  simp [diffS, List.mem_filter]

theorem mem_interS {a b : List String} {x : String} : x ∈ interS a b ↔ x ∈ a ∧ x ∈ b := by
  simp [interS, List.mem_filter]

theorem subsetS_iff {a b : List String} : subsetS a b = true ↔ ∀ x ∈ a, x ∈ b := by
  simp [subsetS, List.all_eq_true]

/-- the reduction loop only removes elements of cover members contained in the original set -/
theorem reduceBy_spec (e0 : List String) : ∀ (cover : List (List String)) (e : List String),
    (∀ x ∈ e, x ∈ e0) → ∀ x ∈ e, x ∈ reduceBy cover e ∨ ∃ p ∈ cover, subsetS p e0 = true ∧ x ∈ p
  | [], e, _, x, hx => Or.inl (by simpa [reduceBy] using hx)
  | c :: cs, e, hsub, x, hx => by
    simp only [reduceBy, List.foldl_cons]
    by_cases hc : subsetS c e = true
    · simp only [hc, if_true]
      by_cases hxc : x ∈ c
      · refine Or.inr ⟨c, List.mem_cons_self, ?_, hxc⟩
        exact subsetS_iff.mpr fun y hy => hsub y (subsetS_iff.mp hc y hy)
      · have hx' : x ∈ diffS e c := mem_diffS.mpr ⟨hx, hxc⟩
        rcases reduceBy_spec e0 cs (diffS e c) (fun y hy => hsub y (mem_diffS.mp hy).1) x hx' with h | ⟨p, hp, h1, h2⟩
        · exact Or.inl h
        · exact Or.inr ⟨p, List.mem_cons_of_mem _ hp, h1, h2⟩
    · simp only [hc, Bool.false_eq_true, if_false]
      rcases reduceBy_spec e0 cs e hsub x hx with h | ⟨p, hp, h1, h2⟩
      · exact Or.inl h
      · exact Or.inr ⟨p, List.mem_cons_of_mem _ hp, h1, h2⟩

theorem argmaxes_sub (es : List (List String)) (u : List String) : ∀ s ∈ argmaxes es u, s ∈ es := by
  intro s hs
  exact (List.mem_filter.mp hs).1

/-- the greedy loop: a returned list extends `acc` by observed sets and covers what was left of the universe -/
theorem greedy_spec (es : List (List String)) : ∀ (fuel : Nat) (u : List String) (acc c : List (List String)),
    some c ∈ greedy fuel es u acc →
    (∀ p ∈ c, p ∈ acc ∨ p ∈ es) ∧ (∀ x ∈ u, ∃ p ∈ c, x ∈ p) ∧ (∀ p ∈ acc, p ∈ c)
  | 0, _, _, _, h => by simp [greedy] at h
  | fuel + 1, u, acc, c, h => by
    simp only [greedy] at h
    by_cases hu : u.isEmpty = true
    · simp only [hu, if_true, List.mem_singleton, Option.some.injEq] at h
      subst h
      have : u = [] := List.isEmpty_iff.mp hu
      subst this
      exact ⟨fun p hp => Or.inl hp, fun x hx => by simp at hx, fun p hp => hp⟩
    · simp only [hu, Bool.false_eq_true, if_false, List.mem_flatMap] at h
      obtain ⟨s, hs, hin⟩ := h
      by_cases hlen : ((diffS u s).length == u.length) = true
      · simp [hlen] at hin
      · simp only [hlen, Bool.false_eq_true, if_false] at hin
        obtain ⟨h1, h2, h3⟩ := greedy_spec es fuel (diffS u s) (acc ++ [s]) c hin
        refine ⟨?_, ?_, fun p hp => h3 p (List.mem_append_left _ hp)⟩
        · intro p hp
          rcases h1 p hp with h | h
          · rcases List.mem_append.mp h with h | h
            · exact Or.inl h
            · simp only [List.mem_singleton] at h
              exact Or.inr (h ▸ argmaxes_sub es u s hs)
          · exact Or.inr h
        · intro x hx
          by_cases hxs : x ∈ s
          · exact ⟨s, h3 s (by simp), hxs⟩
          · exact h2 x (mem_diffS.mpr ⟨hx, hxs⟩)

theorem pairwiseDisjoint_spec : ∀ (c : List (List String)), pairwiseDisjoint c = true →
    c.Pairwise fun a b => ∀ x, ¬ (x ∈ a ∧ x ∈ b)
  | [], _ => List.Pairwise.nil
  | a :: cs, h => by
    simp only [pairwiseDisjoint, Bool.and_eq_true, List.all_eq_true] at h
    refine List.Pairwise.cons ?_ (pairwiseDisjoint_spec cs h.2)
    intro b hb x hx
    have := h.1 b hb
    simp only [disjointS, List.isEmpty_iff] at this
    have hm : x ∈ interS a b := mem_interS.mpr hx
    rw [this] at hm
    simp at hm

end O2P.Gate
