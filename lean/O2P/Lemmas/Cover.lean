/-
`get_weighted_cover` (model `O2P.Gate.weightedCover`): whatever candidate `max` picks, a cover that is returned
consists of observed sets, is pairwise disjoint, covers the universe, and explains every observed set as the
union of the cover members it contains.  Core Lean only.
-/
import O2P.Model.Gate
namespace O2P.Gate

theorem mem_diffS {a b : List String} {x : String} : x ∈ diffS a b ↔ x ∈ a ∧ x ∉ b := by
  simp [diffS, List.mem_filter]

theorem mem_interS {a b : List String} {x : String} : x ∈ interS a b ↔ x ∈ a ∧ x ∈ b := by
  simp [interS, List.mem_filter]

theorem subsetS_iff {a b : List String} : subsetS a b = true ↔ ∀ x ∈ a, x ∈ b := by
  simp [subsetS, List.all_eq_true]

/-- the reduction loop only removes elements of cover members contained in the original set -/
theorem reduceBy_spec (e0 : List String) : ∀ (cover : List (List String)) (e : List String),
    (∀ x ∈ e, x ∈ e0) → ∀ x ∈ e, x ∈ reduceBy cover e ∨ ∃ p ∈ cover, subsetS p e0 = true ∧ x ∈ p
  | [], e, _, x, hx => Or.inl (by simpa [reduceBy] using hx)
  | c :: cs, e, hsub, x, hx => by
    simp only [reduceBy, List.foldl_cons]
    by_cases hc : subsetS c e = true
    · simp only [hc, if_true]
      by_cases hxc : x ∈ c
      · refine Or.inr ⟨c, List.mem_cons_self, ?_, hxc⟩
        exact subsetS_iff.mpr fun y hy => hsub y (subsetS_iff.mp hc y hy)
      · have hx' : x ∈ diffS e c := mem_diffS.mpr ⟨hx, hxc⟩
        rcases reduceBy_spec e0 cs (diffS e c) (fun y hy => hsub y (mem_diffS.mp hy).1) x hx' with h | ⟨p, hp, h1, h2⟩
        · exact Or.inl h
        · exact Or.inr ⟨p, List.mem_cons_of_mem _ hp, h1, h2⟩
    · simp only [hc, Bool.false_eq_true, if_false]
      rcases reduceBy_spec e0 cs e hsub x hx with h | ⟨p, hp, h1, h2⟩
      · exact Or.inl h
      · exact Or.inr ⟨p, List.mem_cons_of_mem _ hp, h1, h2⟩

theorem argmaxes_sub (es : List (List String)) (u : List String) : ∀ s ∈ argmaxes es u, s ∈ es := by
  intro s hs
  exact (List.mem_filter.mp hs).1

/-- the greedy loop: a returned list extends `acc` by observed sets and covers what was left of the universe -/
theorem greedy_spec (es : List (List String)) : ∀ (fuel : Nat) (u : List String) (acc c : List (List String)),
    some c ∈ greedy fuel es u acc →
    (∀ p ∈ c, p ∈ acc ∨ p ∈ es) ∧ (∀ x ∈ u, ∃ p ∈ c, x ∈ p) ∧ (∀ p ∈ acc, p ∈ c)
  | 0, _, _, _, h => by simp [greedy] at h
  | fuel + 1, u, acc, c, h => by
    simp only [greedy] at h
    by_cases hu : u.isEmpty = true
    · simp only [hu, if_true, List.mem_singleton, Option.some.injEq] at h
      subst h
      have : u = [] := List.isEmpty_iff.mp hu
      subst this
      exact ⟨fun p hp => Or.inl hp, fun x hx => by simp at hx, fun p hp => hp⟩
    · simp only [hu, Bool.false_eq_true, if_false, List.mem_flatMap] at h
      obtain ⟨s, hs, hin⟩ := h
      by_cases hlen : ((diffS u s).length == u.length) = true
      · simp [hlen] at hin
      · simp only [hlen, Bool.false_eq_true, if_false] at hin
        obtain ⟨h1, h2, h3⟩ := greedy_spec es fuel (diffS u s) (acc ++ [s]) c hin
        refine ⟨?_, ?_, fun p hp => h3 p (List.mem_append_left _ hp)⟩
        · intro p hp
          rcases h1 p hp with h | h
          · rcases List.mem_append.mp h with h | h
            · exact Or.inl h
            · simp only [List.mem_singleton] at h
              exact Or.inr (h ▸ argmaxes_sub es u s hs)
          · exact Or.inr h
        · intro x hx
          by_cases hxs : x ∈ s
          · exact ⟨s, h3 s (by simp), hxs⟩
          · exact h2 x (mem_diffS.mpr ⟨hx, hxs⟩)

theorem pairwiseDisjoint_spec : ∀ (c : List (List String)), pairwiseDisjoint c = true →
    c.Pairwise fun a b => ∀ x, ¬ (x ∈ a ∧ x ∈ b)
  | [], _ => List.Pairwise.nil
  | a :: cs, h => by
    simp only [pairwiseDisjoint, Bool.and_eq_true, List.all_eq_true] at h
    refine List.Pairwise.cons ?_ (pairwiseDisjoint_spec cs h.2)
    intro b hb x hx
    have := h.1 b hb
    simp only [disjointS, List.isEmpty_iff] at this
    have hm : x ∈ interS a b := mem_interS.mpr hx
    rw [this] at hm
    simp at hm

/-- what a returned cover satisfies, whatever `max` chose (the property theorem `cover_spec`) -/
theorem weightedCover_spec (es0 : List (List String)) (u : List String) (c : List (List String))
    (h : some c ∈ weightedCover es0 u) :
    (∀ p ∈ c, p ∈ es0) ∧
    (c.Pairwise fun a b => ∀ x, ¬ (x ∈ a ∧ x ∈ b)) ∧
    (∀ x ∈ u, ∃ p ∈ c, x ∈ p) ∧
    (∀ e ∈ es0, sameS e u = false → ∀ x ∈ e, ∃ p ∈ c, (∀ y ∈ p, y ∈ e) ∧ x ∈ p) := by
  unfold weightedCover at h
  simp only at h
  by_cases hes : (es0.filter fun s => !sameS s u).isEmpty = true
  · simp [hes] at h
  · simp only [hes, Bool.false_eq_true, if_false, List.mem_map] at h
    obtain ⟨r, hr, hb⟩ := h
    cases r with
    | none => simp at hb
    | some c' =>
      simp only [Option.bind_some] at hb
      by_cases hck : checkCover (es0.filter fun s => !sameS s u) c' = true
      · simp only [hck, if_true, Option.some.injEq] at hb
        subst hb
        obtain ⟨g1, g2, _⟩ := greedy_spec _ _ u [] c' hr
        simp only [checkCover, Bool.and_eq_true, List.all_eq_true] at hck
        refine ⟨?_, pairwiseDisjoint_spec c' hck.2, g2, ?_⟩
        · intro p hp
          rcases g1 p hp with h | h
          · simp at h
          · exact (List.mem_filter.mp h).1
        · intro e he hne x hx
          have hmem : e ∈ es0.filter fun s => !sameS s u := List.mem_filter.mpr ⟨he, by simp [hne]⟩
          have hemp := hck.1 e hmem
          rcases reduceBy_spec e c' e (fun y hy => hy) x hx with h | ⟨p, hp, h1, h2⟩
          · rw [List.isEmpty_iff.mp hemp] at h; simp at h
          · exact ⟨p, hp, subsetS_iff.mp h1, h2⟩
      · simp [hck] at hb

/-! ### `norm` is canonical: strictly sorted, same members -/

theorem mem_insertS (x y : String) : ∀ (l : List String), y ∈ insertS x l ↔ y = x ∨ y ∈ l
  | [] => by simp [insertS]
  | z :: zs => by
    simp only [insertS]
    by_cases h1 : x < z
    · simp [h1]
    · by_cases h2 : (x == z) = true
      · have : x = z := by simpa using h2
        subst this
        simp [h1]
      · simp only [h1, if_false, h2, Bool.false_eq_true, List.mem_cons, mem_insertS x y zs]
        constructor
        · rintro (h | h | h)
          · exact Or.inr (Or.inl h)
          · exact Or.inl h
          · exact Or.inr (Or.inr h)
        · rintro (h | h | h)
          · exact Or.inr (Or.inl h)
          · exact Or.inl h
          · exact Or.inr (Or.inr h)

theorem mem_norm (y : String) : ∀ (s : List String), y ∈ norm s ↔ y ∈ s
  | [] => by simp [norm]
  | x :: xs => by
    have ih := mem_norm y xs
    simp only [norm, List.foldr_cons] at ih ⊢
    rw [mem_insertS, ih, List.mem_cons]

theorem sorted_insertS (x : String) : ∀ (l : List String), l.Pairwise (· < ·) → (insertS x l).Pairwise (· < ·)
  | [], _ => by simp [insertS]
  | z :: zs, h => by
    have hz := List.pairwise_cons.mp h
    simp only [insertS]
    by_cases h1 : x < z
    · simp only [h1, if_true]
      refine List.pairwise_cons.mpr ⟨?_, h⟩
      intro a ha
      rcases List.mem_cons.mp ha with rfl | ha
      · exact h1
      · exact String.lt_trans h1 (hz.1 a ha)
    · by_cases h2 : (x == z) = true
      · simp [h1, h2, h]
      · simp only [h1, if_false, h2, Bool.false_eq_true]
        refine List.pairwise_cons.mpr ⟨?_, sorted_insertS x zs hz.2⟩
        intro a ha
        rcases (mem_insertS x a zs).mp ha with rfl | ha
        · have hle : z ≤ a := String.not_lt.mp h1
          have hne : ¬ a = z := by simpa using h2
          apply Decidable.by_contra
          intro hn
          exact hne (String.le_antisymm (String.not_lt.mp hn) hle)
        · exact hz.1 a ha

theorem sorted_norm : ∀ (s : List String), (norm s).Pairwise (· < ·)
  | [] => by simp [norm]
  | x :: xs => by
    have ih := sorted_norm xs
    simp only [norm, List.foldr_cons] at ih ⊢
    exact sorted_insertS x _ ih

theorem sorted_ext : ∀ (a b : List String), a.Pairwise (· < ·) → b.Pairwise (· < ·) →
    (∀ x, x ∈ a ↔ x ∈ b) → a = b
  | [], [], _, _, _ => rfl
  | [], y :: ys, _, _, h => by have := (h y).mpr List.mem_cons_self; simp at this
  | x :: xs, [], _, _, h => by have := (h x).mp List.mem_cons_self; simp at this
  | x :: xs, y :: ys, ha, hb, h => by
    have hax := List.pairwise_cons.mp ha
    have hby := List.pairwise_cons.mp hb
    have hxy : x = y := by
      have h1 : x ∈ y :: ys := (h x).mp List.mem_cons_self
      have h2 : y ∈ x :: xs := (h y).mpr List.mem_cons_self
      rcases List.mem_cons.mp h1 with e | hx
      · exact e
      · rcases List.mem_cons.mp h2 with e | hy
        · exact e.symm
        · exact absurd (String.lt_trans (hby.1 x hx) (hax.1 y hy)) (String.lt_irrefl y)
    subst hxy
    congr 1
    apply sorted_ext xs ys hax.2 hby.2
    intro z
    constructor
    · intro hz
      rcases List.mem_cons.mp ((h z).mp (List.mem_cons_of_mem _ hz)) with e | h'
      · exact absurd (e ▸ hax.1 z hz) (String.lt_irrefl x)
      · exact h'
    · intro hz
      rcases List.mem_cons.mp ((h z).mpr (List.mem_cons_of_mem _ hz)) with e | h'
      · exact absurd (e ▸ hby.1 z hz) (String.lt_irrefl x)
      · exact h'

/-- two lists with the same members have the same normal form -/
theorem norm_ext (a b : List String) (h : ∀ x, x ∈ a ↔ x ∈ b) : norm a = norm b :=
  sorted_ext _ _ (sorted_norm a) (sorted_norm b) fun x => by rw [mem_norm, mem_norm, h]

/-! ### the gate `process_missing_and_gates` builds from a cover admits what the cover explains -/

/-- a cover member as a child of the OR gate: a leaf, or the AND of its events -/
def partGate (p : List String) : Gate :=
  match p with
  | [a] => .leaf a
  | _ => .node .and (p.map .leaf)

/-- `OR(AND(group), …)` -/
def rebuilt (c : List (List String)) : Gate := .node .or (c.map partGate)

theorem mem_union (a b : List String) (x : String) : x ∈ union a b ↔ x ∈ a ∨ x ∈ b := by
  simp [union, mem_norm]

theorem outcomesL_map (f : List String → Gate) : ∀ (c : List (List String)),
    outcomesL (c.map f) = c.map fun p => outcomes (f p)
  | [] => rfl
  | p :: ps => by simp [outcomesL, outcomesL_map f ps]

theorem outcomesL_leaves : ∀ (p : List String), outcomesL (p.map Gate.leaf) = p.map fun a => [[a]]
  | [] => rfl
  | a :: as => by simp [outcomesL, outcomes, outcomesL_leaves as]

/-- one outcome per family: the product is the union -/
theorem productAll_singletons : ∀ (os : List (List String)),
    ∃ u, productAll (os.map fun o => [o]) = [u] ∧ ∀ x, x ∈ u ↔ ∃ o ∈ os, x ∈ o
  | [] => ⟨[], rfl, by simp⟩
  | o :: os => by
    obtain ⟨u, hu, hm⟩ := productAll_singletons os
    refine ⟨union o u, by simp [productAll, hu], ?_⟩
    intro x
    rw [mem_union, hm]
    simp

theorem outcomes_partGate (p : List String) : ∃ o, outcomes (partGate p) = [o] ∧ ∀ x, x ∈ o ↔ x ∈ p := by
  unfold partGate
  split
  · rename_i a
    exact ⟨[a], rfl, fun x => Iff.rfl⟩
  · have h := productAll_singletons (p.map fun a => [a])
    obtain ⟨u, hu, hm⟩ := h
    refine ⟨u, ?_, ?_⟩
    · simp only [outcomes, outcomesL_leaves]
      have e : (p.map fun a => [[a]]) = ((p.map fun a => [a]).map fun o => [o]) := by simp [List.map_map]
      rw [e]; exact hu
    · intro x
      rw [hm]
      constructor
      · rintro ⟨o, ho, hx⟩
        obtain ⟨a, ha, rfl⟩ := List.mem_map.mp ho
        simp only [List.mem_singleton] at hx
        exact hx ▸ ha
      · intro hx
        exact ⟨[x], List.mem_map.mpr ⟨x, hx, rfl⟩, List.mem_singleton.mpr rfl⟩

theorem sublist_mem_nonEmptySublists {α : Type} : ∀ (l sub : List α), sub.Sublist l → sub ≠ [] →
    sub ∈ nonEmptySublists l
  | [], sub, h, hne => by cases h; exact absurd rfl hne
  | x :: xs, sub, h, hne => by
    simp only [nonEmptySublists]
    cases h with
    | cons _ h' =>
      exact List.mem_cons_of_mem _ (List.mem_append_right _ (sublist_mem_nonEmptySublists xs sub h' hne))
    | cons_cons _ h' =>
      rename_i sub'
      by_cases he : sub' = []
      · subst he
        exact List.mem_cons_self
      · refine List.mem_cons_of_mem _ (List.mem_append_left _ ?_)
        exact List.mem_map.mpr ⟨sub', sublist_mem_nonEmptySublists xs sub' h' he, rfl⟩

theorem mem_insertF (x y : List String) (f : List (List String)) : y ∈ insertF x f ↔ y = x ∨ y ∈ f := by
  unfold insertF
  by_cases h : f.contains x = true
  · have hx : x ∈ f := by simpa using h
    simp only [h, if_true]
    constructor
    · exact Or.inr
    · rintro (rfl | h') <;> assumption
  · simp only [h, Bool.false_eq_true, if_false, List.mem_append, List.mem_singleton]
    exact Or.comm

theorem mem_dedupF (y : List String) (f : List (List String)) : y ∈ dedupF f ↔ y ∈ f := by
  unfold dedupF
  suffices h : ∀ (acc : List (List String)), y ∈ f.foldl (fun acc x => insertF x acc) acc ↔ y ∈ acc ∨ y ∈ f by
    simpa using h []
  induction f with
  | nil => intro acc; simp
  | cons x xs ih =>
    intro acc
    simp only [List.foldl_cons]
    rw [ih, mem_insertF, List.mem_cons]
    constructor
    · rintro ((h | h) | h)
      · exact Or.inr (Or.inl h)
      · exact Or.inl h
      · exact Or.inr (Or.inr h)
    · rintro (h | h | h)
      · exact Or.inl (Or.inr h)
      · exact Or.inl (Or.inl h)
      · exact Or.inr h

/-- the rebuilt OR gate admits every non-empty set that is the union of the cover members it contains -/
theorem rebuilt_admits (c : List (List String)) (e : List String) (hne : e ≠ [])
    (hexp : ∀ x ∈ e, ∃ p ∈ c, (∀ y ∈ p, y ∈ e) ∧ x ∈ p) : admits (rebuilt c) e = true := by
  -- the cover members inside `e`
  let S := c.filter fun p => subsetS p e
  have hS : S ≠ [] := by
    obtain ⟨x, hx⟩ := List.exists_mem_of_ne_nil e hne
    obtain ⟨p, hp, hsub, _⟩ := hexp x hx
    intro hnil
    have : p ∈ S := List.mem_filter.mpr ⟨hp, subsetS_iff.mpr hsub⟩
    rw [hnil] at this
    simp at this
  -- outcomes of the children, one each
  have hfam : ∀ (l : List (List String)), ∃ os : List (List String),
      (l.map fun p => outcomes (partGate p)) = os.map (fun o => [o]) ∧ os.length = l.length ∧
      ∀ x, (∃ o ∈ os, x ∈ o) ↔ ∃ p ∈ l, x ∈ p := by
    intro l
    induction l with
    | nil => exact ⟨[], rfl, rfl, by simp⟩
    | cons p ps ih =>
      obtain ⟨os, h1, h2, h3⟩ := ih
      obtain ⟨o, ho, hm⟩ := outcomes_partGate p
      refine ⟨o :: os, by simp [ho, h1], by simp [h2], ?_⟩
      intro x
      simp only [List.mem_cons, exists_eq_or_imp, hm, h3]
  obtain ⟨osS, hS1, _, hS3⟩ := hfam S
  obtain ⟨u, hu, hum⟩ := productAll_singletons osS
  have hsub : (S.map fun p => outcomes (partGate p)).Sublist (c.map fun p => outcomes (partGate p)) :=
    List.Sublist.map _ List.filter_sublist
  have hmemS : (S.map fun p => outcomes (partGate p)) ∈ nonEmptySublists (c.map fun p => outcomes (partGate p)) :=
    sublist_mem_nonEmptySublists _ _ hsub (by simpa using hS)
  have hout : u ∈ outcomes (rebuilt c) := by
    simp only [rebuilt, outcomes, outcomesL_map, List.mem_flatMap]
    exact ⟨_, hmemS, by rw [hS1, hu]; exact List.mem_singleton.mpr rfl⟩
  have hnorm : norm u = norm e := by
    apply norm_ext
    intro x
    rw [hum, hS3]
    constructor
    · rintro ⟨p, hp, hx⟩
      exact subsetS_iff.mp (List.mem_filter.mp hp).2 x hx
    · intro hx
      obtain ⟨p, hp, hsub', hxp⟩ := hexp x hx
      exact ⟨p, List.mem_filter.mpr ⟨hp, subsetS_iff.mpr hsub'⟩, hxp⟩
  unfold admits family
  have : norm e ∈ dedupF ((outcomes (rebuilt c)).map norm) := by
    rw [mem_dedupF, ← hnorm]
    exact List.mem_map.mpr ⟨u, hout, rfl⟩
  simpa using this

end O2P.Gate
