/-
The OR inference on arbitrary subtrees.  `InferOr.lean` states the decision logic over abstract children and
instantiates it for plain events; here the children are process trees themselves, with the sets they produce given
by a semantics of the miner's trees (`PTree.sem`: tau produces the empty set, X one child, + all children, O a
non-empty selection of children).  `infer_or_tree_sound`: the node that `inferOrNode` — the executable model of
`infer_or_gate_from_node`, run against the real function by the C06 check — puts in the place of a parallel node
produces every non-empty observed set that the raw node produces.  Core Lean only.
-/
import O2P.Lemmas.InferOr
namespace O2P.Gate

/-! ### what a process tree produces -/

mutual
/-- the event sets a (raw or rewritten) process tree produces, up to order and repetition -/
def PTree.sem : PTree → List String → Prop
  | .leaf a, s => SameSet s [a]
  | .tau, s => s = []
  | .node .xor cs, s => PTree.semAny cs s
  | .node .and cs, s => ∃ ps, PTree.semAll cs ps ∧ SameSet s ps.flatten
  | .node .or cs, s => ∃ ps, PTree.semSome cs ps ∧ ps ≠ [] ∧ SameSet s ps.flatten
  | .node .other _, _ => False
/-- one child's set -/
def PTree.semAny : List PTree → List String → Prop
  | [], _ => False
  | c :: cs, s => c.sem s ∨ PTree.semAny cs s
/-- one set from every child -/
def PTree.semAll : List PTree → List (List String) → Prop
  | [], ps => ps = []
  | c :: cs, ps => ∃ p ps', ps = p :: ps' ∧ c.sem p ∧ PTree.semAll cs ps'
/-- one set from every child of a selection -/
def PTree.semSome : List PTree → List (List String) → Prop
  | [], ps => ps = []
  | c :: cs, ps => PTree.semSome cs ps ∨ ∃ p ps', ps = p :: ps' ∧ c.sem p ∧ PTree.semSome cs ps'
end

mutual
theorem PTree.sem_sub : ∀ (c : PTree) (s : List String), c.sem s → ∀ x ∈ s, x ∈ c.labels
  | .leaf a, s, h, x, hx => by
    simp only [PTree.sem] at h
    simpa [PTree.labels] using (h x).mp hx
  | .tau, s, h, x, hx => by
    simp only [PTree.sem] at h
    subst h
    simp at hx
  | .node .xor cs, s, h, x, hx => by
    simp only [PTree.sem] at h
    simp only [PTree.labels]
    exact PTree.semAny_sub cs s h x hx
  | .node .and cs, s, h, x, hx => by
    simp only [PTree.sem] at h
    obtain ⟨ps, h1, h2⟩ := h
    simp only [PTree.labels]
    exact PTree.semAll_sub cs ps h1 x ((h2 x).mp hx)
  | .node .or cs, s, h, x, hx => by
    simp only [PTree.sem] at h
    obtain ⟨ps, h1, _, h2⟩ := h
    simp only [PTree.labels]
    exact PTree.semSome_sub cs ps h1 x ((h2 x).mp hx)
  | .node .other cs, s, h, x, hx => by
    simp only [PTree.sem] at h
theorem PTree.semAny_sub : ∀ (cs : List PTree) (s : List String), PTree.semAny cs s → ∀ x ∈ s, x ∈ PTree.labelsL cs
  | [], s, h, _, _ => by simp only [PTree.semAny] at h
  | c :: cs, s, h, x, hx => by
    simp only [PTree.semAny] at h
    simp only [PTree.labelsL, List.mem_append]
    rcases h with h | h
    · exact Or.inl (PTree.sem_sub c s h x hx)
    · exact Or.inr (PTree.semAny_sub cs s h x hx)
theorem PTree.semAll_sub : ∀ (cs : List PTree) (ps : List (List String)), PTree.semAll cs ps →
    ∀ x ∈ ps.flatten, x ∈ PTree.labelsL cs
  | [], ps, h, x, hx => by
    simp only [PTree.semAll] at h
    subst h
    simp at hx
  | c :: cs, ps, h, x, hx => by
    simp only [PTree.semAll] at h
    obtain ⟨p, ps', rfl, h1, h2⟩ := h
    simp only [List.flatten_cons, List.mem_append] at hx
    simp only [PTree.labelsL, List.mem_append]
    rcases hx with hx | hx
    · exact Or.inl (PTree.sem_sub c p h1 x hx)
    · exact Or.inr (PTree.semAll_sub cs ps' h2 x hx)
theorem PTree.semSome_sub : ∀ (cs : List PTree) (ps : List (List String)), PTree.semSome cs ps →
    ∀ x ∈ ps.flatten, x ∈ PTree.labelsL cs
  | [], ps, h, x, hx => by
    simp only [PTree.semSome] at h
    subst h
    simp at hx
  | c :: cs, ps, h, x, hx => by
    simp only [PTree.semSome] at h
    simp only [PTree.labelsL, List.mem_append]
    rcases h with h | ⟨p, ps', rfl, h1, h2⟩
    · exact Or.inr (PTree.semSome_sub cs ps h x hx)
    · simp only [List.flatten_cons, List.mem_append] at hx
      rcases hx with hx | hx
      · exact Or.inl (PTree.sem_sub c p h1 x hx)
      · exact Or.inr (PTree.semSome_sub cs ps' h2 x hx)
end

/-- a subtree as a child of the decision logic: its labels, and the non-empty sets it produces -/
def PTree.child (c : PTree) : Child where
  labels := c.labels
  out := fun s => c.sem s ∧ s ≠ []
  out_sub := fun s h => c.sem_sub s h.1
  out_ne := fun _ h => h.2

theorem labelsOfC_child : ∀ (cs : List PTree), labelsOfC (cs.map PTree.child) = PTree.labelsL cs
  | [] => rfl
  | c :: cs => by
    have ih := labelsOfC_child cs
    simp only [labelsOfC] at ih
    simp only [labelsOfC, List.map_cons, List.flatMap_cons, PTree.labelsL, ih]
    rfl

/-! ### the children of the parallel node, as `infer_or_gate_from_node` sorts them -/

/-- plain events, tau, choices: the children the unrepaired `classify` placed (before c6e9ec1 a parallel, OR or other
node directly under a parallel node landed in neither list).  No theorem needs it any more. -/
def Classified : PTree → Prop
  | .leaf _ => True
  | .tau => True
  | .node .xor _ => True
  | .node _ _ => False

theorem semAll_nil {ps : List (List String)} : PTree.semAll [] ps ↔ ps = [] := by simp only [PTree.semAll]

theorem semAll_cons {c : PTree} {cs : List PTree} {ps : List (List String)} :
    PTree.semAll (c :: cs) ps ↔ ∃ p ps', ps = p :: ps' ∧ c.sem p ∧ PTree.semAll cs ps' := by
  simp only [PTree.semAll]

/-- the sets of the parallel node split into those of its mandatory children and those of its optional branches -/
theorem classify_sem : ∀ (cs : List PTree), ∀ (ps : List (List String)),
    PTree.semAll cs ps → ∃ pt pn, PTree.semAll (classify cs).1 pt ∧ PTree.semAll (classify cs).2 pn ∧
      ∀ x, x ∈ ps.flatten ↔ (x ∈ pn.flatten ∨ x ∈ pt.flatten)
  | [], ps, h => by
    rw [semAll_nil] at h
    subst h
    exact ⟨[], [], by simp [classify, PTree.semAll], by simp [classify, PTree.semAll], by simp⟩
  | c :: cs, ps, h => by
    rw [semAll_cons] at h
    obtain ⟨p, ps', rfl, h1, h2⟩ := h
    obtain ⟨pt, pn, ht, hn, hx⟩ := classify_sem cs ps' h2
    cases hcl : classify cs with
    | mk t n =>
      rw [hcl] at ht hn
      have toN : ∃ pt' pn', PTree.semAll t pt' ∧ PTree.semAll (c :: n) pn' ∧
          ∀ x, x ∈ (p :: ps').flatten ↔ (x ∈ pn'.flatten ∨ x ∈ pt'.flatten) := by
        refine ⟨pt, p :: pn, ht, semAll_cons.mpr ⟨p, pn, rfl, h1, hn⟩, ?_⟩
        intro x
        simp only [List.flatten_cons, List.mem_append, hx x, or_assoc]
      have toT : ∃ pt' pn', PTree.semAll (c :: t) pt' ∧ PTree.semAll n pn' ∧
          ∀ x, x ∈ (p :: ps').flatten ↔ (x ∈ pn'.flatten ∨ x ∈ pt'.flatten) := by
        refine ⟨p :: pt, pn, semAll_cons.mpr ⟨p, pt, rfl, h1, ht⟩, hn, ?_⟩
        intro x
        simp only [List.flatten_cons, List.mem_append, hx x]
        constructor
        · rintro (h | h | h)
          · exact Or.inr (Or.inl h)
          · exact Or.inl h
          · exact Or.inr (Or.inr h)
        · rintro (h | h | h)
          · exact Or.inr (Or.inl h)
          · exact Or.inl h
          · exact Or.inr (Or.inr h)
      match c with
      | .leaf a => simpa only [classify, hcl] using toN
      | .tau => simpa only [classify, hcl] using toN
      | .node .and _ => simpa only [classify, hcl] using toN
      | .node .or _ => simpa only [classify, hcl] using toN
      | .node .other _ => simpa only [classify, hcl] using toN
      | .node .xor gcs =>
        by_cases hany : gcs.any PTree.isTau = true
        · simpa only [classify, hcl, hany, if_true] using toT
        · have hany' : gcs.any PTree.isTau = false := by simpa using hany
          simpa only [classify, hcl, hany', Bool.false_eq_true, if_false] using toN

/-- the optional branches are choices -/
theorem classify_tau_shape : ∀ (cs : List PTree), ∀ c ∈ (classify cs).1, ∃ gcs, c = .node .xor gcs
  | [], c, h => by simp [classify] at h
  | d :: cs, c, h => by
    have ih := classify_tau_shape cs
    cases hcl : classify cs with
    | mk t n =>
      rw [hcl] at ih
      match d with
      | .leaf a => simp only [classify, hcl] at h; exact ih c h
      | .tau => simp only [classify, hcl] at h; exact ih c h
      | .node .xor gcs =>
        by_cases hany : gcs.any PTree.isTau = true
        · simp only [classify, hcl, hany, if_true, List.mem_cons] at h
          rcases h with h | h
          · exact ⟨gcs, h⟩
          · exact ih c h
        · have hany' : gcs.any PTree.isTau = false := by simpa using hany
          simp only [classify, hcl, hany', Bool.false_eq_true, if_false] at h
          exact ih c h
      | .node .and _ => simp only [classify, hcl] at h; exact ih c h
      | .node .or _ => simp only [classify, hcl] at h; exact ih c h
      | .node .other _ => simp only [classify, hcl] at h; exact ih c h

/-! ### from the tree's sets to the decision logic's children, and back -/

/-- a choice with a tau branch produces nothing, or a non-empty set of one of its other branches -/
theorem semAny_pick : ∀ (gcs : List PTree) (p : List String), PTree.semAny gcs p →
    p = [] ∨ ∃ g, [g].Sublist (gcs.filter fun g => !g.isTau) ∧ g.sem p ∧ p ≠ []
  | [], p, h => by simp only [PTree.semAny] at h
  | c :: cs, p, h => by
    simp only [PTree.semAny] at h
    by_cases hp : p = []
    · exact Or.inl hp
    · right
      rcases h with h | h
      · have hnt : c.isTau = false := by
          cases c with
          | tau => simp only [PTree.sem] at h; exact absurd h hp
          | leaf a => rfl
          | node op l => rfl
        refine ⟨c, ?_, h, hp⟩
        simp only [List.filter_cons, hnt, Bool.not_false, if_true]
        exact List.Sublist.cons_cons _ (List.nil_sublist _)
      · rcases semAny_pick cs p h with h0 | ⟨g, hg, hs, hne⟩
        · exact absurd h0 hp
        · refine ⟨g, ?_, hs, hne⟩
          simp only [List.filter_cons]
          split
          · exact List.Sublist.cons _ hg
          · exact hg

/-- one pick from every optional branch is a selection among all their non-tau branches -/
theorem tau_picks : ∀ (tc : List PTree), (∀ c ∈ tc, ∃ gcs, c = .node .xor gcs) → ∀ (pt : List (List String)),
    PTree.semAll tc pt → ∃ (T : List PTree) (qs : List (List String)), T.Sublist (tc.flatMap grandchildrenOf) ∧ Picks (T.map PTree.child) qs ∧
      ∀ x, x ∈ pt.flatten ↔ x ∈ qs.flatten
  | [], _, pt, h => by
    rw [semAll_nil] at h
    subst h
    exact ⟨[], [], by simp, Picks.nil, by simp⟩
  | c :: tc, hsh, pt, h => by
    rw [semAll_cons] at h
    obtain ⟨p, ps', rfl, h1, h2⟩ := h
    obtain ⟨T, qs, hT, hP, hx⟩ := tau_picks tc (fun d hd => hsh d (List.mem_cons_of_mem _ hd)) ps' h2
    obtain ⟨gcs, rfl⟩ := hsh c (List.mem_cons_self ..)
    simp only [PTree.sem] at h1
    rcases semAny_pick gcs p h1 with hp | ⟨g, hg, hs, hne⟩
    · subst hp
      refine ⟨T, qs, ?_, hP, ?_⟩
      · simp only [List.flatMap_cons]
        exact List.sublist_append_of_sublist_right hT
      · intro x
        simp only [List.flatten_cons, List.nil_append, hx x]
    · refine ⟨g :: T, p :: qs, ?_, ?_, ?_⟩
      · simp only [List.flatMap_cons, grandchildrenOf]
        exact List.Sublist.append hg hT
      · exact Picks.cons (u := g.child) ⟨hs, hne⟩ hP
      · intro x
        simp only [List.flatten_cons, List.mem_append, hx x]

/-- mandatory children that only produce non-empty sets are children of the decision logic -/
theorem semAll_picks : ∀ (l : List PTree) (ps : List (List String)), (∀ c ∈ l, ∀ s, c.sem s → s ≠ []) →
    PTree.semAll l ps → Picks (l.map PTree.child) ps
  | [], ps, _, h => by
    rw [semAll_nil] at h
    subst h
    exact Picks.nil
  | c :: l, ps, hne, h => by
    rw [semAll_cons] at h
    obtain ⟨p, ps', rfl, h1, h2⟩ := h
    exact Picks.cons (u := c.child) ⟨h1, hne c (List.mem_cons_self ..) p h1⟩
      (semAll_picks l ps' (fun d hd => hne d (List.mem_cons_of_mem _ hd)) h2)

theorem picks_semAll : ∀ (l : List PTree) (ps : List (List String)), Picks (l.map PTree.child) ps → PTree.semAll l ps
  | [], ps, h => by
    cases h
    exact semAll_nil.mpr rfl
  | c :: l, ps, h => by
    cases h with
    | cons h1 h2 => exact semAll_cons.mpr ⟨_, _, rfl, h1.1, picks_semAll l _ h2⟩

theorem semSome_none : ∀ (l : List PTree), PTree.semSome l []
  | [] => by simp only [PTree.semSome]
  | _ :: l => by simp only [PTree.semSome]; exact Or.inl (semSome_none l)

theorem semAll_semSome : ∀ (l : List PTree) (ps : List (List String)), PTree.semAll l ps → PTree.semSome l ps
  | [], ps, h => by
    rw [semAll_nil] at h
    subst h
    simp only [PTree.semSome]
  | c :: l, ps, h => by
    rw [semAll_cons] at h
    obtain ⟨p, ps', rfl, h1, h2⟩ := h
    simp only [PTree.semSome]
    exact Or.inr ⟨p, ps', rfl, h1, semAll_semSome l ps' h2⟩

/-- picks from a selection of the children -/
theorem sublist_semSome : ∀ {T R : List PTree}, T.Sublist R → ∀ (qs : List (List String)),
    Picks (T.map PTree.child) qs → PTree.semSome R qs
  | _, _, .slnil, qs, h => by
    cases h
    simp only [PTree.semSome]
  | _, _, .cons a hs, qs, h => by
    simp only [PTree.semSome]
    exact Or.inl (sublist_semSome hs qs h)
  | _, _, .cons_cons a hs, qs, h => by
    cases h with
    | cons h1 h2 =>
      simp only [PTree.semSome]
      exact Or.inr ⟨_, _, rfl, h1.1, sublist_semSome hs _ h2⟩

theorem semSome_append : ∀ (a b : List PTree) (pa pb : List (List String)), PTree.semSome a pa → PTree.semSome b pb →
    PTree.semSome (a ++ b) (pa ++ pb)
  | [], b, pa, pb, ha, hb => by
    simp only [PTree.semSome] at ha
    subst ha
    simpa using hb
  | c :: a, b, pa, pb, ha, hb => by
    simp only [PTree.semSome] at ha
    simp only [List.cons_append, PTree.semSome]
    rcases ha with ha | ⟨p, ps', rfl, h1, h2⟩
    · exact Or.inl (semSome_append a b pa pb ha hb)
    · exact Or.inr ⟨p, ps' ++ pb, rfl, h1, semSome_append a b ps' pb h2 hb⟩

theorem semAll_append : ∀ (a b : List PTree) (pa pb : List (List String)), PTree.semAll a pa → PTree.semAll b pb →
    PTree.semAll (a ++ b) (pa ++ pb)
  | [], b, pa, pb, ha, hb => by
    rw [semAll_nil] at ha
    subst ha
    simpa using hb
  | c :: a, b, pa, pb, ha, hb => by
    rw [semAll_cons] at ha
    obtain ⟨p, ps', rfl, h1, h2⟩ := ha
    simp only [List.cons_append]
    exact semAll_cons.mpr ⟨p, ps' ++ pb, rfl, h1, semAll_append a b ps' pb h2 hb⟩

theorem Picks.length_eq : ∀ {cs : List Child} {ss : List (List String)}, Picks cs ss → ss.length = cs.length
  | _, _, .nil => rfl
  | _, _, .cons _ h2 => by simp [Picks.length_eq h2]

/-! ### the theorem -/

theorem isOr_iff_check (F : List (List String)) (nonTau removed : List PTree) :
    IsOr F (nonTau.map PTree.child) (removed.map PTree.child) ↔ checkIsOr F nonTau removed = true := by
  rw [checkIsOr_iff]
  unfold IsOr
  rw [labelsOfC_child, labelsOfC_child]
  constructor
  · rintro (h | ⟨s, hs, ⟨x, hx1, hx2⟩, h2⟩)
    · exact Or.inl (List.map_eq_nil_iff.mp h)
    · exact Or.inr ⟨s, hs, ⟨x, hx2, hx1⟩, fun y hy hys => h2 y hys hy⟩
  · rintro (h | ⟨s, hs, ⟨x, hx1, hx2⟩, h2⟩)
    · exact Or.inl (by simp [h])
    · exact Or.inr ⟨s, hs, ⟨x, hx2, hx1⟩, fun y hys hy => h2 y hy hys⟩

/-- **the OR inference on arbitrary subtrees.**  Let `+(cs…)` be a parallel node of the miner's tree whose children are
any process trees (after the repair c6e9ec1 `classify` places every child: a child with another operator is
mandatory); let its mandatory children produce only non-empty sets and
carry other event names than its optional branches.  For every observed family `F`, the node that
`infer_or_gate_from_node` puts in its place — `O(r…, +(n…))`, `O(r…, n)` or `+(n…, O(r…))`, whichever the test on `F`
selects — produces every non-empty set of `F` that the raw node produces. -/
theorem infer_or_tree_sound_proj (F : List (List String)) (cs : List PTree)
    (hne : ∀ c ∈ (classify cs).2, ∀ s, c.sem s → s ≠ [])
    (hdisj : ∀ x, x ∈ PTree.labelsL (classify cs).2 →
      x ∉ PTree.labelsL ((classify cs).1.flatMap grandchildrenOf))
    (s : List String)
    (hs : ∃ s0 ∈ F, ∀ x, (x ∈ PTree.labelsL (classify cs).2 ∨
      x ∈ PTree.labelsL ((classify cs).1.flatMap grandchildrenOf)) → (x ∈ s0 ↔ x ∈ s))
    (hsne : s ≠ []) (hraw : (PTree.node .and cs).sem s) :
    (inferOrNode F (.node .and cs)).sem s := by
  cases hcl : classify cs with
  | mk tauC nonTau =>
    rw [hcl] at hne hdisj hs
    simp only [inferOrNode, hcl]
    by_cases hte : tauC.isEmpty = true
    · simpa only [hte, if_true] using hraw
    · have hte' : tauC.isEmpty = false := by simpa using hte
      simp only [hte', Bool.false_eq_true, if_false]
      -- the raw node's set, split and handed to the decision logic
      simp only [PTree.sem] at hraw
      obtain ⟨ps, hall, hsame⟩ := hraw
      obtain ⟨pt, pn, ht, hn, hx⟩ := classify_sem cs ps hall
      rw [hcl] at ht hn
      have hshape := classify_tau_shape cs
      rw [hcl] at hshape
      obtain ⟨T, qs, hT, hPT, hxt⟩ := tau_picks tauC hshape pt ht
      have hPN := semAll_picks nonTau pn hne hn
      have hRaw : Raw (nonTau.map PTree.child) ((tauC.flatMap grandchildrenOf).map PTree.child) s :=
        ⟨pn, T.map PTree.child, qs, hPN, List.Sublist.map _ hT, hPT, by
          intro x
          rw [hsame x, hx x, List.mem_append, hxt x]⟩
      have hd : ∀ x, x ∈ labelsOfC (nonTau.map PTree.child) →
          x ∉ labelsOfC ((tauC.flatMap grandchildrenOf).map PTree.child) := by
        intro x
        rw [labelsOfC_child, labelsOfC_child]
        exact hdisj x
      have hs' : ∃ s0 ∈ F, ∀ x, (x ∈ labelsOfC (nonTau.map PTree.child) ∨
          x ∈ labelsOfC ((tauC.flatMap grandchildrenOf).map PTree.child)) → (x ∈ s0 ↔ x ∈ s) := by
        obtain ⟨s0, h0, hag⟩ := hs
        refine ⟨s0, h0, fun x hx => hag x ?_⟩
        rw [labelsOfC_child, labelsOfC_child] at hx
        exact hx
      have key := infer_or_sound_proj F _ _ hd s hs' hRaw
      rw [isOr_iff_check] at key
      by_cases hck : checkIsOr F nonTau (tauC.flatMap grandchildrenOf) = true
      · simp only [hck, if_true]
        rcases key.1 hck with hor | he
        · obtain ⟨T', qs', ps', hT', hq', hN', hsel, hsame'⟩ := hor
          obtain ⟨T0, hT0, rfl⟩ := List.sublist_map_iff.mp hT'
          have hsomeR := sublist_semSome hT0 qs' hq'
          by_cases hlen : nonTau.length > 1
          · simp only [hlen, if_true]
            simp only [PTree.sem]
            -- is the mandatory block selected?
            have withBlock : Picks (nonTau.map PTree.child) ps' →
                ∃ ps, PTree.semSome (tauC.flatMap grandchildrenOf ++ [PTree.node .and nonTau]) ps ∧ ps ≠ [] ∧
                  SameSet s ps.flatten := by
              intro hP
              refine ⟨qs' ++ [ps'.flatten], semSome_append _ _ _ _ hsomeR ?_, by simp, ?_⟩
              · simp only [PTree.semSome]
                refine Or.inr ⟨ps'.flatten, [], rfl, ?_, rfl⟩
                simp only [PTree.sem]
                exact ⟨ps', picks_semAll nonTau ps' hP, fun _ => Iff.rfl⟩
              · intro x
                rw [hsame' x]
                simp
            rcases hN' with hP | hnil
            · exact withBlock hP
            · rcases hsel with hTne | ⟨hP, _⟩
              · subst hnil
                refine ⟨qs' ++ [], semSome_append _ _ _ _ hsomeR (semSome_none _), ?_, ?_⟩
                · intro he
                  have hl := hq'.length_eq
                  simp only [List.append_nil] at he
                  rw [he] at hl
                  simp only [List.length_nil, List.length_map] at hl
                  exact hTne (by
                    have : T0 = [] := List.eq_nil_of_length_eq_zero hl.symm
                    simp [this])
                · intro x
                  rw [hsame' x]
                  simp
              · exact withBlock hP
          · simp only [hlen, if_false]
            simp only [PTree.sem]
            have withN : Picks (nonTau.map PTree.child) ps' → (T0.map PTree.child ≠ [] ∨ nonTau ≠ []) →
                ∃ ps, PTree.semSome (tauC.flatMap grandchildrenOf ++ nonTau) ps ∧ ps ≠ [] ∧ SameSet s ps.flatten := by
              intro hP hsel'
              refine ⟨qs' ++ ps', semSome_append _ _ _ _ hsomeR (semAll_semSome _ _ (picks_semAll nonTau ps' hP)), ?_, ?_⟩
              · intro he
                have h1 := hq'.length_eq
                have h2 := hP.length_eq
                have hq0 : qs' = [] := (List.append_eq_nil_iff.mp he).1
                have hp0 : ps' = [] := (List.append_eq_nil_iff.mp he).2
                rw [hq0] at h1
                rw [hp0] at h2
                simp only [List.length_nil, List.length_map] at h1 h2
                rcases hsel' with h | h
                · exact h (by
                    have : T0 = [] := List.eq_nil_of_length_eq_zero h1.symm
                    simp [this])
                · exact h (List.eq_nil_of_length_eq_zero h2.symm)
              · intro x
                rw [hsame' x]
                simp
            rcases hN' with hP | hnil
            · refine withN hP ?_
              rcases hsel with h | ⟨_, h⟩
              · exact Or.inl h
              · exact Or.inr (by
                  intro e
                  exact h (by simp [e]))
            · rcases hsel with hTne | ⟨hP, h⟩
              · subst hnil
                refine ⟨qs' ++ [], semSome_append _ _ _ _ hsomeR (semSome_none _), ?_, ?_⟩
                · intro he
                  have hl := hq'.length_eq
                  simp only [List.append_nil] at he
                  rw [he] at hl
                  simp only [List.length_nil, List.length_map] at hl
                  exact hTne (by
                    have : T0 = [] := List.eq_nil_of_length_eq_zero hl.symm
                    simp [this])
                · intro x
                  rw [hsame' x]
                  simp
              · exact withN hP (Or.inr (by
                  intro e
                  exact h (by simp [e])))
        · exact absurd he hsne
      · have hck' : checkIsOr F nonTau (tauC.flatMap grandchildrenOf) = false := by simpa using hck
        simp only [hck', Bool.false_eq_true, if_false]
        obtain ⟨ps', T', qs', hP, hT', hTne, hq', hsame'⟩ := key.2 hck
        obtain ⟨T0, hT0, rfl⟩ := List.sublist_map_iff.mp hT'
        simp only [PTree.sem]
        refine ⟨ps' ++ [qs'.flatten], semAll_append _ _ _ _ (picks_semAll nonTau ps' hP) ?_, ?_⟩
        · refine semAll_cons.mpr ⟨qs'.flatten, [], rfl, ?_, semAll_nil.mpr rfl⟩
          simp only [PTree.sem]
          refine ⟨qs', sublist_semSome hT0 qs' hq', ?_, fun _ => Iff.rfl⟩
          intro he
          have hl := hq'.length_eq
          rw [he] at hl
          simp only [List.length_nil, List.length_map] at hl
          exact hTne (by
            have : T0 = [] := List.eq_nil_of_length_eq_zero hl.symm
            simp [this])
        · intro x
          rw [hsame' x]
          simp

/-- the top of the tree: the sets to produce are the observed sets themselves -/
theorem infer_or_tree_sound (F : List (List String)) (cs : List PTree)
    (hne : ∀ c ∈ (classify cs).2, ∀ s, c.sem s → s ≠ [])
    (hdisj : ∀ x, x ∈ PTree.labelsL (classify cs).2 →
      x ∉ PTree.labelsL ((classify cs).1.flatMap grandchildrenOf))
    (s : List String) (hs : s ∈ F) (hsne : s ≠ []) (hraw : (PTree.node .and cs).sem s) :
    (inferOrNode F (.node .and cs)).sem s :=
  infer_or_tree_sound_proj F cs hne hdisj s ⟨s, hs, fun _ _ => Iff.rfl⟩ hsne hraw

end O2P.Gate
