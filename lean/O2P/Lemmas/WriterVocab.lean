import O2P.Model.Writer
/-
The vocabulary of the writer (M8): whatever the PUML graph looks like — any nodes, any edges, any nesting of sub
graphs — every line `write_uml_blocks` emits is, after its indentation, one of the operator strings of
`OPERATOR_NODE_PUML_MAP` (the translated table), `detach`, `break`, `repeat`, `repeat while`, or `:name;` for the
name of an event node of the graph (or of one of its sub graphs).  Core Lean only.
-/
namespace O2P.Writer

mutual
def PGraph.evNames : PGraph → List String
  | .mk ns _ => evNamesL ns
def PNode.evNames : PNode → List String
  | .ev n _ => [n]
  | .sub _ g _ => g.evNames
  | _ => []
def evNamesL : List PNode → List String
  | [] => []
  | n :: ns => n.evNames ++ evNamesL ns
end

theorem evNamesL_mem {n : PNode} {ns : List PNode} (h : n ∈ ns) : ∀ x ∈ n.evNames, x ∈ evNamesL ns := by
  induction ns with
  | nil => cases h
  | cons m ms ih =>
    intro x hx
    simp only [evNamesL, List.mem_append]
    rcases List.mem_cons.mp h with rfl | h'
    · exact Or.inl hx
    · exact Or.inr (ih h' x hx)

/-- the fixed words of the dialect the writer can emit -/
def fixedWords : List String :=
  (O2P.Gen.operatorTable.flatMap fun e => e.2.1) ++ ["detach", "break", "repeat", "repeat while"]

/-- a line of the vocabulary over the event names `names` -/
def OkLine (names : List String) (l : String) : Prop :=
  ∃ (k : Int) (body : String), l = spaces k ++ body ∧ (body ∈ fixedWords ∨ ∃ n ∈ names, body = ":" ++ n ++ ";")

theorem OkLine.mono {a b : List String} (h : ∀ x ∈ a, x ∈ b) {l : String} : OkLine a l → OkLine b l := by
  rintro ⟨k, body, e, hb⟩
  refine ⟨k, body, e, ?_⟩
  rcases hb with hb | ⟨n, hn, e2⟩
  · exact Or.inl hb
  · exact Or.inr ⟨n, h n hn, e2⟩

theorem okLine_fixed (names : List String) (k : Int) (w : String) (h : w ∈ fixedWords) :
    OkLine names (spaces k ++ w) := ⟨k, w, rfl, Or.inl h⟩

theorem operLines_ok (names : List String) (pos : Pos) (op : Op4) (indent tab : Int) (ls : List String) (d : Int)
    (h : operLines pos op indent tab = some (ls, d)) : ∀ l ∈ ls, OkLine names l := by
  unfold operLines at h
  cases ht : tableGet pos op with
  | none => simp [ht] at h
  | some e =>
    obtain ⟨strs, diff, un⟩ := e
    simp only [ht, Option.some.injEq, Prod.mk.injEq] at h
    obtain ⟨hls, _⟩ := h
    subst hls
    intro l hl
    simp only [List.mem_map] at hl
    obtain ⟨⟨s, i⟩, hsi, rfl⟩ := hl
    have hs : s ∈ strs := (List.mem_zipIdx hsi).2.2 ▸ List.getElem_mem _
    apply okLine_fixed
    unfold fixedWords
    apply List.mem_append_left
    unfold tableGet at ht
    cases hf : O2P.Gen.operatorTable.find? (fun e => e.1 == (pos.key, op.key)) with
    | none => simp [hf] at ht
    | some e =>
      simp only [hf, Option.map_some, Option.some.injEq] at ht
      have hmem := List.mem_of_find?_eq_some hf
      exact List.mem_flatMap.mpr ⟨e, hmem, by rw [ht]; exact hs⟩

theorem getD_names (g : PGraph) (i : Nat) : ∀ x ∈ (g.nodes.getD i default).evNames, x ∈ g.evNames := by
  intro x hx
  cases g with
  | mk ns adj =>
    simp only [PGraph.nodes] at hx
    simp only [PGraph.evNames]
    by_cases hi : i < ns.length
    · have : ns.getD i default = ns[i] := by simp [List.getD, hi]
      rw [this] at hx
      exact evNamesL_mem (List.getElem_mem hi) x hx
    · have : ns.getD i default = default := by simp [List.getD, List.getElem?_eq_none (Nat.le_of_not_lt hi)]
      rw [this] at hx
      simp [default, instInhabitedPNode, PNode.evNames] at hx

/-- the three writers together, by induction on the fuel -/
theorem lines_ok : ∀ (fuel : Nat),
    (∀ (g : PGraph) (indent tab : Int) (ls : List String), graphLines fuel g indent tab = some ls →
      ∀ l ∈ ls, OkLine g.evNames l) ∧
    (∀ (g : PGraph) (it : Item) (indent tab : Int) (ls : List String) (d : Int),
      itemLines fuel g it indent tab = some (ls, d) → ∀ l ∈ ls, OkLine g.evNames l) := by
  intro fuel
  induction fuel with
  | zero =>
    refine ⟨fun g indent tab ls h => by simp [graphLines] at h, ?_⟩
    intro g it indent tab ls d h
    cases it with
    | path op => exact operLines_ok _ _ _ _ _ _ _ (by simpa [itemLines] using h)
    | node i =>
      simp only [itemLines] at h
      split at h
      · simp only [Option.some.injEq, Prod.mk.injEq] at h
        obtain ⟨rfl, _⟩ := h
        intro l hl
        simp only [List.mem_singleton] at hl
        exact hl ▸ okLine_fixed _ _ _ (by decide)
      · exact operLines_ok _ _ _ _ _ _ _ h
      · rename_i name brk hn
        simp only [Option.some.injEq, Prod.mk.injEq] at h
        obtain ⟨rfl, _⟩ := h
        intro l hl
        have hname : name ∈ g.evNames := getD_names g i name (by rw [hn]; simp [PNode.evNames])
        simp only [List.mem_append, List.mem_singleton] at hl
        rcases hl with rfl | hl
        · exact ⟨indent, ":" ++ name ++ ";", by simp [String.append_assoc], Or.inr ⟨name, hname, rfl⟩⟩
        · split at hl
          · simp only [List.mem_singleton] at hl
            exact hl ▸ okLine_fixed _ _ _ (by decide)
          · cases hl
      · simp at h
  | succ f ih =>
    obtain ⟨ihG, ihI⟩ := ih
    -- items at fuel f
    have hItems : ∀ (g : PGraph) (tab : Int) (items : List Item) (indent : Int) (ls : List String),
        itemsLinesWith (fun it ind => itemLines f g it ind tab) tab items indent = some ls →
        ∀ l ∈ ls, OkLine g.evNames l := by
      intro g tab items
      induction items with
      | nil =>
        intro indent ls h
        simp only [itemsLinesWith, Option.some.injEq] at h
        subst h
        intro l hl
        cases hl
      | cons it rest ihr =>
        intro indent ls h
        simp only [itemsLinesWith] at h
        split at h
        · simp at h
        · rename_i ls1 diff h1
          split at h
          · simp at h
          · rename_i more h2
            simp only [Option.some.injEq] at h
            subst h
            intro l hl
            rcases List.mem_append.mp hl with hl | hl
            · exact ihI g it indent tab ls1 diff h1 l hl
            · exact ihr _ _ h2 l hl
    constructor
    · intro g indent tab ls h
      simp only [graphLines] at h
      split at h
      · simp only [Option.some.injEq] at h
        subst h
        intro l hl
        cases hl
      · split at h
        · simp at h
        · simp only [Option.some.injEq] at h
          subst h
          intro l hl
          cases hl
        · exact hItems g _ _ _ _ h
    · intro g it indent tab ls d h
      cases it with
      | path op => exact operLines_ok _ _ _ _ _ _ _ (by simpa [itemLines] using h)
      | node i =>
        simp only [itemLines] at h
        split at h
        · simp only [Option.some.injEq, Prod.mk.injEq] at h
          obtain ⟨rfl, _⟩ := h
          intro l hl
          simp only [List.mem_singleton] at hl
          exact hl ▸ okLine_fixed _ _ _ (by decide)
        · exact operLines_ok _ _ _ _ _ _ _ h
        · rename_i name brk hn
          simp only [Option.some.injEq, Prod.mk.injEq] at h
          obtain ⟨rfl, _⟩ := h
          intro l hl
          have hname : name ∈ g.evNames := getD_names g i name (by rw [hn]; simp [PNode.evNames])
          simp only [List.mem_append, List.mem_singleton] at hl
          rcases hl with rfl | hl
          · exact ⟨indent, ":" ++ name ++ ";", by simp [String.append_assoc], Or.inr ⟨name, hname, rfl⟩⟩
          · split at hl
            · simp only [List.mem_singleton] at hl
              exact hl ▸ okLine_fixed _ _ _ (by decide)
            · cases hl
        · rename_i isLoop sg brk hn
          have hsub : ∀ x ∈ sg.evNames, x ∈ g.evNames := fun x hx =>
            getD_names g i x (by rw [hn]; simpa [PNode.evNames] using hx)
          split at h
          · simp at h
          · rename_i inner hin
            simp only [Option.some.injEq, Prod.mk.injEq] at h
            obtain ⟨rfl, _⟩ := h
            have hinner : ∀ l ∈ inner, OkLine g.evNames l := by
              intro l hl
              apply OkLine.mono hsub
              cases isLoop with
              | true => exact ihG sg _ _ _ (by simpa using hin) l hl
              | false => exact ihG sg _ _ _ (by simpa using hin) l hl
            intro l hl
            rcases List.mem_append.mp hl with hl | hl
            · cases isLoop with
              | true =>
                simp only [if_true, List.mem_append, List.mem_singleton] at hl
                rcases hl with (rfl | hl) | rfl
                · exact okLine_fixed _ _ _ (by decide)
                · exact hinner l hl
                · exact okLine_fixed _ _ _ (by decide)
              | false =>
                simp only [Bool.false_eq_true, if_false] at hl
                exact hinner l hl
            · split at hl
              · simp only [List.mem_singleton] at hl
                exact hl ▸ okLine_fixed _ _ _ (by decide)
              · cases hl

end O2P.Writer
