import O2P.Props.C15
/-!
Lemmas for the full re-run theorem of C15: the two removals decide per trace from the *set* of
(id, trace id, parent, start, end) cores of the stored spans; renaming by the root span is idempotent.
-/
namespace O2P.Store

/-- what the removals look at in a span -/
def core (n : Node) : String × String × Option String × Int × Int := (n.id, n.jobId, n.parent, n.start, n.stop)

/-- two span lists with the same set of cores -/
def SameCores (A B : List Node) : Prop := ∀ c, c ∈ A.map core ↔ c ∈ B.map core

theorem SameCores.symm {A B : List Node} (h : SameCores A B) : SameCores B A := fun c => (h c).symm

theorem sameCores_exists {A B : List Node} (h : SameCores A B) {n : Node} (hn : n ∈ A) :
    ∃ m ∈ B, core m = core n := by
  have := (h (core n)).mp (List.mem_map.mpr ⟨n, hn, rfl⟩)
  obtain ⟨m, hm, e⟩ := List.mem_map.mp this
  exact ⟨m, hm, e⟩

theorem core_id {m n : Node} (h : core m = core n) : m.id = n.id := by
  unfold core at h; injection h
theorem core_job {m n : Node} (h : core m = core n) : m.jobId = n.jobId := by
  unfold core at h; injection h with _ h; injection h
theorem core_parent {m n : Node} (h : core m = core n) : m.parent = n.parent := by
  unfold core at h; injection h with _ h; injection h with _ h; injection h
theorem core_start {m n : Node} (h : core m = core n) : m.start = n.start := by
  unfold core at h; injection h with _ h; injection h with _ h; injection h with _ h; injection h
theorem core_stop {m n : Node} (h : core m = core n) : m.stop = n.stop := by
  unfold core at h; injection h with _ h; injection h with _ h; injection h with _ h; injection h

theorem ids_sameCores {A B : List Node} (h : SameCores A B) (x : String) :
    x ∈ A.map (·.id) ↔ x ∈ B.map (·.id) := by
  constructor
  · intro hx
    obtain ⟨n, hn, rfl⟩ := List.mem_map.mp hx
    obtain ⟨m, hm, e⟩ := sameCores_exists h hn
    exact List.mem_map.mpr ⟨m, hm, core_id e⟩
  · intro hx
    obtain ⟨n, hn, rfl⟩ := List.mem_map.mp hx
    obtain ⟨m, hm, e⟩ := sameCores_exists h.symm hn
    exact List.mem_map.mpr ⟨m, hm, core_id e⟩

theorem danglingNode_core (s t : Store) (h : SameCores s.nodes t.nodes) {m n : Node} (e : core m = core n) :
    danglingNode s m = danglingNode t n := by
  unfold danglingNode
  rw [core_parent e]
  cases n.parent with
  | none => rfl
  | some p =>
    simp only
    congr 1
    rw [Bool.eq_iff_iff]
    simp only [List.contains_iff_mem, Store.ids]
    exact ids_sameCores h p

theorem hasDangling_cores (s t : Store) (h : SameCores s.nodes t.nodes) (j : String) :
    hasDangling s j = hasDangling t j := by
  unfold hasDangling
  rw [Bool.eq_iff_iff]
  simp only [List.any_eq_true, Bool.and_eq_true, beq_iff_eq]
  constructor
  · rintro ⟨n, hn, hj, hd⟩
    obtain ⟨m, hm, e⟩ := sameCores_exists h hn
    exact ⟨m, hm, (core_job e).trans hj, by rw [← danglingNode_core s t h e.symm]; exact hd⟩
  · rintro ⟨n, hn, hj, hd⟩
    obtain ⟨m, hm, e⟩ := sameCores_exists h.symm hn
    exact ⟨m, hm, (core_job e).trans hj, by rw [danglingNode_core s t h e]; exact hd⟩

/-! ### the removals as one per-trace predicate -/

/-- the trace `j` survives both removals: no span of it names a missing parent and one of its spans starts
or ends inside the window -/
def keepJob (w : Int × Int) (s : Store) (j : String) : Bool :=
  !hasDangling s j && s.nodes.any fun m => m.jobId == j && inWindow w m

theorem removals_keepJob (w : Int × Int) (s : Store) (hs : Inv s) (hf : Faithful s) :
    (removals w s).nodes = s.nodes.filter fun n => keepJob w s n.jobId := by
  rw [removals_nodes w s hs hf]
  apply List.filter_congr
  intro n _
  unfold keepJob
  cases hd : hasDangling s n.jobId with
  | true => simp
  | false =>
    simp only [Bool.not_false, Bool.true_and]
    rw [Bool.eq_iff_iff]
    simp only [List.any_eq_true, List.mem_filter, Bool.and_eq_true, beq_iff_eq, Bool.not_eq_true']
    constructor
    · rintro ⟨m, ⟨hm, _⟩, e, hw⟩; exact ⟨m, hm, e, hw⟩
    · rintro ⟨m, hm, e, hw⟩; exact ⟨m, ⟨hm, e ▸ hd⟩, e, hw⟩

theorem inWindow_core (w : Int × Int) {m n : Node} (e : core m = core n) : inWindow w m = inWindow w n := by
  unfold inWindow
  rw [core_start e, core_stop e]

theorem keepJob_cores (w : Int × Int) (s t : Store) (h : SameCores s.nodes t.nodes) (j : String) :
    keepJob w s j = keepJob w t j := by
  unfold keepJob
  rw [hasDangling_cores s t h j]
  congr 1
  rw [Bool.eq_iff_iff]
  simp only [List.any_eq_true, Bool.and_eq_true, beq_iff_eq]
  constructor
  · rintro ⟨n, hn, hj, hw⟩
    obtain ⟨m, hm, e⟩ := sameCores_exists h hn
    exact ⟨m, hm, (core_job e).trans hj, by rw [inWindow_core w e]; exact hw⟩
  · rintro ⟨n, hn, hj, hw⟩
    obtain ⟨m, hm, e⟩ := sameCores_exists h.symm hn
    exact ⟨m, hm, (core_job e).trans hj, by rw [inWindow_core w e]; exact hw⟩

/-! ### renaming keeps cores and is idempotent -/

theorem renameNode_core (roots : List Node) (n : Node) : core (renameNode roots n) = core n := by
  unfold renameNode
  split <;> rfl

theorem renameNode_parent (roots : List Node) (n : Node) : (renameNode roots n).parent = n.parent := by
  unfold renameNode; split <;> rfl

theorem renameNode_job (roots : List Node) (n : Node) : (renameNode roots n).jobId = n.jobId := by
  unfold renameNode; split <;> rfl

/-- the span list after `update_job_names_by_root_span` -/
def renameNodes (ns : List Node) : List Node := ns.map (renameNode (ns.filter (·.parent.isNone)))

theorem renameByRoot_nodes' (s : Store) : (renameByRoot s).nodes = renameNodes s.nodes := rfl

theorem sameCores_renameNodes (ns : List Node) : SameCores (renameNodes ns) ns := by
  intro c
  unfold renameNodes
  rw [List.map_map]
  have : (core ∘ renameNode (ns.filter (·.parent.isNone))) = core := by
    funext n; exact renameNode_core _ n
  rw [this]

theorem renameNode_of_none (R : List Node) (n : Node)
    (h : R.reverse.find? (fun x => x.jobId == n.jobId) = none) : renameNode R n = n := by
  unfold renameNode; rw [h]; rfl

theorem renameNode_of_some (R : List Node) (n r : Node)
    (h : R.reverse.find? (fun x => x.jobId == n.jobId) = some r) :
    renameNode R n = { n with jobName := r.jobName } := by
  unfold renameNode; rw [h]; rfl

theorem renameNode_idem_point (R : List Node) (n : Node) :
    renameNode (R.map (renameNode R)) (renameNode R n) = renameNode R n := by
  have hj := renameNode_job R n
  have hpred : ((fun x : Node => x.jobId == n.jobId) ∘ renameNode R) = fun x => x.jobId == n.jobId := by
    funext x; simp only [Function.comp, renameNode_job]
  -- the second look-up, through the renamed roots
  have look : (R.map (renameNode R)).reverse.find? (fun x => x.jobId == (renameNode R n).jobId) =
      (R.reverse.find? (fun x => x.jobId == n.jobId)).map (renameNode R) := by
    rw [← List.map_reverse, List.find?_map, hj, hpred]
  cases hf : R.reverse.find? (fun x => x.jobId == n.jobId) with
  | none =>
    rw [hf] at look
    simp only [Option.map_none] at look
    rw [renameNode_of_none _ _ look]
  | some r =>
    have hrj : r.jobId = n.jobId := by simpa using List.find?_some hf
    -- the root found renames to itself
    have hr : renameNode R r = r := by
      rw [renameNode_of_some R r r (by rw [hrj]; exact hf)]
    rw [hf] at look
    simp only [Option.map_some, hr] at look
    rw [renameNode_of_some _ _ r look, renameNode_of_some R n r hf]

/-- **renaming by the root span is idempotent** -/
theorem renameNodes_idem (ns : List Node) : renameNodes (renameNodes ns) = renameNodes ns := by
  unfold renameNodes
  have hroots : (ns.map (renameNode (ns.filter (·.parent.isNone)))).filter (·.parent.isNone) =
      (ns.filter (·.parent.isNone)).map (renameNode (ns.filter (·.parent.isNone))) := by
    rw [List.filter_map]
    congr 1
    apply List.filter_congr
    intro x _
    simp only [Function.comp, renameNode_parent]
  rw [hroots, List.map_map]
  apply List.map_congr_left
  intro n _
  exact renameNode_idem_point _ n

end O2P.Store

namespace O2P.Store

/-! ### transfer along stores that differ in their hash rows only -/

theorem inv_of_sameNA {a b : Store} (h : SameNA a b) (hb : Inv b) : Inv a := by
  obtain ⟨h1, h2⟩ := h
  refine ⟨?_, ?_, ?_⟩
  · unfold Store.ids; rw [h1]; exact hb.ids
  · rw [h2]; exact hb.links
  · intro l hl; unfold Store.ids; rw [h1]; exact hb.noOrphan l (h2 ▸ hl)

theorem faithful_of_sameNA {a b : Store} (h : SameNA a b) (hb : Faithful b) : Faithful a := by
  obtain ⟨h1, h2⟩ := h
  intro l; rw [h2, h1]; exact hb l

/-! ### the first run -/

/-- the spans that survive the two removals of the first run -/
def kept (w : Int × Int) (s0 : Store) : List Node := s0.nodes.filter fun n => keepJob w s0 n.jobId

theorem kept_sub (w : Int × Int) (s0 : Store) : ∀ n ∈ kept w s0, n ∈ s0.nodes := fun _ h => (List.mem_filter.mp h).1

theorem mem_kept_iff (w : Int × Int) (s0 : Store) (n : Node) (hn : n ∈ s0.nodes) :
    n ∈ kept w s0 ↔ keepJob w s0 n.jobId = true := by
  unfold kept; rw [List.mem_filter]; exact ⟨fun h => h.2, fun h => ⟨hn, h⟩⟩

theorem ids_renameNodes (ns : List Node) : (renameNodes ns).map (·.id) = ns.map (·.id) := by
  unfold renameNodes
  rw [List.map_map]
  apply List.map_congr_left
  intro n _
  exact core_id (renameNode_core _ n)

/-- a span of the cleaned store comes from a kept span with the same core -/
theorem renamed_from (ns : List Node) (n : Node) (hn : n ∈ renameNodes ns) : ∃ k ∈ ns, core n = core k := by
  unfold renameNodes at hn
  obtain ⟨k, hk, rfl⟩ := List.mem_map.mp hn
  exact ⟨k, hk, renameNode_core _ k⟩

theorem renamed_to (ns : List Node) (k : Node) (hk : k ∈ ns) : ∃ n ∈ renameNodes ns, core n = core k :=
  ⟨_, List.mem_map.mpr ⟨k, hk, rfl⟩, renameNode_core _ k⟩

/-! ### re-ingesting into the cleaned store -/

/-- what re-ingestion adds: the first occurrences that are not stored any more -/
theorem newNodes_empty (es : List Node) : newNodes Store.empty es = firstOcc es := by
  unfold newNodes
  apply List.filter_eq_self.mpr
  intro n _
  simp [Store.empty, Store.ids]

theorem reingest_sameCores (w : Int × Int) (es : List Node) (t : Store)
    (ht : t.nodes = renameNodes (kept w (ingestSpec Store.empty es))) :
    SameCores (ingestSpec t es).nodes (ingestSpec Store.empty es).nodes := by
  have hs0 : (ingestSpec Store.empty es).nodes = firstOcc es := by
    show Store.empty.nodes ++ newNodes Store.empty es = _
    rw [newNodes_empty]; rfl
  have hnodup : ((ingestSpec Store.empty es).nodes.map (·.id)).Nodup := (ingestSpec_inv _ inv_empty es).ids
  have htids : t.ids = (kept w (ingestSpec Store.empty es)).map (·.id) := by
    unfold Store.ids; rw [ht, ids_renameNodes]
  intro c
  show c ∈ (t.nodes ++ newNodes t es).map core ↔ _
  rw [List.map_append, List.mem_append]
  constructor
  · rintro (h | h)
    · obtain ⟨n, hn, rfl⟩ := List.mem_map.mp h
      rw [ht] at hn
      obtain ⟨k, hk, e⟩ := renamed_from _ n hn
      exact List.mem_map.mpr ⟨k, kept_sub _ _ k hk, e.symm⟩
    · obtain ⟨n, hn, rfl⟩ := List.mem_map.mp h
      have : n ∈ firstOcc es := (List.mem_filter.mp hn).1
      exact List.mem_map.mpr ⟨n, hs0 ▸ this, rfl⟩
  · intro h
    obtain ⟨n, hn, rfl⟩ := List.mem_map.mp h
    by_cases hk : n ∈ kept w (ingestSpec Store.empty es)
    · left
      obtain ⟨m, hm, e⟩ := renamed_to _ n hk
      exact List.mem_map.mpr ⟨m, ht ▸ hm, e⟩
    · right
      refine List.mem_map.mpr ⟨n, ?_, rfl⟩
      unfold newNodes
      refine List.mem_filter.mpr ⟨hs0 ▸ hn, ?_⟩
      rw [htids]
      simp only [Bool.not_eq_true']
      cases hc : ((kept w (ingestSpec Store.empty es)).map (·.id)).contains n.id with
      | false => rfl
      | true =>
      exfalso
      have hmem : n.id ∈ (kept w (ingestSpec Store.empty es)).map (·.id) := by simpa using hc
      obtain ⟨k, hk', e⟩ := List.mem_map.mp hmem
      have : k = n := eq_of_id_eq _ hnodup k (kept_sub _ _ k hk') n hn e
      exact hk (this ▸ hk')

end O2P.Store

namespace O2P.Store

theorem removeOutside_assoc (w : Int × Int) (s : Store) :
    (removeOutside w s).assoc = dropOrphanLinks (removeOutside w s).nodes s.assoc := rfl

theorem removeInconsistent_assoc (s : Store) :
    (removeInconsistent s).assoc = dropOrphanLinks (removeInconsistent s).nodes s.assoc := rfl

theorem removeOutside_nodes_sub (w : Int × Int) (s : Store) : ∀ n ∈ (removeOutside w s).nodes, n ∈ s.nodes := by
  intro n hn
  unfold removeOutside at hn
  exact (List.mem_filter.mp hn).1

/-- **re-ingesting the input into the cleaned store and cleaning again changes nothing**: the spans that
cleaning had removed come back and are removed again; spans, order, names and links are as before -/
theorem reingest_fixpoint (w : Int × Int) (es : List Node) (t : Store)
    (ht : t.nodes = renameNodes (kept w (ingestSpec Store.empty es))) (hi : Inv t) (hf : Faithful t) :
    (renameByRoot (removals w (ingestSpec t es))).nodes = t.nodes ∧
    (renameByRoot (removals w (ingestSpec t es))).assoc = t.assoc := by
  have hs0i : Inv (ingestSpec Store.empty es) := ingestSpec_inv _ inv_empty es
  have hs0 : (ingestSpec Store.empty es).nodes = firstOcc es := by
    show Store.empty.nodes ++ newNodes Store.empty es = _
    rw [newNodes_empty]; rfl
  have sti := ingestSpec_inv t hi es
  have stf := ingestSpec_faithful_of t hf es
  have hcores := reingest_sameCores w es t ht
  have htids : t.ids = (kept w (ingestSpec Store.empty es)).map (·.id) := by
    unfold Store.ids; rw [ht, ids_renameNodes]
  -- the nodes after the two removals
  have hrem : (removals w (ingestSpec t es)).nodes = t.nodes := by
    rw [removals_keepJob w _ sti stf]
    have : (fun n : Node => keepJob w (ingestSpec t es) n.jobId) =
        fun n => keepJob w (ingestSpec Store.empty es) n.jobId := by
      funext n; exact keepJob_cores w _ _ hcores n.jobId
    rw [this]
    show (t.nodes ++ newNodes t es).filter _ = _
    rw [List.filter_append]
    have p1 : t.nodes.filter (fun n => keepJob w (ingestSpec Store.empty es) n.jobId) = t.nodes := by
      apply List.filter_eq_self.mpr
      intro n hn
      rw [ht] at hn
      obtain ⟨k, hk, e⟩ := renamed_from _ n hn
      rw [core_job e]
      exact (List.mem_filter.mp hk).2
    have p2 : (newNodes t es).filter (fun n => keepJob w (ingestSpec Store.empty es) n.jobId) = [] := by
      apply List.filter_eq_nil_iff.mpr
      intro n hn hp
      have hn0 : n ∈ (ingestSpec Store.empty es).nodes := hs0 ▸ (List.mem_filter.mp hn).1
      have hk : n ∈ kept w (ingestSpec Store.empty es) := (mem_kept_iff w _ n hn0).mpr hp
      have := newNodes_fresh t es n hn
      exact this (htids ▸ List.mem_map.mpr ⟨n, hk, rfl⟩)
    rw [p1, p2, List.append_nil]
  refine ⟨?_, ?_⟩
  · rw [renameByRoot_nodes', hrem, ht, renameNodes_idem]
  · rw [(renameByRoot_frame _).2.1]
    unfold removals at hrem ⊢
    rw [removeOutside_assoc, removeInconsistent_assoc, hrem]
    unfold dropOrphanLinks
    rw [List.filter_filter]
    show (t.assoc ++ linksOf (newNodes t es)).filter _ = _
    rw [List.filter_append]
    have q1 : t.assoc.filter (fun l => t.nodes.any (·.id == l.2) &&
        (removeInconsistent (ingestSpec t es)).nodes.any (·.id == l.2)) = t.assoc := by
      apply List.filter_eq_self.mpr
      intro l hl
      have hc := hi.noOrphan l hl
      obtain ⟨n, hn, e⟩ := List.mem_map.mp hc
      have hn1 : n ∈ (removeInconsistent (ingestSpec t es)).nodes :=
        removeOutside_nodes_sub w _ n (hrem ▸ hn)
      simp only [Bool.and_eq_true, List.any_eq_true, beq_iff_eq]
      exact ⟨⟨n, hn, e⟩, ⟨n, hn1, e⟩⟩
    have q2 : (linksOf (newNodes t es)).filter (fun l => t.nodes.any (·.id == l.2) &&
        (removeInconsistent (ingestSpec t es)).nodes.any (·.id == l.2)) = [] := by
      apply List.filter_eq_nil_iff.mpr
      intro l hl hp
      simp only [Bool.and_eq_true, List.any_eq_true, beq_iff_eq] at hp
      obtain ⟨⟨n, hn, e⟩, _⟩ := hp
      obtain ⟨m, hm, e2⟩ := List.mem_map.mp (linksOf_snd _ l hl)
      have := newNodes_fresh t es m hm
      apply this
      unfold Store.ids
      exact List.mem_map.mpr ⟨n, hn, e.trans e2.symm⟩
    rw [q1, q2, List.append_nil]

end O2P.Store

namespace O2P.Store

theorem firstOcc_sub' : ∀ (l : List Node) (x : Node), x ∈ firstOcc l → x ∈ l
  | [], _, h => by simp [firstOcc] at h
  | n :: ns, x, h => by
    simp only [firstOcc, List.mem_cons, List.mem_filter] at h
    rcases h with rfl | ⟨h, _⟩
    · exact List.mem_cons_self
    · exact List.mem_cons_of_mem _ (firstOcc_sub' ns x h)

theorem dropOrphan_all (nodes : List Node) (assoc : List Link) (h : ∀ l ∈ assoc, l.2 ∈ nodes.map (·.id)) :
    dropOrphanLinks nodes assoc = assoc := by
  unfold dropOrphanLinks
  apply List.filter_eq_self.mpr
  intro l hl
  obtain ⟨n, hn, e⟩ := List.mem_map.mp (h l hl)
  simp only [List.any_eq_true, beq_iff_eq]
  exact ⟨n, hn, e⟩

/-- in the cleaned store of a first run no span names a missing parent, provided parents are local to
their trace in the input -/
theorem cleaned_no_dangling (w : Int × Int) (es : List Node) (t : Store)
    (ht : t.nodes = renameNodes (kept w (ingestSpec Store.empty es)))
    (hpl : ParentLocal (firstOcc es)) (j : String) : hasDangling t j = false := by
  have hs0i : Inv (ingestSpec Store.empty es) := ingestSpec_inv _ inv_empty es
  have hs0 : (ingestSpec Store.empty es).nodes = firstOcc es := by
    show Store.empty.nodes ++ newNodes Store.empty es = _
    rw [newNodes_empty]; rfl
  have htids : t.ids = (kept w (ingestSpec Store.empty es)).map (·.id) := by
    unfold Store.ids; rw [ht, ids_renameNodes]
  cases hd : hasDangling t j with
  | false => rfl
  | true =>
    exfalso
    unfold hasDangling at hd
    simp only [List.any_eq_true, Bool.and_eq_true, beq_iff_eq] at hd
    obtain ⟨n, hn, _, hdn⟩ := hd
    rw [ht] at hn
    obtain ⟨k, hk, e⟩ := renamed_from _ n hn
    have hk0 := kept_sub _ _ k hk
    unfold danglingNode at hdn
    rw [core_parent e] at hdn
    cases hp : k.parent with
    | none => rw [hp] at hdn; simp at hdn
    | some p =>
      rw [hp] at hdn
      simp only [Bool.not_eq_true'] at hdn
      -- k's trace was kept, so k is not dangling in the ingested store: p is stored there
      have hkeep : keepJob w (ingestSpec Store.empty es) k.jobId = true := (List.mem_filter.mp hk).2
      unfold keepJob at hkeep
      simp only [Bool.and_eq_true, Bool.not_eq_true'] at hkeep
      have hnd : danglingNode (ingestSpec Store.empty es) k = false := by
        cases hx : danglingNode (ingestSpec Store.empty es) k with
        | false => rfl
        | true =>
          have : hasDangling (ingestSpec Store.empty es) k.jobId = true := by
            unfold hasDangling
            simp only [List.any_eq_true, Bool.and_eq_true, beq_iff_eq]
            exact ⟨k, hk0, rfl, hx⟩
          rw [this] at hkeep
          exact absurd hkeep.1 (by decide)
      unfold danglingNode at hnd
      rw [hp] at hnd
      have hpin : p ∈ (ingestSpec Store.empty es).ids := by simpa using hnd
      obtain ⟨m0, hm0, em⟩ := List.mem_map.mp hpin
      have hmj : m0.jobId = k.jobId := hpl k (hs0 ▸ hk0) p hp m0 (hs0 ▸ hm0) em
      have hm0k : m0 ∈ kept w (ingestSpec Store.empty es) := by
        rw [mem_kept_iff w _ m0 hm0, hmj]
        exact (List.mem_filter.mp hk).2
      have : p ∈ t.ids := htids ▸ List.mem_map.mpr ⟨m0, hm0k, em⟩
      have : t.ids.contains p = true := by simpa using this
      rw [this] at hdn
      exact absurd hdn (by decide)

/-- **a run that does not ingest leaves the cleaned store as it is**, when parents are local to their
trace and every span of the input lies inside the (widest) window such a run computes -/
theorem noingest_fixpoint (w w' : Int × Int) (es : List Node) (t : Store)
    (ht : t.nodes = renameNodes (kept w (ingestSpec Store.empty es))) (hi : Inv t) (hf : Faithful t)
    (hpl : ParentLocal (firstOcc es)) (hwin : ∀ n ∈ es, inWindow w' n = true) :
    (renameByRoot (removals w' t)).nodes = t.nodes ∧ (renameByRoot (removals w' t)).assoc = t.assoc := by
  have hs0 : (ingestSpec Store.empty es).nodes = firstOcc es := by
    show Store.empty.nodes ++ newNodes Store.empty es = _
    rw [newNodes_empty]; rfl
  have hnd := cleaned_no_dangling w es t ht hpl
  have hin : ∀ n ∈ t.nodes, inWindow w' n = true := by
    intro n hn
    rw [ht] at hn
    obtain ⟨k, hk, e⟩ := renamed_from _ n hn
    rw [inWindow_core w' e]
    exact hwin k (firstOcc_sub' es k (hs0 ▸ kept_sub _ _ k hk))
  have hrem : (removals w' t).nodes = t.nodes := by
    rw [removals_keepJob w' t hi hf]
    apply List.filter_eq_self.mpr
    intro n hn
    unfold keepJob
    rw [hnd n.jobId]
    simp only [Bool.not_false, Bool.true_and, List.any_eq_true, Bool.and_eq_true, beq_iff_eq]
    exact ⟨n, hn, rfl, hin n hn⟩
  refine ⟨?_, ?_⟩
  · rw [renameByRoot_nodes', hrem, ht, renameNodes_idem]
  · rw [(renameByRoot_frame _).2.1]
    unfold removals at hrem ⊢
    rw [removeOutside_assoc, removeInconsistent_assoc, hrem]
    have h1 : dropOrphanLinks (removeInconsistent t).nodes t.assoc = t.assoc := by
      apply dropOrphan_all
      intro l hl
      obtain ⟨n, hn, e⟩ := List.mem_map.mp (hi.noOrphan l hl)
      exact List.mem_map.mpr ⟨n, removeOutside_nodes_sub w' _ n (hrem ▸ hn), e⟩
    rw [h1]
    exact dropOrphan_all _ _ (fun l hl => hi.noOrphan l hl)

end O2P.Store
