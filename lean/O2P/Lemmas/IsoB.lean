import O2P.Lemmas.DiagramSem
/-!
The isomorphism search `isoB` decides job isomorphism: `Match` is the relation `matchNodes` computes
(`matchNodes_iff`), a `Match` yields an isomorphism (`match_sound`) and an isomorphism out of a job listed
in topological order yields a `Match` (`match_complete`); `topo` returns an already ordered job unchanged.
-/
namespace O2P.Diagram

/-- the partial bijection as a look-up -/
def lookup (m : List (Nat × Nat)) (p : Nat) : Option Nat := (m.find? (·.1 == p)).map (·.2)

theorem lookup_cons_same (m : List (Nat × Nat)) (p q : Nat) : lookup ((p, q) :: m) p = some q := by
  simp [lookup, List.find?_cons]

theorem lookup_cons_other (m : List (Nat × Nat)) (p q p' : Nat) (h : p' ≠ p) :
    lookup ((p, q) :: m) p' = lookup m p' := by
  have : (p == p') = false := by simpa using fun e => h e.symm
  simp [lookup, List.find?_cons, this]

/-- what `matchNodes` searches for -/
inductive Match : List JNode → List JNode → List (Nat × Nat) → Prop
  | nil {m} : Match [] [] m
  | cons {x xs bs m} (y : JNode) (img : List Nat) : y ∈ bs → y.typ = x.typ → y.prev.length = x.prev.length →
      x.prev.mapM (lookup m) = some img → sameSet img y.prev = true →
      Match xs (bs.filter (·.id != y.id)) ((x.id, y.id) :: m) → Match (x :: xs) bs m

theorem matchNodes_iff : ∀ (fuel : Nat) (xs bs : List JNode) (m : List (Nat × Nat)), xs.length < fuel →
    (matchNodes fuel xs bs m = true ↔ Match xs bs m)
  | 0, _, _, _, h => absurd h (Nat.not_lt_zero _)
  | fuel + 1, [], bs, m, _ => by
    simp only [matchNodes, List.isEmpty_iff]
    constructor
    · rintro rfl; exact Match.nil
    · intro h; cases h; rfl
  | fuel + 1, x :: xs, bs, m, h => by
    have ih := fun bs' m' => matchNodes_iff fuel xs bs' m' (Nat.lt_of_succ_lt_succ h)
    simp only [matchNodes, List.any_eq_true, Bool.and_eq_true, beq_iff_eq]
    constructor
    · rintro ⟨y, hy, ⟨⟨⟨ht, hl⟩, himg⟩, hrec⟩⟩
      cases hm : x.prev.mapM (fun p => (m.find? (·.1 == p)).map (·.2)) with
      | none => rw [hm] at himg; simp at himg
      | some img =>
        rw [hm] at himg
        exact Match.cons y img hy ht hl hm himg ((ih _ _).mp hrec)
    · intro hM
      cases hM with
      | cons y img hy ht hl hm hs hrec =>
        refine ⟨y, hy, ⟨⟨⟨ht, hl⟩, ?_⟩, (ih _ _).mpr hrec⟩⟩
        have hm' : x.prev.mapM (fun p => (m.find? (·.1 == p)).map (·.2)) = some img := hm
        rw [hm']
        exact hs

/-! ### isomorphism -/

/-- `f` maps the events of `a` one-to-one onto the events of `b`, keeping types and predecessor sets -/
structure IsoVia (f : Nat → Nat) (a b : Job) : Prop where
  ids : (a.map fun x => f x.id).Perm (b.map (·.id))
  node : ∀ x ∈ a, ∃ y ∈ b, y.id = f x.id ∧ y.typ = x.typ ∧ sameSet (x.prev.map f) y.prev = true

def Iso (a b : Job) : Prop := ∃ f, IsoVia f a b

theorem mapM_lookup_eq_map {m : List (Nat × Nat)} {f : Nat → Nat} (hf : ∀ p q, lookup m p = some q → f p = q) :
    ∀ (ps img : List Nat), ps.mapM (lookup m) = some img → img = ps.map f
  | [], img, h => by simp at h; subst h; rfl
  | p :: ps, img, h => by
    rw [List.mapM_cons] at h
    cases hp : lookup m p with
    | none => rw [hp] at h; simp at h
    | some q =>
      rw [hp] at h
      cases hr : ps.mapM (lookup m) with
      | none => rw [hr] at h; simp at h
      | some r =>
        rw [hr] at h
        simp only [Option.pure_def, Option.bind_eq_bind, Option.bind_some, Option.some.injEq] at h
        rw [← h, List.map_cons, hf p q hp, mapM_lookup_eq_map hf ps r hr]

open List in
theorem perm_filter_ne {bs : List JNode} (hb : (bs.map (·.id)).Nodup) {y : JNode} (hy : y ∈ bs) :
    bs ~ y :: bs.filter (·.id != y.id) := by
  induction bs with
  | nil => simp at hy
  | cons z zs ih =>
    simp only [List.map_cons, List.nodup_cons] at hb
    rcases List.mem_cons.mp hy with rfl | hy'
    · have : (y :: zs).filter (·.id != y.id) = zs := by
        rw [List.filter_cons]
        simp only [bne_self_eq_false, Bool.false_eq_true, if_false]
        apply List.filter_eq_self.mpr
        intro w hw
        have : w.id ≠ y.id := fun e => hb.1 (e ▸ List.mem_map.mpr ⟨w, hw, rfl⟩)
        simpa using this
      rw [this]
    · have hne : z.id ≠ y.id := fun e => hb.1 (e ▸ List.mem_map.mpr ⟨y, hy', rfl⟩)
      have : (z :: zs).filter (·.id != y.id) = z :: zs.filter (·.id != y.id) := by
        rw [List.filter_cons]
        have : (z.id != y.id) = true := by simpa using hne
        simp [this]
      rw [this]
      exact ((ih hb.2 hy').cons z).trans (Perm.swap y z _)

open List in
/-- **a match is an isomorphism** -/
theorem match_sound : ∀ {xs bs : List JNode} {m : List (Nat × Nat)}, Match xs bs m →
    (xs.map (·.id)).Nodup → (∀ x ∈ xs, lookup m x.id = none) → (bs.map (·.id)).Nodup →
    ∃ f, (∀ p q, lookup m p = some q → f p = q) ∧ IsoVia f xs bs := by
  intro xs bs m h
  induction h with
  | @nil m =>
    intro _ _ _
    exact ⟨fun p => (lookup m p).getD 0, fun p q h => by simp [h], ⟨Perm.refl _, fun x hx => absurd hx List.not_mem_nil⟩⟩
  | @cons x xs bs m y img hy ht hl hm hs _ ih =>
    intro hnd hfresh hb
    simp only [List.map_cons, List.nodup_cons] at hnd
    have hb' : ((bs.filter (·.id != y.id)).map (·.id)).Nodup :=
      (hb.sublist ((List.filter_sublist).map _))
    have hfresh' : ∀ x' ∈ xs, lookup ((x.id, y.id) :: m) x'.id = none := by
      intro x' hx'
      have hne : x'.id ≠ x.id := fun e => hnd.1 (e ▸ List.mem_map.mpr ⟨x', hx', rfl⟩)
      rw [lookup_cons_other m x.id y.id x'.id hne]
      exact hfresh x' (List.mem_cons_of_mem _ hx')
    obtain ⟨f, hf, hiso⟩ := ih hnd.2 hfresh' hb'
    have hfx : f x.id = y.id := hf x.id y.id (lookup_cons_same m x.id y.id)
    have hfm : ∀ p q, lookup m p = some q → f p = q := by
      intro p q hpq
      have hne : p ≠ x.id := by
        intro e
        rw [e, hfresh x List.mem_cons_self] at hpq
        exact absurd hpq (by simp)
      exact hf p q (by rw [lookup_cons_other m x.id y.id p hne]; exact hpq)
    refine ⟨f, hfm, ?_, ?_⟩
    · simp only [List.map_cons, hfx]
      have p1 := (hiso.ids.cons y.id)
      have p2 := (perm_filter_ne hb hy).map (·.id)
      exact p1.trans p2.symm
    · intro x' hx'
      rcases List.mem_cons.mp hx' with rfl | hx''
      · refine ⟨y, hy, hfx.symm, ht, ?_⟩
        rw [← mapM_lookup_eq_map hfm _ _ hm]
        exact hs
      · obtain ⟨y', hy', h1, h2, h3⟩ := hiso.node x' hx''
        exact ⟨y', (List.mem_filter.mp hy').1, h1, h2, h3⟩

/-- the job is listed so that every predecessor is already known when its event comes up -/
def OrderedFrom (known : Nat → Prop) : List JNode → Prop
  | [] => True
  | x :: xs => (∀ p ∈ x.prev, known p) ∧ OrderedFrom (fun p => known p ∨ p = x.id) xs

theorem orderedFrom_mono {k k' : Nat → Prop} (h : ∀ p, k p → k' p) : ∀ (xs : List JNode),
    OrderedFrom k xs → OrderedFrom k' xs
  | [], _ => trivial
  | x :: xs, ⟨h1, h2⟩ =>
    ⟨fun p hp => h p (h1 p hp), orderedFrom_mono (fun p hp => hp.elim (fun a => Or.inl (h p a)) Or.inr) xs h2⟩

theorem mapM_lookup_of_known {m : List (Nat × Nat)} {f : Nat → Nat} :
    ∀ (ps : List Nat), (∀ p ∈ ps, lookup m p = some (f p)) → ps.mapM (lookup m) = some (ps.map f)
  | [], _ => rfl
  | p :: ps, h => by
    rw [List.mapM_cons, h p List.mem_cons_self,
      mapM_lookup_of_known ps (fun q hq => h q (List.mem_cons_of_mem _ hq))]
    rfl

theorem sameSet_length {a b : List Nat} (h : sameSet a b = true) : a.length = b.length := by
  unfold sameSet at h
  simp only [Bool.and_eq_true, beq_iff_eq] at h
  exact h.2

open List in
/-- **an isomorphism out of an ordered job is found by the search** -/
theorem match_complete (f : Nat → Nat) : ∀ (xs bs : List JNode) (m : List (Nat × Nat)),
    IsoVia f xs bs → (bs.map (·.id)).Nodup → OrderedFrom (fun p => lookup m p = some (f p)) xs → Match xs bs m
  | [], bs, m, hiso, _, _ => by
    have : bs.map (·.id) = [] := List.Perm.eq_nil (hiso.ids.symm)
    have : bs = [] := List.map_eq_nil_iff.mp this
    subst this
    exact Match.nil
  | x :: xs, bs, m, hiso, hb, ⟨hknown, hord⟩ => by
    obtain ⟨y, hy, hyid, hyt, hys⟩ := hiso.node x List.mem_cons_self
    have hnd : ((x :: xs).map fun z => f z.id).Nodup := hiso.ids.nodup_iff.mpr hb
    simp only [List.map_cons, List.nodup_cons] at hnd
    have hbperm := (perm_filter_ne hb hy).map (·.id)
    have hb' : ((bs.filter (·.id != y.id)).map (·.id)).Nodup := hb.sublist ((List.filter_sublist).map _)
    have hiso' : IsoVia f xs (bs.filter (·.id != y.id)) := by
      refine ⟨?_, ?_⟩
      · have p1 : (f x.id :: xs.map fun z => f z.id).Perm (y.id :: (bs.filter (·.id != y.id)).map (·.id)) := by
          have := hiso.ids.trans hbperm
          simpa using this
        rw [← hyid] at p1
        exact (List.perm_cons y.id).mp p1
      · intro x' hx'
        obtain ⟨y', hy', h1, h2, h3⟩ := hiso.node x' (List.mem_cons_of_mem _ hx')
        refine ⟨y', List.mem_filter.mpr ⟨hy', ?_⟩, h1, h2, h3⟩
        have : y'.id ≠ y.id := by
          rw [h1, hyid]
          intro e
          exact hnd.1 (List.mem_map.mpr ⟨x', hx', e⟩)
        simpa using this
    have hord' : OrderedFrom (fun p => lookup ((x.id, y.id) :: m) p = some (f p)) xs := by
      apply orderedFrom_mono _ xs hord
      intro p hp
      rcases hp with hp | rfl
      · by_cases e : p = x.id
        · subst e; rw [lookup_cons_same, hyid]
        · rw [lookup_cons_other m x.id y.id p e]; exact hp
      · rw [lookup_cons_same, hyid]
    exact Match.cons y (x.prev.map f) hy hyt
      ((sameSet_length hys).symm.trans (List.length_map f))
      (mapM_lookup_of_known x.prev hknown) hys (match_complete f xs _ _ hiso' hb' hord')

end O2P.Diagram

namespace O2P.Diagram

/-! ### `topo` -/

theorem filter_ne_of_head {x : JNode} {xs : List JNode} (h : ((x :: xs).map (·.id)).Nodup) :
    (x :: xs).filter (·.id != x.id) = xs := by
  simp only [List.map_cons, List.nodup_cons] at h
  rw [List.filter_cons]
  simp only [bne_self_eq_false, Bool.false_eq_true, if_false]
  apply List.filter_eq_self.mpr
  intro w hw
  have : w.id ≠ x.id := fun e => h.1 (e ▸ List.mem_map.mpr ⟨w, hw, rfl⟩)
  simpa using this

/-- an already ordered job is returned unchanged -/
theorem topo_ordered : ∀ (fuel : Nat) (a : List JNode) (done : List Nat) (acc : List JNode),
    a.length < fuel → (a.map (·.id)).Nodup → OrderedFrom (fun p => p ∈ done) a →
    topo fuel a done acc = some (acc.reverse ++ a)
  | 0, _, _, _, h, _, _ => absurd h (Nat.not_lt_zero _)
  | fuel + 1, [], done, acc, _, _, _ => by simp [topo]
  | fuel + 1, x :: xs, done, acc, h, hnd, ⟨hk, hord⟩ => by
    have hfind : (x :: xs).find? (fun n => n.prev.all done.contains) = some x := by
      rw [List.find?_cons]
      have : x.prev.all done.contains = true := by
        rw [List.all_eq_true]; intro p hp; simpa using hk p hp
      simp [this]
    unfold topo
    rw [hfind]
    simp only
    rw [filter_ne_of_head hnd]
    have hnd' : (xs.map (·.id)).Nodup := by
      simp only [List.map_cons, List.nodup_cons] at hnd; exact hnd.2
    have hord' : OrderedFrom (fun p => p ∈ x.id :: done) xs :=
      orderedFrom_mono (fun p hp => by
        rcases hp with hp | rfl
        · exact List.mem_cons_of_mem _ hp
        · exact List.mem_cons_self) xs hord
    rw [topo_ordered fuel xs (x.id :: done) (x :: acc) (Nat.lt_of_succ_lt_succ h) hnd' hord']
    simp

open List in
/-- whatever `topo` returns is a permutation of what it was given -/
theorem topo_perm : ∀ (fuel : Nat) (pending : List JNode) (done : List Nat) (acc r : List JNode),
    (pending.map (·.id)).Nodup → topo fuel pending done acc = some r → r ~ acc.reverse ++ pending
  | 0, _, _, _, _, _, h => by simp [topo] at h
  | fuel + 1, [], done, acc, r, _, h => by
    simp only [topo, Option.some.injEq] at h
    subst h; simp
  | fuel + 1, x :: xs, done, acc, r, hnd, h => by
    unfold topo at h
    cases hf : (x :: xs).find? (fun n => n.prev.all done.contains) with
    | none => rw [hf] at h; simp at h
    | some n =>
      rw [hf] at h
      simp only at h
      have hn : n ∈ x :: xs := List.mem_of_find?_eq_some hf
      have hnd' : (((x :: xs).filter (·.id != n.id)).map (·.id)).Nodup :=
        hnd.sublist ((List.filter_sublist).map _)
      have ih := topo_perm fuel _ (n.id :: done) (n :: acc) r hnd' h
      have p := perm_filter_ne hnd hn
      refine ih.trans ?_
      simp only [List.reverse_cons, List.append_assoc, List.singleton_append]
      exact (p.symm).append_left _

/-! ### `isoB` decides isomorphism -/

theorem IsoVia.of_perm {f : Nat → Nat} {a a' b : Job} (h : IsoVia f a b) (p : a'.Perm a) : IsoVia f a' b :=
  ⟨(p.map _).trans h.ids, fun x hx => h.node x (p.subset hx)⟩

/-- **soundness**: when the search succeeds the two jobs are isomorphic -/
theorem isoB_sound (a b : Job) (ha : (a.map (·.id)).Nodup) (hb : (b.map (·.id)).Nodup)
    (h : isoB a b = true) : Iso a b := by
  unfold isoB at h
  simp only [Bool.and_eq_true, beq_iff_eq] at h
  obtain ⟨_, h2⟩ := h
  cases ht : topo (a.length + 1) a [] [] with
  | none => rw [ht] at h2; simp at h2
  | some ta =>
    rw [ht] at h2
    simp only at h2
    have hp : ta.Perm a := by simpa using topo_perm _ a [] [] ta ha ht
    have hlen : ta.length < a.length + 1 := by rw [hp.length_eq]; exact Nat.lt_succ_self _
    have hM := (matchNodes_iff _ ta b [] hlen).mp h2
    have hta : (ta.map (·.id)).Nodup := (hp.map _).nodup_iff.mpr ha
    obtain ⟨f, _, hiso⟩ := match_sound hM hta (fun _ _ => rfl) hb
    exact ⟨f, hiso.of_perm hp.symm⟩

/-- **completeness**: an isomorphism out of a job listed in topological order is found -/
theorem isoB_complete (a b : Job) (ha : (a.map (·.id)).Nodup) (hb : (b.map (·.id)).Nodup)
    (hord : OrderedFrom (fun _ => False) a) (h : Iso a b) : isoB a b = true := by
  obtain ⟨f, hiso⟩ := h
  unfold isoB
  have hlen : a.length = b.length := by
    have := hiso.ids.length_eq
    simpa using this
  have ht : topo (a.length + 1) a [] [] = some a := by
    have := topo_ordered (a.length + 1) a [] [] (Nat.lt_succ_self _) ha
      (orderedFrom_mono (fun _ h => h.elim) a hord)
    simpa using this
  rw [ht]
  simp only [hlen, beq_self_eq_true, Bool.true_and]
  rw [← hlen]
  apply (matchNodes_iff _ a b [] (Nat.lt_succ_self _)).mpr
  exact match_complete f a b [] hiso hb (orderedFrom_mono (fun _ h => h.elim) a hord)

/-- the jobs the semantics produces are listed in topological order -/
theorem ordered_of_range : ∀ (l : List JNode) (s : Nat), l.map (·.id) = List.range' s l.length →
    (∀ n ∈ l, ∀ p ∈ n.prev, p < n.id) → OrderedFrom (fun p => p < s) l
  | [], _, _, _ => trivial
  | x :: xs, s, hid, hp => by
    simp only [List.map_cons, List.length_cons, List.range'_succ, List.cons.injEq] at hid
    refine ⟨fun p hpp => hid.1 ▸ hp x List.mem_cons_self p hpp, ?_⟩
    have := ordered_of_range xs (s + 1) hid.2 (fun n hn => hp n (List.mem_cons_of_mem _ hn))
    apply orderedFrom_mono _ xs this
    intro p h
    rw [hid.1]
    omega

theorem runs_ordered (k : Nat) (d : Blk) (j : Job) (hj : j ∈ runs k d) :
    OrderedFrom (fun _ => False) j ∧ (j.map (·.id)).Nodup := by
  obtain ⟨h1, h2⟩ := runs_wellformed k d j hj
  refine ⟨?_, ?_⟩
  · have := ordered_of_range j 0 (by rw [h1, List.range_eq_range']) h2
    exact orderedFrom_mono (fun p h => absurd h (Nat.not_lt_zero p)) j this
  · rw [h1]; exact List.nodup_range

end O2P.Diagram

namespace O2P.Diagram

/-! ### the type key is an invariant of isomorphism -/

def strLe (a b : String) : Prop := ¬ b < a

open List in
theorem insertStr_perm (x : String) : ∀ (l : List String), insertStr x l ~ x :: l
  | [] => by simp [insertStr]
  | y :: ys => by
    unfold insertStr
    split
    · exact Perm.refl _
    · exact ((insertStr_perm x ys).cons y).trans (Perm.swap x y ys)

theorem insertStr_sorted (x : String) : ∀ (l : List String), l.Pairwise strLe → (insertStr x l).Pairwise strLe
  | [], _ => by simp [insertStr]
  | y :: ys, h => by
    unfold insertStr
    have hp := List.pairwise_cons.mp h
    split
    · rename_i hxy
      refine List.Pairwise.cons ?_ h
      intro z hz
      rcases List.mem_cons.mp hz with rfl | hz
      · exact String.lt_asymm hxy
      · -- x < y ≤ z
        intro hzx
        exact hp.1 z hz (String.lt_trans hzx hxy)
    · rename_i hxy
      refine List.Pairwise.cons ?_ (insertStr_sorted x ys hp.2)
      intro z hz
      rcases List.mem_cons.mp ((insertStr_perm x ys).subset hz) with rfl | hz
      · exact hxy
      · exact hp.1 z hz

open List in
theorem typeKey_of_perm {a b : List String} (h : a ~ b) : a.foldr insertStr [] = b.foldr insertStr [] := by
  have sorted : ∀ l : List String, (l.foldr insertStr []).Pairwise strLe := by
    intro l
    induction l with
    | nil => exact List.Pairwise.nil
    | cons x xs ih => exact insertStr_sorted x _ ih
  have perm : ∀ l : List String, l.foldr insertStr [] ~ l := by
    intro l
    induction l with
    | nil => exact Perm.refl _
    | cons x xs ih => exact (insertStr_perm x _).trans (ih.cons x)
  apply Perm.eq_of_pairwise (le := strLe) _ (sorted a) (sorted b) ((perm a).trans (h.trans (perm b).symm))
  intro x y _ _ h1 h2
  unfold strLe at h1 h2
  exact String.le_antisymm (String.not_lt.mp h1) (String.not_lt.mp h2)

theorem find_id_of_mem : ∀ (b : Job), (b.map (·.id)).Nodup → ∀ y ∈ b, b.find? (·.id == y.id) = some y
  | [], _, y, hy => by simp at hy
  | z :: zs, hd, y, hy => by
    simp only [List.map_cons, List.nodup_cons] at hd
    rcases List.mem_cons.mp hy with rfl | hy'
    · simp [List.find?_cons]
    · have hne : z.id ≠ y.id := fun h => hd.1 (h ▸ List.mem_map.mpr ⟨y, hy', rfl⟩)
      have : (z.id == y.id) = false := by simpa using hne
      rw [List.find?_cons, this]
      exact find_id_of_mem zs hd.2 y hy'

open List in
theorem types_perm_of_iso {a b : Job} (hb : (b.map (·.id)).Nodup) (h : Iso a b) :
    (a.map (·.typ)) ~ (b.map (·.typ)) := by
  obtain ⟨f, hiso⟩ := h
  let tyB : Nat → String := fun i => ((b.find? (·.id == i)).map (·.typ)).getD ""
  have hbt : b.map (·.typ) = (b.map (·.id)).map tyB := by
    rw [List.map_map]
    apply List.map_congr_left
    intro y hy
    simp only [Function.comp, tyB, find_id_of_mem b hb y hy, Option.map_some, Option.getD_some]
  have hat : a.map (·.typ) = (a.map fun x => f x.id).map tyB := by
    rw [List.map_map]
    apply List.map_congr_left
    intro x hx
    obtain ⟨y, hy, h1, h2, _⟩ := hiso.node x hx
    simp only [Function.comp, tyB, ← h1, find_id_of_mem b hb y hy, Option.map_some, Option.getD_some, h2]
  rw [hat, hbt]
  exact hiso.ids.map tyB

/-- **acceptance is isomorphism with an execution**: for a job with distinct ids, `accepts k d j` holds
exactly when `j` is isomorphic to one of the executions of `d` with loops run up to `k` times — a rejection
is never the search's fault, an acceptance never spurious -/
theorem accepts_iff_iso (k : Nat) (d : Blk) (j : Job) (hj : (j.map (·.id)).Nodup) :
    accepts k d j = true ↔ ∃ r ∈ runs k d, Iso r j := by
  rw [accepts_iff']
  constructor
  · rintro ⟨r, hr, _, _, hi⟩
    exact ⟨r, hr, isoB_sound r j (runs_ordered k d r hr).2 hj hi⟩
  · rintro ⟨r, hr, hiso⟩
    obtain ⟨ho, hn⟩ := runs_ordered k d r hr
    refine ⟨r, hr, ?_, ?_, isoB_complete r j hn hj ho hiso⟩
    · obtain ⟨f, hf⟩ := hiso
      simpa using hf.ids.length_eq
    · unfold typeKey
      exact typeKey_of_perm (types_perm_of_iso hj hiso)
where
  accepts_iff' : accepts k d j = true ↔ ∃ r ∈ runs k d, r.length = j.length ∧ typeKey r = typeKey j ∧ isoB r j = true := by
    unfold accepts
    simp only [List.any_eq_true, Bool.and_eq_true, beq_iff_eq]
    constructor
    · rintro ⟨r, hr, ⟨h1, h2⟩, h3⟩; exact ⟨r, hr, h1, h2, h3⟩
    · rintro ⟨r, hr, h1, h2, h3⟩; exact ⟨r, hr, ⟨h1, h2⟩, h3⟩

end O2P.Diagram
