import O2P.Lemmas.CivilCheck
namespace O2P.Time
/-- days 16000 .. 23999: the whole table, checked by the kernel -/
theorem civilTable2 : allRange 16000 8000 = true := by decide +kernel
end O2P.Time
