import O2P.Model.Store
/-! Consecutive grouping (`itertools.groupby`) — generic lemmas. -/
namespace O2P.Store

variable {α κ : Type} [DecidableEq κ]

theorem groupBy_cons (key : α → κ) (x : α) (xs : List α) :
    groupBy key (x :: xs) =
      match groupBy key xs with
      | (k, g) :: r => if key x = k then (k, x :: g) :: r else (key x, [x]) :: (k, g) :: r
      | [] => [(key x, [x])] := by
  rw [groupBy]
  cases groupBy key xs with
  | nil => rfl
  | cons p r => obtain ⟨k, g⟩ := p; rfl

/-- grouping only inserts cuts -/
theorem groupBy_flatten (key : α → κ) : ∀ (xs : List α), ((groupBy key xs).map (·.2)).flatten = xs
  | [] => rfl
  | x :: xs => by
    have ih := groupBy_flatten key xs
    rw [groupBy_cons]
    cases h : groupBy key xs with
    | nil => rw [h] at ih; simp at ih; simp [← ih]
    | cons p r =>
      obtain ⟨k, g⟩ := p
      rw [h] at ih
      simp only at ih ⊢
      split
      · simp only [List.map_cons, List.flatten_cons, List.cons_append] at ih ⊢; rw [ih]
      · simp only [List.map_cons, List.flatten_cons, List.cons_append, List.nil_append] at ih ⊢; rw [ih]

/-- every member of a group carries the group's key, and no group is empty -/
theorem groupBy_members (key : α → κ) : ∀ (xs : List α) (k : κ) (g : List α),
    (k, g) ∈ groupBy key xs → g ≠ [] ∧ ∀ x ∈ g, key x = k
  | [], _, _, h => by simp [groupBy] at h
  | x :: xs, k, g, h => by
    rw [groupBy_cons] at h
    cases hg : groupBy key xs with
    | nil =>
      rw [hg] at h
      simp only [List.mem_singleton, Prod.mk.injEq] at h
      obtain ⟨rfl, rfl⟩ := h
      exact ⟨by simp, by simp⟩
    | cons p r =>
      obtain ⟨k0, g0⟩ := p
      rw [hg] at h
      have ih0 := groupBy_members key xs k0 g0 (by rw [hg]; exact List.mem_cons_self)
      simp only at h
      split at h
      · rename_i e
        rcases List.mem_cons.mp h with h | h
        · simp only [Prod.mk.injEq] at h
          obtain ⟨rfl, rfl⟩ := h
          refine ⟨by simp, ?_⟩
          intro y hy
          rcases List.mem_cons.mp hy with rfl | hy
          · exact e
          · exact ih0.2 y hy
        · exact groupBy_members key xs k g (by rw [hg]; exact List.mem_cons_of_mem _ h)
      · rcases List.mem_cons.mp h with h | h
        · simp only [Prod.mk.injEq] at h
          obtain ⟨rfl, rfl⟩ := h
          exact ⟨by simp, by simp⟩
        · exact groupBy_members key xs k g (by rw [hg]; exact h)

/-- the key of every element is the key of some group -/
theorem groupBy_key_mem (key : α → κ) : ∀ (xs : List α) (x : α), x ∈ xs →
    key x ∈ (groupBy key xs).map (·.1)
  | [], _, h => by simp at h
  | y :: ys, x, h => by
    rw [groupBy_cons]
    cases hg : groupBy key ys with
    | nil =>
      have : ys = [] := by
        have := groupBy_flatten key ys; rw [hg] at this; simpa using this.symm
      subst this
      simp only [List.mem_singleton] at h
      subst h; simp
    | cons p r =>
      obtain ⟨k0, g0⟩ := p
      simp only
      rcases List.mem_cons.mp h with rfl | h
      · split
        · rename_i e; simp [e]
        · simp
      · have ih := groupBy_key_mem key ys x h
        rw [hg] at ih
        split
        · simpa using ih
        · simp only [List.map_cons, List.mem_cons] at ih ⊢; exact Or.inr ih

/-- the first group's key is the first element's key -/
theorem groupBy_head_key (key : α → κ) (x : α) (xs : List α) :
    ∃ g r, groupBy key (x :: xs) = (key x, g) :: r := by
  rw [groupBy_cons]
  cases groupBy key xs with
  | nil => exact ⟨[x], [], rfl⟩
  | cons p r =>
    obtain ⟨k0, g0⟩ := p
    simp only
    split
    · rename_i e; exact ⟨x :: g0, r, by rw [e]⟩
    · exact ⟨[x], (k0, g0) :: r, rfl⟩

/-- when the group keys are pairwise distinct, each group is exactly the elements with its key, in
their original order -/
theorem groupBy_eq_filter (key : α → κ) : ∀ (xs : List α), ((groupBy key xs).map (·.1)).Nodup →
    ∀ k g, (k, g) ∈ groupBy key xs → g = xs.filter (fun x => key x = k)
  | [], _, k, g, h => by simp [groupBy] at h
  | x :: xs, hnd, k, g, h => by
    rw [groupBy_cons] at h hnd
    cases hg : groupBy key xs with
    | nil =>
      have hx : xs = [] := by
        have := groupBy_flatten key xs; rw [hg] at this; simpa using this.symm
      rw [hg] at h
      simp only [List.mem_singleton, Prod.mk.injEq] at h
      obtain ⟨rfl, rfl⟩ := h
      simp [hx]
    | cons p r =>
      obtain ⟨k0, g0⟩ := p
      rw [hg] at h hnd
      simp only at h hnd
      split at h
      · rename_i e
        rw [if_pos e] at hnd
        have hnd' : ((groupBy key xs).map (·.1)).Nodup := by rw [hg]; simpa using hnd
        have ih := groupBy_eq_filter key xs hnd'
        rcases List.mem_cons.mp h with h | h
        · simp only [Prod.mk.injEq] at h
          obtain ⟨rfl, rfl⟩ := h
          have := ih k g0 (by rw [hg]; exact List.mem_cons_self)
          simp [List.filter_cons, e, ← this]
        · have hk : k ≠ k0 := by
            intro ek
            simp only [List.map_cons, List.nodup_cons] at hnd
            exact hnd.1 (ek ▸ List.mem_map.mpr ⟨(k, g), h, rfl⟩)
          have := ih k g (by rw [hg]; exact List.mem_cons_of_mem _ h)
          have hx : ¬ key x = k := fun e2 => hk (e2 ▸ e.symm ▸ rfl)
          simp [List.filter_cons, hx, ← this]
      · rename_i e
        rw [if_neg e] at hnd
        simp only [List.map_cons, List.nodup_cons] at hnd
        have hnd' : ((groupBy key xs).map (·.1)).Nodup := by rw [hg]; simpa using hnd.2
        have ih := groupBy_eq_filter key xs hnd'
        rcases List.mem_cons.mp h with h | h
        · simp only [Prod.mk.injEq] at h
          obtain ⟨rfl, rfl⟩ := h
          have hnone : xs.filter (fun y => key y = key x) = [] := by
            apply List.filter_eq_nil_iff.mpr
            intro y hy hky
            have := groupBy_key_mem key xs y hy
            rw [hg] at this
            simp only [decide_eq_true_eq] at hky
            rw [hky] at this
            exact hnd.1 (by simpa using this)
          simp [List.filter_cons, hnone]
        · have hk : k ≠ key x := by
            intro ek
            apply hnd.1
            rw [← ek]
            have hm : k ∈ ((k0, g0) :: r).map (·.1) := List.mem_map.mpr ⟨(k, g), h, rfl⟩
            simpa using hm
          have := ih k g (by rw [hg]; exact h)
          have hx : ¬ key x = k := fun e2 => hk e2.symm
          simp [List.filter_cons, hx, ← this]

end O2P.Store
