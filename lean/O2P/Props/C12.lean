import O2P.Lemmas.GroupBy
/-!
# C12 — every stored trace is streamed once, whole, under one workflow name
Theorems about `Store.stream` for every store and every optional filter.  The batch size does not
occur in the model (cursor batching is runtime behaviour; the correspondence varies it).
-/
namespace O2P.Store

/-- the order of `ORDER BY job_name, job_id` -/
def nodeLe (m n : Node) : Prop :=
  m.jobName < n.jobName ∨ (m.jobName = n.jobName ∧ m.jobId ≤ n.jobId)

theorem str_le_iff (a b : String) : (a < b ∨ a = b) ↔ a ≤ b := by
  constructor
  · rintro (h | rfl)
    · exact String.not_lt.mp (String.lt_asymm h)
    · exact String.le_refl _
  · intro h
    by_cases e : a = b
    · exact Or.inr e
    · left
      apply Decidable.by_contra
      intro hn
      exact e (String.le_antisymm h (String.not_lt.mp hn))

theorem insertSorted_cond_true (m n : Node)
    (h : ((decide (m.jobName < n.jobName)) || (m.jobName == n.jobName && decide (m.jobId < n.jobId))) = true) :
    nodeLe m n := by
  simp only [Bool.or_eq_true, Bool.and_eq_true, decide_eq_true_eq, beq_iff_eq] at h
  rcases h with h | ⟨e, h⟩
  · exact Or.inl h
  · exact Or.inr ⟨e, String.not_lt.mp (String.lt_asymm h)⟩

theorem insertSorted_cond_false (m n : Node)
    (h : ¬ ((decide (m.jobName < n.jobName)) || (m.jobName == n.jobName && decide (m.jobId < n.jobId))) = true) :
    nodeLe n m := by
  simp only [Bool.or_eq_true, Bool.and_eq_true, decide_eq_true_eq, beq_iff_eq, not_or, not_and] at h
  by_cases h2 : n.jobName < m.jobName
  · exact Or.inl h2
  · have e : m.jobName = n.jobName :=
      String.le_antisymm (String.not_lt.mp h2) (String.not_lt.mp h.1)
    exact Or.inr ⟨e.symm, String.not_lt.mp (h.2 e)⟩

theorem nodeLe_total (m n : Node) : nodeLe m n ∨ nodeLe n m := by
  unfold nodeLe
  by_cases h1 : m.jobName < n.jobName
  · exact Or.inl (Or.inl h1)
  · by_cases h2 : n.jobName < m.jobName
    · exact Or.inr (Or.inl h2)
    · have e : m.jobName = n.jobName :=
        String.le_antisymm (String.not_lt.mp h2) (String.not_lt.mp h1)
      rcases String.le_total m.jobId n.jobId with h | h
      · exact Or.inl (Or.inr ⟨e, h⟩)
      · exact Or.inr (Or.inr ⟨e.symm, h⟩)

theorem nodeLe_trans {a b c : Node} (h1 : nodeLe a b) (h2 : nodeLe b c) : nodeLe a c := by
  unfold nodeLe at *
  rcases h1 with h1 | ⟨e1, h1⟩ <;> rcases h2 with h2 | ⟨e2, h2⟩
  · exact Or.inl (String.lt_trans h1 h2)
  · exact Or.inl (e2 ▸ h1)
  · exact Or.inl (e1 ▸ h2)
  · exact Or.inr ⟨e1.trans e2, String.le_trans h1 h2⟩

open List in
theorem insertSorted_perm (n : Node) : ∀ (l : List Node), insertSorted n l ~ n :: l
  | [] => Perm.refl _
  | m :: ms => by
    unfold insertSorted
    split
    · exact (Perm.cons m (insertSorted_perm n ms)).trans (Perm.swap n m ms)
    · exact Perm.refl _

open List in
/-- sorting for the stream neither loses nor duplicates a span -/
theorem sortNodes_perm : ∀ (l : List Node), sortNodes l ~ l
  | [] => Perm.refl _
  | n :: ns => (insertSorted_perm n (sortNodes ns)).trans (Perm.cons n (sortNodes_perm ns))

theorem insertSorted_sorted (n : Node) : ∀ (l : List Node), l.Pairwise nodeLe →
    (insertSorted n l).Pairwise nodeLe
  | [], _ => by simp [insertSorted]
  | m :: ms, h => by
    have hm := List.pairwise_cons.mp h
    unfold insertSorted
    split
    · rename_i hc
      have hmn : nodeLe m n := insertSorted_cond_true m n hc
      refine List.pairwise_cons.mpr ⟨?_, insertSorted_sorted n ms hm.2⟩
      intro x hx
      rcases List.mem_cons.mp ((insertSorted_perm n ms).subset hx) with rfl | hx
      · exact hmn
      · exact hm.1 x hx
    · rename_i hc
      have hnm : nodeLe n m := insertSorted_cond_false m n hc
      refine List.pairwise_cons.mpr ⟨?_, h⟩
      intro x hx
      rcases List.mem_cons.mp hx with rfl | hx
      · exact hnm
      · exact nodeLe_trans hnm (hm.1 x hx)

theorem sortNodes_sorted : ∀ (l : List Node), (sortNodes l).Pairwise nodeLe
  | [] => by simp [sortNodes]
  | n :: ns => insertSorted_sorted n _ (sortNodes_sorted ns)

/-- over a list whose keys never decrease, the keys of consecutive groups strictly increase -/
theorem groupBy_keys_increasing {α : Type} (key : α → String) : ∀ (xs : List α),
    xs.Pairwise (fun a b => key a ≤ key b) → ((groupBy key xs).map (·.1)).Pairwise (· < ·)
  | [], _ => by simp [groupBy]
  | x :: xs, h => by
    have hx := List.pairwise_cons.mp h
    have ih := groupBy_keys_increasing key xs hx.2
    rw [groupBy_cons]
    cases hg : groupBy key xs with
    | nil => simp
    | cons p r =>
      obtain ⟨k0, g0⟩ := p
      rw [hg] at ih
      simp only
      -- k0 is the key of the head of xs
      have hk0 : key x ≤ k0 := by
        cases xs with
        | nil => simp [groupBy] at hg
        | cons y ys =>
          obtain ⟨g, r', e⟩ := groupBy_head_key key y ys
          rw [e] at hg
          simp only [List.cons.injEq, Prod.mk.injEq] at hg
          rw [← hg.1.1]
          exact hx.1 y List.mem_cons_self
      split
      · simpa using ih
      · rename_i e
        simp only [List.map_cons] at ih ⊢
        refine List.pairwise_cons.mpr ⟨?_, ih⟩
        have hlt : key x < k0 := by
          rcases (str_le_iff _ _).mpr hk0 with h' | h'
          · exact h'
          · exact absurd h' e
        intro k hk
        rcases List.mem_cons.mp hk with rfl | hk
        · exact hlt
        · exact String.lt_trans hlt ((List.pairwise_cons.mp ih).1 k hk)

theorem pairwise_lt_nodup : ∀ (l : List String), l.Pairwise (· < ·) → l.Nodup
  | [], _ => List.nodup_nil
  | x :: xs, h => by
    have hx := List.pairwise_cons.mp h
    refine List.nodup_cons.mpr ⟨fun hm => String.lt_irrefl x (hx.1 x hm), pairwise_lt_nodup xs hx.2⟩

/-- consecutive groups always differ in their key -/
theorem groupBy_keys_chain {α : Type} (key : α → String) (xs : List α)
    (h : xs.Pairwise (fun a b => key a ≤ key b)) : ((groupBy key xs).map (·.1)).Nodup :=
  pairwise_lt_nodup _ (groupBy_keys_increasing key xs h)

/-- the rows the stream selects, in `ORDER BY job_name, job_id` order -/
def selected (s : Store) (filt : Option (List (String × List String))) : List Node :=
  sortNodes (s.nodes.filter (passes filt))

theorem selected_names_sorted (s : Store) (filt) :
    (selected s filt).Pairwise (fun a b => a.jobName ≤ b.jobName) := by
  refine (sortNodes_sorted _).imp ?_
  intro a b h
  rcases h with h | ⟨e, _⟩
  · exact String.not_lt.mp (String.lt_asymm h)
  · exact e ▸ String.le_refl _

open List in
/-- **Nothing dropped, nothing duplicated**: the spans streamed, all groups flattened, are a
permutation of the stored spans that pass the filter. -/
theorem stream_flatten_perm (s : Store) (filt : Option (List (String × List String))) :
    (((stream s filt).map fun p => (p.2.map (·.2)).flatten).flatten) ~ s.nodes.filter (passes filt) := by
  have h1 : ((stream s filt).map fun p => (p.2.map (·.2)).flatten) =
      (groupBy (·.jobName) (selected s filt)).map (·.2) := by
    simp only [stream, selected, List.map_map]
    apply List.map_congr_left
    intro p _
    exact groupBy_flatten _ _
  rw [h1, groupBy_flatten]
  exact sortNodes_perm _

/-- **Each workflow name once.** -/
theorem stream_names_nodup (s : Store) (filt : Option (List (String × List String))) :
    ((stream s filt).map (·.1)).Nodup := by
  have : (stream s filt).map (·.1) = (groupBy (·.jobName) (selected s filt)).map (·.1) := by
    simp [stream, selected, List.map_map, Function.comp_def]
  rw [this]
  exact groupBy_keys_chain _ _ (selected_names_sorted s filt)

/-- **Each trace once and whole**: under a name every trace id occurs once, and the group streamed for
`(name, trace id)` is exactly the selected spans with that name and that trace id — none missing, none
from another trace or workflow. -/
theorem stream_group_spec (s : Store) (filt : Option (List (String × List String)))
    (nm : String) (jobs : List (String × List Node)) (h : (nm, jobs) ∈ stream s filt) :
    (jobs.map (·.1)).Nodup ∧
    ∀ jid g, (jid, g) ∈ jobs →
      g = (selected s filt).filter (fun n => decide (n.jobName = nm) && decide (n.jobId = jid)) := by
  simp only [stream, List.mem_map] at h
  obtain ⟨⟨nm', grp⟩, hmem, e⟩ := h
  simp only [Prod.mk.injEq] at e
  obtain ⟨rfl, rfl⟩ := e
  have hnd := groupBy_keys_chain (fun n : Node => n.jobName) _ (selected_names_sorted s filt)
  have hgrp := groupBy_eq_filter (fun n : Node => n.jobName) (selected s filt) hnd nm' grp hmem
  -- inside a name group trace ids never decrease
  have hsorted : grp.Pairwise (fun a b : Node => a.jobId ≤ b.jobId) := by
    rw [hgrp]
    have := (sortNodes_sorted (s.nodes.filter (passes filt))).filter (fun x => decide (x.jobName = nm'))
    refine (List.Pairwise.and_mem.mp this).imp ?_
    rintro a b ⟨ha, hb, hab⟩
    have ea : a.jobName = nm' := by simpa using (List.mem_filter.mp ha).2
    have eb : b.jobName = nm' := by simpa using (List.mem_filter.mp hb).2
    rcases hab with hab | ⟨_, hab⟩
    · rw [ea, eb] at hab; exact absurd hab (String.lt_irrefl _)
    · exact hab
  have hnd2 := groupBy_keys_chain (fun n : Node => n.jobId) grp hsorted
  refine ⟨hnd2, ?_⟩
  intro jid g hg
  have := groupBy_eq_filter (fun n : Node => n.jobId) grp hnd2 jid g hg
  rw [this, hgrp, List.filter_filter]
  apply List.filter_congr
  intro x _
  simp [Bool.and_comm]

/-- an empty filter map streams everything, like no filter (Python truthiness of `{}`) -/
theorem stream_filter_empty (s : Store) : stream s (some []) = stream s none := by
  have : passes (some []) = passes none := by funext n; rfl
  simp only [stream, this]

/-- non-vacuity: two names, interleaved storage -/
example :
    let a : Node := ⟨"w2", "j1", "T", "a", 1, 2, "app", none⟩
    let b : Node := ⟨"w1", "j1", "T", "b", 1, 2, "app", none⟩
    let c : Node := ⟨"w2", "j1", "T", "c", 1, 2, "app", some "a"⟩
    stream ⟨[a, b, c], [("a", "c")], []⟩ none = [("w1", [("j1", [b])]), ("w2", [("j1", [a, c])])] := by
  decide

end O2P.Store
