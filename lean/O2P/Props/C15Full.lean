import O2P.Lemmas.Rerun
/-!
# C15 — the answer clause in full
`rerun_same_answer`: when the first, ingesting run on an empty database computes a window, every later run on
whatever it left behind (up to hash rows) — ingesting the same input again or not, with or without unique
graphs, with any batch size — ends with the status a fresh run with the same unique flag has and leaves the
same spans and links (hence streams the same PV sequences), and in unique-graph mode the same hash rows
(hence the same shape classes).  `history_same_answer` lifts this to every history of runs.

Hypotheses, each needed: parents are local to their trace in the input (otherwise a kept span may hang below a
removed one and a second cleaning removes it); for runs that do not ingest, every input span lies inside
the widest window such a run computes (true for real nanosecond timestamps and buffers of minutes).
-/
namespace O2P.Store

theorem computeHashes_window (w w' : Int × Int) (s : Store)
    (h : ∀ n ∈ s.nodes, (jobsInWindow w s.nodes).contains n.jobId = (jobsInWindow w' s.nodes).contains n.jobId) :
    computeHashes w s = computeHashes w' s := by
  unfold computeHashes
  have : (s.nodes.filter fun n => n.parent.isNone && (jobsInWindow w s.nodes).contains n.jobId) =
      (s.nodes.filter fun n => n.parent.isNone && (jobsInWindow w' s.nodes).contains n.jobId) := by
    apply List.filter_congr
    intro n hn
    rw [h n hn]
  simp only [this]

theorem jobsInWindow_of_mem (w : Int × Int) (ns : List Node) (n : Node) (hn : n ∈ ns) (hw : inWindow w n = true) :
    (jobsInWindow w ns).contains n.jobId = true := by
  unfold jobsInWindow
  simp only [List.contains_iff_mem, List.mem_map, List.mem_filter]
  exact ⟨n, ⟨hn, hw⟩, rfl⟩

/-- every span of the cleaned store belongs to a trace that touches the first run's window -/
theorem cleaned_touches (w : Int × Int) (s0 : Store) (n : Node) (hn : n ∈ renameNodes (kept w s0)) :
    (jobsInWindow w (renameNodes (kept w s0))).contains n.jobId = true := by
  obtain ⟨k, hk, e⟩ := renamed_from _ n hn
  have hkeep : keepJob w s0 k.jobId = true := (List.mem_filter.mp hk).2
  unfold keepJob at hkeep
  simp only [Bool.and_eq_true, List.any_eq_true, beq_iff_eq] at hkeep
  obtain ⟨_, m, hm, hmj, hmw⟩ := hkeep
  have hmk : m ∈ kept w s0 := by
    rw [mem_kept_iff w s0 m hm, hmj]
    exact (List.mem_filter.mp hk).2
  obtain ⟨m', hm', e'⟩ := renamed_to _ m hmk
  have := jobsInWindow_of_mem w _ m' hm' (by rw [inWindow_core w e']; exact hmw)
  rw [core_job e', hmj, ← core_job e] at this
  exact this

/-- the store the first run leaves (before any hash rows) -/
def firstStore (w : Int × Int) (es : List Node) : Store :=
  renameByRoot (removals w (ingestSpec Store.empty es))

theorem firstStore_nodes (w : Int × Int) (es : List Node) :
    (firstStore w es).nodes = renameNodes (kept w (ingestSpec Store.empty es)) := by
  unfold firstStore
  rw [renameByRoot_nodes', removals_keepJob w _ (ingestSpec_inv _ inv_empty es) (ingestSpec_faithful es)]
  rfl

theorem firstStore_inv (w : Int × Int) (es : List Node) : Inv (firstStore w es) ∧ Faithful (firstStore w es) :=
  clean_inv w _ (ingestSpec_inv _ inv_empty es) (ingestSpec_faithful es)

/-- a fresh run on an empty database, in closed form -/
theorem fresh_run (buffer : Int) (es : List Node) (w : Int × Int) (hw : runWindow buffer true es = some w)
    (uq : Bool) :
    runSpec buffer true uq es Store.empty =
      if uq then (match computeHashes w (firstStore w es) with
        | none => (firstStore w es, .integrity)
        | some s3 => (s3, .ok))
      else (firstStore w es, .ok) := by
  unfold runSpec
  simp only [if_true, hw]
  rfl

/-- **C15 (same answer, one later run)** -/
theorem rerun_same_answer (buffer : Int) (es : List Node) (w w' : Int × Int)
    (hw : runWindow buffer true es = some w) (hw' : runWindow buffer false es = some w')
    (hpl : ParentLocal (firstOcc es)) (hwin : ∀ n ∈ es, inWindow w' n = true)
    (t : Store) (ht : SameNA t (firstStore w es)) (ing uq : Bool) :
    (runSpec buffer ing uq es t).2 = (runSpec buffer true uq es Store.empty).2 ∧
    SameNA (runSpec buffer ing uq es t).1 (runSpec buffer true uq es Store.empty).1 ∧
    (uq = true → (runSpec buffer true uq es Store.empty).2 = .ok →
      (runSpec buffer ing uq es t).1.hashes = (runSpec buffer true uq es Store.empty).1.hashes) := by
  obtain ⟨fi, ff⟩ := firstStore_inv w es
  have hi : Inv t := inv_of_sameNA ht fi
  have hf : Faithful t := faithful_of_sameNA ht ff
  have htn : t.nodes = renameNodes (kept w (ingestSpec Store.empty es)) := by rw [ht.1, firstStore_nodes]
  -- the store after cleaning in this run, and the window it used
  have key : ∃ (wx : Int × Int) (X : Store),
      runSpec buffer ing uq es t = (if uq then (match computeHashes wx X with
          | none => (X, RunStatus.integrity)
          | some s3 => (s3, RunStatus.ok)) else (X, RunStatus.ok)) ∧
      SameNA X (firstStore w es) ∧ computeHashes wx X = computeHashes w (firstStore w es) := by
    cases ing with
    | true =>
      refine ⟨w, renameByRoot (removals w (ingestSpec t es)), ?_, ?_, ?_⟩
      · unfold runSpec; simp only [if_true, hw]; rfl
      · obtain ⟨a, b⟩ := reingest_fixpoint w es t htn hi hf
        exact ⟨a.trans ht.1, b.trans ht.2⟩
      · apply sameNA_computeHashes
        obtain ⟨a, b⟩ := reingest_fixpoint w es t htn hi hf
        exact ⟨a.trans ht.1, b.trans ht.2⟩
    | false =>
      refine ⟨w', renameByRoot (removals w' t), ?_, ?_, ?_⟩
      · unfold runSpec; simp only [Bool.false_eq_true, if_false, hw']; rfl
      · obtain ⟨a, b⟩ := noingest_fixpoint w w' es t htn hi hf hpl hwin
        exact ⟨a.trans ht.1, b.trans ht.2⟩
      · obtain ⟨a, b⟩ := noingest_fixpoint w w' es t htn hi hf hpl hwin
        have sna : SameNA (renameByRoot (removals w' t)) (firstStore w es) := ⟨a.trans ht.1, b.trans ht.2⟩
        rw [sameNA_computeHashes w' _ _ sna]
        apply computeHashes_window
        intro n hn
        rw [firstStore_nodes] at hn ⊢
        rw [cleaned_touches w _ n hn]
        -- the span itself lies inside the widest window
        obtain ⟨k, hk, e⟩ := renamed_from _ n hn
        have hs0 : (ingestSpec Store.empty es).nodes = firstOcc es := by
          show Store.empty.nodes ++ newNodes Store.empty es = _
          rw [newNodes_empty]; rfl
        have hkin := hwin k (firstOcc_sub' es k (hs0 ▸ kept_sub _ _ k hk))
        exact jobsInWindow_of_mem w' _ n hn (by rw [inWindow_core w' e]; exact hkin)
  obtain ⟨wx, X, hrun, hsna, hch⟩ := key
  rw [hrun, fresh_run buffer es w hw uq]
  cases uq with
  | false => exact ⟨rfl, hsna, by intro h; exact absurd h (by decide)⟩
  | true =>
    simp only [if_true, hch]
    cases computeHashes w (firstStore w es) with
    | none => exact ⟨rfl, hsna, fun _ h => by simp at h⟩
    | some s3 => exact ⟨rfl, ⟨rfl, rfl⟩, fun _ _ => rfl⟩

theorem fresh_sameNA (buffer : Int) (es : List Node) (w : Int × Int) (hw : runWindow buffer true es = some w)
    (uq : Bool) : SameNA (runSpec buffer true uq es Store.empty).1 (firstStore w es) := by
  rw [fresh_run buffer es w hw uq]
  cases uq with
  | false => exact ⟨rfl, rfl⟩
  | true =>
    simp only [if_true]
    cases hc : computeHashes w (firstStore w es) with
    | none => exact ⟨rfl, rfl⟩
    | some s3 => exact computeHashes_frame w _ s3 hc

theorem SameNA.trans {a b c : Store} (h1 : SameNA a b) (h2 : SameNA b c) : SameNA a c :=
  ⟨h1.1.trans h2.1, h1.2.trans h2.2⟩

/-- every run of a history answers like a fresh run: `(batch size, ingest, unique)` per run -/
def AllSame (buffer : Int) (es : List Node) : List (Nat × Bool × Bool) → Store → Prop
  | [], _ => True
  | (b, ing, uq) :: rest, t =>
    (runOnce b buffer ing uq es t).2 = (runSpec buffer true uq es Store.empty).2 ∧
    SameNA (runOnce b buffer ing uq es t).1 (runSpec buffer true uq es Store.empty).1 ∧
    (uq = true → (runSpec buffer true uq es Store.empty).2 = .ok →
      (runOnce b buffer ing uq es t).1.hashes = (runSpec buffer true uq es Store.empty).1.hashes) ∧
    AllSame buffer es rest (runOnce b buffer ing uq es t).1

/-- **C15 (same answer, every history)**: after a first ingesting run that computed a window, every
history of later runs — any batch sizes, ingesting again or not, unique graphs or not — gives, run by run,
the status, the spans and links (hence the PV sequences) and in unique-graph mode the hash rows (hence the
shape classes) of a fresh run with the same unique flag on an empty database. -/
theorem history_same_answer (buffer : Int) (es : List Node) (w w' : Int × Int)
    (hw : runWindow buffer true es = some w) (hw' : runWindow buffer false es = some w')
    (hpl : ParentLocal (firstOcc es)) (hwin : ∀ n ∈ es, inWindow w' n = true) :
    ∀ (fl : List (Nat × Bool × Bool)) (t : Store), SameNA t (firstStore w es) → AllSame buffer es fl t
  | [], _, _ => trivial
  | (b, ing, uq) :: rest, t, ht => by
    have hi : Inv t := inv_of_sameNA ht (firstStore_inv w es).1
    have h := rerun_same_answer buffer es w w' hw hw' hpl hwin t ht ing uq
    unfold AllSame
    rw [runOnce_eq_spec b buffer ing uq es t hi]
    refine ⟨h.1, h.2.1, h.2.2, ?_⟩
    exact history_same_answer buffer es w w' hw hw' hpl hwin rest _
      (h.2.1.trans (fresh_sameNA buffer es w hw uq))

/-- the first run itself, with any batch size and unique flag, leaves a store the theorem applies to -/
theorem first_run_sameNA (batch : Nat) (buffer : Int) (es : List Node) (w : Int × Int)
    (hw : runWindow buffer true es = some w) (uq : Bool) :
    SameNA (runOnce batch buffer true uq es Store.empty).1 (firstStore w es) := by
  rw [runOnce_eq_spec batch buffer true uq es Store.empty inv_empty]
  exact fresh_sameNA buffer es w hw uq

/-! ### non-vacuity: the hypotheses hold for a realistic input, and the conclusion is not trivial -/

private def sp (j id typ : String) (st en : Int) (p : Option String) : Node := ⟨"wf", j, typ, id, st, en, "app", p⟩

example :
    let T : Int := 1700000000000000000
    let es := [sp "t1" "r1" "R" T (T + 90) none, sp "t1" "a1" "A" (T + 10) (T + 20) (some "r1"),
               sp "t2" "r2" "R" (T + 100) (T + 190) none, sp "t2" "d2" "D" (T + 110) (T + 120) (some "lost")]
    runWindow 0 true es = some (T, T + 190) ∧ runWindow 0 false es = some (0, maxInt64) ∧
    (es.all fun n => inWindow (0, maxInt64) n) = true ∧
    ((firstStore (T, T + 190) es).nodes.map (·.id)) = ["r1", "a1"] := by
  decide

end O2P.Store
