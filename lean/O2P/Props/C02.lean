import O2P.Props.C01
/-!
# C02 — the learned diagram admits nothing beyond a complete sample (partial)
`C02_full` is the statement; the learner is not modelled.  `subset_sound`: when the membership test
finds no rejected job among *all* jobs of the learned diagram, every job of the learned diagram (loops
up to `k`) is a job of the source up to isomorphism.
-/
namespace O2P.Diagram

def C02_full (inF : Blk → Prop) (learn : List Job → String → Prop) : Prop :=
  ∀ d, inF d → ∀ text, learn (runs 2 d) text →
    ∃ d', parse text = .ok d' ∧ ∀ j ∈ runs 2 d', accepts 2 d j = true

/-- the membership test over a list of jobs -/
def rejectedBy (k : Nat) (source : Blk) (jobs : List Job) : List Job := jobs.filter fun j => !accepts k source j

theorem subset_sound (k : Nat) (learned source : Blk) (h : rejectedBy k source (runs k learned) = []) :
    ∀ j ∈ runs k learned, ∃ r ∈ runs k source, isoB r j = true := by
  intro j hj
  have : accepts k source j = true := by
    have := List.filter_eq_nil_iff.mp h j hj
    simpa using this
  obtain ⟨r, hr, _, _, hi⟩ := (accepts_iff k source j).mp this
  exact ⟨r, hr, hi⟩

/-- non-vacuity: XOR(B|C) admits nothing beyond AND(B,C)'s… no: the AND job is rejected by the XOR source -/
example :
    rejectedBy 1 (.seq [.ev "A", .fork .xor [.seq [.ev "B"], .seq [.ev "C"]]])
      (runs 1 (.seq [.ev "A", .fork .or [.seq [.ev "B"], .seq [.ev "C"]]])) =
      [[⟨0, "A", []⟩, ⟨1, "B", [0]⟩, ⟨2, "C", [0]⟩]] := by decide +kernel

end O2P.Diagram
