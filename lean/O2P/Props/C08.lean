import O2P.Model.Seq
/-!
# C08 — call trees are sequenced exactly as the sequencing rules specify
Property theorems about the sequencer model `O2P.Seq` (all finite span trees, all configurations).
-/
namespace O2P.Seq

variable {α : Type}

/-! ### the overlap sweep -/

theorem sweepGo_flatten (start stop : α → Int) (cur : List α) (mx : Int) (gs : List (List α)) :
    (sweepGo start stop cur mx gs).flatten = cur ++ gs.flatten := by
  induction gs generalizing cur mx with
  | nil => simp [sweepGo]
  | cons g gs ih =>
    unfold sweepGo
    split
    · simp [ih]
    · simp [ih, List.append_assoc]

/-- The sweep only regroups: no span is lost, duplicated or reordered. -/
theorem sweep_flatten (start stop : α → Int) (gs : List (List α)) :
    (sweep start stop gs).flatten = gs.flatten := by
  cases gs with
  | nil => rfl
  | cons g gs => simp [sweep, sweepGo_flatten]

theorem foldl_max_append (stop : α → Int) (m : Int) (l r : List α) :
    (l ++ r).foldl (fun m y => max m (stop y)) m = r.foldl (fun m y => max m (stop y)) (l.foldl (fun m y => max m (stop y)) m) := by
  simp [List.foldl_append]

theorem foldl_max_init (stop : α → Int) (a b : Int) (l : List α) :
    l.foldl (fun m y => max m (stop y)) (max a b) = max a (l.foldl (fun m y => max m (stop y)) b) := by
  induction l generalizing b with
  | nil => simp
  | cons x xs ih =>
    simp only [List.foldl_cons]
    rw [Int.max_assoc, ih]

/-- the latest end of a chain extended by a (non-empty) group -/
theorem maxStop_append (stop : α → Int) (g h : List α) (hg : g ≠ []) (hh : h ≠ []) :
    maxStop stop (g ++ h) = max (maxStop stop g) (maxStop stop h) := by
  cases g with
  | nil => exact absurd rfl hg
  | cons x xs =>
    cases h with
    | nil => exact absurd rfl hh
    | cons y ys =>
      simp only [maxStop, List.cons_append, List.foldl_append, List.foldl_cons]
      rw [foldl_max_init]

theorem sweepGo_eq_spec (start stop : α → Int) (cur : List α) (gs : List (List α))
    (hc : cur ≠ []) (hne : ∀ g ∈ gs, g ≠ []) :
    sweepGo start stop cur (maxStop stop cur) gs = sweepSpec start stop (cur :: gs) := by
  induction gs generalizing cur with
  | nil => simp [sweepGo, sweepSpec]
  | cons g gs ih =>
    have hg : g ≠ [] := hne g (List.mem_cons_self)
    have hne' : ∀ g' ∈ gs, g' ≠ [] := fun g' h' => hne g' (List.mem_cons_of_mem _ h')
    unfold sweepGo
    rw [sweepSpec]
    split
    · rw [ih g hg hne']
    · rw [← maxStop_append stop cur g hc hg]
      rw [ih (cur ++ g) (by simp [hc]) hne']

/-- **The running maximum is the latest end of the chain**: the sweep with its accumulator equals the
accumulator-free specification, for every list of non-empty groups. -/
theorem sweep_eq_spec (start stop : α → Int) (gs : List (List α)) (hne : ∀ g ∈ gs, g ≠ []) :
    sweep start stop gs = sweepSpec start stop gs := by
  cases gs with
  | nil => simp [sweep, sweepSpec]
  | cons g gs =>
    simp only [sweep]
    exact sweepGo_eq_spec start stop g gs (hne g List.mem_cons_self)
      (fun g' h' => hne g' (List.mem_cons_of_mem _ h'))

theorem le_foldl_max (stop : α → Int) (m : Int) (l : List α) :
    m ≤ l.foldl (fun m y => max m (stop y)) m ∧ ∀ a ∈ l, stop a ≤ l.foldl (fun m y => max m (stop y)) m := by
  induction l generalizing m with
  | nil => simp
  | cons x xs ih =>
    simp only [List.foldl_cons, List.mem_cons, forall_eq_or_imp]
    have h1 := (ih (max m (stop x))).1
    have h2 := (ih (max m (stop x))).2
    refine ⟨by omega, by omega, h2⟩

theorem le_maxStop (stop : α → Int) (l : List α) : ∀ a ∈ l, stop a ≤ maxStop stop l := by
  cases l with
  | nil => simp
  | cons x xs =>
    intro a ha
    simp only [maxStop]
    have := le_foldl_max stop (stop x) xs
    rcases List.mem_cons.mp ha with rfl | h
    · exact this.1
    · exact this.2 a h

/-- consecutive groups `A`, `B` of a sweep result: every span of `A` ends before `B` starts -/
def Separated (start stop : α → Int) : List (List α) → Prop
  | [] => True
  | [_] => True
  | a :: b :: r => (∀ x ∈ a, stop x < headKey start b) ∧ Separated start stop (b :: r)

theorem sweepGo_head (start stop : α → Int) (cur : List α) (mx : Int) (gs : List (List α)) :
    ∃ t r, sweepGo start stop cur mx gs = (cur ++ t) :: r := by
  induction gs generalizing cur mx with
  | nil => exact ⟨[], [], by simp [sweepGo]⟩
  | cons g gs ih =>
    unfold sweepGo
    split
    · exact ⟨[], sweepGo start stop g (maxStop stop g) gs, by simp⟩
    · obtain ⟨t, r, h⟩ := ih (cur ++ g) (max mx (maxStop stop g))
      exact ⟨g ++ t, r, by rw [h, List.append_assoc]⟩

theorem headKey_append (key : α → Int) (a t : List α) (ha : a ≠ []) :
    headKey key (a ++ t) = headKey key a := by
  cases a with
  | nil => exact absurd rfl ha
  | cons x xs => rfl

theorem sweepGo_separated (start stop : α → Int) (cur : List α) (mx : Int) (gs : List (List α))
    (hb : ∀ x ∈ cur, stop x ≤ mx) (hne : ∀ g ∈ gs, g ≠ []) :
    Separated start stop (sweepGo start stop cur mx gs) := by
  induction gs generalizing cur mx with
  | nil => simp [sweepGo, Separated]
  | cons g gs ih =>
    have hg : g ≠ [] := hne g List.mem_cons_self
    have hne' : ∀ g' ∈ gs, g' ≠ [] := fun g' h' => hne g' (List.mem_cons_of_mem _ h')
    unfold sweepGo
    split
    · rename_i hlt
      obtain ⟨t, r, h⟩ := sweepGo_head start stop g (maxStop stop g) gs
      have ih' := ih g (maxStop stop g) (le_maxStop stop g) hne'
      rw [h] at ih' ⊢
      refine ⟨?_, ih'⟩
      intro x hx
      rw [headKey_append start g t hg]
      have := hb x hx
      omega
    · apply ih _ _ _ hne'
      intro x hx
      rcases List.mem_append.mp hx with h | h
      · have := hb x h; omega
      · have := le_maxStop stop g x h; omega

/-- **No overlap across a cut**: in the result of the sweep every span of a group ends strictly
before the next group starts (so spans of different groups never run in parallel), for every list
of non-empty groups. -/
theorem sweep_separated (start stop : α → Int) (gs : List (List α)) (hne : ∀ g ∈ gs, g ≠ []) :
    Separated start stop (sweep start stop gs) := by
  cases gs with
  | nil => simp [sweep, Separated]
  | cons g gs =>
    exact sweepGo_separated start stop g (maxStop stop g) gs (le_maxStop stop g)
      (fun g' h' => hne g' (List.mem_cons_of_mem _ h'))

/-- **No missed cut**: a group of the specification is only ever extended by a group that starts no
later than the latest end of the chain so far (`sweepSpec` merges exactly in that case); together with
`sweep_eq_spec` this says the groups are the chains of overlapping windows. -/
theorem sweepSpec_merge (start stop : α → Int) (g h : List α) (gs : List (List α))
    (hov : headKey start h ≤ maxStop stop g) :
    sweepSpec start stop (g :: h :: gs) = sweepSpec start stop ((g ++ h) :: gs) := by
  rw [sweepSpec]
  split
  · omega
  · rfl

/-- the unrepaired sweep (comparison with the last appended span) separates C[30,40] from A[0,100]
although they overlap: the counterexample of the `fix:` commit -/
theorem sweepOld_cex :
    let A : Span := ⟨"A", "T", 0, 100⟩
    let B : Span := ⟨"B", "T", 10, 20⟩
    let C : Span := ⟨"C", "T", 30, 40⟩
    sweepOld Span.start Span.stop [[A], [B], [C]] = [[A, B], [C]] ∧
    sweep Span.start Span.stop [[A], [B], [C]] = [[A, B, C]] := by decide

/-! ### arranging siblings is a permutation -/

open List in
theorem insertBy_perm (key : α → Int) (x : α) (l : List α) : insertBy key x l ~ x :: l := by
  induction l with
  | nil => exact Perm.refl _
  | cons y ys ih =>
    unfold insertBy
    split
    · exact (Perm.cons y ih).trans (Perm.swap x y ys)
    · exact Perm.refl _

open List in
theorem sortBy_perm (key : α → Int) (l : List α) : sortBy key l ~ l := by
  induction l with
  | nil => exact Perm.refl _
  | cons x xs ih =>
    show insertBy key x (sortBy key xs) ~ x :: xs
    exact (insertBy_perm key x _).trans (Perm.cons x ih)

open List in
theorem flatten_map_perm (f : List α → List α) (hf : ∀ g, f g ~ g) (gs : List (List α)) :
    (gs.map f).flatten ~ gs.flatten := by
  induction gs with
  | nil => exact Perm.refl _
  | cons g gs ih => simpa using Perm.append (hf g) ih

open List in
theorem orderGroups_perm (start : α → Int) (gs : List (List α)) :
    (orderGroups start gs).flatten ~ gs.flatten :=
  (Perm.flatten (sortBy_perm _ _)).trans (flatten_map_perm _ (sortBy_perm start) gs)

theorem flatten_filter_nonempty (gs : List (List α)) :
    (gs.filter (fun g => !g.isEmpty)).flatten = gs.flatten := by
  induction gs with
  | nil => rfl
  | cons g gs ih =>
    cases g with
    | nil => simpa using ih
    | cons x xs => simp [List.filter, ih]

theorem mem_dedup (x : String) : ∀ (l : List String), x ∈ dedup l ↔ x ∈ l
  | [] => by simp [dedup]
  | y :: ys => by
    simp only [dedup, List.mem_cons, List.mem_filter, mem_dedup x ys, decide_eq_true_eq]
    constructor
    · rintro (h | ⟨h, _⟩)
      · exact Or.inl h
      · exact Or.inr h
    · rintro (h | h)
      · exact Or.inl h
      · by_cases e : x = y
        · exact Or.inl e
        · exact Or.inr ⟨h, e⟩

theorem nodup_dedup : ∀ (l : List String), (dedup l).Nodup
  | [] => by simp [dedup]
  | y :: ys => by
    simp only [dedup, List.nodup_cons, List.mem_filter, decide_eq_true_eq]
    exact ⟨fun h => h.2 rfl, (nodup_dedup ys).filter _⟩

theorem lookup_mem (k : String) : ∀ (m : List (String × String)) (v : String),
    lookup k m = some v → v ∈ m.map Prod.snd
  | [], _, h => by simp [lookup] at h
  | (a, b) :: r, v, h => by
    simp only [lookup] at h
    split at h
    · simp only [Option.some.injEq] at h; simp [h]
    · simp only [List.map_cons, List.mem_cons]; exact Or.inr (lookup_mem k r v h)

open List in
/-- splitting a list by two disjoint predicates -/
theorem filter_or_perm (p q : α → Bool) (hd : ∀ x, ¬ (p x = true ∧ q x = true)) (l : List α) :
    l.filter p ++ l.filter q ~ l.filter (fun x => p x || q x) := by
  induction l with
  | nil => exact Perm.refl _
  | cons x xs ih =>
    by_cases hp : p x = true
    · have hq : q x = false := by
        cases h : q x with
        | false => rfl
        | true => exact absurd ⟨hp, h⟩ (hd x)
      simp only [filter_cons, hp, hq, Bool.true_or, ite_true, cons_append]
      exact Perm.cons x (by simpa using ih)
    · have hp' : p x = false := by simpa using hp
      by_cases hq : q x = true
      · simp only [filter_cons, hp', hq, Bool.false_or, ite_true]
        refine (perm_middle).trans (Perm.cons x ?_)
        simpa using ih
      · have hq' : q x = false := by simpa using hq
        simp only [filter_cons, hp', hq', Bool.or_self]
        simpa using ih

open List in
theorem groups_flatten_perm (key : α → Option String) (xs : List α) :
    ∀ (gids : List String), gids.Nodup →
      (gids.map fun g => xs.filter fun x => key x == some g).flatten ~
        xs.filter (fun x => match key x with
          | some g => gids.contains g
          | none => false)
  | [], _ => by
    have : (xs.filter fun x => match key x with
          | some g => ([] : List String).contains g
          | none => false) = [] := by
      apply filter_eq_nil_iff.mpr
      intro a _
      cases key a <;> simp
    rw [this]; exact Perm.refl _
  | g :: gids, hnd => by
    have hnd' := (nodup_cons.mp hnd)
    have ih := groups_flatten_perm key xs gids hnd'.2
    simp only [map_cons, flatten_cons]
    refine (Perm.append_left _ ih).trans ?_
    refine (filter_or_perm _ _ ?_ xs).trans ?_
    · intro x ⟨h1, h2⟩
      cases hk : key x with
      | none => simp [hk] at h1
      | some g' =>
        simp only [hk, beq_iff_eq, Option.some.injEq] at h1
        simp only [hk, contains_eq_mem, decide_eq_true_eq] at h2
        subst h1
        exact hnd'.1 h2
    · apply Perm.of_eq
      apply filter_congr
      intro x _
      cases hk : key x with
      | none => simp
      | some g' =>
        simp only [contains_eq_mem, mem_cons]
        by_cases e : g' = g <;> simp [e]

open List in
/-- `group_events_using_async_information` neither loses nor duplicates a sibling -/
theorem groupPrior_perm (typ : α → String) (gmap : List (String × String)) (xs : List α) :
    (groupPrior typ gmap xs).flatten ~ xs := by
  simp only [groupPrior, flatten_append, flatten_filter_nonempty]
  have h1 := groups_flatten_perm (fun x => lookup (typ x) gmap) xs _ (nodup_dedup (gmap.map Prod.snd))
  have h2 : ((xs.filter fun x => (lookup (typ x) gmap).isNone).map ([·])).flatten =
      xs.filter fun x => (lookup (typ x) gmap).isNone := by
    induction (xs.filter fun x => (lookup (typ x) gmap).isNone) with
    | nil => rfl
    | cons y ys ih => simp [ih]
  rw [h2]
  have h3 : (xs.filter fun x => match lookup (typ x) gmap with
        | some g => (dedup (gmap.map Prod.snd)).contains g
        | none => false) = xs.filter fun x => (lookup (typ x) gmap).isSome := by
    apply filter_congr
    intro x _
    cases hk : lookup (typ x) gmap with
    | none => simp
    | some g =>
      simp only [contains_eq_mem, Option.isSome_some, decide_eq_true_eq]
      exact (mem_dedup g _).mpr (lookup_mem _ _ _ hk)
  rw [h3] at h1
  refine (Perm.append_right _ h1).trans ?_
  have := filter_append_perm (fun x => (lookup (typ x) gmap).isSome) xs
  refine Perm.trans (Perm.of_eq ?_) this
  congr 1
  apply filter_congr
  intro x _
  cases lookup (typ x) gmap <;> simp

open List in
/-- **Arranging siblings is a permutation** of them, in every mode and for every map. -/
theorem arrange_perm (typ : α → String) (start stop : α → Int) (async : Bool)
    (gmap : List (String × String)) (xs : List α) :
    (arrange typ start stop async gmap xs).flatten ~ xs := by
  unfold arrange
  have h := (orderGroups_perm start (groupPrior typ gmap xs)).trans (groupPrior_perm typ gmap xs)
  split
  · rw [sweep_flatten]; exact h
  · exact h

/-! ### linking -/

mutual
theorem linkT_keys : ∀ (t : GTree) (prev : List String), (linkT t prev).map Prod.fst = t.ids
  | .node s gs, prev => by
    simp [linkT, GTree.ids, linkGs_keys gs prev]
theorem linkGs_keys : ∀ (gs : List (List GTree)) (prev : List String),
    (linkGs gs prev).1.map Prod.fst = gidsLL gs
  | [], _ => by simp [linkGs, gidsLL]
  | g :: gs, prev => by
    simp [linkGs, gidsLL, linkG_keys g prev, linkGs_keys gs _]
theorem linkG_keys : ∀ (g : List GTree) (prev : List String), (linkG g prev).map Prod.fst = gidsL g
  | [], _ => by simp [linkG, gidsL]
  | t :: ts, prev => by
    simp [linkG, gidsL, linkT_keys t prev, linkG_keys ts prev]
end

theorem wfLinks_mono {seen seen' : List String} (h : ∀ x ∈ seen, x ∈ seen') :
    ∀ (l : Links), wfLinks seen l → wfLinks seen' l
  | [], _ => trivial
  | (x, ps) :: r, ⟨h1, h2⟩ =>
    ⟨fun p hp => h p (h1 p hp),
     wfLinks_mono (fun y hy => by
       rcases List.mem_cons.mp hy with rfl | hy
       · exact List.mem_cons_self
       · exact List.mem_cons_of_mem _ (h y hy)) r h2⟩

theorem wfLinks_append (seen : List String) :
    ∀ (a b : Links), wfLinks seen a → wfLinks (a.map Prod.fst ++ seen) b → wfLinks seen (a ++ b)
  | [], b, _, hb => by simpa using hb
  | (x, ps) :: r, b, ⟨h1, h2⟩, hb => by
    refine ⟨h1, wfLinks_append (x :: seen) r b h2 ?_⟩
    apply wfLinks_mono _ b hb
    intro y hy
    simp only [List.map_cons, List.cons_append, List.mem_cons, List.mem_append] at hy ⊢
    rcases hy with rfl | hy | hy
    · exact Or.inr (Or.inl rfl)
    · exact Or.inl hy
    · exact Or.inr (Or.inr hy)

/-- ids of the roots of a group are among the ids emitted for the group -/
theorem roots_mem_gidsL : ∀ (g : List GTree) (x : String), x ∈ g.map (fun t => t.span.id) → x ∈ gidsL g
  | [], _, h => by simp at h
  | (.node s gs) :: ts, x, h => by
    simp only [List.map_cons, List.mem_cons] at h
    simp only [gidsL, GTree.ids, List.mem_append]
    rcases h with rfl | h
    · exact Or.inl (Or.inr (by simp [GTree.span]))
    · exact Or.inr (roots_mem_gidsL ts x h)

mutual
theorem linkT_wf : ∀ (t : GTree) (prev seen : List String), (∀ p ∈ prev, p ∈ seen) →
    wfLinks seen (linkT t prev)
  | .node s gs, prev, seen, h => by
    simp only [linkT]
    have h1 := linkGs_wf gs prev seen h
    apply wfLinks_append seen _ _ h1.1
    refine ⟨?_, trivial⟩
    intro p hp
    rw [linkGs_keys]
    rcases h1.2 p hp with h2 | h2
    · exact List.mem_append.mpr (Or.inl h2)
    · exact List.mem_append.mpr (Or.inr h2)
theorem linkGs_wf : ∀ (gs : List (List GTree)) (prev seen : List String), (∀ p ∈ prev, p ∈ seen) →
    wfLinks seen (linkGs gs prev).1 ∧ ∀ p ∈ (linkGs gs prev).2, p ∈ gidsLL gs ∨ p ∈ seen
  | [], prev, seen, h => by
    simp only [linkGs, wfLinks, true_and]
    intro p hp; exact Or.inr (h p hp)
  | g :: gs, prev, seen, h => by
    simp only [linkGs]
    have hg := linkG_wf g prev seen h
    have hgs := linkGs_wf gs (g.map fun t => t.span.id) (gidsL g ++ seen) (by
      intro p hp
      exact List.mem_append.mpr (Or.inl (roots_mem_gidsL g p hp)))
    refine ⟨wfLinks_append seen _ _ hg (by rw [linkG_keys]; exact hgs.1), ?_⟩
    intro p hp
    rcases hgs.2 p hp with h2 | h2
    · exact Or.inl (by simp only [gidsLL, List.mem_append]; exact Or.inr h2)
    · rcases List.mem_append.mp h2 with h3 | h3
      · exact Or.inl (by simp only [gidsLL, List.mem_append]; exact Or.inl h3)
      · exact Or.inr h3
theorem linkG_wf : ∀ (g : List GTree) (prev seen : List String), (∀ p ∈ prev, p ∈ seen) →
    wfLinks seen (linkG g prev)
  | [], _, _, _ => by simp [linkG, wfLinks]
  | t :: ts, prev, seen, h => by
    simp only [linkG]
    apply wfLinks_append seen _ _ (linkT_wf t prev seen h)
    exact linkG_wf ts prev _ (fun p hp => List.mem_append.mpr (Or.inr (h p hp)))
end

/-- **Acyclic, descendants first**: the emission order of the links of a whole trace is a linear
extension of the previous-event relation — every previous id of an event was emitted before it.
Hence the links are acyclic. -/
theorem linkT_wellfounded (t : GTree) : wfLinks [] (linkT t []) :=
  linkT_wf t [] [] (by simp)

/-! ### the whole sequencer covers the trace -/

theorem arr_eq (c : Cfg) (s : Span) (cs : List Tree) :
    arr c (.node s cs) = .node s (arrange (fun g => g.span.typ) (fun g => g.span.start)
      (fun g => g.span.stop) c.async (c.groupMap s.typ) (cs.map (arr c))) := by
  rw [arr]
  congr 1
  congr 1
  rw [List.map_attach_eq_pmap]
  simp [List.pmap_eq_map]

theorem rename_eq (c : Cfg) (s : Span) (cs : List Tree) :
    rename c (.node s cs) =
      .node { s with typ := newTyp c s.typ (cs.map fun t => t.span.typ) } (cs.map (rename c)) := by
  rw [rename]
  congr 1
  rw [List.map_attach_eq_pmap]
  simp [List.pmap_eq_map]

theorem gidsL_append : ∀ (a b : List GTree), gidsL (a ++ b) = gidsL a ++ gidsL b
  | [], b => by simp [gidsL]
  | t :: ts, b => by simp [gidsL, gidsL_append ts b, List.append_assoc]

theorem gidsLL_flatten : ∀ (gs : List (List GTree)), gidsLL gs = gidsL gs.flatten
  | [] => by simp [gidsLL, gidsL]
  | g :: gs => by simp [gidsLL, gidsL_append, gidsLL_flatten gs]

theorem gidsL_eq_flatMap : ∀ (l : List GTree), gidsL l = l.flatMap GTree.ids
  | [] => by simp [gidsL]
  | t :: ts => by simp [gidsL, gidsL_eq_flatMap ts]

open List in
theorem gidsL_perm {l l' : List GTree} (h : l ~ l') : gidsL l ~ gidsL l' := by
  rw [gidsL_eq_flatMap, gidsL_eq_flatMap]
  exact Perm.flatMap_right _ h

open List in
mutual
theorem arr_ids (c : Cfg) : ∀ (t : Tree), (arr c t).ids ~ t.ids
  | .node s cs => by
    rw [arr_eq]
    simp only [GTree.ids, Tree.ids, gidsLL_flatten]
    refine (perm_append_singleton _ _).trans (Perm.cons _ ?_)
    exact (gidsL_perm (arrange_perm _ _ _ _ _ _)).trans (arrL_ids c cs)
theorem arrL_ids (c : Cfg) : ∀ (cs : List Tree), gidsL (cs.map (arr c)) ~ idsL cs
  | [] => by simp [gidsL, idsL]
  | t :: ts => by
    simp only [List.map_cons, gidsL, idsL]
    exact Perm.append (arr_ids c t) (arrL_ids c ts)
end

mutual
/-- renaming changes types only -/
theorem rename_ids (c : Cfg) : ∀ (t : Tree), (rename c t).ids = t.ids
  | .node s cs => by
    rw [rename_eq]
    simp only [Tree.ids, renameL_ids c cs]
theorem renameL_ids (c : Cfg) : ∀ (cs : List Tree), idsL (cs.map (rename c)) = idsL cs
  | [] => rfl
  | t :: ts => by simp only [List.map_cons, idsL, rename_ids c t, renameL_ids c ts]
end

/-- **Renaming is decided on the ingested child types** (simultaneously — so the outcome cannot depend
on the order in which the spans of a trace are stored or visited): the new type of a span is a function
of its own type and of its children's types before any renaming. -/
theorem rename_order_free (c : Cfg) (s : Span) (cs : List Tree) :
    (rename c (.node s cs)).span.typ = newTyp c s.typ (cs.map fun t => t.span.typ) ∧
    (rename c (.node s cs)).kids = cs.map (rename c) := by
  rw [rename_eq]; exact ⟨rfl, rfl⟩

open List in
/-- **Every span exactly once**: the events emitted for a trace are a permutation of its spans (so
with distinct span ids no span is lost or duplicated), whatever the configuration. -/
theorem sequence_covers (c : Cfg) (t : Tree) :
    (sequence c t).2.map Prod.fst ~ t.ids := by
  simp only [sequence, linkT_keys]
  exact (arr_ids c (rename c t)).trans (Perm.of_eq (rename_ids c t))

/-- non-vacuity: a three-span trace in async mode, its links and its coverage -/
example :
    let t := Tree.node ⟨"R", "T", 0, 9⟩ [.node ⟨"A", "T", 1, 5⟩ [], .node ⟨"B", "T", 6, 7⟩ []]
    (linkT (.node t.span [[.node ⟨"A", "T", 1, 5⟩ []], [.node ⟨"B", "T", 6, 7⟩ []]]) []) =
      [("A", []), ("B", ["A"]), ("R", ["B"])] := by decide

end O2P.Seq
