/-!
# C07 — loop extraction leaves an acyclic, complete, non-overlapping nesting
Certificate checkers for directed graphs over event types, each with the theorem that makes its answer
mean what the property says.  The certificates (orders, the assignment of events to loop bodies) are
read off the graph `detect_loops` returns; the checkers are run on the *input* directly-follows graph,
so they do not rely on the tool's own rewiring being right.

* `isTopo ord edges` ⇒ no cycle (`isTopo_acyclic`);
* `contractOK part ord edges` (contracting every loop body to one node gives a graph ordered by `ord`)
  ⇒ every cycle of the input lies inside one loop body (`cycle_in_one_part`);
* `exactlyOnce leaves inputs` ⇔ the events found across the whole nesting are a permutation of the
  input's events — none lost, none duplicated (`exactlyOnce_iff`).
Core Lean only.
-/
namespace O2P.Graph

abbrev Edge := String × String

def idx (ord : List String) (x : String) : Nat := ord.idxOf x

/-- a walk along edges: `Walk edges u v path` where `path` lists the nodes visited after `u` -/
inductive Walk (edges : List Edge) : String → String → List String → Prop
  | single {u v} : (u, v) ∈ edges → Walk edges u v [v]
  | cons {u w v p} : (u, w) ∈ edges → Walk edges w v p → Walk edges u v (w :: p)

/-- `ord` lists every endpoint and every edge goes strictly forward in it -/
def isTopo (ord : List String) (edges : List Edge) : Bool :=
  edges.all fun (u, v) => ord.contains u && ord.contains v && idx ord u < idx ord v

theorem isTopo_edge {ord edges} (h : isTopo ord edges = true) {u v} (he : (u, v) ∈ edges) :
    idx ord u < idx ord v := by
  unfold isTopo at h
  have := List.all_eq_true.mp h (u, v) he
  simp only [Bool.and_eq_true, decide_eq_true_eq] at this
  exact this.2

theorem walk_increases {ord edges} (h : isTopo ord edges = true) {u v p} (w : Walk edges u v p) :
    idx ord u < idx ord v := by
  induction w with
  | single he => exact isTopo_edge h he
  | cons he _ ih => exact Nat.lt_trans (isTopo_edge h he) ih

/-- **a graph with a topological order has no cycle** (not even a self loop) -/
theorem isTopo_acyclic {ord edges} (h : isTopo ord edges = true) : ∀ v p, ¬ Walk edges v v p := by
  intro v p w
  exact Nat.lt_irrefl _ (walk_increases h w)

/-- every edge stays inside one part or goes strictly forward between parts -/
def contractOK (part : String → String) (ord : List String) (edges : List Edge) : Bool :=
  edges.all fun (u, v) => part u == part v || idx ord (part u) < idx ord (part v)

theorem contract_edge {part ord edges} (h : contractOK part ord edges = true) {u v} (he : (u, v) ∈ edges) :
    part u = part v ∨ idx ord (part u) < idx ord (part v) := by
  unfold contractOK at h
  have := List.all_eq_true.mp h (u, v) he
  simp only [Bool.or_eq_true, beq_iff_eq, decide_eq_true_eq] at this
  exact this

theorem walk_le {part ord edges} (h : contractOK part ord edges = true) {u v p} (w : Walk edges u v p) :
    idx ord (part u) ≤ idx ord (part v) := by
  induction w with
  | single he =>
    rcases contract_edge h he with e | e
    · rw [e]; exact Nat.le_refl _
    · exact Nat.le_of_lt e
  | cons he _ ih =>
    rcases contract_edge h he with e | e
    · rw [e]; exact ih
    · exact Nat.le_trans (Nat.le_of_lt e) ih

/-- along a walk that returns to a part of the same rank, nothing ever left that part -/
theorem walk_same_part {part ord edges} (h : contractOK part ord edges = true) {u v p} (w : Walk edges u v p)
    (hr : idx ord (part v) ≤ idx ord (part u)) : ∀ x ∈ p, part x = part u := by
  induction w with
  | single he =>
    intro x hx
    simp only [List.mem_singleton] at hx
    subst hx
    rcases contract_edge h he with e | e
    · exact e.symm
    · exact absurd e (Nat.not_lt.mpr hr)
  | @cons u w v p he wk ih =>
    have hwv := walk_le h wk
    have huw : part u = part w := by
      rcases contract_edge h he with e | e
      · exact e
      · exact absurd (Nat.lt_of_lt_of_le e hwv) (Nat.not_lt.mpr hr)
    intro x hx
    rcases List.mem_cons.mp hx with rfl | hx
    · exact huw.symm
    · rw [huw]
      exact ih (by rw [← huw]; exact hr) x hx

/-- **every cyclic dependency of the input lies inside one loop body**: if contracting the parts gives
an ordered graph, every node on any cycle belongs to the part of the cycle's start -/
theorem cycle_in_one_part {part ord edges} (h : contractOK part ord edges = true) (v : String) (p : List String)
    (w : Walk edges v v p) : ∀ x ∈ p, part x = part v :=
  walk_same_part h w (Nat.le_refl _)

/-- a cycle through an event that is its own part (not in any loop body) is impossible -/
theorem no_cycle_outside_loops {part ord edges} (h : contractOK part ord edges = true) (v : String)
    (hv : ∀ x, part x = part v → x = v) (hself : (v, v) ∉ edges) : ∀ p, ¬ Walk edges v v p := by
  intro p w
  cases w with
  | single he => exact hself he
  | @cons _ w _ p he wk =>
    have hw := cycle_in_one_part h v (w :: p) (Walk.cons he wk) w List.mem_cons_self
    have := hv w hw
    subst this
    exact hself he

/-- the events found across the nesting are exactly the input's events, each once -/
def exactlyOnce (leaves inputs : List String) : Bool := leaves.isPerm inputs

theorem exactlyOnce_iff (leaves inputs : List String) : exactlyOnce leaves inputs = true ↔ leaves.Perm inputs :=
  List.isPerm_iff

/-- exactly one node without an incoming edge -/
def singleEntry (nodes : List String) (edges : List Edge) : Bool :=
  (nodes.filter fun n => !(edges.any fun e => e.2 == n)).length == 1

theorem singleEntry_spec (nodes : List String) (edges : List Edge) (h : singleEntry nodes edges = true) :
    ∃ e, nodes.filter (fun n => !(edges.any fun ed => ed.2 == n)) = [e] := by
  unfold singleEntry at h
  have hl : (nodes.filter fun n => !(edges.any fun e => e.2 == n)).length = 1 := by simpa using h
  match hm : nodes.filter (fun n => !(edges.any fun e => e.2 == n)), hl with
  | [e], _ => exact ⟨e, rfl⟩

/-! ### non-vacuity -/

/-- A → B → C → B, C → D with the loop body {B, C}: the contraction A, L, D is ordered, B ⇄ C is the
only cycle, and the unordered input is rejected -/
example :
    let edges : List Edge := [("A", "B"), ("B", "C"), ("C", "B"), ("C", "D")]
    let part : String → String := fun x => if x == "B" || x == "C" then "L" else x
    contractOK part ["A", "L", "D"] edges = true ∧ isTopo ["A", "B", "C", "D"] edges = false ∧
    isTopo ["A", "B", "C", "D"] [("A", "B"), ("B", "C"), ("C", "D")] = true ∧
    exactlyOnce ["B", "C", "A", "D"] ["A", "B", "C", "D"] = true ∧ exactlyOnce ["B", "A", "D"] ["A", "B", "C", "D"] = false := by
  decide

end O2P.Graph
