import O2P.Lemmas.ShapeOrder
import O2P.Lemmas.StoreBasic
/-!
# C09 — unique-graph selection keeps one trace per distinct call-tree shape
The recursive digest of `compute_graph_hash_from_event_ids` is modelled by the canonical shape
(`shapeOf`: type and sorted child shapes).  Theorems: the canonical shape of two call trees is equal
iff the trees are isomorphic up to sibling order (ids, times and names do not occur in a tree); it does
not depend on the storage order of the spans; the classes returned by `shapeClasses` partition the
hashed traces by (workflow name, shape).  The digest function itself (xxh64 of the concatenation) is
assumed collision-free on the strings that occur — stated in the trusted base, not proved.
-/
namespace O2P.Store

/-- a call tree: span type and child trees (in any order) -/
inductive Tree where
  | node : String → List Tree → Tree

mutual
/-- canonical shape of a call tree -/
def canon : Tree → Shape
  | .node a cs => .mk a (sortShapes (canonL cs))
def canonL : List Tree → List Shape
  | [] => []
  | t :: ts => canon t :: canonL ts
end

theorem canonL_eq_map : ∀ (l : List Tree), canonL l = l.map canon
  | [] => by unfold canonL; rfl
  | t :: ts => by unfold canonL; rw [canonL_eq_map ts]; rfl

mutual
/-- isomorphism of call trees up to the order of siblings -/
def Iso : Tree → Tree → Prop
  | .node a cs, .node b ds => a = b ∧ ∃ ds', ds'.Perm ds ∧ IsoL cs ds'
/-- pointwise isomorphic lists of trees -/
def IsoL : List Tree → List Tree → Prop
  | [], [] => True
  | c :: cs, d :: ds => Iso c d ∧ IsoL cs ds
  | [], _ :: _ => False
  | _ :: _, [] => False
end

mutual
theorem canon_of_iso : ∀ (t u : Tree), Iso t u → canon t = canon u
  | .node a cs, .node b ds, h => by
    unfold Iso at h
    obtain ⟨rfl, ds', hp, hl⟩ := h
    unfold canon
    rw [canonL_of_isoL cs ds' hl]
    congr 1
    apply sortShapes_eq_of_perm
    rw [canonL_eq_map, canonL_eq_map]
    exact hp.map canon
theorem canonL_of_isoL : ∀ (cs ds : List Tree), IsoL cs ds → canonL cs = canonL ds
  | [], [], _ => rfl
  | c :: cs, d :: ds, h => by
    unfold IsoL at h
    unfold canonL
    rw [canon_of_iso c d h.1, canonL_of_isoL cs ds h.2]
  | [], _ :: _, h => by unfold IsoL at h; exact h.elim
  | _ :: _, [], h => by unfold IsoL at h; exact h.elim
end

open List in
/-- a permutation of an image list is the image of a permutation -/
theorem perm_map_lift {α β : Type} (f : α → β) : ∀ {xs ys : List β}, xs ~ ys →
    ∀ (l : List α), ys = l.map f → ∃ l', l' ~ l ∧ xs = l'.map f := by
  intro xs ys h
  induction h with
  | nil => intro l hl; exact ⟨l, Perm.refl _, by rw [hl]⟩
  | cons x _ ih =>
    intro l hl
    cases l with
    | nil => simp at hl
    | cons a l0 =>
      simp only [map_cons, cons.injEq] at hl
      obtain ⟨l', hp, e⟩ := ih l0 hl.2
      exact ⟨a :: l', hp.cons a, by simp [hl.1, e]⟩
  | swap x y l1 =>
    intro l hl
    cases l with
    | nil => simp at hl
    | cons a l0 =>
      cases l0 with
      | nil => simp at hl
      | cons b l00 =>
        simp only [map_cons, cons.injEq] at hl
        exact ⟨b :: a :: l00, Perm.swap a b l00, by simp [hl.1, hl.2.1, hl.2.2]⟩
  | trans _ _ ih1 ih2 =>
    intro l hl
    obtain ⟨l1, hp1, e1⟩ := ih2 l hl
    obtain ⟨l2, hp2, e2⟩ := ih1 l1 e1
    exact ⟨l2, hp2.trans hp1, e2⟩

mutual
theorem iso_of_canon : ∀ (t u : Tree), canon t = canon u → Iso t u
  | .node a cs, .node b ds, h => by
    unfold canon at h
    injection h with h1 h2
    unfold Iso
    refine ⟨h1, ?_⟩
    have hp : List.Perm (cs.map canon) (ds.map canon) := by
      rw [← canonL_eq_map, ← canonL_eq_map]
      exact (sortShapes_perm _).symm.trans (h2 ▸ sortShapes_perm _)
    obtain ⟨ds', hp', e⟩ := perm_map_lift canon hp ds rfl
    refine ⟨ds', hp', isoL_of_canonL cs ds' ?_⟩
    rw [canonL_eq_map, canonL_eq_map, e]
theorem isoL_of_canonL : ∀ (cs ds : List Tree), canonL cs = canonL ds → IsoL cs ds
  | [], [], _ => by unfold IsoL; trivial
  | c :: cs, d :: ds, h => by
    unfold canonL at h
    injection h with h1 h2
    unfold IsoL
    exact ⟨iso_of_canon c d h1, isoL_of_canonL cs ds h2⟩
  | [], _ :: _, h => by unfold canonL at h; simp at h
  | _ :: _, [], h => by unfold canonL at h; simp at h
end

/-- **C09a**: two call trees have the same canonical shape iff they are isomorphic up to sibling
order -/
theorem canon_iso (t u : Tree) : canon t = canon u ↔ Iso t u :=
  ⟨iso_of_canon t u, canon_of_iso t u⟩

/-! ### from stored spans to trees -/

/-- the call tree below span `n` as the parent fields of `nodes` give it (children in storage order) -/
def toTree (nodes : List Node) : Nat → Node → Tree
  | 0, n => .node n.typ []
  | fuel + 1, n => .node n.typ ((nodes.filter fun m => m.parent == some n.id).map (toTree nodes fuel))

/-- the model's digest is the canonical shape of the call tree -/
theorem shapeOf_eq_canon (nodes : List Node) : ∀ (fuel : Nat) (n : Node),
    shapeOf nodes fuel n = canon (toTree nodes fuel n)
  | 0, n => by unfold shapeOf toTree canon canonL sortShapes; rfl
  | fuel + 1, n => by
    unfold shapeOf toTree canon
    simp only
    rw [canonL_eq_map, List.map_map]
    have : shapeOf nodes fuel = canon ∘ toTree nodes fuel := funext (shapeOf_eq_canon nodes fuel)
    rw [this]
    rfl

/-- **C09b**: two stored traces get the same digest iff their call trees are isomorphic up to sibling
order — span ids, times, applications and workflow names play no part -/
theorem same_digest_iff_iso (A B : List Node) (f g : Nat) (a b : Node) :
    shapeEq (shapeOf A f a) (shapeOf B g b) = true ↔ Iso (toTree A f a) (toTree B g b) := by
  rw [shapeEq_iff, shapeOf_eq_canon, shapeOf_eq_canon, canon_iso]

open List in
/-- **C09c**: the digest does not depend on the order in which the spans are stored or fetched
(ingestion order, batch boundaries) -/
theorem shapeOf_perm {A B : List Node} (h : A ~ B) : ∀ (fuel : Nat) (n : Node),
    shapeOf A fuel n = shapeOf B fuel n
  | 0, _ => by unfold shapeOf; rfl
  | fuel + 1, n => by
    unfold shapeOf
    simp only
    have : shapeOf A fuel = shapeOf B fuel := funext (shapeOf_perm h fuel)
    rw [this]
    congr 1
    exact sortShapes_eq_of_perm ((h.filter _).map _)

/-! ### the classes -/

theorem dedupKeys_sub : ∀ (l : List (String × Shape)) (k : String × Shape), k ∈ dedupKeys l → k ∈ l
  | [], _, h => by simp [dedupKeys] at h
  | x :: xs, k, h => by
    simp only [dedupKeys, List.mem_cons, List.mem_filter] at h
    rcases h with rfl | ⟨h, _⟩
    · exact List.mem_cons_self
    · exact List.mem_cons_of_mem _ (dedupKeys_sub xs k h)

theorem dedupKeys_cover : ∀ (l : List (String × Shape)) (k : String × Shape), k ∈ l → k ∈ dedupKeys l
  | [], _, h => by simp at h
  | x :: xs, k, h => by
    simp only [dedupKeys, List.mem_cons, List.mem_filter]
    by_cases e : k = x
    · exact Or.inl e
    · right
      rcases List.mem_cons.mp h with h | h
      · exact absurd h e
      · refine ⟨dedupKeys_cover xs k h, ?_⟩
        have : ¬ (k.1 = x.1 ∧ k.2 = x.2) := fun ⟨h1, h2⟩ => e (Prod.ext h1 h2)
        cases hb : (k.1 == x.1 && shapeEq k.2 x.2) with
        | false => rfl
        | true =>
          simp only [Bool.and_eq_true, beq_iff_eq, shapeEq_iff] at hb
          exact absurd hb this

theorem dedupKeys_nodup : ∀ (l : List (String × Shape)), (dedupKeys l).Pairwise (· ≠ ·)
  | [] => by simp [dedupKeys]
  | x :: xs => by
    simp only [dedupKeys]
    refine List.Pairwise.cons ?_ ((dedupKeys_nodup xs).sublist List.filter_sublist)
    intro k hk e
    have := (List.mem_filter.mp hk).2
    subst e
    simp [(shapeEq_iff _ _).mpr rfl] at this

/-- **C09d (cover)**: every hashed trace belongs to the class of its (workflow name, shape) -/
theorem classes_cover (s : Store) (j nm : String) (sh : Shape) (h : (j, nm, sh) ∈ s.hashes) :
    ∃ ids, (nm, sh, ids) ∈ shapeClasses s ∧ j ∈ ids := by
  unfold shapeClasses
  refine ⟨(s.hashes.filter fun (_, n2, s2) => n2 == nm && shapeEq s2 sh).map (·.1), ?_, ?_⟩
  · apply List.mem_map.mpr
    refine ⟨(nm, sh), dedupKeys_cover _ _ (List.mem_map.mpr ⟨(j, nm, sh), h, rfl⟩), rfl⟩
  · apply List.mem_map.mpr
    refine ⟨(j, nm, sh), List.mem_filter.mpr ⟨h, ?_⟩, rfl⟩
    simp [(shapeEq_iff _ _).mpr rfl]

/-- **C09d (exactness)**: the members of a class are exactly the hashed traces with that workflow
name and that shape; no class is empty -/
theorem classes_members (s : Store) (nm : String) (sh : Shape) (ids : List String)
    (h : (nm, sh, ids) ∈ shapeClasses s) :
    (∀ j, j ∈ ids ↔ (j, nm, sh) ∈ s.hashes) ∧ ids ≠ [] := by
  unfold shapeClasses at h
  obtain ⟨⟨nm', sh'⟩, hk, e⟩ := List.mem_map.mp h
  simp only [Prod.mk.injEq] at e
  obtain ⟨rfl, rfl, rfl⟩ := e
  have mem : ∀ j, j ∈ (s.hashes.filter fun (_, n2, s2) => n2 == nm' && shapeEq s2 sh').map (·.1)
      ↔ (j, nm', sh') ∈ s.hashes := by
    intro j
    simp only [List.mem_map, List.mem_filter, Bool.and_eq_true, beq_iff_eq, shapeEq_iff]
    constructor
    · rintro ⟨⟨j', n2, s2⟩, ⟨hm, rfl, rfl⟩, rfl⟩; exact hm
    · intro hm; exact ⟨(j, nm', sh'), ⟨hm, rfl, rfl⟩, rfl⟩
  refine ⟨mem, ?_⟩
  obtain ⟨⟨j, n2, s2⟩, hm, e2⟩ := List.mem_map.mp (dedupKeys_sub _ _ hk)
  simp only [Prod.mk.injEq] at e2
  obtain ⟨rfl, rfl⟩ := e2
  intro hnil
  have := (mem j).mpr hm
  rw [hnil] at this
  simp at this

/-- **C09d (one class per shape)**: two different classes never have the same workflow name and
shape — so two traces of one shape are never in different classes, and picking one member per class
never selects two traces of the same shape under one name -/
theorem classes_distinct (s : Store) :
    (shapeClasses s).Pairwise fun c d => ¬ (c.1 = d.1 ∧ c.2.1 = d.2.1) := by
  unfold shapeClasses
  rw [List.pairwise_map]
  refine (dedupKeys_nodup _).imp ?_
  intro a b hne h
  exact hne (Prod.ext h.1 h.2)

/-- the rows `find_unique_graphs` computes: one per root span of a trace in the window, carrying the
canonical shape of the call tree below that root, whatever the storage order of the spans -/
theorem computeHashes_rows (w : Int × Int) (s s1 : Store) (h : computeHashes w s = some s1) :
    s1.hashes = ((s.nodes.filter fun n => n.parent.isNone && (jobsInWindow w s.nodes).contains n.jobId).map
      fun r => (r.jobId, r.jobName, canon (toTree (s.nodes.filter (·.jobId == r.jobId)) s.nodes.length r))) ∧
    s1.nodes = s.nodes ∧ s1.assoc = s.assoc := by
  unfold computeHashes at h
  simp only at h
  split at h
  · exact absurd h (by simp)
  · injection h with h
    subst h
    refine ⟨?_, rfl, rfl⟩
    simp only
    apply List.map_congr_left
    intro r _
    rw [shapeOf_eq_canon]

/-- a trace with two root spans makes the hash table's key fail (the run aborts); single-rooted
traces never do -/
theorem computeHashes_ok (w : Int × Int) (s : Store)
    (h : ((s.nodes.filter fun n => n.parent.isNone && (jobsInWindow w s.nodes).contains n.jobId).map (·.jobId)).Nodup) :
    (computeHashes w s).isSome = true := by
  unfold computeHashes
  simp only
  have : nodup (((s.nodes.filter fun n => n.parent.isNone && (jobsInWindow w s.nodes).contains n.jobId).map
      fun r => (r.jobId, r.jobName, shapeOf (s.nodes.filter (·.jobId == r.jobId)) s.nodes.length r)).map (·.1)) = true := by
    rw [nodup_iff, List.map_map]
    exact h
  rw [this]
  simp

/-! ### non-vacuity -/

private def mkN (j id typ : String) (p : Option String) : Node := ⟨"wf", j, typ, id, 1, 2, "app", p⟩

/-- three traces: R(A,B(C)), its sibling-swapped twin stored in another order, and R(A(C),B): the
twins share a class, the third has its own -/
example :
    let s : Store := ⟨[mkN "j1" "r1" "R" none, mkN "j1" "a1" "A" (some "r1"), mkN "j1" "b1" "B" (some "r1"),
                        mkN "j1" "c1" "C" (some "b1"),
                       mkN "j2" "c2" "C" (some "b2"), mkN "j2" "b2" "B" (some "r2"), mkN "j2" "a2" "A" (some "r2"),
                        mkN "j2" "r2" "R" none,
                       mkN "j3" "r3" "R" none, mkN "j3" "a3" "A" (some "r3"), mkN "j3" "b3" "B" (some "r3"),
                        mkN "j3" "c3" "C" (some "a3")], [], []⟩
    ((computeHashes (0, 10) s).map fun s1 => (shapeClasses s1).map (·.2.2)) = some [["j1", "j2"], ["j3"]] := by
  decide

end O2P.Store
