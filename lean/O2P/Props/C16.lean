import O2P.Lemmas.Civil
import O2P.Lemmas.Float
/-!
# C16 — PV timestamps and OTel nanosecond times convert consistently

Property theorems only (helper lemmas live in `O2P/Lemmas`).  Instants are the microsecond counts
`k < maxMicros` (1970-01-01T00:00:00.000000Z .. 2100-12-31T23:59:59.999999Z).
-/
namespace O2P.Time

def maxMicros : Nat := maxDay * 86400 * 1000000

/-! ### ties to the source (fail to build when the translated facts change) -/

/-- the model's `format` writes the format string the code passes to `strftime` -/
theorem fmt_tie : Gen.pvTimestampFormat = "%Y-%m-%dT%H:%M:%S.%fZ" := by decide

/-- the shapes of the two converters are the ones the model follows -/
theorem shape_tie :
    Gen.fromNanosShape = "float(n) / c |> fromtimestamp UTC |> strftime" ∧ Gen.nanoDivisor = 10 ^ 9 ∧
    Gen.toNanosShape = "fromisoformat(rstrip Z) UTC - epoch |> integer arithmetic" := by decide

/-! ### digits -/

theorem charDigit_digitChar (d : Nat) : charDigit? (digitChar d) = some (d % 10) := by
  have aux : ∀ i : Fin 10, charDigit? (Char.ofNat (48 + i.val)) = some i.val := by decide
  have h : d % 10 < 10 := Nat.mod_lt _ (by decide)
  exact aux ⟨d % 10, h⟩

theorem num2_pad2 {n : Nat} (h : n < 100) : num2 (digitChar (n / 10)) (digitChar n) = some n := by
  simp only [num2, charDigit_digitChar, bind, Option.bind, pure]
  congr 1; omega

theorem num4_pad4 {n : Nat} (h : n < 10000) :
    num4 (digitChar (n / 1000)) (digitChar (n / 100)) (digitChar (n / 10)) (digitChar n) = some n := by
  simp only [num4, num2, charDigit_digitChar, bind, Option.bind, pure]
  congr 1; omega

theorem num6_pad6 {n : Nat} (h : n < 1000000) :
    num6 (digitChar (n / 100000)) (digitChar (n / 10000)) (digitChar (n / 1000))
      (digitChar (n / 100)) (digitChar (n / 10)) (digitChar n) = some n := by
  simp only [num6, num4, num2, charDigit_digitChar, bind, Option.bind, pure]
  congr 1; omega

/-! ### text round trip -/

/-- `parse ∘ format = id` on every valid broken-down time. -/
theorem parse_format (c : Civil) (hv : c.valid = true) : parse (format c) = some c := by
  have hv' := hv
  simp only [Civil.valid, Bool.and_eq_true, decide_eq_true_eq] at hv'
  obtain ⟨⟨⟨⟨⟨⟨⟨⟨⟨h1, h2⟩, h3⟩, h4⟩, h5⟩, h6⟩, h7⟩, h8⟩, h9⟩, h10⟩ := hv'
  have hd : daysInMonth c.y c.mo ≤ 31 := by
    unfold daysInMonth; split <;> (try split) <;> (try split) <;> omega
  have e4 := num4_pad4 (n := c.y) (by omega)
  have em := num2_pad2 (n := c.mo) (by omega)
  have ed := num2_pad2 (n := c.d) (by omega)
  have eh := num2_pad2 (n := c.h) (by omega)
  have ei := num2_pad2 (n := c.mi) (by omega)
  have es := num2_pad2 (n := c.s) (by omega)
  have eu := num6_pad6 (n := c.us) (by omega)
  simp only [format, pad4, pad2, pad6, List.cons_append, List.nil_append, parse, e4, em, ed, eh, ei,
    es, eu, bind, Option.bind]
  simp [hv]

/-! ### instants ↔ broken-down time -/

theorem civil_of_day {n : Nat} (h : n < maxDay) :
    daysFromCivil (civilFromDays n).1 (civilFromDays n).2.1 (civilFromDays n).2.2 = n ∧
    1970 ≤ (civilFromDays n).1 ∧ (civilFromDays n).1 ≤ 2100 ∧
    1 ≤ (civilFromDays n).2.1 ∧ (civilFromDays n).2.1 ≤ 12 ∧ 1 ≤ (civilFromDays n).2.2 ∧
    (civilFromDays n).2.2 ≤ daysInMonth (civilFromDays n).1 (civilFromDays n).2.1 := by
  have := civilOk_all h
  simpa [civilOk, Bool.and_eq_true, and_assoc] using this

/-- every instant of the range has a valid broken-down time … -/
theorem toCivil_valid {k : Nat} (h : k < maxMicros) : (toCivil k).valid = true := by
  have hd : k / 1000000 / 86400 < maxDay := by unfold maxMicros at h; omega
  obtain ⟨_, h1, h2, h3, h4, h5, h6⟩ := civil_of_day hd
  simp [toCivil, Civil.valid, h1, h3, h4, h5, h6]
  refine ⟨⟨⟨⟨?_, ?_⟩, ?_⟩, ?_⟩, ?_⟩ <;> apply decide_eq_true <;> omega

/-- … from which the instant is recovered (`ofCivil` is a left inverse of `toCivil`). -/
theorem ofCivil_toCivil {k : Nat} (h : k < maxMicros) : ofCivil (toCivil k) = k := by
  have hd : k / 1000000 / 86400 < maxDay := by unfold maxMicros at h; omega
  obtain ⟨h0, _⟩ := civil_of_day hd
  simp only [toCivil, ofCivil, h0]
  omega

/-! ### the property -/

/-- PV text → instant: parsing the text of an instant gives that instant back
(`parse` is a left inverse of `formatMicros`, so the text determines the microsecond value). -/
theorem parse_formatMicros {k : Nat} (h : k < maxMicros) :
    (parse (formatMicros k)).map ofCivil = some k := by
  rw [formatMicros, parse_format _ (toCivil_valid h), Option.map_some, ofCivil_toCivil h]

/-- `convert_timestamp_to_unix_nano` (as translated from the source) returns the instant the text
denotes, in nanoseconds: exactly `1000 · k`. -/
theorem toNanos_exact {k : Nat} (h : k < maxMicros) : toNanos (formatMicros k) = some (1000 * k) := by
  have hk := ofCivil_toCivil h
  unfold toNanos
  rw [formatMicros, parse_format _ (toCivil_valid h), Option.map_some]
  unfold Gen.toNanosOfDelta
  refine congrArg some ?_
  simp only [ofCivil] at hk
  have e9 : (10 : Nat) ^ 9 = 1000000000 := by rfl
  have e3 : (10 : Nat) ^ 3 = 1000 := by rfl
  rw [e9, e3]
  clear e9 e3 h
  generalize daysFromCivil (toCivil k).y (toCivil k).mo (toCivil k).d = D at hk ⊢
  generalize (toCivil k).h = H at hk ⊢
  generalize (toCivil k).mi = M at hk ⊢
  generalize (toCivil k).s = S at hk ⊢
  generalize (toCivil k).us = U at hk ⊢
  subst hk
  simp only [Nat.mul_add, Nat.add_mul, Nat.mul_assoc, Nat.mul_comm, Nat.mul_left_comm,
    Nat.add_assoc]

/-- `formatMicros` is injective on the range: distinct instants have distinct texts. -/
theorem formatMicros_injective {k k' : Nat} (h : k < maxMicros) (h' : k' < maxMicros)
    (e : formatMicros k = formatMicros k') : k = k' := by
  have a := parse_formatMicros h
  have b := parse_formatMicros h'
  rw [e] at a
  rw [a] at b
  exact Option.some.inj b

/-! ### the binary64 direction (`unix_nano_to_pv_string`) -/

theorem maxMicros_range : 1000 * maxMicros < 4200000000000000000 := by decide

/-- **OTel → PV preserves the microsecond value.**  For every instant of the range,
`unix_nano_to_pv_string` of its nanosecond count — through `float(n)`, the division by 1e9, `modf`,
the product with 1e6, round-half-even and the carry, each modelled bit-exactly — is the text of that
instant: no rounding step of the binary64 path can move a whole microsecond. -/
theorem fromNanos_exact {k : Nat} (h : k < maxMicros) : fromNanos (1000 * k) = formatMicros k := by
  unfold fromNanos
  rw [fromNanosMicros_exact k (by have := maxMicros_range; omega)]

/-- … for an arbitrary nanosecond count the microsecond shown is within 0.995 µs of it -/
theorem fromNanos_within {n : Nat} (h : n < 1000 * maxMicros) :
    |((fromNanosMicros n : Nat) : ℚ) * 1000 - n| < 995 :=
  fromNanos_near n (by have := maxMicros_range; omega)

/-- **order**: distinct microsecond instants are shown in their order (strictly), and arbitrary
nanosecond counts at least 1.99 µs apart are never swapped -/
theorem fromNanos_order {k k' : Nat} (h : k < maxMicros) (h' : k' < maxMicros) (lt : k < k') :
    fromNanosMicros (1000 * k) < fromNanosMicros (1000 * k') := by
  have r := maxMicros_range
  rw [fromNanosMicros_exact k (by omega), fromNanosMicros_exact k' (by omega)]
  exact lt

theorem fromNanos_order_far {n n' : Nat} (h' : n' < 1000 * maxMicros) (far : n + 1990 ≤ n') :
    fromNanosMicros n ≤ fromNanosMicros n' :=
  fromNanosMicros_mono_far n n' (by have := maxMicros_range; omega) far

/-- **PV → OTel → PV** returns every microsecond-precision timestamp unchanged -/
theorem pv_otel_pv {k : Nat} (h : k < maxMicros) :
    (toNanos (formatMicros k)).map fromNanos = some (formatMicros k) := by
  rw [toNanos_exact h, Option.map_some, fromNanos_exact h]

/-- **OTel → PV → OTel** returns every whole-microsecond nanosecond count unchanged -/
theorem otel_pv_otel {k : Nat} (h : k < maxMicros) :
    toNanos (fromNanos (1000 * k)) = some (1000 * k) := by
  rw [fromNanos_exact h, toNanos_exact h]

/-- non-vacuity: the last instant of the range, 2100-12-31T23:59:59.999999Z, takes the path with the
largest rounding errors (float(n) loses 224 ns there) and still comes back exactly -/
example : fromNanos (1000 * (maxMicros - 1)) = "2100-12-31T23:59:59.999999Z".toList := by
  decide +kernel

/-- The unrepaired converter (microseconds counted twice) was wrong on the documented example
`2023-09-25T10:58:06.059959Z`; kept as the negative lemma of the `fix:` commit. -/
theorem toNanosOld_cex :
    toNanosOld "2023-09-25T10:58:06.059959Z".toList ≠ some 1695639486059959000 := by decide

/-- non-vacuity: the documented example is an instant of the range and converts exactly -/
example : 1695639486059959 < maxMicros ∧
    toNanos "2023-09-25T10:58:06.059959Z".toList = some 1695639486059959000 := by decide

end O2P.Time
