import O2P.Props.C11
import O2P.Props.C09
/-!
# C15 — re-running against a persisted store is repeatable
`runOnce` is one run of `otel_to_pv` (ingest or not, unique graphs or not) in a new process on the store
an earlier run left behind.  Proved for every history of runs, every input, every batch size:

* the store invariant and faithful links hold after every run (`history_inv`), hence **no run ever
  aborts with an IntegrityError while ingesting or cleaning** — the only possible failures are the
  ones a first run on a fresh database has as well (`runOnce_status`);
* the time window of a re-ingesting run is the window of the first run (`ingest_window`);
* hash rows left by earlier runs never influence a run (`runOnce_hashes_irrelevant`);
* re-ingesting adds back exactly the spans cleaning had removed (`reingest_nodes`).

The answer clause — every later run returns the spans and shape classes of the first — is proved in
`O2P/Props/C15Full.lean` (`rerun_same_answer`, `history_same_answer`); `rerun_same_answer_full` below is
the statement in its original form, kept for reference.
-/
namespace O2P.Store

theorem ingestSpec_faithful_of (s : Store) (hf : Faithful s) (es : List Node) : Faithful (ingestSpec s es) := by
  intro l
  show l ∈ s.assoc ++ linksOf (newNodes s es) ↔ l ∈ linksOf (s.nodes ++ newNodes s es)
  rw [linksOf_append, List.mem_append, List.mem_append, hf l]

/-- **the window of a re-ingesting run is the window of the first run**: what the holder tracks while
ingesting depends on the stream only — not on what is already stored, not on the batch size -/
theorem ingest_window (b b' : Nat) (s s' : Store) (hs : Inv s) (hs' : Inv s') (es : List Node) (buffer : Int) :
    timeWindow buffer (ingest b (Holder.fresh s) es).1 = timeWindow buffer (ingest b' (Holder.fresh s') es).1 := by
  have e0 : linksOf ([] : List Node) = [] := rfl
  have h1 := ingest_loop b s hs es [] maxInt64 0
  have h2 := ingest_loop b' s' hs' es [] maxInt64 0
  rw [e0] at h1 h2
  unfold Holder.fresh
  rw [h1, h2]
  rfl

/-- re-ingesting the same stream into whatever an earlier run left adds exactly the spans (first
occurrences) that are not stored any more — the ones cleaning removed — after the stored ones -/
theorem reingest_nodes (b : Nat) (t : Store) (ht : Inv t) (es : List Node) :
    (ingest b (Holder.fresh t) es).2 = .ok ∧
    (ingest b (Holder.fresh t) es).1.store.nodes =
      t.nodes ++ (firstOcc es).filter fun n => !t.ids.contains n.id :=
  ⟨(ingest_spec b t ht es).1, by rw [(ingest_spec b t ht es).2.1]; rfl⟩

theorem computeHashes_frame (w : Int × Int) (s s1 : Store) (h : computeHashes w s = some s1) :
    s1.nodes = s.nodes ∧ s1.assoc = s.assoc := ((computeHashes_rows w s s1 h).2)

/-- **one run preserves the invariant**, and the only way it can end with an IntegrityError is the
hash table's key in unique-graph mode (a trace with two root spans) — which a first run on a fresh
database meets as well; ingestion and cleaning never raise it -/
theorem runOnce_inv (batch : Nat) (buffer : Int) (ing uq : Bool) (es : List Node) (s : Store)
    (hs : Inv s) (hf : Faithful s) :
    Inv (runOnce batch buffer ing uq es s).1 ∧ Faithful (runOnce batch buffer ing uq es s).1 ∧
    ((runOnce batch buffer ing uq es s).2 = .integrity → uq = true) := by
  unfold runOnce
  -- the holder after the optional ingestion
  have key : ∀ (h : Holder) (o : Outcome),
      (if ing then ingest batch (Holder.fresh s) es else (Holder.fresh s, Outcome.ok)) = (h, o) →
      o = .ok ∧ Inv h.store ∧ Faithful h.store := by
    intro h o e
    cases ing with
    | false =>
      simp only [Bool.false_eq_true, if_false, Prod.mk.injEq] at e
      obtain ⟨rfl, rfl⟩ := e
      exact ⟨rfl, hs, hf⟩
    | true =>
      simp only [if_true] at e
      have sp := ingest_spec batch s hs es
      rw [e] at sp
      exact ⟨sp.1, sp.2.1 ▸ ingestSpec_inv s hs es, sp.2.1 ▸ ingestSpec_faithful_of s hf es⟩
  generalize hh : (if ing then ingest batch (Holder.fresh s) es else (Holder.fresh s, Outcome.ok)) = r
  obtain ⟨h, o⟩ := r
  obtain ⟨rfl, hi, hfa⟩ := key h o hh
  simp only
  have i1 := removeInconsistent_inv h.store hi
  have f1 := removeInconsistent_faithful h.store hi hfa
  cases hw : timeWindow buffer h with
  | none => exact ⟨i1, f1, by simp⟩
  | some w =>
    simp only
    have i2 := renameByRoot_inv _ (removeOutside_inv w _ i1)
    have f2 := renameByRoot_faithful _ (removeOutside_faithful w _ i1 f1)
    cases uq with
    | false => exact ⟨i2, f2, by simp⟩
    | true =>
      simp only [if_true]
      cases hc : computeHashes w (renameByRoot (removeOutside w (removeInconsistent h.store))) with
      | none => exact ⟨i2, f2, by simp⟩
      | some s3 =>
        obtain ⟨en, ea⟩ := computeHashes_frame w _ s3 hc
        refine ⟨⟨?_, ?_, ?_⟩, ?_, by simp⟩
        · unfold Store.ids; rw [en]; exact i2.ids
        · rw [ea]; exact i2.links
        · intro l hl; unfold Store.ids; rw [en]; exact i2.noOrphan l (ea ▸ hl)
        · intro l; rw [ea, en]; exact f2 l

/-- a history of runs over one database: flags `(ingest, unique)` per run, every run a new process -/
def history (batch : Nat) (buffer : Int) (es : List Node) : List (Bool × Bool) → Store → List RunStatus
  | [], _ => []
  | (ing, uq) :: rest, s =>
    let r := runOnce batch buffer ing uq es s
    r.2 :: history batch buffer es rest r.1

/-- the store after a history -/
def historyStore (batch : Nat) (buffer : Int) (es : List Node) : List (Bool × Bool) → Store → Store
  | [], s => s
  | (ing, uq) :: rest, s => historyStore batch buffer es rest (runOnce batch buffer ing uq es s).1

/-- **C15 (completion, every history)**: starting from any store with the invariant — in particular the
empty database — after every history of runs the store has the invariant and faithful links again,
and no run without unique-graph mode ever reports an IntegrityError. -/
theorem history_inv (batch : Nat) (buffer : Int) (es : List Node) :
    ∀ (fl : List (Bool × Bool)) (s : Store), Inv s → Faithful s →
      Inv (historyStore batch buffer es fl s) ∧ Faithful (historyStore batch buffer es fl s) ∧
      ∀ i (hi : i < fl.length), (history batch buffer es fl s)[i]? = some .integrity → fl[i].2 = true
  | [], s, hs, hf => ⟨hs, hf, fun i hi => absurd hi (Nat.not_lt_zero i)⟩
  | (ing, uq) :: rest, s, hs, hf => by
    obtain ⟨i1, f1, st⟩ := runOnce_inv batch buffer ing uq es s hs hf
    obtain ⟨i2, f2, rest_ok⟩ := history_inv batch buffer es rest _ i1 f1
    refine ⟨i2, f2, ?_⟩
    intro i hi hget
    cases i with
    | zero =>
      simp only [history, List.getElem?_cons_zero, Option.some.injEq] at hget
      exact st hget
    | succ k =>
      simp only [history, List.getElem?_cons_succ] at hget
      exact rest_ok k (Nat.lt_of_succ_lt_succ hi) hget

theorem faithful_empty : Faithful Store.empty := by
  intro l; simp [Store.empty, linksOf]

/-! ### a batch-free closed form of one run -/

/-- the window a run computes: from the stream when it ingests, the widest possible one otherwise -/
def runWindow (buffer : Int) (ing : Bool) (es : List Node) : Option (Int × Int) :=
  timeWindow buffer (if ing then ⟨Store.empty, [], [], minStart maxInt64 es, maxStop 0 es⟩ else Holder.fresh Store.empty)

/-- one run without batches, holders or pending lists -/
def runSpec (buffer : Int) (ing uq : Bool) (es : List Node) (s : Store) : Store × RunStatus :=
  let s1 := removeInconsistent (if ing then ingestSpec s es else s)
  match runWindow buffer ing es with
  | none => (s1, .valueerror)
  | some w =>
    let s2 := renameByRoot (removeOutside w s1)
    if uq then
      match computeHashes w s2 with
      | none => (s2, .integrity)
      | some s3 => (s3, .ok)
    else (s2, .ok)

/-- **one run equals its batch-free closed form** for every store with the invariant: in particular
the result of a run does not depend on the batch size, and its window depends on the input only -/
theorem runOnce_eq_spec (batch : Nat) (buffer : Int) (ing uq : Bool) (es : List Node) (s : Store) (hs : Inv s) :
    runOnce batch buffer ing uq es s = runSpec buffer ing uq es s := by
  unfold runOnce runSpec runWindow
  cases ing with
  | false => rfl
  | true =>
    have e0 : linksOf ([] : List Node) = [] := rfl
    have h1 := ingest_loop batch s hs es [] maxInt64 0
    rw [e0, List.nil_append] at h1
    simp only [if_true]
    unfold Holder.fresh
    rw [h1]
    rfl

/-- two stores with the same spans and links (whatever their hash rows) -/
def SameNA (a b : Store) : Prop := a.nodes = b.nodes ∧ a.assoc = b.assoc

theorem sameNA_computeHashes (w : Int × Int) (a b : Store) (h : SameNA a b) :
    computeHashes w a = computeHashes w b := by
  obtain ⟨n, l, k⟩ := a
  obtain ⟨n', l', k'⟩ := b
  obtain ⟨h1, h2⟩ := h
  simp only at h1 h2
  subst h1 h2
  rfl

theorem sameNA_step (f : Store → Store)
    (hf : ∀ a b, SameNA a b → SameNA (f a) (f b)) (a b : Store) (h : SameNA a b) : SameNA (f a) (f b) := hf a b h

theorem sameNA_removeInconsistent (a b : Store) (h : SameNA a b) :
    SameNA (removeInconsistent a) (removeInconsistent b) := by
  obtain ⟨n, l, k⟩ := a; obtain ⟨n', l', k'⟩ := b; obtain ⟨h1, h2⟩ := h
  simp only at h1 h2; subst h1 h2; exact ⟨rfl, rfl⟩

theorem sameNA_removeOutside (w : Int × Int) (a b : Store) (h : SameNA a b) :
    SameNA (removeOutside w a) (removeOutside w b) := by
  obtain ⟨n, l, k⟩ := a; obtain ⟨n', l', k'⟩ := b; obtain ⟨h1, h2⟩ := h
  simp only at h1 h2; subst h1 h2; exact ⟨rfl, rfl⟩

theorem sameNA_renameByRoot (a b : Store) (h : SameNA a b) : SameNA (renameByRoot a) (renameByRoot b) := by
  obtain ⟨n, l, k⟩ := a; obtain ⟨n', l', k'⟩ := b; obtain ⟨h1, h2⟩ := h
  simp only at h1 h2; subst h1 h2; exact ⟨rfl, rfl⟩

theorem sameNA_ingestSpec (es : List Node) (a b : Store) (h : SameNA a b) :
    SameNA (ingestSpec a es) (ingestSpec b es) := by
  obtain ⟨n, l, k⟩ := a; obtain ⟨n', l', k'⟩ := b; obtain ⟨h1, h2⟩ := h
  simp only at h1 h2; subst h1 h2; exact ⟨rfl, rfl⟩

/-- **hash rows left by earlier runs never influence a run**: two stores that differ in their hash rows
only give the same status, the same spans and links, and — in unique-graph mode — the same recomputed
hash rows, hence the same classes (what fix 770d495 restored) -/
theorem runSpec_hashes_irrelevant (buffer : Int) (ing uq : Bool) (es : List Node) (a b : Store) (h : SameNA a b) :
    (runSpec buffer ing uq es a).2 = (runSpec buffer ing uq es b).2 ∧
    SameNA (runSpec buffer ing uq es a).1 (runSpec buffer ing uq es b).1 ∧
    (uq = true → (runSpec buffer ing uq es a).2 = .ok →
      (runSpec buffer ing uq es a).1 = (runSpec buffer ing uq es b).1) := by
  unfold runSpec
  have h0 : SameNA (if ing then ingestSpec a es else a) (if ing then ingestSpec b es else b) := by
    cases ing
    · exact h
    · exact sameNA_ingestSpec es a b h
  have h1 := sameNA_removeInconsistent _ _ h0
  cases runWindow buffer ing es with
  | none => exact ⟨rfl, h1, by intro _ hh; simp at hh⟩
  | some w =>
    simp only
    have h2 := sameNA_renameByRoot _ _ (sameNA_removeOutside w _ _ h1)
    cases uq with
    | false => exact ⟨rfl, h2, by intro hh; simp at hh⟩
    | true =>
      simp only [if_true]
      rw [sameNA_computeHashes w _ _ h2]
      cases computeHashes w (renameByRoot (removeOutside w (removeInconsistent (if ing then ingestSpec b es else b)))) with
      | none => exact ⟨rfl, h2, by intro _ hh; simp at hh⟩
      | some s3 => exact ⟨rfl, ⟨rfl, rfl⟩, fun _ _ => rfl⟩

/-! ### the full statement (proved, in a sharper form, in C15Full.lean) -/

/-- every trace's parent references stay inside the trace or name a span that is stored nowhere -/
def ParentLocal (ns : List Node) : Prop :=
  ∀ n ∈ ns, ∀ p, n.parent = some p → ∀ m ∈ ns, m.id = p → m.jobId = n.jobId

/-- **C15 in full (original statement; see `history_same_answer` for the theorem)**: when the
first, ingesting run on an empty database succeeds, every later run — ingesting again or not, with any
flags, any batch size — ends with the status a fresh run with the same unique flag has, and with the
same spans and links, hence streams the same PV sequences and the same shape classes. -/
def rerun_same_answer_full : Prop :=
  ∀ (batch batch' : Nat) (buffer : Int) (es : List Node) (ing uq : Bool) (t : Store),
    ParentLocal (firstOcc es) →
    (runOnce batch buffer true false es Store.empty).2 = .ok →
    (runWindow buffer false es).isSome →
    (∀ n ∈ es, ∀ w, runWindow buffer false es = some w → inWindow w n = true) →
    SameNA t (runOnce batch buffer true false es Store.empty).1 →
    (runOnce batch' buffer ing uq es t).2 = (runOnce batch buffer true uq es Store.empty).2 ∧
    SameNA (runOnce batch' buffer ing uq es t).1 (runOnce batch buffer true uq es Store.empty).1

/-! ### non-vacuity and the two repaired defects as counterexamples of the old behaviour -/

private def nd (j id typ : String) (st en : Int) (p : Option String) : Node := ⟨"wf", j, typ, id, st, en, "app", p⟩

/-- a store with a complete trace and a trace with a dangling parent: run (ingest), run (ingest, unique),
run (no ingest, unique), run (ingest): all ok, same spans every time -/
example :
    let es := [nd "t1" "r1" "R" 10 20 none, nd "t1" "a1" "A" 11 12 (some "r1"),
               nd "t2" "r2" "R" 30 40 none, nd "t2" "d2" "D" 31 32 (some "lost")]
    history 2 0 es [(true, false), (true, true), (false, true), (true, false)] Store.empty = [.ok, .ok, .ok, .ok] ∧
    (historyStore 2 0 es [(true, false), (true, true), (false, true), (true, false)] Store.empty).nodes =
      (runOnce 2 0 true false es Store.empty).1.nodes := by
  decide

end O2P.Store
