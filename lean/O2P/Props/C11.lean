import O2P.Props.C10
/-!
# C11 — cleaning removes exactly the broken or out-of-window traces
`remove_inconsistent_jobs`, `remove_jobs_outside_of_time_window`, `update_job_names_by_root_span`
(model: `O2P.Store.removeInconsistent`, `removeOutside`, `renameByRoot`) for every store whose links are
the parent fields of its spans (what `ingest_spec` establishes), every window.
-/
namespace O2P.Store

/-- the link table is exactly the parent fields of the stored spans (as a set) -/
def Faithful (s : Store) : Prop := ∀ l, l ∈ s.assoc ↔ l ∈ linksOf s.nodes

theorem mem_linksOf (ns : List Node) (l : Link) :
    l ∈ linksOf ns ↔ ∃ n ∈ ns, n.parent = some l.1 ∧ n.id = l.2 := by
  unfold linksOf
  rw [List.mem_filterMap]
  constructor
  · rintro ⟨n, hn, h⟩
    refine ⟨n, hn, ?_⟩
    unfold linkOf at h
    cases hp : n.parent with
    | none => rw [hp] at h; simp at h
    | some p =>
      rw [hp] at h
      simp only [Option.map_some, Option.some.injEq] at h
      subst h
      exact ⟨rfl, rfl⟩
  · rintro ⟨n, hn, h1, h2⟩
    refine ⟨n, hn, ?_⟩
    unfold linkOf
    rw [h1]
    simp only [Option.map_some, h2]

theorem eq_of_id_eq : ∀ (l : List Node), (l.map (·.id)).Nodup → ∀ a ∈ l, ∀ b ∈ l, a.id = b.id → a = b
  | [], _, a, ha, _, _, _ => by simp at ha
  | x :: xs, h, a, ha, b, hb, e => by
    simp only [List.map_cons, List.nodup_cons] at h
    rcases List.mem_cons.mp ha with rfl | ha'
    · rcases List.mem_cons.mp hb with rfl | hb'
      · rfl
      · exact absurd (e ▸ List.mem_map.mpr ⟨b, hb', rfl⟩) h.1
    · rcases List.mem_cons.mp hb with rfl | hb'
      · exact absurd (e ▸ List.mem_map.mpr ⟨a, ha', rfl⟩) h.1
      · exact eq_of_id_eq xs h.2 a ha' b hb' e

/-! ### broken traces -/

/-- the span names a parent that is not stored -/
def danglingNode (s : Store) (n : Node) : Bool :=
  match n.parent with
  | some p => !s.ids.contains p
  | none => false

/-- the trace `j` owns a span whose parent is missing from the store -/
def hasDangling (s : Store) (j : String) : Bool := s.nodes.any fun n => n.jobId == j && danglingNode s n

theorem badJobs_iff (s : Store) (hs : Inv s) (hf : Faithful s) (j : String) :
    (((s.nodes.filter fun n => (s.assoc.filter fun l => !s.ids.contains l.1).any (·.2 == n.id)).map (·.jobId)).contains j)
      = hasDangling s j := by
  rw [Bool.eq_iff_iff]
  simp only [List.contains_iff_mem, List.mem_map, List.mem_filter, List.any_eq_true, hasDangling,
    Bool.and_eq_true, beq_iff_eq, Bool.not_eq_true', decide_eq_true_eq]
  constructor
  · rintro ⟨m, ⟨hm, l, ⟨hl, hl1⟩, hl2⟩, rfl⟩
    refine ⟨m, hm, rfl, ?_⟩
    obtain ⟨m', hm', hp, hid⟩ := (mem_linksOf _ _).mp ((hf l).mp hl)
    have : m' = m := eq_of_id_eq s.nodes hs.ids m' hm' m hm (hid.trans hl2)
    subst this
    unfold danglingNode
    rw [hp]
    simpa using hl1
  · rintro ⟨m, hm, rfl, hd⟩
    refine ⟨m, ⟨hm, ?_⟩, rfl⟩
    unfold danglingNode at hd
    cases hp : m.parent with
    | none => rw [hp] at hd; simp at hd
    | some p =>
      rw [hp] at hd
      refine ⟨(p, m.id), ⟨(hf _).mpr ((mem_linksOf _ _).mpr ⟨m, hm, hp, rfl⟩), ?_⟩, rfl⟩
      simpa using hd

/-- **C11a**: `remove_inconsistent_jobs` keeps exactly the spans of the traces none of whose spans
names a missing parent; every kept span is kept unchanged and in place. -/
theorem removeInconsistent_spec (s : Store) (hs : Inv s) (hf : Faithful s) :
    (removeInconsistent s).nodes = s.nodes.filter fun n => !hasDangling s n.jobId := by
  unfold removeInconsistent
  simp only
  apply List.filter_congr
  intro n _
  rw [badJobs_iff s hs hf]

/-! ### traces outside the window -/

/-- the trace `j` has a span that starts or ends inside the closed window -/
def touchesWindow (w : Int × Int) (s : Store) (j : String) : Bool :=
  s.nodes.any fun n => n.jobId == j && inWindow w n

/-- **C11b**: `remove_jobs_outside_of_time_window` keeps exactly the spans of the traces with a span
start or end inside the closed window. -/
theorem removeOutside_spec (w : Int × Int) (s : Store) :
    (removeOutside w s).nodes = s.nodes.filter fun n => touchesWindow w s n.jobId := by
  unfold removeOutside
  simp only
  apply List.filter_congr
  intro n _
  rw [Bool.eq_iff_iff]
  simp only [jobsInWindow, touchesWindow, List.contains_iff_mem, List.mem_map, List.mem_filter,
    List.any_eq_true, Bool.and_eq_true, beq_iff_eq]
  constructor
  · rintro ⟨m, ⟨hm, hw⟩, e⟩
    exact ⟨m, hm, e, hw⟩
  · rintro ⟨m, hm, e, hw⟩
    exact ⟨m, ⟨hm, hw⟩, e⟩

/-- frame condition: both removals decide per trace — two spans of one trace are kept or removed
together, and whatever is kept is a stored span, unchanged -/
theorem removal_whole_traces (p : String → Bool) (ns : List Node) (n m : Node) (hn : n ∈ ns) (hm : m ∈ ns)
    (e : n.jobId = m.jobId) :
    (n ∈ ns.filter fun x => p x.jobId) ↔ (m ∈ ns.filter fun x => p x.jobId) := by
  simp only [List.mem_filter, hn, hm, true_and, e]

/-! ### the invariant and faithfulness survive cleaning -/

theorem ids_filter_nodup (ns : List Node) (p : Node → Bool) (h : (ns.map (·.id)).Nodup) :
    ((ns.filter p).map (·.id)).Nodup := map_filter_nodup p h

theorem dropOrphan_inv (s : Store) (hs : Inv s) (p : Node → Bool) :
    Inv { s with nodes := s.nodes.filter p, assoc := dropOrphanLinks (s.nodes.filter p) s.assoc } := by
  refine ⟨ids_filter_nodup _ _ hs.ids, ?_, ?_⟩
  · exact List.Nodup.sublist List.filter_sublist hs.links
  · intro l hl
    have := (List.mem_filter.mp hl).2
    simp only [List.any_eq_true, beq_iff_eq] at this
    obtain ⟨n, hn, e⟩ := this
    exact e ▸ List.mem_map.mpr ⟨n, hn, rfl⟩

theorem dropOrphan_faithful (s : Store) (hs : Inv s) (hf : Faithful s) (p : Node → Bool) :
    Faithful { s with nodes := s.nodes.filter p, assoc := dropOrphanLinks (s.nodes.filter p) s.assoc } := by
  intro l
  show l ∈ dropOrphanLinks (s.nodes.filter p) s.assoc ↔ l ∈ linksOf (s.nodes.filter p)
  unfold dropOrphanLinks
  rw [List.mem_filter, mem_linksOf, hf l, mem_linksOf]
  simp only [List.any_eq_true, beq_iff_eq]
  constructor
  · rintro ⟨⟨n, hn, h1, h2⟩, m, hm, e⟩
    have hm' := (List.mem_filter.mp hm).1
    have : m = n := eq_of_id_eq s.nodes hs.ids m hm' n hn (e.trans h2.symm)
    subst this
    exact ⟨m, hm, h1, h2⟩
  · rintro ⟨n, hn, h1, h2⟩
    exact ⟨⟨n, (List.mem_filter.mp hn).1, h1, h2⟩, n, hn, h2⟩

theorem removeInconsistent_inv (s : Store) (hs : Inv s) : Inv (removeInconsistent s) := by
  unfold removeInconsistent; exact dropOrphan_inv s hs _

theorem removeInconsistent_faithful (s : Store) (hs : Inv s) (hf : Faithful s) :
    Faithful (removeInconsistent s) := by
  unfold removeInconsistent; exact dropOrphan_faithful s hs hf _

theorem removeOutside_inv (w : Int × Int) (s : Store) (hs : Inv s) : Inv (removeOutside w s) := by
  unfold removeOutside; exact dropOrphan_inv s hs _

theorem removeOutside_faithful (w : Int × Int) (s : Store) (hs : Inv s) (hf : Faithful s) :
    Faithful (removeOutside w s) := by
  unfold removeOutside; exact dropOrphan_faithful s hs hf _

/-! ### renaming by the root span -/

/-- everything about a span except its workflow name -/
def Node.unnamed (n : Node) : Node := { n with jobName := "" }

def renameNode (roots : List Node) (n : Node) : Node :=
  match (roots.reverse.find? (·.jobId == n.jobId)).map (·.jobName) with
  | some nm => { n with jobName := nm }
  | none => n

theorem renameByRoot_nodes (s : Store) :
    (renameByRoot s).nodes = s.nodes.map (renameNode (s.nodes.filter (·.parent.isNone))) := rfl

/-- renaming touches nothing but the workflow name: ids, trace ids, types, times, parents, order and
the link table are as before -/
theorem renameByRoot_frame (s : Store) :
    (renameByRoot s).nodes.map Node.unnamed = s.nodes.map Node.unnamed ∧
    (renameByRoot s).assoc = s.assoc ∧ (renameByRoot s).hashes = s.hashes := by
  refine ⟨?_, rfl, rfl⟩
  rw [renameByRoot_nodes, List.map_map]
  apply List.map_congr_left
  intro n _
  simp only [Function.comp, renameNode]
  split <;> rfl

/-- **C11c**: in a trace with exactly one root span every span carries the root's workflow name
afterwards -/
theorem renameByRoot_spec (s : Store) (j : String) (r : Node)
    (h1 : s.nodes.filter (fun n => n.parent.isNone && n.jobId == j) = [r]) :
    ∀ n ∈ (renameByRoot s).nodes, n.jobId = j → n.jobName = r.jobName := by
  intro n hn hj
  rw [renameByRoot_nodes] at hn
  obtain ⟨m, _, rfl⟩ := List.mem_map.mp hn
  have hmj : m.jobId = j := by
    simp only [renameNode] at hj
    split at hj <;> exact hj
  -- the roots of trace j, in storage order, are [r]
  have hr : (s.nodes.filter (·.parent.isNone)).filter (·.jobId == j) = [r] := by
    rw [List.filter_filter]
    rw [← h1]
    apply List.filter_congr
    intro x _
    exact Bool.and_comm _ _
  have hfind : (s.nodes.filter (·.parent.isNone)).reverse.find? (·.jobId == m.jobId) = some r := by
    rw [hmj]
    have : ((s.nodes.filter (·.parent.isNone)).reverse.filter (·.jobId == j)) = [r] := by
      rw [List.filter_reverse, hr]; rfl
    rw [← List.head?_filter, this]; rfl
  simp only [renameNode, hfind, Option.map_some]

theorem renameByRoot_ids (s : Store) : (renameByRoot s).ids = s.ids := by
  have h := (renameByRoot_frame s).1
  unfold Store.ids
  have : ∀ l : List Node, l.map (·.id) = (l.map Node.unnamed).map (·.id) := by
    intro l; rw [List.map_map]; rfl
  rw [this, h, ← this]

theorem renameByRoot_links (s : Store) : linksOf (renameByRoot s).nodes = linksOf s.nodes := by
  have h := (renameByRoot_frame s).1
  have : ∀ l : List Node, linksOf l = linksOf (l.map Node.unnamed) := by
    intro l
    unfold linksOf
    rw [List.filterMap_map]
    rfl
  rw [this, h, ← this]

theorem renameByRoot_inv (s : Store) (hs : Inv s) : Inv (renameByRoot s) :=
  ⟨by rw [renameByRoot_ids]; exact hs.ids, hs.links, by
    intro l hl; rw [renameByRoot_ids]; exact hs.noOrphan l hl⟩

theorem renameByRoot_faithful (s : Store) (hf : Faithful s) : Faithful (renameByRoot s) := by
  intro l
  rw [renameByRoot_links]
  exact hf l

/-! ### the cleaning pipeline of `otel_to_pv` -/

/-- the fixed cleaning order of `otel_to_pv`, for the window the run computed -/
def clean (w : Int × Int) (s : Store) : Store := renameByRoot (removeOutside w (removeInconsistent s))

/-- **C11d**: cleaning leaves a store that again has the invariant and faithful links (so that
re-ingesting and streaming theorems apply to it — what fix d755109 restored) -/
theorem clean_inv (w : Int × Int) (s : Store) (hs : Inv s) (hf : Faithful s) :
    Inv (clean w s) ∧ Faithful (clean w s) := by
  have i1 := removeInconsistent_inv s hs
  have f1 := removeInconsistent_faithful s hs hf
  exact ⟨renameByRoot_inv _ (removeOutside_inv w _ i1),
    renameByRoot_faithful _ (removeOutside_faithful w _ i1 f1)⟩

/-- a store produced by ingestion from the empty store has faithful links -/
theorem ingestSpec_faithful (es : List Node) : Faithful (ingestSpec Store.empty es) := by
  intro l
  simp [ingestSpec, Store.empty]

/-! ### non-interference: removed traces leave no trace -/

/-- the store without the traces selected by `bad` -/
def without (bad : String → Bool) (s : Store) : Store :=
  { s with nodes := s.nodes.filter fun n => !bad n.jobId,
           assoc := dropOrphanLinks (s.nodes.filter fun n => !bad n.jobId) s.assoc }

theorem filter_job_any (ns : List Node) (bad : String → Bool) (q : Node → Bool) (j : String) (hj : bad j = false) :
    ((ns.filter fun n => !bad n.jobId).any fun n => n.jobId == j && q n) =
      ns.any fun n => n.jobId == j && q n := by
  rw [Bool.eq_iff_iff]
  simp only [List.any_eq_true, List.mem_filter, Bool.and_eq_true, beq_iff_eq, Bool.not_eq_true']
  constructor
  · rintro ⟨n, ⟨hn, _⟩, h⟩; exact ⟨n, hn, h⟩
  · rintro ⟨n, hn, e, h⟩; exact ⟨n, ⟨hn, e ▸ hj⟩, e, h⟩

/-- no span of a kept trace names a span of a `bad` trace as its parent -/
def ParentsAvoid (bad : String → Bool) (s : Store) : Prop :=
  ∀ n ∈ s.nodes, bad n.jobId = false → ∀ p, n.parent = some p →
    ∀ m ∈ s.nodes, m.id = p → bad m.jobId = false

theorem hasDangling_without (bad : String → Bool) (s : Store) (hp : ParentsAvoid bad s) (j : String)
    (hj : bad j = false) : hasDangling (without bad s) j = hasDangling s j := by
  unfold hasDangling
  show ((s.nodes.filter fun n => !bad n.jobId).any fun n => n.jobId == j && danglingNode (without bad s) n) = _
  rw [Bool.eq_iff_iff]
  simp only [List.any_eq_true, List.mem_filter, Bool.and_eq_true, beq_iff_eq, Bool.not_eq_true']
  have key : ∀ n ∈ s.nodes, bad n.jobId = false → danglingNode (without bad s) n = danglingNode s n := by
    intro n hn hb
    unfold danglingNode
    cases hpn : n.parent with
    | none => rfl
    | some p =>
      simp only
      congr 1
      rw [Bool.eq_iff_iff]
      simp only [List.contains_iff_mem, Store.ids, without, List.mem_map, List.mem_filter, Bool.not_eq_true']
      constructor
      · rintro ⟨m, ⟨hm, _⟩, e⟩; exact ⟨m, hm, e⟩
      · rintro ⟨m, hm, e⟩; exact ⟨m, ⟨hm, hp n hn hb p hpn m hm e⟩, e⟩
  constructor
  · rintro ⟨n, ⟨hn, hb⟩, e, hd⟩
    exact ⟨n, hn, e, (key n hn hb) ▸ hd⟩
  · rintro ⟨n, hn, e, hd⟩
    have hb : bad n.jobId = false := e ▸ hj
    exact ⟨n, ⟨hn, hb⟩, e, (key n hn hb).symm ▸ hd⟩

/-- the two removals, before renaming -/
def removals (w : Int × Int) (s : Store) : Store := removeOutside w (removeInconsistent s)

theorem removals_nodes (w : Int × Int) (s : Store) (hs : Inv s) (hf : Faithful s) :
    (removals w s).nodes = s.nodes.filter fun n =>
      !hasDangling s n.jobId &&
        (s.nodes.filter fun m => !hasDangling s m.jobId).any fun m => m.jobId == n.jobId && inWindow w m := by
  unfold removals
  rw [removeOutside_spec, removeInconsistent_spec s hs hf, List.filter_filter]
  apply List.filter_congr
  intro n _
  rw [Bool.and_comm]
  unfold touchesWindow
  rw [removeInconsistent_spec s hs hf]

theorem without_inv (bad : String → Bool) (s : Store) (hs : Inv s) : Inv (without bad s) :=
  dropOrphan_inv s hs _

theorem without_faithful (bad : String → Bool) (s : Store) (hs : Inv s) (hf : Faithful s) :
    Faithful (without bad s) := dropOrphan_faithful s hs hf _

/-- **C11e (non-interference)**: let `bad` select traces all of which the two removals delete, and let
no kept span name a span of a `bad` trace as parent. Then cleaning the store gives exactly the spans
(ids, names, fields, order) that cleaning gives on the store that never held the `bad` traces — so
whatever is streamed and sequenced afterwards is identical. -/
theorem clean_noninterference (w : Int × Int) (s : Store) (hs : Inv s) (hf : Faithful s)
    (bad : String → Bool) (hp : ParentsAvoid bad s)
    (hrem : ∀ n ∈ (removals w s).nodes, bad n.jobId = false) :
    (clean w s).nodes = (clean w (without bad s)).nodes := by
  have hrm : (removals w s).nodes = (removals w (without bad s)).nodes := by
    have e1 := removals_nodes w s hs hf
    have e2 := removals_nodes w (without bad s) (without_inv bad s hs) (without_faithful bad s hs hf)
    rw [e2]
    show _ = ((s.nodes.filter fun n => !bad n.jobId).filter _)
    rw [List.filter_filter]
    -- the predicate on the right agrees with the one on the left on good traces and is false on bad ones
    have pred : ∀ n ∈ s.nodes, bad n.jobId = false →
        (!hasDangling (without bad s) n.jobId &&
          ((without bad s).nodes.filter fun m => !hasDangling (without bad s) m.jobId).any
            fun m => m.jobId == n.jobId && inWindow w m) =
        (!hasDangling s n.jobId &&
          (s.nodes.filter fun m => !hasDangling s m.jobId).any fun m => m.jobId == n.jobId && inWindow w m) := by
      intro n _ hb
      rw [hasDangling_without bad s hp n.jobId hb]
      congr 1
      show (((s.nodes.filter fun n => !bad n.jobId).filter fun m => !hasDangling (without bad s) m.jobId).any _) = _
      rw [Bool.eq_iff_iff]
      simp only [List.any_eq_true, List.mem_filter, Bool.and_eq_true, beq_iff_eq, Bool.not_eq_true']
      constructor
      · rintro ⟨m, ⟨⟨hm, hbm⟩, hd⟩, e, hw⟩
        exact ⟨m, ⟨hm, (hasDangling_without bad s hp m.jobId hbm) ▸ hd⟩, e, hw⟩
      · rintro ⟨m, ⟨hm, hd⟩, e, hw⟩
        have hbm : bad m.jobId = false := e ▸ hb
        exact ⟨m, ⟨⟨hm, hbm⟩, (hasDangling_without bad s hp m.jobId hbm).symm ▸ hd⟩, e, hw⟩
    rw [e1]
    apply List.filter_congr
    intro n hn
    cases hb : bad n.jobId with
    | false => simp only [Bool.not_false, Bool.and_true]; exact (pred n hn hb).symm
    | true =>
      simp only [Bool.not_true, Bool.and_false]
      -- a bad trace is removed by hypothesis
      cases hq : (!hasDangling s n.jobId &&
          (s.nodes.filter fun m => !hasDangling s m.jobId).any fun m => m.jobId == n.jobId && inWindow w m) with
      | false => rfl
      | true =>
        have : n ∈ (removals w s).nodes := by rw [e1]; exact List.mem_filter.mpr ⟨hn, hq⟩
        rw [hrem n this] at hb
        exact absurd hb (by decide)
  unfold clean
  show (renameByRoot (removals w s)).nodes = (renameByRoot (removals w (without bad s))).nodes
  rw [renameByRoot_nodes, renameByRoot_nodes, hrm]

/-- ingesting a stream without the spans of `bad` traces gives the store `without bad`, when no id is
shared between a kept and a `bad` span -/
theorem firstOcc_filter (p : Node → Bool) : ∀ (es : List Node),
    (∀ a ∈ es, ∀ b ∈ es, a.id = b.id → p a = p b) →
    firstOcc (es.filter p) = (firstOcc es).filter p
  | [], _ => rfl
  | e :: es, h => by
    have ih := firstOcc_filter p es (fun a ha b hb => h a (List.mem_cons_of_mem _ ha) b (List.mem_cons_of_mem _ hb))
    by_cases hp : p e = true
    · simp only [List.filter_cons, hp, ite_true, firstOcc, ih, List.filter_filter]
      congr 1
      apply List.filter_congr
      intro x _
      exact Bool.and_comm _ _
    · have hpf : p e = false := by simpa using hp
      have e1 : (e :: es).filter p = es.filter p := by simp [hpf]
      rw [e1, ih]
      have e2 : (firstOcc (e :: es)).filter p = ((firstOcc es).filter (·.id != e.id)).filter p := by
        simp [firstOcc, hpf]
      rw [e2, List.filter_filter]
      apply List.filter_congr
      intro x hx
      -- x is a later span; if it shares e's id it is dropped on both sides because p x = p e = false
      by_cases hid : x.id = e.id
      · have hxes : x ∈ es := firstOcc_sub es x hx
        have := h x (List.mem_cons_of_mem _ hxes) e (List.mem_cons_self) hid
        simp [this, hpf]
      · have : (x.id != e.id) = true := by simpa using hid
        simp [this]
where
  firstOcc_sub : ∀ (l : List Node) (x : Node), x ∈ firstOcc l → x ∈ l
    | [], _, h => by simp [firstOcc] at h
    | n :: ns, x, h => by
      simp only [firstOcc, List.mem_cons, List.mem_filter] at h
      rcases h with rfl | ⟨h, _⟩
      · exact List.mem_cons_self
      · exact List.mem_cons_of_mem _ (firstOcc_sub ns x h)

theorem ingest_without (bad : String → Bool) (es : List Node)
    (hid : ∀ a ∈ es, ∀ b ∈ es, a.id = b.id → bad a.jobId = bad b.jobId) :
    (ingestSpec Store.empty (es.filter fun n => !bad n.jobId)).nodes =
      (without bad (ingestSpec Store.empty es)).nodes := by
  have h := firstOcc_filter (fun n => !bad n.jobId) es (fun a ha b hb e => by
    simp only [hid a ha b hb e])
  simp only [ingestSpec, newNodes, Store.empty, Store.ids, List.map_nil, List.contains_nil, Bool.not_false,
    List.nil_append, without]
  rw [List.filter_eq_self.mpr (fun _ _ => rfl), List.filter_eq_self.mpr (fun _ _ => rfl), h]

/-! ### non-vacuity -/

/-- a store with a complete trace `j1` inside the window, a trace `j2` with a dangling parent, a
trace `j3` outside the window and a root/child name mismatch in `j1`: only `j1` survives, renamed -/
example :
    let a : Node := ⟨"N", "j1", "A", "a", 10, 20, "app", none⟩
    let b : Node := ⟨"M", "j1", "B", "b", 12, 18, "app", some "a"⟩
    let c : Node := ⟨"N", "j2", "C", "c", 10, 20, "app", some "zz"⟩
    let d : Node := ⟨"N", "j3", "D", "d", 100, 200, "app", none⟩
    let s := ingestSpec Store.empty [a, b, c, d]
    (clean (0, 50) s).nodes = [a, { b with jobName := "N" }] ∧ (clean (0, 50) s).assoc = [("a", "b")] := by
  decide

end O2P.Store
