import O2P.Lemmas.IsoB
/-!
# C01 — the learned diagram accepts every job it was learned from (partial)
The learner is not modelled.  What is proved is about the judge: the semantics only produces well-formed
jobs over the definition's event names (`runs_types`, `runs_wellformed`), the isomorphism search is sound
and complete (`isoB_sound`, `isoB_complete`), so acceptance is exactly "the job is isomorphic to an execution
of the definition" (`accepts_iff_iso`: a rejection is never the search's fault), and a text the parser accepts
has `break`/`detach` only at the end of a branch (`parse_ok_tail`).  The property itself is `C01_full`,
decided on generated definitions by the correspondence runs.
-/
namespace O2P.Diagram

/-- **C01 in full (statement only)**: `learn` stands for `pv_to_puml_string` (a relation: container
order makes it non-deterministic).  For every definition of the fragment and every `k`, whatever text
the learner emits for the complete job set parses and accepts each of those jobs. -/
def C01_full (inF : Blk → Prop) (learn : List Job → String → Prop) : Prop :=
  ∀ d, inF d → ∀ k, ∀ text, learn (runs k d) text →
    ∃ d', parse text = .ok d' ∧ ∀ j ∈ runs k d, accepts k d' j = true

theorem accepts_iff (k : Nat) (d : Blk) (j : Job) :
    accepts k d j = true ↔ ∃ r ∈ runs k d, r.length = j.length ∧ typeKey r = typeKey j ∧ isoB r j = true := by
  unfold accepts
  simp only [List.any_eq_true, Bool.and_eq_true, beq_iff_eq]
  constructor
  · rintro ⟨r, hr, ⟨h1, h2⟩, h3⟩; exact ⟨r, hr, h1, h2, h3⟩
  · rintro ⟨r, hr, h1, h2, h3⟩; exact ⟨r, hr, ⟨h1, h2⟩, h3⟩

/-- a parsed text has `break`/`detach` only as the last item of a branch -/
theorem parse_ok_tail (text : String) (d : Blk) (h : parse text = .ok d) : tailOk d = true := by
  unfold parse at h
  split at h
  · exact absurd h (by simp)
  · rename_i d' _
    split at h
    · rename_i ht
      have : d' = d := by injection h
      rw [← this]; exact ht
    · exact absurd h (by simp)

/-! ### non-vacuity -/

example : (runs 2 (.seq [.ev "A", .loop (.seq [.ev "B"])])).length = 2 := by decide +kernel

example : accepts 2 (.seq [.ev "A", .fork .and [.seq [.ev "B"], .seq [.ev "C"]], .ev "D"])
    [⟨7, "A", []⟩, ⟨9, "C", [7]⟩, ⟨8, "B", [7]⟩, ⟨3, "D", [9, 8]⟩] = true := by decide +kernel

end O2P.Diagram
