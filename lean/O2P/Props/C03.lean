import O2P.Lemmas.LearnAlg
/-!
# C03 — the learned model is independent of order, identifiers and repeats (ingestion half)
For every list of jobs: permuting the jobs, permuting the events inside a job, renaming event and job
ids (timestamps do not occur in the model at all), or supplying a job twice gives an equivalent model —
the same event types with the same families of successor / predecessor multisets.  What happens after
ingestion (gate inference, loop detection, the walk) is a function of that model executed over Python
sets; its independence of container order is *not* proved here (see `C03_walk_full`), it is validated
by the correspondence runs over presentations and hash seeds.
-/
namespace O2P.Learn

open List in
/-- **C03a**: permuting the jobs -/
theorem ingest_perm (m : Model) {jobs jobs' : List (List PV)} (h : jobs ~ jobs') :
    Equiv (ingest m jobs) (ingest m jobs') :=
  ingest_equiv_of_same_obs m jobs jobs'
    (fun _ => ⟨fun ⟨j, hj, r⟩ => ⟨j, h.subset hj, r⟩, fun ⟨j, hj, r⟩ => ⟨j, h.symm.subset hj, r⟩⟩)
    (fun _ _ => ⟨fun ⟨j, hj, r⟩ => ⟨j, h.subset hj, r⟩, fun ⟨j, hj, r⟩ => ⟨j, h.symm.subset hj, r⟩⟩)
    (fun _ _ => ⟨fun ⟨j, hj, r⟩ => ⟨j, h.subset hj, r⟩, fun ⟨j, hj, r⟩ => ⟨j, h.symm.subset hj, r⟩⟩)

/-- **C03b**: supplying jobs again (any list with the same members, e.g. one job twice) -/
theorem ingest_same_members (m : Model) (jobs jobs' : List (List PV)) (h : ∀ j, j ∈ jobs ↔ j ∈ jobs') :
    Equiv (ingest m jobs) (ingest m jobs') :=
  ingest_equiv_of_same_obs m jobs jobs'
    (fun _ => ⟨fun ⟨j, hj, r⟩ => ⟨j, (h j).mp hj, r⟩, fun ⟨j, hj, r⟩ => ⟨j, (h j).mpr hj, r⟩⟩)
    (fun _ _ => ⟨fun ⟨j, hj, r⟩ => ⟨j, (h j).mp hj, r⟩, fun ⟨j, hj, r⟩ => ⟨j, (h j).mpr hj, r⟩⟩)
    (fun _ _ => ⟨fun ⟨j, hj, r⟩ => ⟨j, (h j).mp hj, r⟩, fun ⟨j, hj, r⟩ => ⟨j, (h j).mpr hj, r⟩⟩)

theorem ingest_idem (m : Model) (jobs : List (List PV)) (j : List PV) (hj : j ∈ jobs) :
    Equiv (ingest m (jobs ++ [j])) (ingest m jobs) :=
  ingest_same_members m _ _ (by
    intro x
    simp only [List.mem_append, List.mem_singleton]
    constructor
    · rintro (h | rfl)
      · exact h
      · exact hj
    · exact Or.inl)

/-! ### inside one job -/

/-- two presentations of one job show the same things -/
def SameObs (job job' : List PV) : Prop :=
  (∀ u, obsType job u ↔ obsType job' u) ∧ (∀ u T, obsOut job u T ↔ obsOut job' u T) ∧
  (∀ u T, obsIn job u T ↔ obsIn job' u T)

theorem ingest_job_congr (m : Model) (pre post : List (List PV)) (job job' : List PV) (h : SameObs job job') :
    Equiv (ingest m (pre ++ job :: post)) (ingest m (pre ++ job' :: post)) := by
  apply ingest_equiv_of_same_obs
  · intro u
    simp only [List.mem_append, List.mem_cons]
    constructor
    · rintro ⟨j, (hj | rfl | hj), r⟩
      · exact ⟨j, Or.inl hj, r⟩
      · exact ⟨job', Or.inr (Or.inl rfl), (h.1 u).mp r⟩
      · exact ⟨j, Or.inr (Or.inr hj), r⟩
    · rintro ⟨j, (hj | rfl | hj), r⟩
      · exact ⟨j, Or.inl hj, r⟩
      · exact ⟨job, Or.inr (Or.inl rfl), (h.1 u).mpr r⟩
      · exact ⟨j, Or.inr (Or.inr hj), r⟩
  · intro u T
    simp only [List.mem_append, List.mem_cons]
    constructor
    · rintro ⟨j, (hj | rfl | hj), r⟩
      · exact ⟨j, Or.inl hj, r⟩
      · exact ⟨job', Or.inr (Or.inl rfl), (h.2.1 u T).mp r⟩
      · exact ⟨j, Or.inr (Or.inr hj), r⟩
    · rintro ⟨j, (hj | rfl | hj), r⟩
      · exact ⟨j, Or.inl hj, r⟩
      · exact ⟨job, Or.inr (Or.inl rfl), (h.2.1 u T).mpr r⟩
      · exact ⟨j, Or.inr (Or.inr hj), r⟩
  · intro u T
    simp only [List.mem_append, List.mem_cons]
    constructor
    · rintro ⟨j, (hj | rfl | hj), r⟩
      · exact ⟨j, Or.inl hj, r⟩
      · exact ⟨job', Or.inr (Or.inl rfl), (h.2.2 u T).mp r⟩
      · exact ⟨j, Or.inr (Or.inr hj), r⟩
    · rintro ⟨j, (hj | rfl | hj), r⟩
      · exact ⟨j, Or.inl hj, r⟩
      · exact ⟨job, Or.inr (Or.inl rfl), (h.2.2 u T).mpr r⟩
      · exact ⟨j, Or.inr (Or.inr hj), r⟩

/-- a job whose event ids are pairwise distinct -/
def DistinctIds (job : List PV) : Prop := (job.map (·.eventId)).Nodup

theorem find_of_mem_distinct : ∀ (job : List PV), DistinctIds job → ∀ e ∈ job,
    job.find? (·.eventId == e.eventId) = some e
  | [], _, e, he => by simp at he
  | x :: xs, hd, e, he => by
    unfold DistinctIds at hd
    simp only [List.map_cons, List.nodup_cons] at hd
    rcases List.mem_cons.mp he with rfl | he'
    · simp [List.find?_cons]
    · have hne : x.eventId ≠ e.eventId := fun h => hd.1 (h ▸ List.mem_map.mpr ⟨e, he', rfl⟩)
      have : (x.eventId == e.eventId) = false := by simpa using hne
      rw [List.find?_cons, this]
      exact find_of_mem_distinct xs hd.2 e he'

open List in
theorem typeOf_perm {job job' : List PV} (h : job ~ job') (hd : DistinctIds job) (id : String) :
    typeOf job id = typeOf job' id := by
  have hd' : DistinctIds job' := by
    unfold DistinctIds at *
    exact (h.map _).nodup_iff.mp hd
  unfold typeOf
  cases h1 : job.find? (·.eventId == id) with
  | some e =>
    have hm := List.mem_of_find?_eq_some h1
    have hid : e.eventId = id := by simpa using List.find?_some h1
    have := find_of_mem_distinct job' hd' e (h.subset hm)
    rw [hid] at this
    rw [this]
  | none =>
    have hn : ∀ x ∈ job, ¬ (x.eventId == id) = true := by
      intro x hx; exact List.find?_eq_none.mp h1 x hx
    have : job'.find? (·.eventId == id) = none := by
      apply List.find?_eq_none.mpr
      intro x hx
      exact hn x (h.symm.subset hx)
    rw [this]

open List in
theorem postTypes_perm {job job' : List PV} (h : job ~ job') (e : PV) : postTypes job e ~ postTypes job' e := by
  unfold postTypes
  exact h.flatMap_right _

open List in
/-- **C03c**: permuting the events inside a job (ids distinct) shows the same things -/
theorem sameObs_of_perm {job job' : List PV} (h : job ~ job') (hd : DistinctIds job) : SameObs job job' := by
  have prevEq : ∀ e, prevTypes job e = prevTypes job' e := by
    intro e
    unfold prevTypes
    split
    · rfl
    · apply List.map_congr_left
      intro p _
      exact typeOf_perm h hd p
  have startP : startTypes job ~ startTypes job' := (h.filter _).map _
  refine ⟨?_, ?_, ?_⟩
  · intro u
    unfold obsType
    constructor
    · rintro (⟨e, he, r⟩ | r)
      · exact Or.inl ⟨e, h.subset he, r⟩
      · exact Or.inr r
    · rintro (⟨e, he, r⟩ | r)
      · exact Or.inl ⟨e, h.symm.subset he, r⟩
      · exact Or.inr r
  · intro u T
    unfold obsOut
    have ne_of_perm : ∀ {a b : List String}, a ~ b → a ≠ [] → b ≠ [] := by
      intro a b hab ha hb
      subst hb
      exact ha (List.Perm.eq_nil hab)
    constructor
    · rintro (⟨e, he, ht, hne, hp⟩ | ⟨hu, hne, hp⟩)
      · exact Or.inl ⟨e, h.subset he, ht, ne_of_perm (postTypes_perm h e) hne, (postTypes_perm h e).symm.trans hp⟩
      · exact Or.inr ⟨hu, ne_of_perm startP hne, startP.symm.trans hp⟩
    · rintro (⟨e, he, ht, hne, hp⟩ | ⟨hu, hne, hp⟩)
      · exact Or.inl ⟨e, h.symm.subset he, ht, ne_of_perm (postTypes_perm h e).symm hne,
          (postTypes_perm h e).trans hp⟩
      · exact Or.inr ⟨hu, ne_of_perm startP.symm hne, startP.trans hp⟩
  · intro u T
    unfold obsIn
    constructor
    · rintro ⟨e, he, ht, hne, hp⟩
      exact ⟨e, h.subset he, ht, prevEq e ▸ hne, prevEq e ▸ hp⟩
    · rintro ⟨e, he, ht, hne, hp⟩
      exact ⟨e, h.symm.subset he, ht, (prevEq e).symm ▸ hne, (prevEq e).symm ▸ hp⟩

/-- **C03c**: the model does not depend on the order of the events inside a job file -/
theorem ingest_events_perm (m : Model) (pre post : List (List PV)) {job job' : List PV}
    (h : job.Perm job') (hd : DistinctIds job) :
    Equiv (ingest m (pre ++ job :: post)) (ingest m (pre ++ job' :: post)) :=
  ingest_job_congr m pre post job job' (sameObs_of_perm h hd)

/-! ### renaming identifiers -/

/-- rename event ids by `f` and the job id by `g` -/
def renameJob (f g : String → String) (job : List PV) : List PV :=
  job.map fun e => { e with eventId := f e.eventId, prev := e.prev.map f, jobId := g e.jobId }

theorem filter_map_inj (f : String → String) (hf : Function.Injective f) (l : List String) (id : String) :
    ((l.map f).filter (· == f id)).length = (l.filter (· == id)).length := by
  induction l with
  | nil => rfl
  | cons x xs ih =>
    simp only [List.map_cons, List.filter_cons]
    by_cases h : x = id
    · subst h; simp [ih]
    · have h1 : (x == id) = false := by simpa using h
      have h2 : (f x == f id) = false := by simpa using fun e => h (hf e)
      simp [h1, h2, ih]

theorem postTypes_rename (f g : String → String) (hf : Function.Injective f) (job : List PV) (e : PV) :
    postTypes (renameJob f g job) { e with eventId := f e.eventId, prev := e.prev.map f, jobId := g e.jobId } =
      postTypes job e := by
  unfold postTypes renameJob
  rw [List.flatMap_map]
  congr 1
  funext s
  simp only
  have := filter_map_inj f hf s.prev e.eventId
  rw [List.map_const', List.map_const', this]

theorem typeOf_rename (f g : String → String) (hf : Function.Injective f) (job : List PV) (id : String) :
    typeOf (renameJob f g job) (f id) = typeOf job id := by
  unfold typeOf renameJob
  rw [List.find?_map]
  have : ((fun x : PV => x.eventId == f id) ∘ fun e : PV =>
      { e with eventId := f e.eventId, prev := e.prev.map f, jobId := g e.jobId }) = fun e => e.eventId == id := by
    funext e
    simp only [Function.comp]
    by_cases h : e.eventId = id
    · simp [h]
    · have h1 : (e.eventId == id) = false := by simpa using h
      have h2 : (f e.eventId == f id) = false := by simpa using fun x => h (hf x)
      rw [h1, h2]
  rw [this]
  cases job.find? (fun e => e.eventId == id) <;> rfl

/-- **C03d**: renaming the event ids (injectively) and the job id shows the same things -/
theorem sameObs_rename (f g : String → String) (hf : Function.Injective f) (job : List PV) :
    SameObs (renameJob f g job) job := by
  have prevEq : ∀ e : PV, prevTypes (renameJob f g job)
      { e with eventId := f e.eventId, prev := e.prev.map f, jobId := g e.jobId } = prevTypes job e := by
    intro e
    unfold prevTypes
    simp only [List.isEmpty_map]
    split
    · rfl
    · rw [List.map_map]
      apply List.map_congr_left
      intro p _
      exact typeOf_rename f g hf job p
  have startEq : startTypes (renameJob f g job) = startTypes job := by
    unfold startTypes renameJob
    rw [List.filter_map, List.map_map]
    have : ((fun x : PV => x.prev.isEmpty) ∘ fun e : PV =>
        { e with eventId := f e.eventId, prev := e.prev.map f, jobId := g e.jobId }) = fun x => x.prev.isEmpty := by
      funext e
      simp [Function.comp]
    rw [this]
    rfl
  refine ⟨?_, ?_, ?_⟩
  · intro u
    unfold obsType renameJob
    simp only [List.mem_map]
    constructor
    · rintro (⟨_, ⟨e, he, rfl⟩, r⟩ | r)
      · exact Or.inl ⟨e, he, r⟩
      · exact Or.inr r
    · rintro (⟨e, he, r⟩ | r)
      · exact Or.inl ⟨_, ⟨e, he, rfl⟩, r⟩
      · exact Or.inr r
  · intro u T
    unfold obsOut
    rw [startEq]
    constructor
    · rintro (⟨e', he', ht, hne, hp⟩ | r)
      · obtain ⟨e, he, rfl⟩ := List.mem_map.mp he'
        rw [postTypes_rename f g hf job e] at hne hp
        exact Or.inl ⟨e, he, ht, hne, hp⟩
      · exact Or.inr r
    · rintro (⟨e, he, ht, hne, hp⟩ | r)
      · refine Or.inl ⟨_, List.mem_map.mpr ⟨e, he, rfl⟩, ht, ?_, ?_⟩
        · rw [postTypes_rename f g hf job e]; exact hne
        · rw [postTypes_rename f g hf job e]; exact hp
      · exact Or.inr r
  · intro u T
    unfold obsIn
    constructor
    · rintro ⟨e', he', ht, hne, hp⟩
      obtain ⟨e, he, rfl⟩ := List.mem_map.mp he'
      rw [prevEq e] at hne hp
      exact ⟨e, he, ht, hne, hp⟩
    · rintro ⟨e, he, ht, hne, hp⟩
      refine ⟨_, List.mem_map.mpr ⟨e, he, rfl⟩, ht, ?_, ?_⟩
      · rw [prevEq e]; exact hne
      · rw [prevEq e]; exact hp

/-- **C03d**: the model does not depend on event ids or job ids -/
theorem ingest_rename (m : Model) (pre post : List (List PV)) (f g : String → String)
    (hf : Function.Injective f) (job : List PV) :
    Equiv (ingest m (pre ++ renameJob f g job :: post)) (ingest m (pre ++ job :: post)) :=
  ingest_job_congr m pre post _ job (sameObs_rename f g hf job)

/-! ### the part that is not proved -/

/-- **C03 in full (statement only)**: `diagram` stands for everything after ingestion (gate inference,
loop detection, the walk, linearisation) as a relation between a model and the texts it may emit under
some container order; `accepts` for the meaning of a text.  The claim is that equivalent models only
ever yield texts with one language.  Decided on the generated job sets by the correspondence runs; not
a theorem. -/
def C03_walk_full (diagram : Model → String → Prop) (accepts : String → List PV → Prop) : Prop :=
  ∀ m m' : Model, Equiv m m' → ∀ d d', diagram m d → diagram m' d' → ∀ job, accepts d job ↔ accepts d' job

/-! ### non-vacuity -/

/-- the fork job A -> {B, C} -> D presented in two event orders with other ids: same families -/
example :
    let j1 : List PV := [⟨"j", "1", "A", []⟩, ⟨"j", "2", "B", ["1"]⟩, ⟨"j", "3", "C", ["1"]⟩, ⟨"j", "4", "D", ["2", "3"]⟩]
    let j2 : List PV := [⟨"k", "d", "D", ["c", "b"]⟩, ⟨"k", "c", "C", ["a"]⟩, ⟨"k", "a", "A", []⟩, ⟨"k", "b", "B", ["a"]⟩]
    (ingest [] [j1]).map (fun e => (e.typ, e.outs)) =
      [("A", [["B", "C"]]), ("B", [["D"]]), ("C", [["D"]]), ("D", []), ("|||START|||", [["A"]])] ∧
    ((ingest [] [j2]).find? (·.typ == "A")).map (·.outs) = some [["C", "B"]] ∧
    ((ingest [] [j2]).find? (·.typ == "D")).map (·.ins) = some [["C", "B"]] := by
  decide

end O2P.Learn
