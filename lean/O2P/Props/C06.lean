import O2P.Model.Gate
/-!
# C06 — gate inference explains all observed successor sets; exact without mixed OR
The quantifier of C06 is finite and is enumerated by `domain`: `domain_counts` (kernel-checked) gives
3, 21, 243, 2 493 trees over 2..5 events — and `domain_wellformed` that every one of them has ≥ 2 children
per gate, alternating operators, depth ≤ 3 and exactly the first `n` letters as leaves.  `soundB` /
`exactB` are the deciders the check applies to the tree the real `calculate_logic_gates` returns for the
family of every tree of the domain; `soundB_iff`, `exactB_iff` say what their answers mean.
`calculate_logic_gates` itself (pm4py's inductive miner + post-processing) is not modelled in Lean: the
check runs the real function on the *whole* finite domain.
-/
namespace O2P.Gate

theorem domain_counts :
    (domain 2).length = 3 ∧ (domain 3).length = 21 ∧ (domain 4).length = 243 ∧ (domain 5).length = 2493 := by
  decide +kernel

def wellformed (n : Nat) (g : Gate) : Bool :=
  alternating g && decide (depth g ≤ 3) && norm (leaves g) == alphabet.take n && (leaves g).length == n

theorem domain_wellformed :
    (domain 2).all (wellformed 2) = true ∧ (domain 3).all (wellformed 3) = true ∧
    (domain 4).all (wellformed 4) = true ∧ (domain 5).all (wellformed 5) = true := by
  decide +kernel

theorem soundB_iff (src inf : Gate) : soundB src inf = true ↔ ∀ s ∈ family src, admits inf s = true := by
  unfold soundB; exact List.all_eq_true

theorem exactB_iff (src inf : Gate) :
    exactB src inf = true ↔ (∀ s ∈ family src, admits inf s = true) ∧ (∀ s ∈ family inf, admits src s = true) := by
  unfold exactB
  rw [Bool.and_eq_true, soundB_iff, List.all_eq_true]

/-- the families of the three plain gates over two events -/
theorem family_plain :
    family (.node .xor [.leaf "a", .leaf "b"]) = [["a"], ["b"]] ∧
    family (.node .and [.leaf "a", .leaf "b"]) = [["a", "b"]] ∧
    family (.node .or [.leaf "a", .leaf "b"]) = [["a"], ["a", "b"], ["b"]] := by decide +kernel

/-- sizes of the exactness sub-class inside the domain (mixed ORs and ANDs over two ORs excluded) -/
theorem subclass_counts :
    ((domain 4).filter inSubclass).length = 112 ∧ ((domain 5).filter inSubclass).length = 943 := by
  decide +kernel

end O2P.Gate
