import O2P.Model.Gate
import O2P.Lemmas.Cover
import O2P.Lemmas.InferOr
import O2P.Lemmas.InferOrTree
import O2P.Lemmas.PostFlat
import O2P.Lemmas.InferOrAll
import O2P.Lemmas.MissingAndAll
import O2P.Lemmas.FilterDefunctAll
import O2P.Lemmas.Bridge
import O2P.Lemmas.RawSound
import O2P.Lemmas.SemPerm
import O2P.Lemmas.BridgeConv
/-!
# C06 — gate inference explains all observed successor sets; exact without mixed OR
The quantifier of C06 is finite and is enumerated by `domain`: `domain_counts` (kernel-checked) gives
3, 21, 243, 2 493 trees over 2..5 events — and `domain_wellformed` that every one of them has ≥ 2 children
per gate, alternating operators, depth ≤ 3 and exactly the first `n` letters as leaves.  `soundB` /
`exactB` are the deciders the check applies to the tree the real `calculate_logic_gates` returns for the
family of every tree of the domain; `soundB_iff`, `exactB_iff` say what their answers mean.
`calculate_logic_gates` itself (pm4py's inductive miner + post-processing) is not modelled in Lean: the
check runs the real function on the *whole* finite domain.
-/
namespace O2P.Gate

theorem domain_counts :
    (domain 2).length = 3 ∧ (domain 3).length = 21 ∧ (domain 4).length = 243 ∧ (domain 5).length = 2493 := by
  decide +kernel

def wellformed (n : Nat) (g : Gate) : Bool :=
  alternating g && decide (depth g ≤ 3) && norm (leaves g) == alphabet.take n && (leaves g).length == n

theorem domain_wellformed :
    (domain 2).all (wellformed 2) = true ∧ (domain 3).all (wellformed 3) = true ∧
    (domain 4).all (wellformed 4) = true ∧ (domain 5).all (wellformed 5) = true := by
  decide +kernel

theorem soundB_iff (src inf : Gate) : soundB src inf = true ↔ ∀ s ∈ family src, admits inf s = true := by
  unfold soundB; exact List.all_eq_true

theorem exactB_iff (src inf : Gate) :
    exactB src inf = true ↔ (∀ s ∈ family src, admits inf s = true) ∧ (∀ s ∈ family inf, admits src s = true) := by
  unfold exactB
  rw [Bool.and_eq_true, soundB_iff, List.all_eq_true]

/-- the families of the three plain gates over two events -/
theorem family_plain :
    family (.node .xor [.leaf "a", .leaf "b"]) = [["a"], ["b"]] ∧
    family (.node .and [.leaf "a", .leaf "b"]) = [["a", "b"]] ∧
    family (.node .or [.leaf "a", .leaf "b"]) = [["a"], ["a", "b"], ["b"]] := by decide +kernel

/-- sizes of the exactness sub-class inside the domain (mixed ORs and ANDs over two ORs excluded) -/
theorem subclass_counts :
    ((domain 4).filter inSubclass).length = 112 ∧ ((domain 5).filter inSubclass).length = 943 := by
  decide +kernel

/-! ### the OR inference (`infer_or_gate_from_node`, `check_is_or_operator`, logic_detection.py 248-331) -/

/-- **C06, the OR inference**: for the miner's parallel node with mandatory children `N` and optional branches
`X(tau, r)` for `r ∈ R` — children abstract: their event names and the non-empty sets they produce, names distinct
between the two sides — and any observed family `F`: when `check_is_or_operator` says OR the node becomes
`O(r…, +(N…))` and admits every non-empty observed set the raw node admits; when it says no, the node becomes
`+(N…, O(r…))` and still admits every observed set the raw node admits (an observed set with a mandatory event and no
optional one would have made the test say OR). -/
theorem or_inference_sound (F : List (List String)) (N R : List Child)
    (hdisj : ∀ x, x ∈ labelsOfC N → x ∉ labelsOfC R) (s : List String) (hs : s ∈ F) (hraw : Raw N R s) :
    (IsOr F N R → NewOr N R s ∨ s = []) ∧ (¬ IsOr F N R → NewAnd N R s) :=
  infer_or_sound F N R hdisj s hs hraw

/-- **C06, the OR inference on plain events, end to end in the judge's semantics**: the executable model of
`infer_or_gate_from_node` (tied to the real function on generated trees and on the raw trees of the domain) applied to
the miner's node `+(n…, X(tau, r)…)` over distinct plain events returns a gate tree that `admits` every non-empty
observed set consisting of all of `N` and some of `R` — in both branches of the decision. -/
theorem or_inference_leaves_sound (F : List (List String)) (N R : List String) (hR : R ≠ [])
    (hdis : ∀ x ∈ N, x ∉ R) (s : List String) (hs : s ∈ F) (T : List String) (hT : T.Sublist R)
    (hsame : SameSet s (N ++ T)) (hne : s ≠ []) :
    ∃ g, (inferOrNode F (rawLeaves N R)).toGate = some g ∧ admits g s = true :=
  infer_or_leaves_sound F N R hR hdis s hs T hT hsame hne

/-- **C06, the OR inference on arbitrary subtrees**: the children of the parallel node are process trees themselves
(any: after the repair c6e9ec1 `classify` places every child, one with another operator among the mandatory ones),
the sets they produce given by the semantics `PTree.sem` of the
miner's trees (tau: the empty set; X: one child; +: all children; O: a non-empty selection).  If the mandatory children
produce only non-empty sets and share no event name with the optional branches, then for every observed family `F` the
node `inferOrNode F` puts in the place of `+(cs…)` — the executable model that the check runs against the real
`infer_or_gate_from_node` — produces every non-empty set of `F` that the raw node produces, whichever of the three
shapes the test on `F` selects. -/
theorem or_inference_tree_sound (F : List (List String)) (cs : List PTree)
    (hne : ∀ c ∈ (classify cs).2, ∀ s, c.sem s → s ≠ [])
    (hdisj : ∀ x, x ∈ PTree.labelsL (classify cs).2 →
      x ∉ PTree.labelsL ((classify cs).1.flatMap grandchildrenOf))
    (s : List String) (hs : s ∈ F) (hsne : s ≠ []) (hraw : (PTree.node .and cs).sem s) :
    (inferOrNode F (.node .and cs)).sem s :=
  infer_or_tree_sound F cs hne hdisj s hs hsne hraw

/-- … and the same for a parallel node anywhere below the top, where the sets it has to produce are the projections of
the observed sets onto its own event names: `s` agrees with some observed `s0` on the names of the node -/
theorem or_inference_tree_sound_below (F : List (List String)) (cs : List PTree)
    (hne : ∀ c ∈ (classify cs).2, ∀ s, c.sem s → s ≠ [])
    (hdisj : ∀ x, x ∈ PTree.labelsL (classify cs).2 →
      x ∉ PTree.labelsL ((classify cs).1.flatMap grandchildrenOf))
    (s : List String)
    (hs : ∃ s0 ∈ F, ∀ x, (x ∈ PTree.labelsL (classify cs).2 ∨
      x ∈ PTree.labelsL ((classify cs).1.flatMap grandchildrenOf)) → (x ∈ s0 ↔ x ∈ s))
    (hsne : s ≠ []) (hraw : (PTree.node .and cs).sem s) :
    (inferOrNode F (.node .and cs)).sem s :=
  infer_or_tree_sound_proj F cs hne hdisj s hs hsne hraw

/-- non-vacuity: `+(c, X(tau, X(a, b)))` — an optional branch that is itself a choice — with the observations `{c}`,
`{c, a}` meets every hypothesis, and the rewritten node produces `{c, a}` -/
example : (inferOrNode [["c"], ["c", "a"]]
    (.node .and [.leaf "c", .node .xor [.tau, .node .xor [.leaf "a", .leaf "b"]]])).sem ["c", "a"] := by
  have hcl : classify [PTree.leaf "c", .node .xor [.tau, .node .xor [.leaf "a", .leaf "b"]]] =
      ([.node .xor [.tau, .node .xor [.leaf "a", .leaf "b"]]], [.leaf "c"]) := by
    simp [classify, PTree.isTau]
  apply or_inference_tree_sound
  · rw [hcl]
    intro c hc s hs
    simp only [List.mem_singleton] at hc
    subst hc
    simp only [PTree.sem] at hs
    intro e
    subst e
    have := (hs "c").mpr (by simp)
    simp at this
  · rw [hcl]
    simp [PTree.labelsL, PTree.labels, grandchildrenOf, PTree.isTau]
  · simp
  · simp
  · simp only [PTree.sem]
    refine ⟨[["c"], ["a"]], ?_, by intro x; simp⟩
    simp only [PTree.semAll, PTree.sem, PTree.semAny]
    exact ⟨["c"], [["a"]], rfl, fun _ => Iff.rfl, ["a"], [], rfl, Or.inr (Or.inl (Or.inl (fun _ => Iff.rfl))), rfl⟩

/-- **C06, the OR inference over the whole tree** (`get_extended_or_gates_from_process_tree` = `inferOrAll`, the
recursion: the node first, then its new children, to any depth and with any fuel).  Let the miner's tree `t` name
every event once (`NE t.labels` without repetition), let no observed set contain the empty name, and let `t` satisfy the
decidable condition `wfT false F`: at every parallel node with optional branches `X(tau, …)` no mandatory child can
produce the empty set (`canEmpty`, a sound test) and mandatory children share no label with the optional branches —
the hypotheses of the per-node theorem — and such a node has a mandatory child unless it is never asked for the empty
set: it is at the top, or below choices only, or every observed set shows one of its events (otherwise the rewritten
node `O(r…)` would have to produce the empty set, and cannot).  Then the rewritten
tree produces every non-empty observed set that `t` produces.  The check evaluates `wfT` / `ND` on every real raw tree
and reports how many meet the hypotheses; the others are judged by execution only.  (`Lemmas/InferOrAll.lean`: a
relation `Good` — produces every non-empty projection of an observed set, keeps the empty set, adds no label — is
a congruence for `X`, `+`, `O` nodes over trees with distinct names, holds for one rewritten node by
`or_inference_tree_sound_below`, and composes along the recursion by induction on the fuel.) -/
theorem or_inference_all_sound (F : List (List String)) (hF : ∀ s0 ∈ F, "" ∉ s0) (fuel : Nat) (t : PTree)
    (hw : wfT false F t = true) (hnd : (NE t.labels).Nodup)
    (s : List String) (hs : s ∈ F) (hne : s ≠ []) (hraw : t.sem s) : (inferOrAll F fuel t).sem s := by
  exact (inferOrAll_goodS F hF fuel false t hw hnd).sem s (Or.inl hne) ⟨s, hs, fun _ _ => Iff.rfl⟩ hraw

/-- non-vacuity: `+(c, X(tau, +(d, X(tau, a))))` — an optional branch holding a parallel node with an optional branch
of its own — meets the hypotheses -/
example :
    let t : PTree := .node .and [.leaf "c", .node .xor [.tau, .node .and [.leaf "d", .node .xor [.tau, .leaf "a"]]]]
    let F := [["c"], ["c", "d"], ["c", "d", "a"]]
    wfT false F t = true ∧ (NE t.labels).Nodup ∧ ∀ s0 ∈ F, "" ∉ s0 := by decide +kernel

/-- **the last condition is needed**: `+(c, +(X(tau,a), X(tau,b)))` with the observed `{c}` — a parallel node all of
whose children are optional, and an observed set that shows none of its events — fails `wfT`, and there the recursion (of the model, and of the real function: the C06
check replays this tree through `get_extended_or_gates_from_process_tree`) is unsound: the inner node becomes
`O(a, b)`, which cannot produce the empty set, so the rewritten tree `+(c, O(a, b))` no longer admits the observed
`{c}`, which the raw tree produces.  The miner is not known to emit such a tree (none in the domain, none among the
observed families of a run). -/
example :
    let t : PTree := .node .and [.leaf "c", .node .and [.node .xor [.tau, .leaf "a"], .node .xor [.tau, .leaf "b"]]]
    let F := [["c"], ["a", "c"], ["b", "c"], ["a", "b", "c"]]
    wfT false F t = false ∧
    (inferOrAll F 5 t).toGate = some (.node .and [.leaf "c", .node .or [.leaf "a", .leaf "b"]]) ∧
    admits (.node .and [.leaf "c", .node .or [.leaf "a", .leaf "b"]]) ["c"] = false := by
  refine ⟨by decide +kernel, ?_, by decide +kernel⟩
  simp [inferOrAll, inferOrAllL, inferOrNode, classify, PTree.isTau, grandchildrenOf, checkIsOr, PTree.toGate,
    PTree.toGateL]

/-- **C06, the AND recovery over the whole tree** (`process_missing_and_gates` = `missingAnd`): for a tree that names
every event once and observed sets without repetitions or empty names, **every** outcome — every choice the cover step
can make, at every OR gate over plain events, anywhere in the tree, to any depth — produces every non-empty observed
set the tree produced before.  (`Lemmas/MissingAndAll.lean`: one rebuilt gate stands for the flat one by `cover_spec`
— the members of the cover lying inside a set make it up —, and the `Good` congruence, restated for children related
position by position, carries it through the recursion.) -/
theorem missing_and_all_sound (F : List (List String)) (hF : ∀ s0 ∈ F, "" ∉ s0) (hFnd : ∀ s0 ∈ F, s0.Nodup)
    (fuel : Nat) (t : PTree) (hnd : (NE t.labels).Nodup) (o : PTree) (ho : o ∈ missingAnd fuel F t)
    (s : List String) (hs : s ∈ F) (hne : s ≠ []) (hraw : t.sem s) : o.sem s := by
  have _ := hne
  exact (missingAnd_good F hF hFnd fuel t hnd o ho).sem s ⟨s, hs, fun _ _ => Iff.rfl⟩ hraw

/-- non-vacuity: `X(e, O(a, b, c))` with the observations `{e} {a,b} {c} {a,b,c}` has an outcome (the OR gate is
rebuilt as `O(c, +(a,b))` or left alone), names every event once, and produces `{a,b}` -/
example :
    let t : PTree := .node .xor [.leaf "e", .node .or [.leaf "a", .leaf "b", .leaf "c"]]
    (NE t.labels).Nodup ∧ (weightedCover (projF [["e"], ["a", "b"], ["c"], ["a", "b", "c"]] ["a", "b", "c"])
      ["a", "b", "c"]) = [some [["c"], ["a", "b"]]] := by decide +kernel

/-- **C06, the repository's whole post-processing** (`reduce_process_tree_to_preferred_logic_gates` = `postProcess`:
the OR inference over the whole tree, the defunct-OR filter with its iteration by position over the list it mutates,
the AND recovery under every choice of the cover step).  For **every** tree of the miner that names every event once
and passes the decidable test `wfT false F`, and every family of observed sets without repetitions or empty names:
**every** outcome of the post-processing produces every non-empty observed set that the miner's tree produces.
So the first sentence of the property holds for `calculate_logic_gates` whenever the miner's raw tree is itself sound
and well-formed — what remains outside the proof is pm4py's miner (its raw trees are taken as data; the check
evaluates the hypotheses on each of them) and the trees failing `wfT`, where the recursion of the OR inference is
unsound (example above) and only execution decides.  The model `postProcess` is compared with the real functions on
the real raw trees of every run, up to the order of children. -/
theorem post_process_sound (F : List (List String)) (hF : ∀ s0 ∈ F, "" ∉ s0) (hFnd : ∀ s0 ∈ F, s0.Nodup)
    (t : PTree) (hw : wfT false F t = true) (hnd : (NE t.labels).Nodup) (o : PTree) (ho : o ∈ postProcess F t)
    (s : List String) (hs : s ∈ F) (hne : s ≠ []) (hraw : t.sem s) : o.sem s := by
  unfold postProcess at ho
  have g1 := inferOrAll_goodS F hF 50 false t hw hnd
  have g2 := (filter_good F hF 200).1 _ (g1.nd hnd)
  have g3 := missingAnd_good F hF hFnd 50 _ (g2.nd (g1.nd hnd)) o ho
  exact ((g1.trans g2).trans g3).sem s (Or.inl hne) ⟨s, hs, fun _ _ => Iff.rfl⟩ hraw

/-- **… in the judge's semantics**: if moreover the outcome holds no silent leaf (`noTau`; then it is a gate tree `g`),
the executable judge that decides every tree a check sees — `admits`, through `outcomes` and `family` — admits the
observed set.  (`Lemmas/Bridge.lean`: `sem_admits`, by mutual induction over `X`, `+`, `O` nodes: picks from the
children's outcome families are outcomes of the product, selections are non-empty sub-lists.) -/
theorem post_process_admits (F : List (List String)) (hF : ∀ s0 ∈ F, "" ∉ s0) (hFnd : ∀ s0 ∈ F, s0.Nodup)
    (t : PTree) (hw : wfT false F t = true) (hnd : (NE t.labels).Nodup) (o : PTree) (ho : o ∈ postProcess F t)
    (hno : noTau o = true) (g : Gate) (hg : o.toGate = some g)
    (s : List String) (hs : s ∈ F) (hne : s ≠ []) (hraw : t.sem s) : admits g s = true :=
  sem_admits o g hno hg s (post_process_sound F hF hFnd t hw hnd o ho s hs hne hraw)

/-- the hypotheses of `post_process_sound` as one executable test on a raw tree and an observed family: names once,
`wfT`, no empty name and no repetition in the observed sets, and the raw tree `produces` every observed set
(`PTree.produces`, by enumeration of the tree's outcomes — sound for `PTree.sem` by `produces_sem`) -/
def hypsB (F : List (List String)) (t : PTree) : Bool :=
  wfT false F t && decide (NE t.labels).Nodup && F.all (fun s => !s.contains "" && decide s.Nodup) &&
    F.all (fun s => s.isEmpty || t.produces s)

/-- **C06, per input**: when the executable test `hypsB` says yes for the miner's raw tree — the check evaluates it on
every real raw tree of a run, 94 % pass — **every** outcome of the post-processing produces every non-empty observed
set: for such an input the soundness clause of the property is a theorem about the model's outcomes, and the
correspondence run shows the real function returned one of them. -/
theorem post_process_checked (F : List (List String)) (t : PTree) (h : hypsB F t = true)
    (o : PTree) (ho : o ∈ postProcess F t) (s : List String) (hs : s ∈ F) (hne : s ≠ []) : o.sem s := by
  simp only [hypsB, Bool.and_eq_true, decide_eq_true_eq, List.all_eq_true, Bool.not_eq_true', Bool.or_eq_true] at h
  obtain ⟨⟨⟨hw, hnd⟩, hnames⟩, hprod⟩ := h
  refine post_process_sound F (fun s0 hs0 => ?_) (fun s0 hs0 => (hnames s0 hs0).2) t hw hnd o ho s hs hne ?_
  · have := (hnames s0 hs0).1
    simpa using this
  · rcases hprod s hs with h | h
    · exact absurd (List.isEmpty_iff.mp h) hne
    · exact produces_sem t s h

/-- non-vacuity: the raw tree `+(c, X(tau, +(d, X(tau, a))))` with the observations `{c} {c,d} {c,d,a}` passes -/
example : hypsB [["c"], ["c", "d"], ["c", "d", "a"]]
    (.node .and [.leaf "c", .node .xor [.tau, .node .and [.leaf "d", .node .xor [.tau, .leaf "a"]]]]) = true := by
  decide +kernel

/-- **the order of children does not matter**: a node produces the same sets whatever the order of its children.  The
correspondence run compares the real post-processing with the model's outcomes up to the order of children (the cover
is a Python set, its iteration order depends on the hash seed); this is why that canonicalisation loses nothing. -/
theorem children_order_irrelevant (op : POp) (cs cs' : List PTree) (h : cs.Perm cs') (s : List String) :
    (PTree.node op cs).sem s ↔ (PTree.node op cs').sem s :=
  ⟨sem_perm op h s, sem_perm op h.symm s⟩

/-- **the judge and the theorems speak of the same thing**: for a tree without silent leaves, read as a gate tree `g`,
the executable judge `admits g s` — which decides every tree a check sees — holds exactly when the tree produces `s`
in the semantics `PTree.sem` the whole-tree theorems are stated in (`Lemmas/Bridge.lean`, `Lemmas/BridgeConv.lean`). -/
theorem judge_is_sem (t : PTree) (g : Gate) (hn : noTau t = true) (hg : t.toGate = some g) (s : List String) :
    admits g s = true ↔ t.sem s :=
  admits_iff_sem t g hn hg s

/-- … and the defunct-OR filter alone, for any tree with distinct names -/
theorem filter_defunct_sound (F : List (List String)) (hF : ∀ s0 ∈ F, "" ∉ s0) (fuel : Nat) (t : PTree)
    (hnd : (NE t.labels).Nodup) (s : List String) (hs : s ∈ F) (hne : s ≠ []) (hraw : t.sem s) :
    (filterDefunct fuel t).sem s := by
  have _ := hne
  exact ((filter_good F hF fuel).1 t hnd).sem s ⟨s, hs, fun _ _ => Iff.rfl⟩ hraw

/-- non-vacuity: the raw tree `+(c, X(tau, +(d, X(tau, a))))` with the observations `{c} {c,d} {c,d,a}` meets every
hypothesis of `post_process_sound` -/
example :
    let t : PTree := .node .and [.leaf "c", .node .xor [.tau, .node .and [.leaf "d", .node .xor [.tau, .leaf "a"]]]]
    let F := [["c"], ["c", "d"], ["c", "d", "a"]]
    wfT false F t = true ∧ (NE t.labels).Nodup ∧ (∀ s0 ∈ F, "" ∉ s0) ∧ (∀ s0 ∈ F, s0.Nodup) := by decide +kernel

/-- the executable test of the model (`checkIsOr`, compared with the real function on generated trees) is that
decision on the labels of the subtrees -/
theorem or_test_spec (sets : List (List String)) (nonTau removed : List PTree) :
    checkIsOr sets nonTau removed = true ↔
      (nonTau = [] ∨ ∃ s ∈ sets, (∃ x ∈ PTree.labelsL nonTau, x ∈ s) ∧ (∀ x ∈ PTree.labelsL removed, x ∉ s)) :=
  checkIsOr_iff sets nonTau removed

/-- non-vacuity: `+(c, X(tau,a), X(tau,b))` with the observation `{c}` becomes `O(a, b, c)`; without it
`+(c, O(a, b))` -/
example :
    let raw : PTree := .node .and [.leaf "c", .node .xor [.tau, .leaf "a"], .node .xor [.tau, .leaf "b"]]
    (match inferOrNode [["c"], ["a", "c"]] raw with
      | .node .or [.leaf "a", .leaf "b", .leaf "c"] => true
      | _ => false) = true ∧
    (match inferOrNode [["a", "c"], ["a", "b", "c"]] raw with
      | .node .and [.leaf "c", .node .or [.leaf "a", .leaf "b"]] => true
      | _ => false) = true := by decide +kernel

/-! ### the AND-under-OR recovery (`get_weighted_cover`, tel2puml/utils.py 14-60) -/

/-- **C06, the cover step**: whichever maximal candidate Python's `max` returns at each round (the iteration
order of a set depends on the hash seed), a cover that `get_weighted_cover` returns
* consists of observed sets,
* is pairwise disjoint,
* covers the universe of the OR gate, and
* explains every observed set: each of its events lies in a cover member that is wholly inside the set —
  the set is the union of the AND groups it contains, so `OR(AND(group)…)` admits it. -/
theorem cover_spec (es0 : List (List String)) (u : List String) (c : List (List String))
    (h : some c ∈ weightedCover es0 u) :
    (∀ p ∈ c, p ∈ es0) ∧
    (c.Pairwise fun a b => ∀ x, ¬ (x ∈ a ∧ x ∈ b)) ∧
    (∀ x ∈ u, ∃ p ∈ c, x ∈ p) ∧
    (∀ e ∈ es0, sameS e u = false → ∀ x ∈ e, ∃ p ∈ c, (∀ y ∈ p, y ∈ e) ∧ x ∈ p) :=
  weightedCover_spec es0 u c h

/-- **C06, the cover step, in gate semantics**: the gate `process_missing_and_gates` builds from a returned cover —
`OR` over the cover members, each a leaf or the `AND` of its events — admits every non-empty observed set below the
universe that the cover was computed for; with `cover_spec`, whatever `max` chose. -/
theorem cover_sound (es0 : List (List String)) (u : List String) (c : List (List String))
    (h : some c ∈ weightedCover es0 u) (e : List String) (he : e ∈ es0) (hu : sameS e u = false) (hne : e ≠ []) :
    admits (rebuilt c) e = true :=
  rebuilt_admits c e hne ((cover_spec es0 u c h).2.2.2 e he hu)

/-- … and the universe itself (the observation that all events occur together) is admitted too -/
theorem cover_sound_universe (es0 : List (List String)) (u : List String) (c : List (List String))
    (h : some c ∈ weightedCover es0 u) (hne : u ≠ []) (hsub : ∀ p ∈ es0, ∀ x ∈ p, x ∈ u) :
    admits (rebuilt c) u = true := by
  obtain ⟨h1, _, h3, _⟩ := cover_spec es0 u c h
  apply rebuilt_admits c u hne
  intro x hx
  obtain ⟨p, hp, hxp⟩ := h3 x hx
  exact ⟨p, hp, hsub p (h1 p hp), hxp⟩

/-- **C06, the post-processing end to end on the flat case**: for the miner's node over optional plain events only,
`+(X(tau, r)…)`, **every** outcome of `postProcess` — OR inference, defunct-OR filter, AND recovery under every choice
the cover step can make — is a gate tree that admits every non-empty observed set below those events.  The three
modelled steps compose; no abstraction, no table. -/
theorem post_flat_or_sound (F : List (List String)) (R : List String) (hR : R ≠ [])
    (o : PTree) (ho : o ∈ postProcess F (rawLeaves [] R))
    (s : List String) (hs : s ∈ F) (hne : s ≠ []) (hsub : ∀ x ∈ s, x ∈ R) :
    ∃ g, o.toGate = some g ∧ admits g s = true :=
  post_flat_sound F R hR o ho s hs hne hsub

/-- **… wherever the gate sits** (after the repair dcf1496): the observed sets may reach outside the gate's events —
the OR gate is then a sub-gate of a larger tree — and every outcome still admits the part of every observed set that
lies among the gate's events.  Before the repair only the sets lying wholly inside were handed to the cover step and
this statement was false (next example). -/
theorem post_flat_or_sound_proj (F : List (List String)) (R : List String) (hR : R ≠ [])
    (o : PTree) (ho : o ∈ postProcess F (rawLeaves [] R))
    (s : List String) (hs : s ∈ F) (hne : interS s R ≠ []) :
    ∃ g, o.toGate = some g ∧ admits g (interS s R) = true :=
  post_flat_sound_proj F R hR o ho s hs hne

/-- non-vacuity and the repaired defect's input: observed `{b,c} {b,c,d} {d} {a} {a,e} {e} {a,c,d}`, an OR gate over
`b, c, d`.  The cover step now sees `{c,d}` (the part of `{a,c,d}` inside the gate), finds no cover under any choice
and the gate stays `OR(b, c, d)`, which admits `{c,d}`; the gate the unrepaired code built from the sets lying wholly
inside, `OR(AND(b,c), d)`, does not. -/
example :
    let F := [["b", "c"], ["b", "c", "d"], ["d"], ["a"], ["a", "e"], ["e"], ["a", "c", "d"]]
    postProcess F (rawLeaves [] ["b", "c", "d"]) = [.node .or [.leaf "b", .leaf "c", .leaf "d"]] ∧
    admits (.node .or [.leaf "b", .leaf "c", .leaf "d"]) ["c", "d"] = true ∧
    admits (rebuilt [["b", "c"], ["d"]]) ["c", "d"] = false := by
  intro F
  refine ⟨?_, by decide +kernel, by decide +kernel⟩
  rw [postProcess_flat _ _ (by decide)]
  have h : weightedCover (projF F ["b", "c", "d"]) ["b", "c", "d"] = [none] := by decide +kernel
  rw [h]
  rfl

/-- non-vacuity: the family of `OR(AND(a,b), c)` has the cover `{c}, {a,b}` under every choice; with the extra
observation `{a}` every choice ends in `None` (the greedy members overlap) -/
example :
    weightedCover [["a", "b"], ["c"], ["a", "b", "c"]] ["a", "b", "c"] = [some [["c"], ["a", "b"]]] ∧
    (weightedCover [["a", "b"], ["c"], ["a", "b", "c"], ["a"]] ["a", "b", "c"]).all Option.isNone = true := by
  decide +kernel

end O2P.Gate
