import O2P.Props.C03
/-!
# C14 — otel2puml equals otel2pv followed by pv2puml through saved files (file layer)
`save` models `save_pv_event_stream_to_file` with a `PVEventMappingConfig` (keys renamed, one JSON object
per event), `load` models `transform_dict_into_pv_event` (inverse renaming, mandatory fields, a string
`previousEventIds` turned into a one-element list).

* `save_load`: for every mapping whose seven target names are pairwise distinct and every event,
  loading what was saved gives the event back — ids, links, type, timestamp, names;
* `load_string_prev`: a non-empty string as `previousEventIds` loads as a one-element list;
* `save_load_dup_cex`: with two equal target names a field is lost (why distinctness is needed);
* `routes_same_model`: whatever order the saved files are listed in, the learner is presented with a
  permutation of the jobs the in-memory route presents, hence (C03a) learns an equivalent model.
Equivalence of the *diagrams* then rests on C03's unproved clause.
-/
namespace O2P.PVFile

inductive Val where
  | str (s : String)
  | list (l : List String)
  deriving DecidableEq, Repr

structure PVE where
  jobId : String
  eventId : String
  typ : String
  timestamp : String
  prev : List String
  app : String
  jobName : String
  deriving DecidableEq, Repr

/-- `PVEventMappingConfig`: the name each field is saved under -/
structure Cfg where
  jobId : String
  eventId : String
  typ : String
  timestamp : String
  prev : String
  app : String
  jobName : String
  deriving Repr

def Cfg.names (c : Cfg) : List String := [c.jobId, c.eventId, c.typ, c.timestamp, c.prev, c.app, c.jobName]

def Cfg.default : Cfg :=
  ⟨"jobId", "eventId", "eventType", "timestamp", "previousEventIds", "applicationName", "jobName"⟩

abbrev Dict := List (String × Val)

/-- `d[k] = v` -/
def dset (d : Dict) (k : String) (v : Val) : Dict :=
  if d.any (·.1 == k) then d.map fun p => if p.1 == k then (k, v) else p else d ++ [(k, v)]

def dget (d : Dict) (k : String) : Option Val := (d.find? (·.1 == k)).map (·.2)

/-- `{getattr(mapping_config, key): value for key, value in pv_event.items()}` in the key order the
sequencer builds a `PVEvent` in -/
def save (c : Cfg) (e : PVE) : Dict :=
  dset (dset (dset (dset (dset (dset (dset [] c.jobId (.str e.jobId)) c.eventId (.str e.eventId)) c.typ (.str e.typ))
    c.timestamp (.str e.timestamp)) c.prev (.list e.prev)) c.app (.str e.app)) c.jobName (.str e.jobName)

def getStr (d : Dict) (k : String) : Except String String :=
  match dget d k with
  | some (.str s) => .ok s
  | some (.list _) => .error "validation"
  | none => .error "missing"

def getPrev (d : Dict) (k : String) : Except String (List String) :=
  match dget d k with
  | none => .ok []
  | some (.list l) => .ok l
  | some (.str s) => if s.isEmpty then .error "validation" else .ok [s]

/-- `transform_dict_into_pv_event` -/
def load (c : Cfg) (d : Dict) : Except String PVE := do
  let jobId ← getStr d c.jobId
  let eventId ← getStr d c.eventId
  let typ ← getStr d c.typ
  let timestamp ← getStr d c.timestamp
  let app ← getStr d c.app
  let jobName ← getStr d c.jobName
  let prev ← getPrev d c.prev
  pure { jobId, eventId, typ, timestamp, prev, app, jobName }

theorem get_set_same (d : Dict) (k : String) (v : Val) : dget (dset d k v) k = some v := by
  unfold dset dget
  by_cases h : d.any (·.1 == k) = true
  · simp only [h, if_true]
    induction d with
    | nil => simp at h
    | cons p ps ih =>
      simp only [List.map_cons, List.find?_cons]
      by_cases hp : (p.1 == k) = true
      · simp [hp]
      · have : ps.any (·.1 == k) = true := by
          simp only [List.any_cons, Bool.or_eq_true] at h
          rcases h with h | h
          · exact absurd h hp
          · exact h
        rw [if_neg hp]
        have hp' : (p.1 == k) = false := by simpa using hp
        rw [hp']
        exact ih this
  · simp only [h]
    rw [if_neg (by simp)]
    rw [List.find?_append]
    have : d.find? (·.1 == k) = none := by
      apply List.find?_eq_none.mpr
      intro x hx hxk
      exact h (List.any_eq_true.mpr ⟨x, hx, hxk⟩)
    simp [this]

theorem find_map_other (k k' : String) (v : Val) (hne : k' ≠ k) : ∀ (d : Dict),
    List.find? (fun x => x.1 == k') (d.map fun p => if (p.1 == k) = true then (k, v) else p) =
      List.find? (fun x => x.1 == k') d
  | [] => rfl
  | p :: ps => by
    simp only [List.map_cons, List.find?_cons]
    by_cases hp : (p.1 == k) = true
    · have e1 : (k == k') = false := by simpa using fun e => hne e.symm
      have e2 : (p.1 == k') = false := by
        have : p.1 = k := by simpa using hp
        rw [this]; exact e1
      rw [if_pos hp]
      simp only [e1, e2]
      exact find_map_other k k' v hne ps
    · rw [if_neg hp]
      cases (p.1 == k')
      · exact find_map_other k k' v hne ps
      · rfl

theorem get_set_other (d : Dict) (k k' : String) (v : Val) (hne : k' ≠ k) : dget (dset d k v) k' = dget d k' := by
  unfold dset dget
  have hkk : (k == k') = false := by simpa using fun e => hne e.symm
  by_cases h : d.any (·.1 == k) = true
  · simp only [h, if_true]
    rw [find_map_other k k' v hne d]
  · simp only [h]
    rw [if_neg (by simp), List.find?_append]
    cases d.find? (·.1 == k') <;> simp [hkk]

/-- **C14a**: with pairwise distinct target names, loading what was saved returns the event — every
field value and every link -/
theorem save_load (c : Cfg) (hc : c.names.Nodup) (e : PVE) : load c (save c e) = .ok e := by
  have pw := List.pairwise_iff_getElem.mp hc
  have ne : ∀ (i j : Nat) (hi : i < c.names.length) (hj : j < c.names.length), j < i → c.names[i] ≠ c.names[j] :=
    fun i j hi hj hij e => pw j i hj hi hij e.symm
  have L : c.names.length = 7 := rfl
  have a1 : c.eventId ≠ c.jobId := ne 1 0 (by omega) (by omega) (by omega)
  have a2 : c.typ ≠ c.jobId := ne 2 0 (by omega) (by omega) (by omega)
  have a3 : c.timestamp ≠ c.jobId := ne 3 0 (by omega) (by omega) (by omega)
  have a4 : c.prev ≠ c.jobId := ne 4 0 (by omega) (by omega) (by omega)
  have a5 : c.app ≠ c.jobId := ne 5 0 (by omega) (by omega) (by omega)
  have a6 : c.jobName ≠ c.jobId := ne 6 0 (by omega) (by omega) (by omega)
  have b2 : c.typ ≠ c.eventId := ne 2 1 (by omega) (by omega) (by omega)
  have b3 : c.timestamp ≠ c.eventId := ne 3 1 (by omega) (by omega) (by omega)
  have b4 : c.prev ≠ c.eventId := ne 4 1 (by omega) (by omega) (by omega)
  have b5 : c.app ≠ c.eventId := ne 5 1 (by omega) (by omega) (by omega)
  have b6 : c.jobName ≠ c.eventId := ne 6 1 (by omega) (by omega) (by omega)
  have c3 : c.timestamp ≠ c.typ := ne 3 2 (by omega) (by omega) (by omega)
  have c4 : c.prev ≠ c.typ := ne 4 2 (by omega) (by omega) (by omega)
  have c5 : c.app ≠ c.typ := ne 5 2 (by omega) (by omega) (by omega)
  have c6 : c.jobName ≠ c.typ := ne 6 2 (by omega) (by omega) (by omega)
  have d4 : c.prev ≠ c.timestamp := ne 4 3 (by omega) (by omega) (by omega)
  have d5 : c.app ≠ c.timestamp := ne 5 3 (by omega) (by omega) (by omega)
  have d6 : c.jobName ≠ c.timestamp := ne 6 3 (by omega) (by omega) (by omega)
  have e5 : c.app ≠ c.prev := ne 5 4 (by omega) (by omega) (by omega)
  have e6 : c.jobName ≠ c.prev := ne 6 4 (by omega) (by omega) (by omega)
  have f6 : c.jobName ≠ c.app := ne 6 5 (by omega) (by omega) (by omega)
  have g1 : dget (save c e) c.jobId = some (.str e.jobId) := by
    unfold save
    rw [get_set_other _ _ _ _ a6.symm, get_set_other _ _ _ _ a5.symm, get_set_other _ _ _ _ a4.symm, get_set_other _ _ _ _ a3.symm,
      get_set_other _ _ _ _ a2.symm, get_set_other _ _ _ _ a1.symm, get_set_same]
  have g2 : dget (save c e) c.eventId = some (.str e.eventId) := by
    unfold save
    rw [get_set_other _ _ _ _ b6.symm, get_set_other _ _ _ _ b5.symm, get_set_other _ _ _ _ b4.symm, get_set_other _ _ _ _ b3.symm,
      get_set_other _ _ _ _ b2.symm, get_set_same]
  have g3 : dget (save c e) c.typ = some (.str e.typ) := by
    unfold save
    rw [get_set_other _ _ _ _ c6.symm, get_set_other _ _ _ _ c5.symm, get_set_other _ _ _ _ c4.symm, get_set_other _ _ _ _ c3.symm,
      get_set_same]
  have g4 : dget (save c e) c.timestamp = some (.str e.timestamp) := by
    unfold save
    rw [get_set_other _ _ _ _ d6.symm, get_set_other _ _ _ _ d5.symm, get_set_other _ _ _ _ d4.symm, get_set_same]
  have g5 : dget (save c e) c.prev = some (.list e.prev) := by
    unfold save
    rw [get_set_other _ _ _ _ e6.symm, get_set_other _ _ _ _ e5.symm, get_set_same]
  have g6 : dget (save c e) c.app = some (.str e.app) := by
    unfold save
    rw [get_set_other _ _ _ _ f6.symm, get_set_same]
  have g7 : dget (save c e) c.jobName = some (.str e.jobName) := by
    unfold save
    rw [get_set_same]
  simp only [load, getStr, getPrev, g1, g2, g3, g4, g5, g6, g7]
  rfl

/-- a non-empty string under `previousEventIds` loads as a one-element list -/
theorem load_string_prev (d : Dict) (k p : String) (hp : p.isEmpty = false) :
    getPrev (dset d k (.str p)) k = .ok [p] := by
  unfold getPrev
  rw [get_set_same]
  simp [hp]

/-- with two equal target names a field is lost: distinctness is needed -/
theorem save_load_dup_cex :
    let c : Cfg := { Cfg.default with app := "jobName" }
    let e : PVE := ⟨"j", "e", "T", "ts", [], "app", "name"⟩
    (load c (save c e)).toOption = some { e with app := "name" } := by decide

/-! ### both routes present the same jobs -/

def toLearn (e : PVE) : O2P.Learn.PV := ⟨e.jobId, e.eventId, e.typ, e.prev⟩

/-- what pv2puml reads back from the files of one saved job -/
def reread (c : Cfg) (job : List PVE) : List PVE :=
  job.filterMap fun e => match load c (save c e) with
    | .ok x => some x
    | .error _ => none

theorem reread_id (c : Cfg) (hc : c.names.Nodup) (job : List PVE) : reread c job = job := by
  unfold reread
  induction job with
  | nil => rfl
  | cons e es ih => simp only [List.filterMap_cons, save_load c hc e, ih]

open List in
/-- **C14b**: the in-memory route presents the learner with `jobs`; the file route presents it with the
saved jobs read back, in whatever order the directory is listed.  With distinct target names the two
learn equivalent models. -/
theorem routes_same_model (c : Cfg) (hc : c.names.Nodup) (jobs files : List (List PVE))
    (hfiles : files ~ jobs.map (reread c)) :
    O2P.Learn.Equiv (O2P.Learn.ingest [] (files.map (·.map toLearn)))
      (O2P.Learn.ingest [] (jobs.map (·.map toLearn))) := by
  have : jobs.map (reread c) = jobs := by
    conv => rhs; rw [← List.map_id jobs]
    apply List.map_congr_left
    intro j _
    exact reread_id c hc j
  rw [this] at hfiles
  exact O2P.Learn.ingest_perm [] (hfiles.map _)

/-- non-vacuity: a custom mapping with renamed keys round-trips an event with two links -/
example :
    let c : Cfg := ⟨"JID", "EID", "kind", "time", "prev", "app", "wf"⟩
    let e : PVE := ⟨"j1", "e3", "C", "2024-01-01T00:00:00.000001Z", ["e1", "e2"], "svc", "wf 1"⟩
    c.names.Nodup ∧ (load c (save c e)).toOption = some e ∧ dget (save c e) "prev" = some (.list ["e1", "e2"]) := by decide

end O2P.PVFile
