import O2P.Lemmas.LearnAlg
/-!
# C04 — updating a saved model equals learning from all data at once (model layer)
* `ingest_append`: learning `a ++ b` is learning `b` on top of the model learned from `a`;
* `json_roundtrip`: the model file loses nothing — loading what was saved gives an equivalent model
  (every event type, every successor / predecessor multiset with its counts);
* `update_through_file`, `chunks_through_files`: for every way of splitting the jobs into chunks, each
  boundary crossing a save and a load, the final model is equivalent to the one-shot model;
* `cache_coherent`: a gate tree read from an event is always the tree of its current successor family,
  whatever sequence of updates, reads, removals and loads came before — with the loader as repaired by
  bfaab07; `cache_incoherent_old` is the counterexample for the loader before the repair.
That equivalent models give equivalent diagrams is C03's unproved clause (`C03_walk_full`).
-/
namespace O2P.Learn

/-- **C04a** -/
theorem ingest_append (m : Model) (a b : List (List PV)) : ingest m (a ++ b) = ingest (ingest m a) b := by
  unfold ingest; rw [List.foldl_append]

/-! ### counts -/

theorem mem_dedupS : ∀ (l : List String) (x : String), x ∈ dedupS l ↔ x ∈ l
  | [], _ => by simp [dedupS]
  | t :: ts, x => by
    simp only [dedupS, List.mem_cons, List.mem_filter, mem_dedupS ts x]
    constructor
    · rintro (h | ⟨h, _⟩)
      · exact Or.inl h
      · exact Or.inr h
    · rintro (h | h)
      · exact Or.inl h
      · by_cases e : x = t
        · exact Or.inl e
        · exact Or.inr ⟨h, by simpa using e⟩

theorem nodup_dedupS : ∀ (l : List String), (dedupS l).Nodup
  | [] => by simp [dedupS]
  | t :: ts => by
    simp only [dedupS, List.nodup_cons, List.mem_filter]
    refine ⟨?_, (nodup_dedupS ts).sublist List.filter_sublist⟩
    rintro ⟨_, h⟩
    simp at h

theorem count_flatMap_replicate (a : String) (c : String → Nat) : ∀ (ds : List String), ds.Nodup →
    (ds.flatMap fun t => List.replicate (c t) t).count a = if a ∈ ds then c a else 0
  | [], _ => by simp
  | d :: ds, h => by
    simp only [List.nodup_cons] at h
    simp only [List.flatMap_cons, List.count_append, count_flatMap_replicate a c ds h.2, List.count_replicate,
      List.mem_cons]
    by_cases e : d = a
    · subst e
      simp [h.1]
    · have e' : ¬ a = d := fun x => e x.symm
      simp [e, e']

/-- expanding the counts of a multiset gives the multiset back -/
theorem fromCounts_toCounts (S : ESet) : (fromCounts (toCounts S)).Perm S := by
  rw [List.perm_iff_count]
  intro a
  unfold fromCounts toCounts
  rw [List.flatMap_map]
  have := count_flatMap_replicate a (fun t => S.count t) (dedupS S) (nodup_dedupS S)
  rw [this]
  by_cases h : a ∈ S
  · simp [(mem_dedupS S a).mpr h]
  · have : a ∉ dedupS S := fun x => h ((mem_dedupS S a).mp x)
    simp [this, List.count_eq_zero_of_not_mem h]

/-! ### the model file -/

theorem famSem_addSetRaw (fam : List ESet) (S T : ESet) :
    famSem (fromJson.addSetRaw fam S) T ↔ famSem fam T ∨ S.Perm T := by
  unfold fromJson.addSetRaw
  by_cases hs : hasSet fam S = true
  · simp only [hs, if_true]
    constructor
    · exact Or.inl
    · rintro (h | h)
      · exact h
      · obtain ⟨X, hX, hp⟩ := (hasSet_iff fam S).mp hs
        exact ⟨X, hX, hp.trans h⟩
  · simp only [hs]
    rw [if_neg (by simp)]
    unfold famSem
    simp only [List.mem_append, List.mem_singleton]
    constructor
    · rintro ⟨X, hX | rfl, hp⟩
      · exact Or.inl ⟨X, hX, hp⟩
      · exact Or.inr hp
    · rintro (⟨X, hX, hp⟩ | hp)
      · exact ⟨X, Or.inl hX, hp⟩
      · exact ⟨S, Or.inr rfl, hp⟩

theorem famSem_foldl_addSetRaw : ∀ (l : List ESet) (fam : List ESet) (T : ESet),
    famSem (l.foldl fromJson.addSetRaw fam) T ↔ famSem fam T ∨ ∃ S ∈ l, S.Perm T
  | [], fam, T => by simp
  | S :: l, fam, T => by
    rw [List.foldl_cons, famSem_foldl_addSetRaw l, famSem_addSetRaw]
    simp only [List.mem_cons, exists_eq_or_imp]
    exact or_assoc

/-- a family read back from the file holds the same multisets -/
theorem famSem_roundtrip (fam : List ESet) (T : ESet) :
    famSem ((fam.map (fromCounts ∘ toCounts)).foldl fromJson.addSetRaw []) T ↔ famSem fam T := by
  rw [famSem_foldl_addSetRaw]
  unfold famSem
  simp only [List.not_mem_nil, false_and, exists_false, false_or, List.mem_map, Function.comp]
  constructor
  · rintro ⟨_, ⟨S, hS, rfl⟩, hp⟩
    exact ⟨S, hS, (fromCounts_toCounts S).symm.trans hp⟩
  · rintro ⟨S, hS, hp⟩
    exact ⟨_, ⟨S, hS, rfl⟩, (fromCounts_toCounts S).trans hp⟩

theorem nodupS_iff : ∀ (l : List String), nodupS l = true ↔ l.Nodup
  | [] => by simp [nodupS]
  | x :: xs => by
    simp only [nodupS, Bool.and_eq_true, Bool.not_eq_true', List.nodup_cons, nodupS_iff xs]
    constructor
    · rintro ⟨h1, h2⟩; exact ⟨by simpa using h1, h2⟩
    · rintro ⟨h1, h2⟩; exact ⟨by simpa using h1, h2⟩

/-- the model read back from its own file -/
def reload (m : Model) : Model :=
  m.map fun e => ⟨e.typ, (e.outs.map (fromCounts ∘ toCounts)).foldl fromJson.addSetRaw [],
    (e.ins.map (fromCounts ∘ toCounts)).foldl fromJson.addSetRaw []⟩

theorem fromJson_toJson (m : Model) (h : (m.map (·.typ)).Nodup) : fromJson (toJson m) = some (reload m) := by
  unfold fromJson toJson reload
  have : ((m.map fun e => (⟨e.typ, e.outs.map toCounts, e.ins.map toCounts⟩ : EvJson)).map (·.typ)) = m.map (·.typ) := by
    rw [List.map_map]; rfl
  rw [this, (nodupS_iff _).mpr h]
  simp only [Bool.not_true, Bool.false_eq_true, if_false, List.map_map]
  congr 1
  apply List.map_congr_left
  intro e _
  simp only [Function.comp, List.map_map]

/-- **C04b**: the model file round-trips every event type, every successor and predecessor multiset
and every count: what is loaded is equivalent to what was saved -/
theorem json_roundtrip (m : Model) (h : (m.map (·.typ)).Nodup) :
    ∃ m', fromJson (toJson m) = some m' ∧ Equiv m' m := by
  refine ⟨reload m, fromJson_toJson m h, ?_, ?_, ?_⟩
  · intro t
    unfold hasType reload
    simp only [List.mem_map]
    constructor
    · rintro ⟨_, ⟨e, he, rfl⟩, r⟩; exact ⟨e, he, r⟩
    · rintro ⟨e, he, r⟩; exact ⟨_, ⟨e, he, rfl⟩, r⟩
  · intro t T
    unfold outSem reload
    simp only [List.mem_map]
    constructor
    · rintro ⟨_, ⟨e, he, rfl⟩, ht, hf⟩
      exact ⟨e, he, ht, (famSem_roundtrip e.outs T).mp hf⟩
    · rintro ⟨e, he, ht, hf⟩
      exact ⟨_, ⟨e, he, rfl⟩, ht, (famSem_roundtrip e.outs T).mpr hf⟩
  · intro t T
    unfold inSem reload
    simp only [List.mem_map]
    constructor
    · rintro ⟨_, ⟨e, he, rfl⟩, ht, hf⟩
      exact ⟨e, he, ht, (famSem_roundtrip e.ins T).mp hf⟩
    · rintro ⟨e, he, ht, hf⟩
      exact ⟨_, ⟨e, he, rfl⟩, ht, (famSem_roundtrip e.ins T).mpr hf⟩

/-! ### event types stay distinct, so every model the learner produces can be saved and loaded -/

def TypesNodup (m : Model) : Prop := (m.map (·.typ)).Nodup

theorem typesNodup_ensure (m : Model) (t : String) (h : TypesNodup m) : TypesNodup (ensure m t) := by
  unfold ensure TypesNodup at *
  by_cases ha : m.any (·.typ == t) = true
  · simp only [ha, if_true]; exact h
  · simp only [ha]
    rw [if_neg (by simp), List.map_append]
    refine List.nodup_append.mpr ⟨h, by simp, ?_⟩
    intro a ha' b hb e
    simp only [List.map_cons, List.map_nil, List.mem_singleton] at hb
    subst hb e
    apply ha
    obtain ⟨x, hx, hxt⟩ := List.mem_map.mp ha'
    exact List.any_eq_true.mpr ⟨x, hx, by simpa using hxt⟩

theorem typesNodup_map (m : Model) (f : Ev → Ev) (hf : ∀ e, (f e).typ = e.typ) (h : TypesNodup m) :
    TypesNodup (m.map f) := by
  unfold TypesNodup at *
  rw [List.map_map]
  have : ((fun x : Ev => x.typ) ∘ f) = fun x => x.typ := funext hf
  rw [this]; exact h

theorem typesNodup_ingest (m : Model) (h : TypesNodup m) (jobs : List (List PV)) : TypesNodup (ingest m jobs) := by
  have hOut : ∀ m t S, TypesNodup m → TypesNodup (updOut m t S) := by
    intro m t S hm
    exact typesNodup_map _ _ (by intro e; split <;> rfl) (typesNodup_ensure m t hm)
  have hIn : ∀ m t S, TypesNodup m → TypesNodup (updIn m t S) := by
    intro m t S hm
    exact typesNodup_map _ _ (by intro e; split <;> rfl) (typesNodup_ensure m t hm)
  have hJob : ∀ job m, TypesNodup m → TypesNodup (ingestJob m job) := by
    intro job m hm
    unfold ingestJob
    apply hOut
    have : ∀ (es : List PV) (acc : Model), TypesNodup acc →
        TypesNodup (es.foldl (fun acc e => updIn (updOut acc e.typ (postTypes job e)) e.typ (prevTypes job e)) acc) := by
      intro es
      induction es with
      | nil => intro acc h; exact h
      | cons e es ih => intro acc h; exact ih _ (hIn _ _ _ (hOut _ _ _ h))
    exact this job m hm
  unfold ingest
  induction jobs generalizing m with
  | nil => exact h
  | cons j js ih => exact ih _ (hJob j m h)

/-- **C04c**: learning `a`, saving, loading and learning `b` gives a model equivalent to learning
`a ++ b` in one run -/
theorem update_through_file (a b : List (List PV)) :
    ∃ m', fromJson (toJson (ingest [] a)) = some m' ∧ Equiv (ingest m' b) (ingest [] (a ++ b)) := by
  obtain ⟨m', hm, he⟩ := json_roundtrip (ingest [] a) (typesNodup_ingest [] (by simp [TypesNodup]) a)
  refine ⟨m', hm, ?_⟩
  rw [ingest_append]
  exact ingest_congr b m' _ he

/-- learning chunk after chunk, every boundary crossing the model file -/
def throughFiles : Model → List (List (List PV)) → Model
  | m, [] => m
  | m, c :: cs => throughFiles (reload (ingest m c)) cs

/-- **C04d**: for every way of splitting the jobs into chunks, with a save and a load at every chunk
boundary (and one after the last chunk), the final model is equivalent to the one-shot model -/
theorem chunks_through_files : ∀ (chunks : List (List (List PV))) (m m0 : Model), TypesNodup m → Equiv m m0 →
    Equiv (throughFiles m chunks) (ingest m0 chunks.flatten)
  | [], m, m0, _, he => by simpa [throughFiles, ingest] using he
  | c :: cs, m, m0, hn, he => by
    have hn1 := typesNodup_ingest m hn c
    obtain ⟨m', hm, he'⟩ := json_roundtrip (ingest m c) hn1
    have e1 : m' = reload (ingest m c) := by
      rw [fromJson_toJson _ hn1] at hm
      exact (Option.some.inj hm).symm
    subst e1
    have hn2 : TypesNodup (reload (ingest m c)) := by
      unfold reload; exact typesNodup_map _ _ (fun _ => rfl) hn1
    have := chunks_through_files cs (reload (ingest m c)) (ingest m0 c) hn2 (he'.trans (ingest_congr c m m0 he))
    simpa [throughFiles, List.flatten_cons, ingest_append] using this

/-! ### the cached gate tree -/

section cache
variable {Tree : Type} (infer : List ESet → Tree)

/-- the cached tree, when not marked stale, is the tree of the current successor family (or there is
no family yet) -/
def Cached.Inv (c : Cached Tree) : Prop :=
  c.stale = false → (c.outs = [] ∧ c.tree = none) ∨ c.tree = some (infer c.outs)

theorem Cached.inv_fresh : (Cached.fresh : Cached Tree).Inv infer := fun _ => Or.inl ⟨rfl, rfl⟩

theorem Cached.inv_update (c : Cached Tree) (S : ESet) (h : c.Inv infer) : (c.update S).Inv infer := by
  unfold Cached.update
  split
  · exact h
  · intro hs; simp at hs

theorem Cached.inv_read (c : Cached Tree) (h : c.Inv infer) : (c.read infer).1.Inv infer := by
  unfold Cached.read
  split
  · intro _; exact Or.inr rfl
  · exact h

theorem Cached.inv_removeType (c : Cached Tree) (t : String) : (c.removeType t).Inv infer := by
  intro hs; simp [Cached.removeType] at hs

theorem Cached.inv_load (outs : List ESet) : (Cached.load outs : Cached Tree).Inv infer := by
  intro hs
  simp only [Cached.load, Bool.not_eq_eq_eq_not, Bool.not_false, List.isEmpty_iff] at hs
  exact Or.inl ⟨hs, rfl⟩

/-- operations on one event -/
inductive Op where
  | update (S : ESet)
  | read
  | removeType (t : String)

def Cached.apply (c : Cached Tree) : Op → Cached Tree
  | .update S => c.update S
  | .read => (c.read infer).1
  | .removeType t => c.removeType t

/-- **C04e (cache coherence)**: starting from a fresh event or from one loaded from a model file, after
any sequence of updates, reads and removals, a read returns the tree inferred from the successor
family the event holds *now* — evidence stored in the model is never ignored -/
theorem cache_coherent (c0 : Cached Tree) (h0 : c0 = Cached.fresh ∨ ∃ outs, c0 = Cached.load outs)
    (ops : List Op) :
    let c := ops.foldl (Cached.apply infer) c0
    c.outs ≠ [] → (c.read infer).2 = some (infer c.outs) := by
  intro c hne
  have hinv : c.Inv infer := by
    have base : c0.Inv infer := by
      rcases h0 with rfl | ⟨outs, rfl⟩
      · exact Cached.inv_fresh infer
      · exact Cached.inv_load infer outs
    have : ∀ (ops : List Op) (c : Cached Tree), c.Inv infer → (ops.foldl (Cached.apply infer) c).Inv infer := by
      intro ops
      induction ops with
      | nil => intro c h; exact h
      | cons o os ih =>
        intro c h
        apply ih
        cases o with
        | update S => exact Cached.inv_update infer c S h
        | read => exact Cached.inv_read infer c h
        | removeType t => exact Cached.inv_removeType infer c t
    exact this ops c0 base
  unfold Cached.read
  split
  · rfl
  · rename_i hs
    have hs' : c.stale = false := by simpa using hs
    rcases hinv hs' with ⟨h1, _⟩ | h2
    · exact absurd h1 hne
    · exact h2

/-- before fix bfaab07 a loaded event was not marked stale: reading it returned no tree although the
file held successor sets (the branch B→F of the recorded finding disappeared) -/
theorem cache_incoherent_old : ((Cached.loadOld [["F"], ["E"]] : Cached Tree).read infer).2 = none := rfl

end cache

/-! ### non-vacuity -/

example :
    let j1 : List PV := [⟨"j", "1", "A", []⟩, ⟨"j", "2", "B", ["1"]⟩, ⟨"j", "3", "B", ["1"]⟩, ⟨"j", "4", "D", ["2", "3"]⟩]
    toCounts (postTypes j1 ⟨"j", "1", "A", []⟩) = [("B", 2)] ∧
    (fromJson (toJson (ingest [] [j1]))).map (fun m => m.map fun e => (e.typ, e.outs, e.ins)) =
      some [("A", [["B", "B"]], [["|||START|||"]]), ("B", [["D"]], [["A"]]), ("D", [], [["B", "B"]]),
            ("|||START|||", [["A"]], [])] := by
  decide

end O2P.Learn
