import O2P.Lemmas.StoreBasic
/-!
# C10 — ingestion stores each span once whatever the batching or duplication
For every store satisfying the invariant, every span stream and every batch size, ingestion ends `ok`
with exactly the first occurrences of the new ids, in stream order, each with its parent link.
-/
namespace O2P.Store

/-- the constraint flags the model was written for are the ones declared in `data_model.py` -/
theorem constraints_tie : Gen.nodesEventIdUnique = true ∧ Gen.assocPairKey = true ∧
    Gen.jobHashesJobIdKey = true := by decide

/-- store invariant: span ids unique; link pairs unique; every link's child is a stored span -/
structure Inv (s : Store) : Prop where
  ids : s.ids.Nodup
  links : s.assoc.Nodup
  noOrphan : ∀ l ∈ s.assoc, l.2 ∈ s.ids

theorem insertNodes_ok (s : Store) (ns : List Node) (h1 : (ns.map (·.id)).Nodup)
    (h2 : ∀ n ∈ ns, n.id ∉ s.ids) : insertNodes s ns = some { s with nodes := s.nodes ++ ns } := by
  unfold insertNodes
  rw [constraints_tie.1]
  have a : nodup (ns.map (·.id)) = true := (nodup_iff _).mpr h1
  have b : (ns.all fun n => !s.ids.contains n.id) = true := by
    rw [List.all_eq_true]; intro n hn; simpa using h2 n hn
  simp only [a, b, Bool.and_self, Bool.not_true, Bool.and_false]
  rfl

theorem insertNodes_fail (s : Store) (ns : List Node)
    (h : ¬ ((ns.map (·.id)).Nodup ∧ ∀ n ∈ ns, n.id ∉ s.ids)) : insertNodes s ns = none := by
  unfold insertNodes
  rw [constraints_tie.1]
  have : (nodup (ns.map (·.id)) && ns.all fun n => !s.ids.contains n.id) = false := by
    cases hc : (nodup (ns.map (·.id)) && ns.all fun n => !s.ids.contains n.id) with
    | false => rfl
    | true =>
      exfalso; apply h
      simp only [Bool.and_eq_true, List.all_eq_true] at hc
      exact ⟨(nodup_iff _).mp hc.1, fun n hn => by simpa using hc.2 n hn⟩
  simp only [this, Bool.not_false, Bool.and_self]
  rfl

theorem insertLinks_ok (s : Store) (ls : List Link) (h1 : ls.Nodup) (h2 : ∀ l ∈ ls, l ∉ s.assoc) :
    insertLinks s ls = some { s with assoc := s.assoc ++ ls } := by
  unfold insertLinks
  rw [constraints_tie.2.1]
  have a : nodup ls = true := (nodup_iff _).mpr h1
  have b : (ls.all fun l => !s.assoc.contains l) = true := by
    rw [List.all_eq_true]; intro l hl; simpa using h2 l hl
  simp only [a, b, Bool.and_self, Bool.not_true, Bool.and_false]
  rfl

/-- a batch of new, pairwise distinct spans goes in together with its links -/
theorem commitBatch_fresh (s : Store) (hs : Inv s) (ns : List Node) (h1 : (ns.map (·.id)).Nodup)
    (h2 : ∀ n ∈ ns, n.id ∉ s.ids) :
    commitBatch s ns (linksOf ns) =
      ({ s with nodes := s.nodes ++ ns, assoc := s.assoc ++ linksOf ns }, true) := by
  unfold commitBatch
  rw [insertNodes_ok s ns h1 h2]
  simp only
  rw [insertLinks_ok _ (linksOf ns) (linksOf_nodup ns h1)]
  intro l hl hmem
  have c1 := linksOf_snd ns l hl
  have c2 := hs.noOrphan l hmem
  obtain ⟨n, hn, e⟩ := List.mem_map.mp c1
  exact h2 n hn (e ▸ c2)

theorem newNodes_nodup (s : Store) (es : List Node) : ((newNodes s es).map (·.id)).Nodup :=
  map_filter_nodup _ (firstOcc_nodup es)

theorem newNodes_fresh (s : Store) (es : List Node) : ∀ n ∈ newNodes s es, n.id ∉ s.ids := by
  intro n hn
  have := (List.mem_filter.mp hn).2
  simpa using this

theorem newNodes_of_fresh (s : Store) (es : List Node) (h1 : (es.map (·.id)).Nodup)
    (h2 : ∀ n ∈ es, n.id ∉ s.ids) : newNodes s es = es := by
  unfold newNodes
  rw [firstOcc_of_nodup es h1]
  apply List.filter_eq_self.mpr
  intro n hn
  simpa using h2 n hn

/-- **The recovery path is exact**: committing any batch (duplicates inside it, duplicates of stored
spans, any mixture) against a store with the invariant ends `ok` with the first-occurrence
specification — no non-duplicate span or link is lost. -/
theorem commitUnique_spec (s : Store) (hs : Inv s) (q : List Node) :
    commitUnique s q (linksOf q) = (ingestSpec s q, .ok) := by
  unfold commitUnique
  by_cases h : (q.map (·.id)).Nodup ∧ ∀ n ∈ q, n.id ∉ s.ids
  · rw [commitBatch_fresh s hs q h.1 h.2]
    simp only [ingestSpec, newNodes_of_fresh s q h.1 h.2]
  · have hf : commitBatch s q (linksOf q) = (s, false) := by
      unfold commitBatch; rw [insertNodes_fail s q h]
    rw [hf]
    simp only
    have := commitBatch_fresh s hs (newNodes s q) (newNodes_nodup s q) (newNodes_fresh s q)
    unfold newNodes at this
    rw [this]
    rfl

theorem ingestSpec_ids (s : Store) (es : List Node) :
    (ingestSpec s es).ids = s.ids ++ (newNodes s es).map (·.id) := by
  simp [ingestSpec, Store.ids]

/-- the invariant is preserved by ingestion -/
theorem ingestSpec_inv (s : Store) (hs : Inv s) (es : List Node) : Inv (ingestSpec s es) := by
  refine ⟨?_, ?_, ?_⟩
  · rw [ingestSpec_ids]
    refine List.nodup_append.mpr ⟨hs.ids, newNodes_nodup s es, ?_⟩
    intro a ha b hb e
    obtain ⟨n, hn, rfl⟩ := List.mem_map.mp hb
    exact newNodes_fresh s es n hn (e ▸ ha)
  · show (s.assoc ++ linksOf (newNodes s es)).Nodup
    refine List.nodup_append.mpr ⟨hs.links, linksOf_nodup _ (newNodes_nodup s es), ?_⟩
    intro a ha b hb e
    have c1 := linksOf_snd _ b hb
    obtain ⟨n, hn, e2⟩ := List.mem_map.mp c1
    exact newNodes_fresh s es n hn (e2 ▸ e ▸ hs.noOrphan a ha)
  · intro l hl
    rw [ingestSpec_ids]
    rcases List.mem_append.mp hl with h | h
    · exact List.mem_append.mpr (Or.inl (hs.noOrphan l h))
    · exact List.mem_append.mpr (Or.inr (linksOf_snd _ l h))

theorem mem_newNodes_ids (s : Store) (a : List Node) (x : String) (hx : x ∉ s.ids) :
    x ∈ (newNodes s a).map (·.id) ↔ x ∈ a.map (·.id) := by
  constructor
  · intro h
    obtain ⟨n, hn, e⟩ := List.mem_map.mp h
    exact firstOcc_ids_subset a x (List.mem_map.mpr ⟨n, (List.mem_filter.mp hn).1, e⟩)
  · intro h
    obtain ⟨n, hn, e⟩ := List.mem_map.mp (ids_subset_firstOcc a x h)
    refine List.mem_map.mpr ⟨n, List.mem_filter.mpr ⟨hn, ?_⟩, e⟩
    rw [e]; simpa using hx

/-- ingesting in two steps is ingesting the concatenation -/
theorem ingestSpec_append (s : Store) (a b : List Node) :
    ingestSpec (ingestSpec s a) b = ingestSpec s (a ++ b) := by
  have key : newNodes s (a ++ b) = newNodes s a ++ newNodes (ingestSpec s a) b := by
    unfold newNodes
    rw [firstOcc_append, List.filter_append, List.filter_filter]
    congr 1
    apply List.filter_congr
    intro m _
    rw [ingestSpec_ids]
    by_cases hm : m.id ∈ s.ids
    · simp [hm]
    · have := mem_newNodes_ids s a m.id hm
      simp [hm, this]
  simp only [ingestSpec, key, linksOf_append, List.append_assoc]

/-- earliest start / latest end seen while ingesting a stream (what `DataHolder.save_data` tracks) -/
def minStart (mn : Int) (es : List Node) : Int := es.foldl (fun a n => min a n.start) mn
def maxStop (mx : Int) (es : List Node) : Int := es.foldl (fun a n => max a n.stop) mx

/-- loop invariant of ingestion: the pending links are the links of the pending spans; the tracked
minimum / maximum are those of the stream, whatever is stored -/
theorem ingest_loop (batch : Nat) (s : Store) (hs : Inv s) (es : List Node) :
    ∀ (q : List Node) (mn mx : Int),
      ingest batch ⟨s, q, linksOf q, mn, mx⟩ es =
        (⟨ingestSpec s (q ++ es), [], [], minStart mn es, maxStop mx es⟩, .ok) := by
  induction es generalizing s with
  | nil =>
    intro q mn mx
    simp only [ingest, exitHolder, commitUnique_spec s hs q, List.append_nil, minStart, maxStop, List.foldl_nil]
  | cons n ns ih =>
    intro q mn mx
    have hl : linksOf q ++ (linkOf n).toList = linksOf (q ++ [n]) := by
      rw [linksOf_append]; congr 1
    simp only [ingest, saveData, hl]
    by_cases hb : batch ≤ (q ++ [n]).length
    · simp only [hb, ite_true, commitUnique_spec s hs (q ++ [n])]
      have h := ih (ingestSpec s (q ++ [n])) (ingestSpec_inv s hs _) [] (min mn n.start) (max mx n.stop)
      have e0 : linksOf ([] : List Node) = [] := rfl
      rw [e0] at h
      rw [h, List.nil_append, ingestSpec_append, List.append_assoc]
      rfl
    · simp only [hb, ite_false]
      have h := ih s hs (q ++ [n]) (min mn n.start) (max mx n.stop)
      rw [h, List.append_assoc]
      rfl

/-- **C10**: for every store with the invariant, every stream and every batch size, ingestion ends
`ok`, nothing is left pending, and the store is exactly the first-occurrence specification. -/
theorem ingest_spec (batch : Nat) (s : Store) (hs : Inv s) (es : List Node) :
    (ingest batch (Holder.fresh s) es).2 = .ok ∧
    (ingest batch (Holder.fresh s) es).1.store = ingestSpec s es ∧
    (ingest batch (Holder.fresh s) es).1.pendNodes = [] := by
  have h := ingest_loop batch s hs es [] maxInt64 0
  have e0 : linksOf ([] : List Node) = [] := rfl
  rw [e0, List.nil_append] at h
  unfold Holder.fresh
  rw [h]
  exact ⟨rfl, rfl, rfl⟩

/-- the stored result does not depend on the batch size -/
theorem ingest_batch_independent (b b' : Nat) (s : Store) (hs : Inv s) (es : List Node) :
    (ingest b (Holder.fresh s) es).1.store = (ingest b' (Holder.fresh s) es).1.store := by
  rw [(ingest_spec b s hs es).2.1, (ingest_spec b' s hs es).2.1]

/-- re-ingesting a stream that was already ingested changes nothing (duplicates across runs) -/
theorem reingest_noop (s : Store) (es : List Node) :
    ingestSpec (ingestSpec s es) es = ingestSpec s es := by
  have h : newNodes (ingestSpec s es) es = [] := by
    unfold newNodes
    apply List.filter_eq_nil_iff.mpr
    intro n hn
    have h1 : n.id ∈ es.map (·.id) := firstOcc_ids_subset es n.id (List.mem_map.mpr ⟨n, hn, rfl⟩)
    rw [ingestSpec_ids]
    by_cases hm : n.id ∈ s.ids
    · simp [hm]
    · have := (mem_newNodes_ids s es n.id hm).mpr h1
      simp [this]
  show ({ (ingestSpec s es) with nodes := _, assoc := _ } : Store) = _
  rw [h]
  simp [linksOf]

/-- the empty store has the invariant, so the theorems apply to every first ingestion -/
theorem inv_empty : Inv Store.empty := ⟨by simp [Store.empty, Store.ids], by simp [Store.empty], by simp [Store.empty]⟩

/-- Without the no-orphan clause the statement is false (what made re-runs fail before fix d755109):
with a left-over link row `(zz, c)` whose child `c` was removed, re-ingesting `a` (stored) and `c`
aborts — the retry inserts `c` and then its link collides. -/
theorem ingest_orphan_cex :
    let a : Node := ⟨"N", "j", "T", "a", 1, 2, "app", none⟩
    let c : Node := ⟨"N", "k", "T", "c", 1, 2, "app", some "zz"⟩
    let s : Store := ⟨[a], [("zz", "c")], []⟩
    (ingest 10 (Holder.fresh s) [a, c]).2 = .integrity := by decide

/-- non-vacuity: a duplicate inside a batch of three on the empty store -/
example :
    let a : Node := ⟨"N", "j", "T1", "a", 1, 2, "app", none⟩
    let a' : Node := ⟨"N", "j", "T2", "a", 3, 4, "app", some "x"⟩
    let b : Node := ⟨"N", "j", "T3", "b", 5, 6, "app", some "a"⟩
    ((ingest 3 (Holder.fresh Store.empty) [a, a', b]).1.store.nodes = [a, b]) ∧
    ((ingest 3 (Holder.fresh Store.empty) [a, a', b]).1.store.assoc = [("a", "b")]) := by decide

end O2P.Store
