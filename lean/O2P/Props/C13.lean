import O2P.Model.Jq
import O2P.Lemmas.JqSem
import O2P.Lemmas.JqTrie
/-!
# C13 — field-mapping extraction follows the documented path semantics
Theorems about the extraction model `O2P.Jq` (the behaviour of the compiled mapping):
one record per combination of loop values; for consistent (chain-shaped) mappings that is one record per
innermost array element together with its ancestors; a value taken from an outer level is repeated
unchanged in every record of the inner levels; an absent key gives null and a null part makes a joined
value null; skipping invalid records is a `filterMap`, so an invalid record never affects another, and
the per-line mode is a `flatMap` over the lines.
-/
namespace O2P.Jq

/-- every combination of loop values yields exactly one record: no field can drop or duplicate one -/
theorem extract_length (p : Program) (doc : Json) :
    (extract p doc).length = (bindings p.order doc).length := by
  simp [extract]

/-! ### consistent mappings: a chain of nested arrays -/

/-- the loop order of a chain of nested arrays hanging below slot `k` -/
def chainFrom : Nat → List (List String) → List (Nat × List String)
  | _, [] => []
  | k, c :: cs => (k, c) :: chainFrom (k + 1) cs

/-- documented flattening: below the value in slot `k`, every element of the array at `c`, and below
each of them recursively — one environment per innermost element, listing its ancestors -/
def envs : Nat → List (List String) → List Json → List (List Json)
  | _, [], env => [env]
  | k, c :: cs, env => (items c (env.getD k .null)).flatMap fun x => envs (k + 1) cs (env ++ [x])

theorem foldl_chain : ∀ (cs : List (List String)) (k : Nat) (E : List (List Json)),
    (chainFrom k cs).foldl (fun envs d => envs.flatMap (bindVar d.1 d.2)) E = E.flatMap (envs k cs)
  | [], k, E => by
    simp only [chainFrom, List.foldl_nil, envs]
    induction E with
    | nil => rfl
    | cons e es ih => simp [List.flatMap_cons]
  | c :: cs, k, E => by
    simp only [chainFrom, List.foldl_cons]
    rw [foldl_chain cs (k + 1), List.flatMap_assoc]
    congr 1
    funext e
    simp only [bindVar, envs, List.flatMap_map]

/-- **C13a**: for a chain of nested arrays the compiled loops enumerate exactly the documented
flattening: one environment (hence one record) per innermost array element, in document order, each
carrying its enclosing elements -/
theorem bindings_chain (cs : List (List String)) (doc : Json) :
    bindings (chainFrom 0 cs) doc = envs 0 cs [doc] := by
  unfold bindings
  rw [foldl_chain]
  simp

/-- every environment of the flattening extends the outer one by exactly one value per level -/
theorem envs_length : ∀ (cs : List (List String)) (k : Nat) (env e' : List Json), e' ∈ envs k cs env →
    ∃ suf, e' = env ++ suf ∧ suf.length = cs.length
  | [], _, env, e', h => by
    simp only [envs, List.mem_singleton] at h
    exact ⟨[], by simp [h], rfl⟩
  | c :: cs, k, env, e', h => by
    simp only [envs, List.mem_flatMap] at h
    obtain ⟨x, _, hx⟩ := h
    obtain ⟨suf, e1, e2⟩ := envs_length cs (k + 1) (env ++ [x]) e' hx
    exact ⟨x :: suf, by rw [e1, List.append_assoc]; rfl, by simp [e2]⟩

/-! ### outer values are repeated -/

def Leaf.slot : Leaf → Nat
  | .plain s _ => s
  | .lookup s _ _ _ _ => s

theorem getD_append_lt (env suf : List Json) (s : Nat) (h : s < env.length) :
    (env ++ suf).getD s .null = env.getD s .null := by
  simp [List.getD, List.getElem?_append_left h]

/-- **C13b**: a leaf that reads an outer level evaluates, in every record of the inner levels, to the
value it has for the outer element (header values are repeated, never mixed up) -/
theorem evalLeaf_outer (env suf : List Json) (l : Leaf) (h : l.slot < env.length) :
    evalLeaf (env ++ suf) l = evalLeaf env l := by
  cases l with
  | plain s p => simp only [evalLeaf]; rw [getD_append_lt env suf s h]
  | lookup s a k vp kv => simp only [evalLeaf]; rw [getD_append_lt env suf s h]

theorem alt_outer (env suf : List Json) : ∀ (ls : List Leaf), (∀ l ∈ ls, l.slot < env.length) →
    alt (env ++ suf) ls = alt env ls
  | [], _ => rfl
  | [l], h => by simp only [alt]; exact evalLeaf_outer env suf l (h l (List.mem_singleton.mpr rfl))
  | l :: m :: rest, h => by
    simp only [alt]
    rw [evalLeaf_outer env suf l (h l List.mem_cons_self),
      alt_outer env suf (m :: rest) (fun x hx => h x (List.mem_cons_of_mem _ hx))]

theorem evalField_outer (env suf : List Json) (s : Spec)
    (h : ∀ p ∈ s.parts, ∀ l ∈ p, l.slot < env.length) :
    evalField (env ++ suf) s = evalField env s := by
  have hp : s.parts.map (alt (env ++ suf)) = s.parts.map (alt env) := by
    apply List.map_congr_left
    intro p hp
    exact alt_outer env suf p (h p hp)
  have hs : s.parts.map (partStr (env ++ suf)) = s.parts.map (partStr env) := by
    apply List.map_congr_left
    intro p hp'
    unfold partStr
    rw [alt_outer env suf p (h p hp')]
  unfold evalField evalString evalArray
  rw [hp, hs]

/-! ### absent values are null -/

/-- a key that the object does not hold reads as null; so does anything below null -/
theorem plain_absent_null (env : List Json) (s : Nat) (kv : List (String × Json)) (k : String)
    (hs : env.getD s .null = .obj kv) (hk : ∀ p ∈ kv, p.1 ≠ k) (rest : List String) :
    evalLeaf env (.plain s (k :: rest)) = .null := by
  simp only [evalLeaf, hs, path, field]
  have : kv.find? (·.1 == k) = none := by
    apply List.find?_eq_none.mpr
    intro p hp
    simpa using hk p hp
  simp only [this, Option.bind_some]
  have below : ∀ (r : List String), path r .null = some .null := by
    intro r
    induction r with
    | nil => rfl
    | cons a r ih => simp [path, field, ih]
  simp [below]

/-- the `_` join is null-strict: one absent part makes the whole value null (never a partial name) -/
theorem evalString_null_part (env : List Json) (parts : List (List Leaf)) (p : List Leaf) (hp : p ∈ parts)
    (hn : alt env p = .null) : evalString env parts = .null := by
  unfold evalString
  have : (parts.map (partStr env)).any Option.isNone = true := by
    rw [List.any_eq_true]
    refine ⟨none, List.mem_map.mpr ⟨p, hp, by unfold partStr; rw [hn]⟩, rfl⟩
  rw [this]
  rfl

/-! ### skipping invalid records; whole-file and per-line modes -/

/-- **C13c**: the data source is a `flatMap` over the documents — per-line mode treats every line as a
document of its own, and what one document yields never depends on another -/
theorem source_append (p : Program) (a b : List Json) : source p (a ++ b) = source p a ++ source p b := by
  simp [source, List.flatMap_append]

/-- **C13d**: a record that does not validate is skipped without affecting the records around it -/
theorem skip_independent (rs₁ rs₂ : List Record) (bad : Record) (h : validate bad = none) :
    (rs₁ ++ [bad] ++ rs₂).filterMap validate = rs₁.filterMap validate ++ rs₂.filterMap validate := by
  simp [List.filterMap_append, h]

/-- a document all of whose records are invalid contributes nothing and disturbs nothing -/
theorem source_invalid_doc (p : Program) (a b : List Json) (d : Json)
    (h : ∀ r ∈ extract p d, validate r = none) : source p (a ++ [d] ++ b) = source p (a ++ b) := by
  have : (extract p d).filterMap validate = [] := by
    apply List.filterMap_eq_nil_iff.mpr
    exact h
  simp [source, List.flatMap_append, this]

/-! ### non-vacuity -/

private def attr (k v : String) : Json := .obj [("key", .str k), ("value", .str v)]
private def doc : Json := .obj [("rs", .arr [
  .obj [("name", .str "G"), ("spans", .arr [
    .obj [("id", .str "s1"), ("attributes", .arr [attr "m" "GET", attr "r" "200"])],
    .obj [("id", .str "s2")]])]])]

/-- header value repeated, key/value lookup, `_` join, absent value null, on a two-span document
(the program is what `compile` yields for `rs.[].spans.[].id`, `rs.[].name` and
`rs.[].name` + lookup of `m` in `rs.[].spans.[].attributes.[].key`) -/
example :
    let p : Program := { order := [(0, ["rs"]), (1, ["spans"])], fields := [
      ("event_id", ⟨[[.plain 2 ["id"]]], false⟩),
      ("job_name", ⟨[[.plain 1 ["name"]]], false⟩),
      ("event_type", ⟨[[.plain 1 ["name"]], [.lookup 2 ["attributes"] ["key"] ["value"] "m"]], false⟩)] }
    ((extract p doc).map fun r => r.map fun (k, v) => (k, tostring v)) =
      [[("event_id", "s1"), ("job_name", "G"), ("event_type", "G_GET")],
       [("event_id", "s2"), ("job_name", "G"), ("event_type", "null")]] := by
  decide

/-! ### the emitted jq query means the extraction model -/

/-- **C13 compile_correct**: evaluated with the semantics of jq (`O2P.Jq.eval`: generators, error
propagation, `try`/`catch`, `//`, `select`, dynamic object keys, `add`, `flatten`, `join`, `any`/`all`), the
query `jq_field_mapping_to_jq_query` emits for a well-formed program yields, without error and in order,
exactly the records of the extraction model — for every document. -/
theorem compile_correct (p : Program) (doc : Json) (h : wfProgram p = true) :
    runQuery (emitProgram p) doc = .ok ((extract p doc).map Json.obj) := by
  simp only [wfProgram, Bool.and_eq_true] at h
  obtain ⟨ho, hf⟩ := h
  have hwf := wfFields_of_B _ _ hf
  unfold runQuery emitProgram
  rw [eval_bind, eval_id, bindRes_single]
  have hbody : ∀ env' : List Json, env'.length = p.order.length + 1 →
      eval (emitFields (p.order.length + 1) p.fields []) env' doc =
        .ok [(fun e => Json.obj (p.fields.map fun f => (f.1, evalField e f.2))) env'] := by
    intro env' hl
    have := eval_emitFields doc env' p.fields [] [] [] (by rw [hl]; exact hwf) rfl
    simp only [List.append_nil, hl, List.nil_append] at this
    exact this
  rw [eval_emitLoops doc _ _ (p.order.length + 1) hbody p.order ([] ++ [doc]) (by simp; omega) (by simpa using ho)]
  congr 1
  simp only [extract, bindings, List.map_map, List.nil_append]
  rfl

/-- **C13 compile_correct for every mapping**: the compiler allocates variables parent-first and its
depth-first binding order reaches each of them (`compile_wf`), so for every normalised mapping whose fields
and parts are non-empty (the Python code raises on the others) and every document, the emitted query
evaluates, under the jq semantics, to exactly the records of the documented extraction. -/
theorem compile_correct_all (m : List (String × FieldSpecN)) (doc : Json) (h : wfMapping m) :
    runQuery (emitProgram (compile m)) doc = .ok ((extract (compile m) doc).map Json.obj) :=
  compile_correct (compile m) doc (compile_wf m h)

/-- non-vacuity: a two-level mapping (resource → spans) with a header lookup, a `_` join with a fall-back
and an array-valued field is well-formed, and its query yields the two records of a small document -/
example :
    let p : Program := {
      order := [(0, ["resource_spans"]), (1, ["spans"])],
      fields := [
        ("job_name", { parts := [[.lookup 1 ["resource", "attributes"] ["key"] ["value"] "service.name"],
                                 [.plain 2 ["kind"], .plain 2 ["name"]]], isArray := false }),
        ("child_event_ids", { parts := [[.plain 2 ["children"]]], isArray := true })] }
    let doc : Json := .obj [("resource_spans", .arr [.obj [
      ("resource", .obj [("attributes", .arr [.obj [("key", .str "service.name"), ("value", .str "shop")]])]),
      ("spans", .arr [.obj [("name", .str "pay"), ("children", .arr [.str "c1", .str "c2"])],
                      .obj [("kind", .str "rpc"), ("name", .str "ship")]])]])]
    wfProgram p = true ∧ (runQuery (emitProgram p) doc).err = false ∧
    beqL (runQuery (emitProgram p) doc).outs [
      .obj [("job_name", .str "shop_pay"), ("child_event_ids", .arr [.str "c1", .str "c2"])],
      .obj [("job_name", .str "shop_rpc"), ("child_event_ids", .null)]] = true := by
  decide +kernel

end O2P.Jq
