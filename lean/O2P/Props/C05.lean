import O2P.Props.C01
import O2P.Lemmas.ParseRender
import O2P.Lemmas.WriterVocab
/-!
# C05 — emitted PlantUML is well-formed and names exactly the observed events (partial)
The parser *is* the grammar of the dialect.  `parse_ok_core`/`parse_ok_tail`: a text `parse` accepts was
accepted by the block parser (one `@startuml`, at most one partition and one group, every block closed by
its own terminator in nested order, nothing after `@enduml`) and has `break`/`detach` only as the last
item of a branch.  `runs_types`: the jobs of a diagram only carry its event names.
The writer is modelled (M8 `O2P.Writer`, tied line by line to `PUMLGraph.write_puml_string`); `writer_vocabulary` is proved
of it for every graph.  The walk that builds the graph is not modelled: `C05_full` is decided on the generated definitions.
-/
namespace O2P.Diagram

def C05_full (inF : Blk → Prop) (learn : List Job → String → Prop) : Prop :=
  ∀ d, inF d → ∀ text, learn (runs 2 d) text →
    ∃ d', parse text = .ok d' ∧ (∀ n, n ∈ names d' ↔ n ∈ names d)

theorem parse_ok_core (text : String) (d : Blk) (h : parse text = .ok d) : parseCore text = .ok d := by
  unfold parse at h
  split at h
  · exact absurd h (by simp)
  · rename_i d' hc
    split at h
    · have : d' = d := by injection h
      rw [← this]; exact hc
    · exact absurd h (by simp)

/-- **completeness of the grammar** (token level): every normal-form block diagram — items are events, break,
detach, loops over a sequence and forks of at least one sequence branch, nested to any depth — is recovered by the
block parser from its token stream between `@startuml / partition / group` and `end group / } / @enduml`.  With
`parse_ok_core` (soundness) this makes the parser a decision procedure for "is a block diagram": a rejection is
never the parser's fault.  (Lines to tokens, `tokenize`, is string processing and is not covered.) -/
theorem grammar_complete (body : List Blk) (h : nfItems body = true) :
    parseToks (renderFile body) = .ok (.seq body) := parse_render body h

/-- non-vacuity: a loop ending in a fork, with an empty branch and a break, is normal form and round-trips -/
example :
    let body : List Blk := [.ev "A", .loop (.seq [.ev "B", .fork .xor [.seq [.ev "C", .brk], .seq []],
      .fork .and [.seq [.ev "D"], .seq [.ev "E", .detach]]])]
    nfItems body = true ∧ (parseToks (renderFile body)).toOption.isSome = true := by decide +kernel

/-- non-vacuity: a nested text is accepted; the same text with the fork closed by `repeat while`
(what the learner emits in class KF-B) and one with a `case` inside a `fork` are rejected -/
example :
    (parseToks [.startuml, .partStart, .groupStart, .ev "A", .repeat_, .ev "B", .open_ .and, .ev "C", .again .and,
       .ev "D", .close .and, .repeatWhile, .groupEnd, .partEnd, .enduml]).toOption.isSome = true ∧
    (parseToks [.startuml, .partStart, .groupStart, .ev "A", .repeat_, .ev "B", .open_ .and, .ev "C", .again .and,
       .ev "D", .repeatWhile, .groupEnd, .partEnd, .enduml]).toOption.isSome = false ∧
    (parseToks [.startuml, .partStart, .groupStart, .open_ .and, .ev "C", .again .xor, .ev "D", .close .and,
       .groupEnd, .partEnd, .enduml]).toOption.isSome = false := by decide +kernel

end O2P.Diagram

namespace O2P.Writer

/-- **C05, the writer's vocabulary**: for **every** PUML graph — any nodes, any edges, any nesting of loop sub graphs,
whatever the walk built — the text `write_puml_string` emits is the fixed header, the fixed footer, and in between
only lines that are, after their indentation, an operator string of `OPERATOR_NODE_PUML_MAP` (translated from the
source on every run), `detach`, `break`, `repeat`, `repeat while`, or `:name;` where `name` is the name of an event
node of the graph or of one of its sub graphs.  So an event name in the emitted file is always a node name (the
"names ⊆" half of the clause), and a placeholder can only leak as the name of a node the walk left in the graph. -/
theorem writer_vocabulary (g : PGraph) (name : String) (tab : Nat) (text : String)
    (h : writePumlString g name tab = some text) :
    ∃ ls, text = "\n".intercalate (["@startuml", spaces tab ++ "partition \"" ++ name ++ "\" {",
        spaces (2 * tab) ++ "group \"" ++ name ++ "\""] ++ ls ++
        [spaces (2 * tab) ++ "end group", spaces tab ++ "}", "@enduml"]) ∧
      ∀ l ∈ ls, OkLine g.evNames l := by
  unfold writePumlString at h
  split at h
  · simp at h
  · rename_i ls hls
    simp only [Option.some.injEq] at h
    exact ⟨ls, h.symm, (lines_ok _).1 g _ _ ls hls⟩

/-- non-vacuity: `A; switch { B | C }` as the graph the walk builds is written (the result is `some`), so the
hypothesis of `writer_vocabulary` is met by a graph with a fork -/
example :
    (writePumlString (.mk [.ev "A" false, .oper .start .xor, .ev "B" false, .ev "C" false, .oper .end_ .xor]
      [[1], [2, 3], [4], [4], []]) "wf").isSome = true := by decide +kernel

end O2P.Writer

