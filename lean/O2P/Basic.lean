def hello := "world"
