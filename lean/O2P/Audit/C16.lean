import O2P.Props.C16
open O2P.Time
#print axioms fmt_tie
#print axioms shape_tie
#print axioms parse_format
#print axioms toCivil_valid
#print axioms ofCivil_toCivil
#print axioms parse_formatMicros
#print axioms toNanos_exact
#print axioms formatMicros_injective
#print axioms toNanosOld_cex
#print axioms fromNanos_exact
#print axioms fromNanos_within
#print axioms fromNanos_order
#print axioms fromNanos_order_far
#print axioms pv_otel_pv
#print axioms otel_pv_otel
