import O2P.Props.C14
open O2P.PVFile
#print axioms save_load
#print axioms load_string_prev
#print axioms save_load_dup_cex
#print axioms routes_same_model
#print axioms O2P.Learn.ingest_perm
