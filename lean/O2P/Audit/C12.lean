import O2P.Props.C12
open O2P.Store
#print axioms sortNodes_perm
#print axioms groupBy_flatten
#print axioms groupBy_keys_chain
#print axioms groupBy_eq_filter
#print axioms stream_flatten_perm
#print axioms stream_names_nodup
#print axioms stream_group_spec
#print axioms stream_filter_empty
