import O2P.Props.C02
open O2P.Diagram
#print axioms runs_types
#print axioms runs_wellformed
#print axioms accepts_iff
#print axioms subset_sound
#print axioms accepts_iff_iso
