import O2P.Props.C05
open O2P.Diagram
#print axioms parse_ok_tail
#print axioms parse_ok_core
#print axioms runs_types
#print axioms grammar_complete
#print axioms O2P.Writer.writer_vocabulary
