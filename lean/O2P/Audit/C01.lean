import O2P.Props.C01
open O2P.Diagram
#print axioms runs_types
#print axioms runs_wellformed
#print axioms accepts_iff
#print axioms parse_ok_tail
#print axioms isoB_sound
#print axioms isoB_complete
#print axioms accepts_iff_iso
