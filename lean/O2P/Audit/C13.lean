import O2P.Props.C13
open O2P.Jq
#print axioms extract_length
#print axioms bindings_chain
#print axioms envs_length
#print axioms evalLeaf_outer
#print axioms evalField_outer
#print axioms plain_absent_null
#print axioms evalString_null_part
#print axioms source_append
#print axioms skip_independent
#print axioms source_invalid_doc
#print axioms compile_correct
#print axioms compile_wf
#print axioms compile_correct_all
