import O2P.Props.C11
open O2P.Store
#print axioms removeInconsistent_spec
#print axioms removeOutside_spec
#print axioms removal_whole_traces
#print axioms renameByRoot_frame
#print axioms renameByRoot_spec
#print axioms clean_inv
#print axioms ingestSpec_faithful
#print axioms clean_noninterference
#print axioms ingest_without
