import O2P.Props.C08
open O2P.Seq
#print axioms sweep_flatten
#print axioms sweep_eq_spec
#print axioms sweep_separated
#print axioms sweepSpec_merge
#print axioms sweepOld_cex
#print axioms arrange_perm
#print axioms linkT_keys
#print axioms linkT_wellfounded
#print axioms rename_ids
#print axioms rename_order_free
#print axioms sequence_covers
