import O2P.Props.C07
open O2P.Graph
#print axioms isTopo_acyclic
#print axioms cycle_in_one_part
#print axioms no_cycle_outside_loops
#print axioms exactlyOnce_iff
#print axioms singleEntry_spec
