import O2P.Props.C10
open O2P.Store
#print axioms constraints_tie
#print axioms commitUnique_spec
#print axioms ingestSpec_inv
#print axioms ingestSpec_append
#print axioms ingest_spec
#print axioms ingest_batch_independent
#print axioms reingest_noop
#print axioms inv_empty
#print axioms ingest_orphan_cex
