import O2P.Props.C04
open O2P.Learn
#print axioms ingest_append
#print axioms fromCounts_toCounts
#print axioms json_roundtrip
#print axioms typesNodup_ingest
#print axioms update_through_file
#print axioms chunks_through_files
#print axioms cache_coherent
#print axioms cache_incoherent_old
