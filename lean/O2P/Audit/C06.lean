import O2P.Props.C06
open O2P.Gate
#print axioms domain_counts
#print axioms domain_wellformed
#print axioms subclass_counts
#print axioms soundB_iff
#print axioms exactB_iff
#print axioms family_plain
#print axioms cover_spec
#print axioms cover_sound
#print axioms cover_sound_universe
#print axioms or_inference_sound
#print axioms or_inference_tree_sound
#print axioms or_inference_tree_sound_below
#print axioms or_test_spec
#print axioms or_inference_leaves_sound
#print axioms post_flat_or_sound
#print axioms post_flat_or_sound_proj
#print axioms or_inference_all_sound
#print axioms missing_and_all_sound
#print axioms post_process_sound
#print axioms filter_defunct_sound
#print axioms post_process_admits
#print axioms post_process_checked
#print axioms children_order_irrelevant
#print axioms judge_is_sem
