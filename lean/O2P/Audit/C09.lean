import O2P.Props.C09
open O2P.Store
#print axioms sortShapes_eq_of_perm
#print axioms canon_iso
#print axioms shapeOf_eq_canon
#print axioms same_digest_iff_iso
#print axioms shapeOf_perm
#print axioms classes_cover
#print axioms classes_members
#print axioms classes_distinct
#print axioms computeHashes_rows
#print axioms computeHashes_ok
