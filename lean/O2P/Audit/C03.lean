import O2P.Props.C03
open O2P.Learn
#print axioms ingest_sem
#print axioms ingest_perm
#print axioms ingest_same_members
#print axioms ingest_idem
#print axioms ingest_events_perm
#print axioms ingest_rename
#print axioms ingest_congr
