import O2P.Props.C15
open O2P.Store
#print axioms ingest_window
#print axioms reingest_nodes
#print axioms runOnce_inv
#print axioms history_inv
#print axioms runOnce_eq_spec
#print axioms runSpec_hashes_irrelevant
#print axioms inv_empty
#print axioms faithful_empty
