import O2P.Props.C15Full
open O2P.Store
#print axioms ingest_window
#print axioms reingest_nodes
#print axioms runOnce_inv
#print axioms history_inv
#print axioms runOnce_eq_spec
#print axioms runSpec_hashes_irrelevant
#print axioms inv_empty
#print axioms faithful_empty
#print axioms renameNodes_idem
#print axioms reingest_fixpoint
#print axioms noingest_fixpoint
#print axioms rerun_same_answer
#print axioms history_same_answer
#print axioms first_run_sameNA
